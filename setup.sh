#!/bin/bash
# builds every Lean library module and every family driver from files on disk (offline)
set -e
cd "$(dirname "$0")/lean"
lake build Drx DrxProofs DrxProps $(grep -o 'name = "drx_[a-z]*"' lakefile.toml | cut -d'"' -f2) 2>&1 | grep -v 'WARNING conda' | tail -5
