#!/bin/bash
# Builds every Lean library module and every family driver from files on disk (offline, no network).
# A module that fails to build here does not fail the setup: each check rebuilds exactly the modules it needs
# (stage B) and reports a broken obligation itself.
cd "$(dirname "$0")/lean" || exit 1
command -v lake >/dev/null || { echo "lake not found on PATH"; exit 1; }
TARGETS="Drx DrxProofs DrxProps $(grep -o 'name = "drx_[a-z]*"' lakefile.toml | cut -d'"' -f2)"
if lake build $TARGETS > .setup.log 2>&1; then
  tail -1 .setup.log
else
  echo "setup: some targets failed to build (see lean/.setup.log); building targets one by one"
  for t in $TARGETS; do lake build $t >> .setup.log 2>&1 || echo "  failed: $t"; done
fi
exit 0
