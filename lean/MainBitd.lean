import Drx.Drv.Bitd
import Drx.Drv.Loop
def main : IO Unit := Drx.Drv.mainLoop Drx.Drv.Bitd.run
