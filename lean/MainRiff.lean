import Drx.Drv.Riff
import Drx.Drv.Loop
def main : IO Unit := Drx.Drv.mainLoop Drx.Drv.Riff.run
