import Drx.Drv.Cast
import Drx.Drv.Loop
def main : IO Unit := Drx.Drv.mainLoop Drx.Drv.Cast.run
