import Drx.Drv.Lscr
import Drx.Drv.Loop
def main : IO Unit := Drx.Drv.mainLoop Drx.Drv.Lscr.run
