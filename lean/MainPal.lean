import Drx.Drv.Pal
import Drx.Drv.Loop
def main : IO Unit := Drx.Drv.mainLoop Drx.Drv.Pal.run
