import Drx.Py
import Drx.Json
