/-
  Counting twins of the loops of the sound model (support for property C10; the model is Drx/Snd.lean).

  snd_to_sampled has four Python-level loops:
    (1) `for _ in range(0, ndata_types)`   format.parse_snd_fmt1       one `>h` + one `>i` read per round
    (2) `for _ in range(0, nsound_cmds)`   format.parse_snd_commands   three reads (8 bytes) per round
    (3) `for cmd in sndData.commands`      snd2sampled.snd_to_sampled  one dispatch per parsed command
    (4) `for i in range(0, length*2, 2)`   bufferCmd._get_frames       two byte copies per round (16-bit path only)
  The counts of (1) and (2) are DECLARED by the input; (4) runs `length` rounds where `length` is declared by the sound
  header (after the F09 repair only when the data can back it). The twins count the rounds that START (the raising round
  included), following the control flow of the model exactly: a failure before a loop means the loop does not run.
-/
import Drx.Snd
namespace Drx.Snd
open Drx

/-- rounds of loop (2) that start -/
def parseCmdsSteps (d : Bytes) : Nat → Nat → Nat
  | 0, _ => 0
  | n + 1, idx =>
    match getS .be 2 d idx, getS .be 2 d (idx + 2), getS .be 4 d (idx + 4) with
    | .ok _, .ok _, .ok _ => 1 + parseCmdsSteps d n (idx + 8)
    | _, _, _ => 1

/-- rounds of loop (1) that start -/
def parseDataTypesSteps (d : Bytes) : Nat → Nat → Nat
  | 0, _ => 0
  | n + 1, idx =>
    match getS .be 2 d idx, getS .be 4 d (idx + 2) with
    | .ok _, .ok _ => 1 + parseDataTypesSteps d n (idx + 6)
    | _, _ => 1

/-- rounds of loop (4) that start -/
def swapLoopSteps (d : Bytes) (idx : Int) : Nat → Nat → Nat
  | 0, _ => 0
  | n + 1, i =>
    match pyIndex d (idx + i + 1), pyIndex d (idx + i) with
    | .ok _, .ok _ => 1 + swapLoopSteps d idx n (i + 2)
    | _, _ => 1

def sampleAreaSteps (s : St) (d : Bytes) (idx length : Int) : Nat :=
  if s.bits = 8 then 0
  else if s.bits = 16 then
    if idx + length * 2 > d.length then 0 else if length < 0 then 0 else swapLoopSteps d idx length.toNat 0
  else 0

def getFramesSteps (s : St) (idx : Int) (d : Bytes) : Nat :=
  match soundHeader s idx d with
  | .ok (s, i, length) => sampleAreaSteps s d i length
  | .error _ => 0

/-- (rounds of loop (3) that start, rounds of loop (4) summed over the commands) -/
def runCmdsSteps (d : Bytes) : St → List Cmd → Nat × Nat
  | _, [] => (0, 0)
  | s, c :: cs =>
    match dispatch c.command with
    | none => (1, 0)
    | some .null => let r := runCmdsSteps d s cs; (1 + r.1, r.2)
    | some .frames =>
      let sw := getFramesSteps s c.param2 d
      match getFrames s c.param2 d with
      | .ok (s', _) => let r := runCmdsSteps d s' cs; (1 + r.1, sw + r.2)
      | .error _ => (1, sw)

structure Steps where
  dataTypes : Nat     -- loop (1)
  commands : Nat      -- loop (2)
  run : Nat           -- loop (3)
  swap : Nat          -- loop (4), all commands together
  ncmds : Nat         -- number of commands the table parsed to (0 when parsing failed)
  deriving Repr, DecidableEq, Inhabited

def Steps.total (s : Steps) : Nat := s.dataTypes + s.commands + s.run + s.swap

/-- `parse_snd_commands` + the command loop of `snd_to_sampled`, given the rounds of loop (1) -/
def commandsSteps (d : Bytes) (idx dt : Nat) : Steps :=
  match getS .be 2 d idx with
  | .error _ => ⟨dt, 0, 0, 0, 0⟩
  | .ok n =>
    let cs := parseCmdsSteps d n.toNat (idx + 2)
    match parseCmds d n.toNat (idx + 2) with
    | .error _ => ⟨dt, cs, 0, 0, 0⟩
    | .ok cmds => let r := runCmdsSteps d St.init cmds; ⟨dt, cs, r.1, r.2, cmds.length⟩

/-- counting twin of `snd_to_sampled` -/
def sndSteps (d : Bytes) : Steps :=
  match getS .be 2 d 0 with
  | .error _ => ⟨0, 0, 0, 0, 0⟩
  | .ok ft =>
    if ft = 1 then
      match getS .be 2 d 2 with
      | .error _ => ⟨0, 0, 0, 0, 0⟩
      | .ok n =>
        let dt := parseDataTypesSteps d n.toNat 4
        match parseDataTypes d n.toNat 4 with
        | .error _ => ⟨dt, 0, 0, 0, 0⟩
        | .ok (_, idx) => commandsSteps d idx dt
    else if ft = 2 then
      match getS .be 2 d 2 with
      | .error _ => ⟨0, 0, 0, 0, 0⟩
      | .ok _ => commandsSteps d 4 0
    else ⟨0, 0, 0, 0, 0⟩

end Drx.Snd
