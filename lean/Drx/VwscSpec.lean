/-
  Specification layer of C08: a score as a sequence of channel buffers, an *encoding* of it as a list of records
  (`same` | byte-range deltas), the obvious meaning of an encoding (patch the previous buffer), and the byte layout
  of a VWSC chunk (with or without the outer wrapper of DIR files).  Core Lean only: the driver links it to re-encode
  the harness's spec objects with the very encoder the theorems are about.
-/
import Drx.Vwsc
namespace Drx.Vwsc.Spec
open Drx Drx.Vwsc

/-- one frame record: "same as previous", or a list of (offset, bytes) ranges to overwrite, applied in order -/
inductive Rec where
  | same
  | deltas (ds : List (Nat × Bytes))
  deriving Repr, DecidableEq, Inhabited

/-- overwrite `bs.length` bytes of `buf` at `off` -/
def applyDelta (buf : Bytes) (off : Nat) (bs : Bytes) : Bytes :=
  buf.take off ++ bs ++ buf.drop (off + bs.length)

def applyDeltas (buf : Bytes) : List (Nat × Bytes) → Bytes
  | [] => buf
  | (off, bs) :: ds => applyDeltas (applyDelta buf off bs) ds

def applyRec (buf : Bytes) : Rec → Bytes
  | .same => buf
  | .deltas ds => applyDeltas buf ds

/-- channel state after all records so far (frame k's buffer = `applyAll zero (recs.take (k+1))`) -/
def applyAll (buf : Bytes) (recs : List Rec) : Bytes := recs.foldl applyRec buf

/-- the buffer sequence an encoding denotes, starting from `buf` -/
def states (buf : Bytes) : List Rec → List Bytes
  | [] => []
  | r :: rs => applyRec buf r :: states (applyRec buf r) rs

/-! ### byte layout -/

def encDelta (x : Nat × Bytes) : Bytes := encS .be 2 x.2.length ++ encS .be 2 x.1 ++ x.2

def deltasSize : List (Nat × Bytes) → Nat
  | [] => 0
  | x :: ds => 4 + x.2.length + deltasSize ds

def encDeltas : List (Nat × Bytes) → Bytes
  | [] => []
  | x :: ds => encDelta x ++ encDeltas ds

/-- the record's size word counts itself -/
def recSize : Rec → Nat
  | .same => 2
  | .deltas ds => 2 + deltasSize ds

def encRec : Rec → Bytes
  | .same => encS .be 2 2
  | .deltas ds => encS .be 2 (2 + deltasSize ds : Nat) ++ encDeltas ds

def encRecs : List Rec → Bytes
  | [] => []
  | r :: rs => encRec r ++ encRecs rs

structure ScoreFile where
  lay : Layout
  channelCount : Nat
  frameCount : Int
  unknown01 : Int
  unknown02 : Int
  recs : List Rec
  deriving Repr

def ScoreFile.bufSize (f : ScoreFile) : Nat := f.channelCount * f.lay.frameSize

/-- the VWSC data block: size, marker 0x14, frame count, four 16-bit words, records -/
def serialise (f : ScoreFile) : Bytes :=
  let body := encRecs f.recs
  encS .be 4 (20 + body.length : Nat) ++ encS .be 4 0x14 ++ encS .be 4 f.frameCount ++ encS .be 2 f.unknown01 ++
    encS .be 2 f.lay.frameSize ++ encS .be 2 f.channelCount ++ encS .be 2 f.unknown02 ++ body

/-- the wrapper DIR files put around the data block -/
structure Wrapper where
  marker : Int          -- second word; anything but 0x14
  unknown01 : Int
  nmarkers : Int
  lastMarker : Int
  markers : List Int    -- `nmarkers1` 32-bit words, skipped by the parser
  trailing : Bytes      -- bytes after the data block ("Data left")
  deriving Repr

def encWords : List Int → Bytes
  | [] => []
  | w :: ws => encS .be 4 w ++ encWords ws

def wrap (w : Wrapper) (inner : Bytes) : Bytes :=
  let ms := encWords w.markers
  encS .be 4 (24 + ms.length + inner.length + w.trailing.length : Nat) ++ encS .be 4 w.marker ++ encS .be 4 w.unknown01 ++
    encS .be 4 w.nmarkers ++ encS .be 4 (w.markers.length : Nat) ++ encS .be 4 w.lastMarker ++ ms ++ inner ++ w.trailing

/-! ### which spec objects are encodings of a score (decidable) -/

def In16 (i : Int) : Prop := -32768 ≤ i ∧ i ≤ 32767
def In32 (i : Int) : Prop := -2147483648 ≤ i ∧ i ≤ 2147483647
instance : Decidable (In16 i) := by unfold In16; infer_instance
instance : Decidable (In32 i) := by unfold In32; infer_instance

/-- a range is non-empty and lies inside the buffer -/
def deltaOk (n : Nat) (x : Nat × Bytes) : Bool := 0 < x.2.length && x.1 + x.2.length ≤ n

def recOk (n : Nat) : Rec → Bool
  | .same => true
  | .deltas ds => ds.all (deltaOk n) && 2 + deltasSize ds ≤ 32767

/-- the records fit their 16-bit size/offset words -/
def recsOk (n : Nat) (recs : List Rec) : Bool := recs.all (recOk n)

def ScoreFile.Valid (f : ScoreFile) : Prop :=
  recsOk f.bufSize f.recs = true ∧ f.bufSize ≤ 32768 ∧ f.channelCount ≤ 32767 ∧
  20 + (encRecs f.recs).length ≤ 2147483647 ∧ In32 f.frameCount ∧ In16 f.unknown01 ∧ In16 f.unknown02

instance (f : ScoreFile) : Decidable f.Valid := by unfold ScoreFile.Valid; infer_instance

def Wrapper.Valid (w : Wrapper) (inner : Bytes) : Prop :=
  w.marker ≠ 0x14 ∧ In32 w.marker ∧ In32 w.unknown01 ∧ In32 w.nmarkers ∧ In32 w.lastMarker ∧
  24 + 4 * w.markers.length + inner.length + w.trailing.length ≤ 2147483647

instance (w : Wrapper) (inner : Bytes) : Decidable (w.Valid inner) := by unfold Wrapper.Valid; infer_instance

/-- the decoded frames the property demands for an encoding: the fields of each successive channel state -/
def expectedFrames (lay : Layout) (buf : Bytes) (recs : List Rec) : R (List Frame) :=
  (states buf recs).mapM (parseChannels lay)

end Drx.Vwsc.Spec

/-! ### channel records: raw field values, their byte layout (from the format notes), and what a reader must report -/
namespace Drx.Vwsc.Spec
open Drx Drx.Vwsc

def encU16 (n : Nat) : Bytes := encOrd .be 2 n
def b2i (b : UInt8) : Int := (b.toNat : Int)

/-- Director 4 main channel, 20 bytes -/
structure RawMainD4 where
  flags : Int
  transDuration : UInt8        -- bit 7: "changing area" flag, bits 0-6: duration
  transChunk : UInt8
  fps : UInt8
  transition : UInt8
  sound1 : Int
  sound2 : Int
  soundFlags : Int
  unknown1 : Int
  unknown2 : Int
  script : Int
  unknown3 : Int

def RawMainD4.Valid (m : RawMainD4) : Prop :=
  In16 m.flags ∧ In16 m.sound1 ∧ In16 m.sound2 ∧ In16 m.soundFlags ∧ In16 m.unknown1 ∧ In16 m.unknown2 ∧ In16 m.script ∧ In16 m.unknown3

instance (x : RawMainD4) : Decidable x.Valid := by unfold RawMainD4.Valid; infer_instance

def encMainD4 (m : RawMainD4) : Bytes :=
  encS .be 2 m.flags ++ [m.transDuration, m.transChunk, m.fps, m.transition] ++ encS .be 2 m.sound1 ++ encS .be 2 m.sound2 ++
    encS .be 2 m.soundFlags ++ encS .be 2 m.unknown1 ++ encS .be 2 m.unknown2 ++ encS .be 2 m.script ++ encS .be 2 m.unknown3

def viewMainD4 (m : RawMainD4) : Option Main :=
  if b2i m.fps ≠ 0 ∨ m.sound1 ≠ 0 ∨ m.sound2 ≠ 0 ∨ m.script ≠ 0 then
    some ⟨b2i m.fps, m.sound1, m.sound2, m.script, .d4 (transitionName (b2i m.transition)) (b2i m.transChunk) (b2i m.transDuration % 128)⟩
  else none

/-- Director 4 palette channel: 18 bytes read, 2 bytes never looked at -/
structure RawPalD4 where
  paletteId : Int
  unknown2 : Int
  opcode : UInt8
  fps : UInt8
  unknown4 : Int
  cycles : Int
  unknown6 : Int
  unknown7 : Int
  unknown8 : Int
  unknown9 : Int
  pad0 : UInt8
  pad1 : UInt8

def RawPalD4.Valid (p : RawPalD4) : Prop :=
  In16 p.paletteId ∧ In16 p.unknown2 ∧ In16 p.unknown4 ∧ In16 p.cycles ∧ In16 p.unknown6 ∧ In16 p.unknown7 ∧ In16 p.unknown8 ∧ In16 p.unknown9

instance (x : RawPalD4) : Decidable x.Valid := by unfold RawPalD4.Valid; infer_instance

def encPalD4 (p : RawPalD4) : Bytes :=
  encS .be 2 p.paletteId ++ encS .be 2 p.unknown2 ++ [p.opcode, p.fps] ++ encS .be 2 p.unknown4 ++ encS .be 2 p.cycles ++
    encS .be 2 p.unknown6 ++ encS .be 2 p.unknown7 ++ encS .be 2 p.unknown8 ++ encS .be 2 p.unknown9 ++ [p.pad0, p.pad1]

def viewPalD4 (p : RawPalD4) : Option Pal :=
  if p.paletteId ≠ 0 then some ⟨b2i p.fps, operationName (b2i p.opcode), p.paletteId, p.cycles⟩ else none

/-- Director 4 sprite channel, 20 bytes -/
structure RawSpriteD4 where
  spriteType : Int
  fg : UInt8
  bg : UInt8
  flags : UInt8
  ink : UInt8                 -- bits 0-5 ink, bit 6 trails, bit 7 another flag
  castId : Int
  y : Int
  x : Int
  height : Int
  width : Int
  flag1 : Nat
  flag2 : Nat                 -- bit 15 moveable, bit 14 editable

def RawSpriteD4.Valid (s : RawSpriteD4) : Prop :=
  In16 s.spriteType ∧ In16 s.castId ∧ In16 s.y ∧ In16 s.x ∧ In16 s.height ∧ In16 s.width ∧ s.flag1 < 65536 ∧ s.flag2 < 65536

instance (x : RawSpriteD4) : Decidable x.Valid := by unfold RawSpriteD4.Valid; infer_instance

def encSpriteD4 (s : RawSpriteD4) : Bytes :=
  encS .be 2 s.spriteType ++ [s.fg, s.bg, s.flags, s.ink] ++ encS .be 2 s.castId ++ encS .be 2 s.y ++ encS .be 2 s.x ++
    encS .be 2 s.height ++ encS .be 2 s.width ++ encU16 s.flag1 ++ encU16 s.flag2

def viewSpriteD4 (s : RawSpriteD4) : Option Sprite :=
  if s.castId > 0 then
    some ⟨s.spriteType, s.castId, b2i s.fg, b2i s.bg, b2i s.ink % 64, some (b2i s.flags), s.y, s.x, s.height, s.width, b2i s.ink / 64 % 2,
          (s.flag2 : Int) / 32768 % 2 ≠ 0, (s.flag2 : Int) / 16384 % 2 ≠ 0⟩
  else none

/-- Director 5 main channel, 24 bytes -/
structure RawMainD5 where
  unknown01 : Int
  script : Int
  unknown03 : Int
  sound1 : Int
  unknown05 : Int
  sound2 : Int
  unknown07 : Int
  transCast : Int
  unknown08 : Int
  unknown09 : Int
  fps : Int
  unknown10 : Int

def RawMainD5.Valid (m : RawMainD5) : Prop :=
  In16 m.unknown01 ∧ In16 m.script ∧ In16 m.unknown03 ∧ In16 m.sound1 ∧ In16 m.unknown05 ∧ In16 m.sound2 ∧ In16 m.unknown07 ∧
  In16 m.transCast ∧ In16 m.unknown08 ∧ In16 m.unknown09 ∧ In16 m.fps ∧ In16 m.unknown10

instance (x : RawMainD5) : Decidable x.Valid := by unfold RawMainD5.Valid; infer_instance

def encMainD5 (m : RawMainD5) : Bytes :=
  encS .be 2 m.unknown01 ++ encS .be 2 m.script ++ encS .be 2 m.unknown03 ++ encS .be 2 m.sound1 ++ encS .be 2 m.unknown05 ++
    encS .be 2 m.sound2 ++ encS .be 2 m.unknown07 ++ encS .be 2 m.transCast ++ encS .be 2 m.unknown08 ++ encS .be 2 m.unknown09 ++
    encS .be 2 m.fps ++ encS .be 2 m.unknown10

def viewMainD5 (m : RawMainD5) : Option Main :=
  if m.fps ≠ 0 ∨ m.sound1 ≠ 0 ∨ m.sound2 ≠ 0 ∨ m.script ≠ 0 then some ⟨m.fps, m.sound1, m.sound2, m.script, .d5 m.transCast⟩ else none

/-- Director 5 palette channel: 12 bytes read, 12 bytes never looked at -/
structure RawPalD5 where
  unknown01 : Int
  paletteId : Int
  fps : UInt8
  opcode : UInt8
  unknown02 : Int
  unknown03 : Int
  cycles : Int
  pad : Bytes

def RawPalD5.Valid (p : RawPalD5) : Prop :=
  In16 p.unknown01 ∧ In16 p.paletteId ∧ In16 p.unknown02 ∧ In16 p.unknown03 ∧ In16 p.cycles ∧ p.pad.length = 12

instance (x : RawPalD5) : Decidable x.Valid := by unfold RawPalD5.Valid; infer_instance

def encPalD5 (p : RawPalD5) : Bytes :=
  encS .be 2 p.unknown01 ++ encS .be 2 p.paletteId ++ [p.fps, p.opcode] ++ encS .be 2 p.unknown02 ++ encS .be 2 p.unknown03 ++
    encS .be 2 p.cycles ++ p.pad

def viewPalD5 (p : RawPalD5) : Option Pal :=
  if p.paletteId ≠ 0 then some ⟨b2i p.fps, operationName (b2i p.opcode), p.paletteId, p.cycles⟩ else none

/-- Director 5 sprite channel, 24 bytes -/
structure RawSpriteD5 where
  unknown01 : UInt8
  ink : UInt8
  spriteType : Int
  castId : Int
  unknown02 : Int
  unknown03 : Int
  fg : UInt8
  bg : UInt8
  y : Int
  x : Int
  height : Int
  width : Int
  flag2 : Nat
  flag1 : Nat

def RawSpriteD5.Valid (s : RawSpriteD5) : Prop :=
  In16 s.spriteType ∧ In16 s.castId ∧ In16 s.unknown02 ∧ In16 s.unknown03 ∧ In16 s.y ∧ In16 s.x ∧ In16 s.height ∧ In16 s.width ∧
  s.flag2 < 65536 ∧ s.flag1 < 65536

instance (x : RawSpriteD5) : Decidable x.Valid := by unfold RawSpriteD5.Valid; infer_instance

def encSpriteD5 (s : RawSpriteD5) : Bytes :=
  [s.unknown01, s.ink] ++ encS .be 2 s.spriteType ++ encS .be 2 s.castId ++ encS .be 2 s.unknown02 ++ encS .be 2 s.unknown03 ++
    [s.fg, s.bg] ++ encS .be 2 s.y ++ encS .be 2 s.x ++ encS .be 2 s.height ++ encS .be 2 s.width ++ encU16 s.flag2 ++ encU16 s.flag1

def viewSpriteD5 (s : RawSpriteD5) : Option Sprite :=
  if s.castId > 0 then
    some ⟨s.spriteType, s.castId, b2i s.fg, b2i s.bg, b2i s.ink % 64, none, s.y, s.x, s.height, s.width, b2i s.ink / 64 % 2,
          (s.flag2 : Int) / 32768 % 2 ≠ 0, (s.flag2 : Int) / 16384 % 2 ≠ 0⟩
  else none

end Drx.Vwsc.Spec

/-! ### a whole channel buffer: main channel, palette channel, sprite channels -/
namespace Drx.Vwsc.Spec
open Drx Drx.Vwsc

structure RawFrameD4 where
  main : RawMainD4
  pal : RawPalD4
  sprites : List RawSpriteD4

def encSpritesD4 : List RawSpriteD4 → Bytes
  | [] => []
  | s :: ss => encSpriteD4 s ++ encSpritesD4 ss

def encFrameD4 (f : RawFrameD4) : Bytes := encMainD4 f.main ++ encPalD4 f.pal ++ encSpritesD4 f.sprites
def viewFrameD4 (f : RawFrameD4) : Frame := ⟨viewMainD4 f.main, viewPalD4 f.pal, f.sprites.map viewSpriteD4⟩
def RawFrameD4.Valid (f : RawFrameD4) : Prop := f.main.Valid ∧ f.pal.Valid ∧ ∀ s ∈ f.sprites, s.Valid
instance (f : RawFrameD4) : Decidable f.Valid := by unfold RawFrameD4.Valid; infer_instance

structure RawFrameD5 where
  main : RawMainD5
  pal : RawPalD5
  sprites : List RawSpriteD5

def encSpritesD5 : List RawSpriteD5 → Bytes
  | [] => []
  | s :: ss => encSpriteD5 s ++ encSpritesD5 ss

def encFrameD5 (f : RawFrameD5) : Bytes := encMainD5 f.main ++ encPalD5 f.pal ++ encSpritesD5 f.sprites
def viewFrameD5 (f : RawFrameD5) : Frame := ⟨viewMainD5 f.main, viewPalD5 f.pal, f.sprites.map viewSpriteD5⟩
def RawFrameD5.Valid (f : RawFrameD5) : Prop := f.main.Valid ∧ f.pal.Valid ∧ ∀ s ∈ f.sprites, s.Valid
instance (f : RawFrameD5) : Decidable f.Valid := by unfold RawFrameD5.Valid; infer_instance

end Drx.Vwsc.Spec

/-! ### how the data block sits in a VWSC chunk -/
namespace Drx.Vwsc.Spec
open Drx Drx.Vwsc

/-- DRX files hold the data block itself (anything may follow it); DIR files wrap it -/
inductive Container where
  | bare (trailing : Bytes)
  | wrapped (w : Wrapper)
  deriving Repr

def Container.apply : Container → Bytes → Bytes
  | .bare t, inner => inner ++ t
  | .wrapped w, inner => wrap w inner

def Container.Valid : Container → Bytes → Prop
  | .bare _, _ => True
  | .wrapped w, inner => w.Valid inner

instance (c : Container) (inner : Bytes) : Decidable (c.Valid inner) := by
  cases c <;> unfold Container.Valid <;> infer_instance

end Drx.Vwsc.Spec
