/-
  Specification layer of C08: a score as a sequence of channel buffers, an *encoding* of it as a list of records
  (`same` | byte-range deltas), the obvious meaning of an encoding (patch the previous buffer), and the byte layout
  of a VWSC chunk (with or without the outer wrapper of DIR files).  Core Lean only: the driver links it to re-encode
  the harness's spec objects with the very encoder the theorems are about.
-/
import Drx.Vwsc
namespace Drx.Vwsc.Spec
open Drx Drx.Vwsc

/-- one frame record: "same as previous", or a list of (offset, bytes) ranges to overwrite, applied in order -/
inductive Rec where
  | same
  | deltas (ds : List (Nat × Bytes))
  deriving Repr, DecidableEq, Inhabited

/-- overwrite `bs.length` bytes of `buf` at `off` -/
def applyDelta (buf : Bytes) (off : Nat) (bs : Bytes) : Bytes :=
  buf.take off ++ bs ++ buf.drop (off + bs.length)

def applyDeltas (buf : Bytes) : List (Nat × Bytes) → Bytes
  | [] => buf
  | (off, bs) :: ds => applyDeltas (applyDelta buf off bs) ds

def applyRec (buf : Bytes) : Rec → Bytes
  | .same => buf
  | .deltas ds => applyDeltas buf ds

/-- channel state after all records so far (frame k's buffer = `applyAll zero (recs.take (k+1))`) -/
def applyAll (buf : Bytes) (recs : List Rec) : Bytes := recs.foldl applyRec buf

/-- the buffer sequence an encoding denotes, starting from `buf` -/
def states (buf : Bytes) : List Rec → List Bytes
  | [] => []
  | r :: rs => applyRec buf r :: states (applyRec buf r) rs

/-! ### byte layout -/

def encDelta (x : Nat × Bytes) : Bytes := encS .be 2 x.2.length ++ encS .be 2 x.1 ++ x.2

def deltasSize : List (Nat × Bytes) → Nat
  | [] => 0
  | x :: ds => 4 + x.2.length + deltasSize ds

def encDeltas : List (Nat × Bytes) → Bytes
  | [] => []
  | x :: ds => encDelta x ++ encDeltas ds

/-- the record's size word counts itself -/
def recSize : Rec → Nat
  | .same => 2
  | .deltas ds => 2 + deltasSize ds

def encRec : Rec → Bytes
  | .same => encS .be 2 2
  | .deltas ds => encS .be 2 (2 + deltasSize ds : Nat) ++ encDeltas ds

def encRecs : List Rec → Bytes
  | [] => []
  | r :: rs => encRec r ++ encRecs rs

structure ScoreFile where
  lay : Layout
  channelCount : Nat
  frameCount : Int
  unknown01 : Int
  unknown02 : Int
  recs : List Rec
  deriving Repr

def ScoreFile.bufSize (f : ScoreFile) : Nat := f.channelCount * f.lay.frameSize

/-- the VWSC data block: size, marker 0x14, frame count, four 16-bit words, records -/
def serialise (f : ScoreFile) : Bytes :=
  let body := encRecs f.recs
  encS .be 4 (20 + body.length : Nat) ++ encS .be 4 0x14 ++ encS .be 4 f.frameCount ++ encS .be 2 f.unknown01 ++
    encS .be 2 f.lay.frameSize ++ encS .be 2 f.channelCount ++ encS .be 2 f.unknown02 ++ body

/-- the wrapper DIR files put around the data block -/
structure Wrapper where
  marker : Int          -- second word; anything but 0x14
  unknown01 : Int
  nmarkers : Int
  lastMarker : Int
  markers : List Int    -- `nmarkers1` 32-bit words, skipped by the parser
  trailing : Bytes      -- bytes after the data block ("Data left")
  deriving Repr

def encWords : List Int → Bytes
  | [] => []
  | w :: ws => encS .be 4 w ++ encWords ws

def wrap (w : Wrapper) (inner : Bytes) : Bytes :=
  let ms := encWords w.markers
  encS .be 4 (24 + ms.length + inner.length + w.trailing.length : Nat) ++ encS .be 4 w.marker ++ encS .be 4 w.unknown01 ++
    encS .be 4 w.nmarkers ++ encS .be 4 (w.markers.length : Nat) ++ encS .be 4 w.lastMarker ++ ms ++ inner ++ w.trailing

/-! ### which spec objects are encodings of a score (decidable) -/

def In16 (i : Int) : Prop := -32768 ≤ i ∧ i ≤ 32767
def In32 (i : Int) : Prop := -2147483648 ≤ i ∧ i ≤ 2147483647
instance : Decidable (In16 i) := by unfold In16; infer_instance
instance : Decidable (In32 i) := by unfold In32; infer_instance

/-- a range is non-empty and lies inside the buffer -/
def deltaOk (n : Nat) (x : Nat × Bytes) : Bool := 0 < x.2.length && x.1 + x.2.length ≤ n

def recOk (n : Nat) : Rec → Bool
  | .same => true
  | .deltas ds => ds.all (deltaOk n) && 2 + deltasSize ds ≤ 32767

/-- the records fit their 16-bit size/offset words -/
def recsOk (n : Nat) (recs : List Rec) : Bool := recs.all (recOk n)

def ScoreFile.Valid (f : ScoreFile) : Prop :=
  recsOk f.bufSize f.recs = true ∧ f.bufSize ≤ 32768 ∧ f.channelCount ≤ 32767 ∧
  20 + (encRecs f.recs).length ≤ 2147483647 ∧ In32 f.frameCount ∧ In16 f.unknown01 ∧ In16 f.unknown02

instance (f : ScoreFile) : Decidable f.Valid := by unfold ScoreFile.Valid; infer_instance

def Wrapper.Valid (w : Wrapper) (inner : Bytes) : Prop :=
  w.marker ≠ 0x14 ∧ In32 w.marker ∧ In32 w.unknown01 ∧ In32 w.nmarkers ∧ In32 w.lastMarker ∧
  24 + 4 * w.markers.length + inner.length + w.trailing.length ≤ 2147483647

instance (w : Wrapper) (inner : Bytes) : Decidable (w.Valid inner) := by unfold Wrapper.Valid; infer_instance

/-- the decoded frames the property demands for an encoding: the fields of each successive channel state -/
def expectedFrames (lay : Layout) (buf : Bytes) (recs : List Rec) : R (List Frame) :=
  (states buf recs).mapM (parseChannels lay)

end Drx.Vwsc.Spec
