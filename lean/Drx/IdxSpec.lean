/-
  Specification side of property C17: the tables as abstract objects, their byte layouts (encoders), and the
  "obviously right" reading of a table (what a decoder must return).  Core Lean only: the driver links this file
  and re-encodes harness spec objects with exactly these encoders.
-/
import Drx.Idx
namespace Drx.IdxSpec
open Drx Drx.Idx

/-! ### key table -/

/-- one 12-byte slot of the key table: resource index, owner (cast/library id), FourCC of the resource -/
structure KeyEntry where
  nfile : Int
  cas : Int
  fourcc : Bytes
  deriving Repr, DecidableEq, Inhabited


def KeyEntry.valid (e : KeyEntry) : Prop := s32 e.nfile ∧ s32 e.cas ∧ e.fourcc.length = 4
instance (e : KeyEntry) : Decidable e.valid := by unfold KeyEntry.valid; infer_instance

/-- the FourCC is stored in file byte order (reversed in PC movies) -/
def encFourCC (o : Order) (b : Bytes) : Bytes := match o with | .be => b | .le => b.reverse

def encKeyEntry (o : Order) (e : KeyEntry) : Bytes := encS o 4 e.nfile ++ (encS o 4 e.cas ++ encFourCC o e.fourcc)

def encKeyEntries (o : Order) : List KeyEntry → Bytes
  | [] => []
  | e :: es => encKeyEntry o e ++ encKeyEntries o es

/-- header (two words the decoder ignores: entry sizes and capacity), used count, the used entries, then the
    unused slots (arbitrary bytes) -/
def encKey (o : Order) (u1 cap : Int) (es : List KeyEntry) (tail : Bytes) : Bytes :=
  encS o 4 u1 ++ (encS o 4 cap ++ (encS o 4 (es.length : Int) ++ (encKeyEntries o es ++ tail)))

/-- a slot is a link when both ids are positive -/
def KeyEntry.isLink (e : KeyEntry) : Prop := e.cas > 0 ∧ e.nfile > 0
instance (e : KeyEntry) : Decidable e.isLink := by unfold KeyEntry.isLink; infer_instance

def KeyEntry.ref (e : KeyEntry) : KeyRef := ⟨e.fourcc.map Riff.sanitize, e.nfile⟩

/-- the links of a table, in order -/
def links (es : List KeyEntry) : List KeyEntry := es.filter (fun e => decide e.isLink)

/-- owners in order of first appearance -/
def firsts : List Int → List Int
  | [] => []
  | k :: ks => k :: (firsts ks).filter (· ≠ k)

/-- what the key table means: each owner (in order of first appearance) with all its links (in table order) -/
def group (es : List KeyEntry) : KeyData :=
  (firsts ((links es).map (·.cas))).map fun k => (k, ((links es).filter (fun e => e.cas = k)).map KeyEntry.ref)

/-! ### cast table -/

def encInts (o : Order) (k : Nat) : List Int → Bytes
  | [] => []
  | v :: vs => encS o k v ++ encInts o k vs

/-- 4-byte big-endian slots; up to three stray bytes may follow -/
def encCas (vs : List Int) (tail : Bytes) : Bytes := encInts .be 4 vs ++ tail

/-! ### script-context table -/

structure LctxEntry where
  key : Nat
  scr : Int
  unk : Int
  deriving Repr, DecidableEq, Inhabited

def LctxEntry.valid (e : LctxEntry) : Prop := e.key < 4294967296 ∧ s32 e.scr ∧ s32 e.unk
instance (e : LctxEntry) : Decidable e.valid := by unfold LctxEntry.valid; infer_instance

def encLctxEntry (e : LctxEntry) : Bytes := encOrd .be 4 e.key ++ (encS .be 4 e.scr ++ encS .be 4 e.unk)

def encLctxEntries : List LctxEntry → Bytes
  | [] => []
  | e :: es => encLctxEntry e ++ encLctxEntries es

/-- 18 header bytes whose last word is the table offset, `gap` = the rest of the header area, the 12-byte entries -/
def encLctx (u1 u2 n2 : Int) (gap : Bytes) (es : List LctxEntry) (tail : Bytes) : Bytes :=
  encS .be 4 u1 ++ (encS .be 4 u2 ++ (encS .be 4 (es.length : Int) ++ (encS .be 4 n2 ++
    (encS .be 2 ((18 + gap.length : Nat) : Int) ++ (gap ++ (encLctxEntries es ++ tail))))))

def LctxEntry.ref (e : LctxEntry) : LctxRef := ⟨e.key, e.scr⟩

/-! ### name table -/

/-- pascal string -/
def encName (n : Bytes) : Bytes := UInt8.ofNat n.length :: n

def encNames : List Bytes → Bytes
  | [] => []
  | n :: ns => encName n ++ encNames ns

/-- 20 header bytes (the size word is stored twice), pascal strings -/
def encLnam (u1 u2 fs u3 : Int) (names : List Bytes) (tail : Bytes) : Bytes :=
  encS .be 4 u1 ++ (encS .be 4 u2 ++ (encS .be 4 fs ++ (encS .be 4 fs ++ (encS .be 2 u3 ++
    (encS .be 2 (names.length : Int) ++ (encNames names ++ tail))))))

/-- decode every name, first failure wins (what `for … decode` does) -/
def decodeAll (dec : Dec) : List Bytes → R (List Text)
  | [] => .ok []
  | n :: ns => do
    let t ← dec n
    let ts ← decodeAll dec ns
    .ok (t :: ts)

/-! ### marker list -/

structure MarkerSpec where
  frame : Int
  label : Bytes
  deriving Repr, DecidableEq, Inhabited

def pool : List MarkerSpec → Bytes
  | [] => []
  | m :: ms => m.label ++ pool ms

/-- (frame, offset) records; the list is closed by a sentinel record carrying the end of the pool -/
def encRecs (sf : Int) : List MarkerSpec → Nat → Bytes
  | [], off => encS .be 2 sf ++ encOrd .be 2 off
  | m :: ms, off => encS .be 2 m.frame ++ (encOrd .be 2 off ++ encRecs sf ms (off + m.label.length))

def encVwlb (ms : List MarkerSpec) (sf : Int) (tail : Bytes) : Bytes :=
  encS .be 2 (ms.length : Int) ++ (encRecs sf ms 0 ++ (pool ms ++ tail))

def decodeMarkers (dec : Dec) : List MarkerSpec → R (List Marker)
  | [] => .ok []
  | m :: ms => do
    let t ← dec m.label
    let rest ← decodeMarkers dec ms
    .ok (⟨t, m.frame⟩ :: rest)

/-! ### movie settings -/

structure VwcfSpec where
  word : Nat            -- the version word as stored (unsigned 16 bit)
  top : Int
  left : Int
  bottom : Int
  right : Int
  castStart : Int
  castEnd : Int
  rate : Int
  fill1 : Bytes         -- bytes 18..26
  stageColor : UInt8    -- byte 27
  fill2 : Bytes         -- bytes 28..0x45
  pal46 : Int           -- word at 0x46
  fill3 : Bytes         -- bytes 0x48..0x4D
  pal4e : Int           -- word at 0x4E
  tail : Bytes
  deriving Repr, DecidableEq, Inhabited

def VwcfSpec.valid (s : VwcfSpec) : Prop :=
  s.word < 65536 ∧ s16 s.top ∧ s16 s.left ∧ s16 s.bottom ∧ s16 s.right ∧ s16 s.castStart ∧ s16 s.castEnd ∧ s16 s.rate ∧
  s.fill1.length = 9 ∧ s.fill2.length = 42 ∧ s16 s.pal46 ∧ s.fill3.length = 6 ∧ s16 s.pal4e ∧ s.tail.length < 32688
instance (s : VwcfSpec) : Decidable s.valid := by unfold VwcfSpec.valid; infer_instance

def encVwcf (s : VwcfSpec) : Bytes :=
  encS .be 2 ((80 + s.tail.length : Nat) : Int) ++ (encOrd .be 2 s.word ++ (encS .be 2 s.top ++ (encS .be 2 s.left ++
  (encS .be 2 s.bottom ++ (encS .be 2 s.right ++ (encS .be 2 s.castStart ++ (encS .be 2 s.castEnd ++ (encS .be 2 s.rate ++
  (s.fill1 ++ ([s.stageColor] ++ (s.fill2 ++ (encS .be 2 s.pal46 ++ (s.fill3 ++ (encS .be 2 s.pal4e ++ s.tail))))))))))))))

/-- version class as a function of the two stored bytes (the table of the format notes) -/
def specClass (major minor : Nat) : VClass :=
  match major with
  | 4 => if minor < 0xC0 then .dir4 else if minor < 0xC6 then .dir5 else .dir6
  | 5 => .dir7
  | 7 => if minor ≤ 0x3A then .dir8 else if minor ≤ 0x42 then .dirMX else .unknown
  | 0x16 => if minor = 0x3C then .published else .unknown
  | _ => .unknown

/-- Director's built-in palettes by number (format notes); a stored palette field `v ≤ 0` denotes built-in number `v - 1`,
    a positive one a cast member -/
def builtinPalettes : List (Int × String) :=
  [(-1, "systemMac"), (-2, "rainbow"), (-3, "grayscale"), (-4, "pastels"), (-5, "vivid"), (-6, "ntsc"), (-7, "metallic"),
   (-8, "web216"), (-101, "systemWinDir4"), (-102, "systemWin")]

def specPaletteName (stored : Int) : String :=
  let v := if stored ≤ 0 then stored - 1 else stored
  match lookupName builtinPalettes v with
  | some s => s
  | none => toString v

/-- what the settings chunk means -/
def VwcfSpec.meaning (s : VwcfSpec) : Vwcf :=
  let cls := specClass (s.word / 256) (s.word % 256)
  ⟨cls, s.top, s.left, s.bottom, s.right, s.castStart, s.castEnd, s.rate, s.stageColor.toNat,
   match cls with
   | .dir4 => specPaletteName s.pal46
   | .dir5 => specPaletteName s.pal4e
   | _ => "unknonw"⟩

end Drx.IdxSpec
