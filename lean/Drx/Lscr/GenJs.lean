/-
  generate_js of every AST class and codegen/js.py (the three script wrappers).
  After the F13/F14/F100 repairs the JavaScript generators write nothing to the tree: `afterJs` is the identity (proved in
  DrxProofs/LscrGen.lean); it is kept in the same shape as `afterLingo` so that both generators are treated alike.
-/
import Drx.Lscr.GenLingo
namespace Drx.Lscr
open Drx Drx.Gen

def leafJs (c : Leaf) (name : Name) (fm : Bool) : Name :=
  match c with
  | .globalVar => .s (S "_global." ++ name.str)
  | .propName =>
    let obj : Str := match name with
      | .s v => (match dictGet PropTables.knownPropertiesVariable v with
                 | .ok o => o
                 | .error _ => if fm then S "this" else S "me")
      | .i _ => if fm then S "this" else S "me"
    .s (obj ++ S "." ++ name.str)
  | .definedProp =>
    -- a property the script declares itself belongs to the script object whatever its name (F139)
    let obj : Str := if fm then S "this" else S "me"
    .s (obj ++ S "." ++ name.str)
  | .dateTime => .s (S "_system.date('" ++ name.str ++ S "')")
  | .menu => .s (S "_menuBar.menu[" ++ name.str ++ S "]")
  | .menuItem => .s (S "item[" ++ name.str ++ S "]")
  | .soundChan => .s (S "sound(" ++ name.str ++ S ")")
  | .sprite => .s (S "sprite(" ++ name.str ++ S ")")
  | .cast => .s (S "member(" ++ name.str ++ S ")")
  | .const => constJs name
  | .exitRepeat => .s (S "break")
  | _ => if fm ∧ name == Name.s (S "me") then .s (S "this") else name     -- Node.generate_js

/-- `js_receiver(code)`: a numeric literal or a prefix operation is parenthesised before `.name` / `[index]` is appended
    (`str.isdigit` is modelled for ASCII digits; the configured codec produces no other digit characters) -/
def jsReceiver (t : Str) : Str :=
  match t with
  | c :: _ => if c = '-' ∨ c = '!' ∨ isAsciiDigit c then S "(" ++ t ++ S ")" else t
  | [] => t

/-- Node.generate_js of the classes that do not override it and have a fixed name -/
def baseJs (name : Str) : Name := .s name

/-- `generate_js_code(nm, params)` of CallFunction -/
def callJsCode (nm : Name) (params : Name) : R Name :=
  if nm == Name.s (S "return") then
    if params != Name.s [] then do
      let p ← params.asStr
      pure (.s (S "return " ++ p))
    else pure nm
  else do
    let n ← nm.asStr
    let p ← params.asStr
    pure (.s (n ++ S "(" ++ p ++ S ")"))

/-- the name rewriting of CallFunction.generate_js up to (not including) the `me` case: (nm, params_str) -/
def callJsName (name : Name) (inTell : Bool) (paramsStr : Name) : R (Name × Name) := do
  let nm : Name := if name == Name.s (S "birth") then .s (S "_movie.newScript") else name
  let nm ← if nm == Name.s (S "new") then do
      let p ← paramsStr.asStr
      pure (if startsWith p (S "symbol(") then Name.s (S "_movie.newMember") else Name.s (S "_movie.newScript"))
    else pure nm
  let (nm, paramsStr) ← if nm == Name.s (S "go") then do
      let pre : Str := if inTell then [] else S "_movie."
      let p ← paramsStr.asStr
      if startsWith p (S "symbol('") then
        let inner := pySlice p 8 (-2)
        pure (Name.s (pre ++ S "go" ++ pyCapitalize inner), Name.s [])
      else pure (Name.s (pre ++ S "go"), paramsStr)
    else pure (nm, paramsStr)
  let nm := if nm == Name.s (S "cast") then Name.s (S "member") else nm
  let nm := if nm == Name.s (S "continue") then Name.s (S "resume") else nm
  pure (nm, paramsStr)

/-- `if isinstance(self.receiver, GlobalVariable) and nm == self.name: nm = self.receiver.generate_js(...)` -/
def recvName (recv : Node) (name nm : Name) : Name :=
  match recv with
  | .leaf .globalVar rn _ => if nm == name then .s (S "_global." ++ rn.str) else nm
  | _ => nm

/-- `'this.' + s.name` for every operand (only the str-ness of the names matters; the last one is used) -/
def jsNames : List Node → R Unit
  | [] => .ok ()
  | x :: r => do
    let n ← x.name
    let _ ← n.asStr
    jsNames r

/-- the scan of `_is_parenthesized` (ast/structures.py, F160): `d` = depth, `q` = the quote character of the string literal the
    scan is inside of (a backslash skips the next character there) -/
def parenScan : Str → Int → Option Char → Bool
  | [], _, _ => false
  | c :: r, d, some q =>
    if c = '\\' then (match r with | _ :: r' => parenScan r' d (some q) | [] => false)
    else if c = q then parenScan r d none
    else parenScan r d (some q)
  | c :: r, d, none =>
    if c = '"' ∨ c = '\'' then parenScan r d (some c)
    else if c = '(' then parenScan r (d + 1) none
    else if c = ')' then (if d - 1 = 0 then r.isEmpty else parenScan r (d - 1) none)
    else parenScan r d none

/-- `_is_parenthesized(text)`: the text starts with `(` and THAT parenthesis closes at the very last character -/
def isParenthesized (t : Str) : Bool := startsWith t (S "(") && parenScan t 0 none

mutual
  /-- `node.generate_js(ind, fm)`; with `tgt` the node is the target of a `put … into/after/before`
      (`SpAssignOperation.target_js`): the field at the bottom of the chunk chain is addressed through `.text` -/
  def js (fm : Bool) (tgt : Bool) : Node → Nat → R Name
    | .none, _ => .error .type
    | .leaf c name _, _ => .ok (leafJs c name fm)
    | .sym name _ _, _ => (name.asStr).map fun s => .s (S "symbol('" ++ s ++ S "')")
    | .unary op _ x, ind => do
      let o ← dictGet OpNames.jsUnaOp op
      let t ← js fm false x ind
      pure (.s (o ++ S "(" ++ t.str ++ S ")" ++ (if tgt ∧ op = S "field" then S ".text" else [])))
    | .binary op _ l r, ind =>
      if op = S "assign" then do
        let lt ← js fm false l ind
        let rt ← js fm false r ind
        pure (.s (lt.str ++ S " = " ++ rt.str))
      else do
        let o ← dictGet OpNames.jsBinOp op
        let lt ← js fm false l ind
        let rt ← js fm false r ind
        if startsWith o (S "sprite(") then
          -- vsprintf(op, l, r) with the two %s of the table entry
          (pyFormat o [lt.str, rt.str]).map Name.s
        else if startsWith o (S ".") then pure (.s (jsReceiver lt.str ++ o ++ S "(" ++ rt.str ++ S ")"))
        else pure (.s (S "(" ++ lt.str ++ S " " ++ o ++ S " " ++ rt.str ++ S ")"))
    | .spAssign _ l r mode, ind => do
      let lt ← js fm true l ind
      let left := lt.str
      let rt ← js fm false r ind
      if mode = S "after" then pure (.s (left ++ S " = new LingoString(" ++ left ++ S " + " ++ rt.str ++ S ")"))
      else if mode = S "before" then pure (.s (left ++ S " = new LingoString(" ++ rt.str ++ S " + " ++ left ++ S ")"))
      else pure (.s (left ++ S " = " ++ rt.str))
    | .strOp kind _ start stop of_, _ =>
      if stop.isNone then do
        let c ← js fm tgt of_ 0
        let a ← js fm false start 0
        pure (.s (jsReceiver c.str ++ S "." ++ kind ++ S "[" ++ a.str ++ S "]"))
      else do
        let c ← js fm tgt of_ 0
        let a ← js fm false start 0
        let b ← js fm false stop 0
        pure (.s (jsReceiver c.str ++ S "." ++ kind ++ S "[range(" ++ a.str ++ S ", " ++ b.str ++ S ")]"))
    | .unaryStr op _ type of_, ind => do
      let o ← dictGet OpNames.jsUnaOp op
      let t ← js fm false of_ ind
      match type with
      | some ty =>
        if op = S "last" then pure (.s (jsReceiver t.str ++ S "." ++ ty ++ S "[\"" ++ o ++ S "\"]"))
        else pure (.s (jsReceiver t.str ++ S "." ++ ty ++ S "." ++ o))
      | none => pure (.s ((if of_.isMenusVar then S "_menuBar.menu" else t.str) ++ S "." ++ o))
    | .propAcc _ obj prop ex, ind => do
      let t ← js fm false obj ind
      if t == Name.s (S "tell_obj") ∧ !ex then pure (.s prop) else pure (.s (jsReceiver t.str ++ S "." ++ prop))
    | .keyAcc _ prop, _ =>
      if prop = S "date" ∨ prop = S "time" then .ok (.s (S "_system.date('" ++ prop ++ S "')"))
      else match dictGet PropTables.knownPropertiesOperation prop with
        | .ok owner => .ok (.s (owner ++ S "." ++ prop))
        | .error _ => .ok (.s (S "_key." ++ prop))
    | .menuItemAcc _ menu item, _ => do
      let m ← js fm false menu 0
      let i ← js fm false item 0
      pure (.s (m.str ++ S "." ++ i.str))
    | .menuItemsAcc _ menu, _ => do
      let m ← js fm false menu 0
      pure (.s (m.str ++ S ".item"))
    | .loadList _ _ ops, ind => do
      let l ← jsStrs fm false ops ind
      pure (.s (commaJoinRev l))
    | .toList _ (.loadList _ _ ops), ind => do
      let l ← jsStrs fm false ops ind
      pure (.s (S "list(" ++ commaJoinRev l ++ S ")"))
    | .toList _ _, _ => .error .type
    | .toDict _ (.loadList _ _ ops), ind => do
      let l ← jsStrs fm false ops ind
      pure (.s (S "propList(" ++ commaJoinRev l ++ S ")"))
    | .toDict _ _, _ => .error .type
    | .stmt _ code, ind => do
      let t ← js fm false code ind
      let ts ← t.asStr
      let ts := if code.withResult then S "fn_call(" ++ ts ++ S ")" else ts
      if endsWith ts (S "}") then pure (.s (indentOf ind ++ ts ++ S "\n"))
      else pure (.s (indentOf ind ++ ts ++ S ";\n"))
    | .callFn name _ .none _ inTell _ recv, _ => do
      -- parameters is None: params_str = ''
      let (nm, ps) ← callJsName name inTell (.s [])
      if fm ∧ nm == Name.s (S "me") then .error .type    -- pars.operands on None
      else callJsCode (recvName recv name nm) ps
    | .callFn name _ (.loadList _ _ ops) _ inTell _ recv, ind => do
      let gv ← if ops.isEmpty then pure false else isListFn name
      let l ← jsStrs fm gv ops ind
      let (nm, ps) ← callJsName name inTell (.s (commaJoinRev l))
      if fm ∧ nm == Name.s (S "me") then
        -- for s in pars.operands: oplist.append(str(s.generate_js())); nm = 'this.' + s.name ; oplist.pop()
        do
          let ln ← lastNameGv gv ops              -- nm = 'this.' + s.name of the last s; oplist.pop() on [] raises
          let lns ← ln.asStr
          let _ ← jsNames ops
          callJsCode (recvName recv name (.s (S "this." ++ lns))) (.s (commaJoinRev l.dropLast))
      else callJsCode (recvName recv name nm) ps
    | .callFn name _ params _ inTell _ recv, ind => do
      -- parameters is some other node: gv_as_sym needs `.operands`
      let _ ← (gvAsSym name params)
      let t ← js fm false params ind
      let (nm, ps) ← callJsName name inTell t
      if fm ∧ nm == Name.s (S "me") then .error .type else callJsCode (recvName recv name nm) ps
    | .callMethod name _ obj params, ind => do
      let o ← js fm false obj ind
      let p ← js fm false params ind
      pure (.s (o.str ++ S "." ++ name.str ++ S "(" ++ p.str ++ S ")"))
    | .repeat_ _ _ cond stmts type start varname sign loopVar, ind => do
      let ct ← js fm false cond 0
      let cs ← ct.asStr
      let cs := if isParenthesized cs then cs else S "(" ++ cs ++ S ")"
      -- var_js = self.variable.generate_js(0, fm) if self.variable is not None else self.varname
      let varJs ← if loopVar.isNone then pure varname else js fm false loopVar 0
      let head ←
        if type = S "while" then pure (S "while " ++ cs ++ S " {\n")
        else if type = S "for" then do
          let a ← js fm false start 0
          pure (S "for(" ++ varJs.str ++ S " = " ++ a.str ++ S "; " ++ stripParens cs ++ S "; " ++ varJs.str ++
                (if sign = S "+" then S "++" else S "--") ++ S ") {\n")
        else do
          let a ← js fm false start 0
          pure (S "for(" ++ varJs.str ++ S " of " ++ a.str ++ S ") {\n")
      let body ← jsStmts fm stmts (ind + 1)
      pure (.s (head ++ body ++ indentOf ind ++ S "}"))
    | .ifThen _ cond ifs elses, ind => do
      let ct ← js fm false cond 0
      let cs ← ct.asStr
      let cs := if isParenthesized cs then cs else S "(" ++ cs ++ S ")"
      let a ← jsStmts fm ifs (ind + 1)
      let b ← if elses.isEmpty then pure [] else do
        let e ← jsStmts fm elses (ind + 1)
        pure (indentOf ind ++ S "} else {\n" ++ e)
      pure (.s (S "if " ++ cs ++ S " {\n" ++ a ++ b ++ indentOf ind ++ S "}"))
    | .jump .., _ => .ok (.s (S "jump"))
    | .jz .., _ => .ok (.s (S "jz"))
    | .tell _ operand stmts _, ind => do
      let o ← js fm false operand 0
      let os ← o.asStr
      let os := if startsWith os (S "(") then os else S "(" ++ os ++ S ")"
      let body ← jsStmts fm stmts (ind + 1)
      pure (.s (S "with " ++ os ++ S " {\n" ++ body ++ indentOf ind ++ S "}"))

  /-- `[str(s.generate_js(ind, fm)) for s in l]`; with `gv`, the last element is first passed through gv_as_sym -/
  def jsStrs (fm : Bool) (gv : Bool) : List Node → Nat → R (List Str)
    | [], _ => .ok []
    | [x], ind =>
      match (if gv then x.symName? else none) with
      | some n => .ok [S "_global." ++ n.str]    -- GlobalVariable(sym.name).generate_js
      | none => do let t ← js fm false x ind; pure [t.str]
    | x :: y :: r, ind => do
      let t ← js fm false x ind
      let ts ← jsStrs fm gv (y :: r) ind
      pure (t.str :: ts)

  def jsStmts (fm : Bool) : List Node → Nat → R Str
    | [], _ => .ok []
    | x :: r, ind => do
      let t ← js fm false x ind
      let ts ← t.asStr
      let rest ← jsStmts fm r ind
      pure (ts ++ rest)
end

/-! ### the tree after a completed generation -/

mutual
  def afterJs : Node → Node
    | .none => .none
    | .leaf c n p => .leaf c n p
    | .sym name p useHash => .sym name p useHash
    | .unary op p x => .unary op p (afterJs x)
    | .binary op p l r => .binary op p (afterJs l) (afterJs r)
    | .spAssign p l r m => .spAssign p (afterJs l) (afterJs r) m
    | .strOp k p a b c => .strOp k p (afterJs a) (afterJs b) (afterJs c)
    | .unaryStr op p t x => .unaryStr op p t (afterJs x)
    | .propAcc p o pr ex => .propAcc p (afterJs o) pr ex
    | .keyAcc p pr => .keyAcc p pr
    | .menuItemAcc p m i => .menuItemAcc p (afterJs m) (afterJs i)
    | .menuItemsAcc p m => .menuItemsAcc p (afterJs m)
    | .loadList n p ops => .loadList n p (afterJsList ops)
    | .toList p x => .toList p (afterJs x)
    | .toDict p x => .toDict p (afterJs x)
    | .stmt p code => .stmt p (afterJs code)
    | .callFn name p (.loadList ln lp ops) up it wr rc => .callFn name p (.loadList ln lp (afterJsList ops)) up it wr rc
    | .callFn name p params up it wr rc => .callFn name p params up it wr rc
    | .callMethod n p o ps => .callMethod n p (afterJs o) (afterJs ps)
    | .repeat_ p e cond stmts type start varname sign vr =>
      let start' := if type = S "while" then start else afterJs start
      .repeat_ p e (afterJs cond) (afterJsList stmts) type start' varname sign vr
    | .ifThen p c a b => .ifThen p (afterJs c) (afterJsList a) (afterJsList b)
    | .jump p a => .jump p a
    | .jz p c a => .jz p c a
    | .tell p o l cl => .tell p (afterJs o) (afterJsList l) cl
  def afterJsList : List Node → List Node
    | [] => []
    | x :: r => afterJs x :: afterJsList r
end

/-! ### codegen/js.py -/

/-- `x in ('birth',)` -/
def inBirth (s : Str) : Bool := s == S "birth"

/-- parameter list of a wrapper; `skipMe` drops the parameters called 'me' (class and factory scripts) -/
def jsParams (f : FuncDef) (skipMe : Bool) : R Str := do
  let names ← f.params.mapM fun p => p.name
  let names := if skipMe then names.filter fun n => !(n == Name.s (S "me")) else names
  pure (joinWith (S ", ") (names.map Name.str))

def jsLocals (f : FuncDef) (ind : Nat) : R Str := do
  let names ← f.localVars.mapM fun p => p.name
  let t := (names.map fun n => indentOf ind ++ S "var " ++ n.str ++ S ";\n").flatten
  pure (if f.localVars.isEmpty then t else t ++ S "\n")

/-- the statement loop of the three wrappers -/
def bodyJs (stmts : List Node) (ind : Nat) : R Str := (bodyStmts stmts).bind fun b => jsStmts true b ind

/-- a method of a class/factory wrapper -/
def jsMethod (f : FuncDef) : R Str := do
  let ps ← if f.params.isEmpty then pure [] else jsParams f true
  let lv ← jsLocals f 2
  let btxt ← bodyJs f.stmts 2
  pure (S "\n" ++ indentOf 1 ++ f.name ++ S "(" ++ ps ++ S ") {\n" ++ lv ++ btxt ++ indentOf 1 ++ S "}\n")

def jsMethods : List FuncDef → R Str
  | [] => .ok []
  | f :: fs => do
    let t ← jsMethod f
    let r ← jsMethods fs
    pure (t ++ r)

/-- `generate_class_js_code` -/
def classJs (s : Script) : R Str := do
  let ms ← jsMethods s.functions
  let wrappers := (s.functions.map fun f =>
    if inBirth f.name then [] else
      S "function " ++ f.name ++ S "(obj, ...args) {\n" ++ indentOf 1 ++ S "return obj." ++ f.name ++ S "(...args);\n" ++ S "}\n").flatten
  pure (S "class Object__" ++ intStr s.scrNum ++ S " extends ObjectBase {" ++ ms ++ S "}\n\n" ++ wrappers)

/-- `generate_factory_js_code` -/
def factoryJs (s : Script) : R Str := do
  let ms ← jsMethods s.functions
  pure (S "class Factory__" ++ s.factoryName ++ S " extends FactoryBase {" ++ ms ++ S "}\n\n" ++
        S "function " ++ s.factoryName ++ S "(methodName, ...args) {\n" ++ indentOf 1 ++ S "return factoryCall('" ++
        s.factoryName ++ S "', methodName, args);\n" ++ S "}\n")

def commonFuncJs (f : FuncDef) : R Str := do
  let fname := if f.name = S "new" then S "birth" else f.name
  let ps ← if f.params.isEmpty then pure [] else jsParams f false
  let lv ← jsLocals f 1
  let btxt ← bodyJs f.stmts 1
  pure (S "function " ++ fname ++ S "(" ++ ps ++ S ") {\n" ++ lv ++ btxt ++ S "}\n")

def commonFuncsJs : List FuncDef → Bool → R Str
  | [], _ => .ok []
  | f :: fs, first => do
    let t ← commonFuncJs f
    let r ← commonFuncsJs fs false
    pure ((if first then [] else S "\n") ++ t ++ r)

/-- `generate_js_code(script)`: the text -/
def jsText (s : Script) : R Str :=
  if s.factoryName.length > 0 then factoryJs s
  else if s.properties.length > 0 then classJs s
  else commonFuncsJs s.functions true

def afterJsBody (stmts : List Node) : List Node :=
  match endsWithExit stmts with
  | .ok true => afterJsList stmts.dropLast ++ stmts.drop (stmts.length - 1)
  | .ok false => afterJsList stmts
  | .error _ => stmts

def afterJsScript (s : Script) : Script :=
  { s with functions := s.functions.map fun f => { f with stmts := afterJsBody f.stmts } }

/-- `generate_js_code`: text and the tree it leaves behind (see `genLingo` for the error case) -/
def genJs (s : Script) : R Str × Script :=
  match jsText s with
  | .ok t => (.ok t, afterJsScript s)
  | .error e => (.error e, s)

end Drx.Lscr
