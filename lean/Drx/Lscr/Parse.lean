/-
  parse/lnam.py, parse/lscr.py and opcodes/*.py: container, name tables, function records, the bytecode walker
  (`parse_opcodes`) and every opcode's `process`.

  Dispatch goes through the generated tables (Drx/Gen/Opcodes.lean): first byte → OPCODES entry (`nbytes`, `kind`);
  two-byte opcodes → BI_OPCODES entry; the entry's `impl` (class whose `process` runs) selects the model function and its
  `attrs` (opname / mode / name) parameterise it.

  The operand bytes which Python stores in the shared opcode singletons (`param1`, `param2`) are the explicit register file
  `Regs`: `parseOpcodes` writes the register(s) of the singleton before `process` reads them.
-/
import Drx.Lscr.Flow
import Drx.Gen.Opcodes
namespace Drx.Lscr
open Drx Drx.Gen

/-! ### header -/

structure Header where
  scrNum : Int
  contScrNum : Int
  factoryNameIdx : Int
  prbOff : Int
  grbN : Int
  grbOff : Int
  frbN : Int
  frbOff : Int
  crbN : Int
  crbOff : Int
  conOff : Int
  deriving Repr

/-- `parse_lrcr_file_header` -/
def parseHeader (d : Bytes) : R Header := do
  let _scrType ← getSI 4 d 0
  let _u01 ← getSI 4 d 4
  let filesize0 ← getSI 4 d 8
  let filesize1 ← getSI 4 d 12
  let _u04 ← getSI 2 d 16
  let scrNum ← getSI 2 d 18
  let _u05 ← getSI 2 d 20
  let contScrNum ← getSI 2 d 22
  let _u06 ← getSI 4 d 24
  let _u07 ← getSI 4 d 28
  let _u08 ← getSI 4 d 32
  let _u09 ← getSI 4 d 36
  let _u10 ← getSI 4 d 40
  let _u11 ← getSI 4 d 44
  let factoryNameIdx ← getSI 2 d 48
  let _u12 ← getSI 2 d 50
  let _u13 ← getSI 4 d 52
  let _u14 ← getSI 4 d 56
  let _u15 ← getSI 4 d 60
  if filesize1 ≠ filesize0 ∨ filesize1 ≠ (d.length : Int) then throw Err.value
  let prbOff ← getSI 2 d 64
  let grbN ← getSI 2 d 66
  let _u18 ← getSI 2 d 68
  let grbOff ← getSI 2 d 70
  let frbN ← getSI 2 d 72
  let _u19 ← getSI 2 d 74
  let frbOff ← getSI 2 d 76
  let crbN ← getSI 2 d 78
  let _u20 ← getSI 2 d 80
  let crbOff ← getSI 2 d 82
  let _u21 ← getSI 2 d 84
  let _u22 ← getSI 2 d 86
  let _u23 ← getSI 2 d 88
  let conOff ← getSI 2 d 90
  pure { scrNum, contScrNum, factoryNameIdx, prbOff, grbN, grbOff, frbN, frbOff, crbN, crbOff, conOff }

/-! ### name table (Lnam) -/

def lnamLoop (codec : Codec) (d : Bytes) : Nat → Nat → R (List Str)
  | 0, _ => .ok []
  | k + 1, indx => do
    let nbytes ← byteAtI d indx
    let name ← decodeText codec (slice d (indx + 1) (indx + 1 + nbytes))
    let rest ← lnamLoop codec d k (indx + 1 + nbytes)
    pure (name :: rest)

/-- `parse_lnam_file_data` -/
def parseLnam (codec : Codec) (d : Bytes) : R (List Str) := do
  let _ ← getSI 4 d 0
  let _ ← getSI 4 d 4
  let filesize ← getSI 4 d 8
  let filesizeCp ← getSI 4 d 12
  let _ ← getSI 2 d 16
  let nnames ← getSI 2 d 18
  if filesizeCp ≠ filesize then throw Err.value
  lnamLoop codec d nnames.toNat 20

/-- `fname = 'noname'; if 0 <= i < len(names): fname = names[i]` -/
def nameOr (names : List Str) (i : Int) : Str :=
  if i ≥ 0 then (names[i.toNat]?).getD (S "noname") else S "noname"

/-- the `while idx < stop` loops of parse_lrcr_prb / parse_lrcr_grb -/
def nameRecords (d : Bytes) (names : List Str) (idx stop : Int) : R (List Str) :=
  if h : idx < stop then do
    let i ← getSI 2 d idx
    let rest ← nameRecords d names (idx + 2) stop
    pure (nameOr names i :: rest)
  else .ok []
termination_by (stop - idx).toNat
decreasing_by omega

/-- `parse_frb_func_names` -/
def funcNames (d : Bytes) (names : List Str) : Nat → Int → R (List Str)
  | 0, _ => .ok []
  | k + 1, idx => do
    let i ← getSI 2 d idx
    let rest ← funcNames d names k (idx + 42)
    pure (nameOr names i :: rest)

/-! ### the stack machine -/

/-- what `process` reads besides the stack -/
structure Ctx where
  names : List Str
  constants : List Name
  localFuncs : List Str
  props : List Str
  scriptGlobals : List Str -- context.global_vars (= script.global_vars)
  params : List Node       -- fn.parameters
  localVars : List Node    -- fn.local_vars

/-- what `process` updates: expression stack (head = top), `context.bytes_per_constant`, `context.tell_object is not None`,
    `fn.global_vars`, `fn.statements` -/
structure PState where
  stack : List Node := []
  bpc : Nat
  tell : Bool
  gvars : List Node := []
  stmts : List Node := []

def PState.pop (st : PState) : R (Node × PState) :=
  match st.stack with
  | [] => .error .index
  | x :: r => .ok (x, { st with stack := r })

def PState.push (st : PState) (x : Node) : PState := { st with stack := x :: st.stack }

def PState.addStmt (st : PState) (index : Int) (code : Node) : PState := { st with stmts := st.stmts ++ [.stmt index code] }

/-- `if op1 % bpc > 0: bpc = op1 % bpc` then `idx = int(op1 / bpc)` -/
def recIndex (st : PState) (op1 : Int) : PState × Int :=
  let r := op1 % (st.bpc : Int)
  let bpc' : Nat := if r > 0 then r.toNat else st.bpc
  ({ st with bpc := bpc' }, Int.tdiv op1 bpc')

def nameAt (ctx : Ctx) (i : Int) : R Str := pyGet ctx.names i

def attr (info : Opcodes.OpInfo) (k : String) : R Str :=
  match info.attrs.lookup k with
  | some v => .ok v.toList
  | none => .error .type

def mkConst (v : Name) (index : Int) : Node := .leaf .const v index
def assignNode (index : Int) (l r : Node) : Node := .binary (S "assign") index l r

/-- `cast(ConstantValue, x).name` followed by `int(...)` -/
def popInt (st : PState) : R (Int × PState) := do
  let (x, st) ← st.pop
  let n ← x.name
  let v ← n.toInt
  pure (v, st)

def popName (st : PState) : R (Name × PState) := do
  let (x, st) ← st.pop
  let n ← x.name
  pure (n, st)

/-- `x.name.startswith('<')` -/
def nameStartsLt (x : Node) : R Bool := do
  let n ← x.name
  let s ← n.asStr
  pure (startsWith s (S "<"))

/-- push the call if its argument list is a `<load_list>`, else append it as a statement -/
def pushOrStmt (st : PState) (index : Int) (op params : Node) : R PState := do
  let lt ← nameStartsLt params
  pure (if lt then st.push op else st.addStmt index op)

/-! #### string_op.py -/

/-- `add_str_operation` -/
def addStrOperation (op startPos endPos : Node) (kind : Str) (index : Int) : R Node := do
  let sn ← startPos.name
  if sn ≠ Name.s (S "0") then do
    let en ← endPos.name
    pure (.strOp kind index startPos (if en ≠ Name.s (S "0") then endPos else .none) op)
  else pure op

/-- `add_modifiers` -/
def addModifiers (op : Node) (st : PState) (index : Int) : R (Node × PState) := do
  let (ll, st) ← st.pop
  let (fl, st) ← st.pop
  let (li, st) ← st.pop
  let (fi, st) ← st.pop
  let (lw, st) ← st.pop
  let (fw, st) ← st.pop
  let (lc, st) ← st.pop
  let (fc, st) ← st.pop
  let op ← addStrOperation op fl ll (S "line") index
  let op ← addStrOperation op fi li (S "item") index
  let op ← addStrOperation op fw lw (S "word") index
  let op ← addStrOperation op fc lc (S "char") index
  pure (op, st)

def fieldOf (index : Int) (x : Node) : Node := .unary (S "field") index x

/-- Put{Into,After,Before}{Field,FieldSp,List,String}Opcode -/
def putChunk (ctx : Ctx) (target : String) (mode : Str) (st : PState) (index : Int) : R PState := do
  let (lval, st) ←
    if target = "field" then do
      let (x, st) ← st.pop
      pure (fieldOf index x, st)
    else if target = "list" then st.pop
    else do
      -- local variable by record offset (local_var_by_offset)
      let (op1, st) ← popInt st
      let (st, idx) := recIndex st op1
      let lv ← pyGet ctx.localVars idx
      pure (lv, st)
  let (lval, st) ← addModifiers lval st index
  let (r, st) ← st.pop
  pure (st.addStmt index (.spAssign index lval r mode))

def deleteChunk (ctx : Ctx) (target : String) (st : PState) (index : Int) : R PState := do
  let (lval, st) ←
    if target = "field" then do
      let (x, st) ← st.pop
      pure (fieldOf index x, st)
    else if target = "list" then st.pop
    else do
      let (op1, st) ← popInt st
      let (st, idx) := recIndex st op1
      let lv ← pyGet ctx.localVars idx
      pure (lv, st)
  let (lval, st) ← addModifiers lval st index
  pure (st.addStmt index (.unary (S "delete") index lval))

/-! #### property_op.py -/

/-- SpecialPropertiesOpcode.process -/
def specialProps (st : PState) (index : Int) : R PState := do
  let (pi, st) ← popInt st
  if pi < 6 then do
    let n ← listGet PropTables.specialProperties pi
    pure (st.push (.leaf .propName (.s n) index))
  else if pi < 12 then do
    let n ← listGet PropTables.dateTimeFunctions (pi - 6)
    pure (st.push (.leaf .dateTime (.s n) index))
  else do
    let ty ← listGet PropTables.operationTypes (pi - 11)
    let (x, st) ← st.pop
    pure (st.push (.unaryStr (S "last") index (some ty) x))

/-- `super().process(...)` then `op.left = pop; op.right = pop` (Assign{Special,System}PropertiesOpcode) -/
def assignTop (st : PState) (index : Int) : R PState := do
  let (l, st) ← st.pop
  let (r, st) ← st.pop
  pure (st.addStmt index (assignNode index l r))

def systemProps (st : PState) (index : Int) : R PState := do
  let (pi, st) ← popInt st
  let (pname, owner) ← dictNth PropTables.systemProperties pi
  let obj : Node := if st.tell then .leaf .localVar (.s (S "tell_obj")) index else .leaf .localVar (.s owner) index
  pure (st.push (.propAcc index obj pname false))

/-- `the <prop> of <Obj> n` readers: Sprite / Cast / SoundChannel / video cast -/
def objProp (cls : Leaf) (tbl : List String) (st : PState) (index : Int) : R PState := do
  let (pi, st) ← popInt st
  let (idn, st) ← popName st
  let prop ← listGet tbl pi
  pure (st.push (.propAcc index (.leaf cls idn index) prop false))

def assignObjProp (cls : Leaf) (tbl : List String) (st : PState) (index : Int) : R PState := do
  let (pi, st) ← popInt st
  let (value, st) ← st.pop
  let (idn, st) ← popName st
  let prop ← listGet tbl pi
  pure (st.addStmt index (assignNode index (.propAcc index (.leaf cls idn index) prop false) value))

/-! #### call_op.py -/

/-- `findVarName` -/
def findVarName (ctx : Ctx) (varType : Nat) (st : PState) : R (Name × PState) :=
  if varType = 1 ∨ varType = 2 ∨ varType = 3 then do
    let (obj, st) ← st.pop
    let t ← lingo false obj 0
    pure (t, st)
  else if varType = 4 then do
    let (num, st) ← popInt st
    let (st, idx) := recIndex st num
    let p ← pyGet ctx.params idx
    let n ← p.name
    pure (n, st)
  else if varType = 5 then do
    let (num, st) ← popInt st
    let (st, idx) := recIndex st num
    let p ← pyGet ctx.localVars idx
    let n ← p.name
    pure (n, st)
  else .error .other

/-- `sym.use_hash = False` on the last element (the loop leaves `first_op` = last operand) -/
def clearHashLast : List Node → List Node := mapLast fun x =>
  match x with
  | .sym n p _ => .sym n p false
  | x => x

/-- `x.operand` -/
def Node.operand : Node → R Node
  | .unary _ _ x => .ok x
  | .toList _ x => .ok x
  | .toDict _ x => .ok x
  | .tell _ x _ _ => .ok x
  | _ => .error .type

/-! ### process -/

/-- classes whose `process` reads `self.param1` and `self.param2` (3-byte instructions) -/
def readsP2 : List String := ["Int2bOpcode", "Literal2Opcode", "FowardJumpOpcode", "ConditionalJumpOpcode", "LoadLongListOpcode"]

/-- classes whose `process` reads `self.param1` only -/
def readsP1 : List String := ["Int1bOpcode", "LiteralOpcode", "SymbolOpcode", "PropertyOpcode", "VariableOpcode", "GlobalVariableOpcode", "PropertyNameOpcode", "ParameterNameOpcode", "LocalVariableOpcode", "TellPropertyOpcode", "AssignGlobalVariableOpcode", "LoadPropertyOpcode", "AssignPropertyOpcode", "AssignValToPropertyOpcode", "AssignParameterOpcode", "AssignLocalVariableOpcode", "JumpOpcode", "CallLocalOpcode", "CallExternalOpcode", "CallObjectMethodOpcode", "CallExternalMethodOpcode", "PropertyAccesorOpcode", "AssignPropertyAccesorOpcode", "KeyPropertyAccesorOpcode", "CopySymbolOpcode", "DiscardSymbolsOpcode", "LoadListOpcode"]

/-- `process` of the classes that read no operand register -/
def process0 (ctx : Ctx) (info : Opcodes.OpInfo) (index : Int) (st : PState) : R PState :=
  match info.impl with
  | "BinaryOperationOpcode" => do
    let opname ← attr info "opname"
    let (r, st) ← st.pop
    let (l, st) ← st.pop
    pure (st.push (.binary opname index l r))
  | "UnaryOperationOpcode" => do
    let opname ← attr info "opname"
    let (x, st) ← st.pop
    pure (st.push (.unary opname index x))
  | "ExitOpcode" | "ExitFactoryMethodOpcode" =>
    .ok (st.addStmt index (.callFn (.s (S "exit")) index .none true false false .none))
  | "ZeroOpcode" => .ok (st.push (mkConst (.s (S "0")) index))
  | "AssignModeLocalVarOpcode" => do
    let mode ← attr info "mode"
    let (operand, st) ← st.pop
    if operand.cls ≠ .leaf .const then throw Err.type
    let n ← operand.name
    let op1 ← n.toInt
    let (st, idx) := recIndex st op1
    let l ← pyGet ctx.localVars idx
    let (r, st) ← st.pop
    pure (st.addStmt index (.spAssign index l r mode))
  | "AssignModeFieldOpcode" => do
    let mode ← attr info "mode"
    let (x, st) ← st.pop
    let (r, st) ← st.pop
    pure (st.addStmt index (.spAssign index (fieldOf index x) r mode))
  | "WindowTellStartOpcode" => do
    let (x, st) ← st.pop
    pure { st.addStmt index (.tell index x [] false) with tell := true }
  | "WindowTellEndOpcode" => do
    let (stmts, stillOpen) ← tellEnd st.stmts
    pure { st with stmts := stmts, tell := stillOpen }
  | "SpecialPropertiesOpcode" => specialProps st index
  | "AssignSpecialPropertiesOpcode" => do
    let st ← specialProps st index
    assignTop st index
  | "NumberOfElementsOpcode" => do
    let (optype, st) ← popInt st
    let ty ← listGet PropTables.operationTypes optype
    let (x, st) ← st.pop
    pure (st.push (.unaryStr (S "number") index (some ty) x))
  | "NameOfCastElementsOpcode" => do
    let (optype, st) ← popInt st
    let (p2n, st) ← popName st
    if optype = 1 then pure (st.push (.unaryStr (S "name") index none (.leaf .menu p2n index)))
    else if optype = 2 then pure (st.push (.unaryStr (S "number") index none (.menuItemsAcc index (.leaf .menu p2n index))))
    else throw Err.other
  | "MenuitemPropertiesOpcode" => do
    let (pi, st) ← popInt st
    let (menuId, st) ← popName st
    let (itemId, st) ← popName st
    let prop ← listGet PropTables.menuitemProperties pi
    pure (st.push (.propAcc index (.menuItemAcc index (.leaf .menu menuId index) (.leaf .menuItem itemId index)) prop false))
  | "AssignMenuitemPropertiesOpcode" => do
    let (pi, st) ← popInt st
    let (value, st) ← st.pop
    let (menuId, st) ← popName st
    let (itemId, st) ← popName st
    let prop ← listGet PropTables.menuitemProperties pi
    let pac := Node.propAcc index (.menuItemAcc index (.leaf .menu menuId index) (.leaf .menuItem itemId index)) prop false
    pure (st.addStmt index (assignNode index pac value))
  | "SoundPropertiesOpcode" => objProp .soundChan PropTables.soundProperties st index
  | "AssignSoundPropertiesOpcode" => assignObjProp .soundChan PropTables.soundProperties st index
  | "SpritePropertiesOpcode" => objProp .sprite PropTables.spriteProperties st index
  | "AssignSpritePropertiesOpcode" => assignObjProp .sprite PropTables.spriteProperties st index
  | "SystemPropertiesOpcode" => systemProps st index
  | "AssignSystemPropertiesOpcode" => do
    let st ← systemProps st index
    assignTop st index
  | "NumberOfCastElementsOpcode" => do
    let (optype, st) ← popInt st
    let t ← listGet PropTables.numOfTypes optype
    if t = S "perFrameHook" then
      pure (st.push (.propAcc index (.leaf .localVar (.s (S "_system")) index) (S "perFrameHook") false))
    else pure (st.push (.unaryStr (S "number") index none (.leaf .localVar (.s t) index)))
  | "CastPropertiesOpcode" => objProp .cast PropTables.castProperties st index
  | "AssignCastPropertiesOpcode" => assignObjProp .cast PropTables.castProperties st index
  | "FieldPropertiesOpcode" => do
    let (pi, st) ← popInt st
    let (x, st) ← st.pop
    let prop ← listGet PropTables.castProperties pi
    pure (st.push (.propAcc index (fieldOf index x) prop false))
  | "AssignFieldPropertiesOpcode" => assignObjProp .cast PropTables.castProperties st index
  | "VideoPropertiesOpcode" => objProp .cast PropTables.videoProperties st index
  | "AssignVideoPropertiesOpcode" => assignObjProp .cast PropTables.videoProperties st index
  | "ToListOpcode" => do
    let (x, st) ← st.pop
    pure (st.push (.toList index x))
  | "ToDictionaryOpcode" => do
    let (x, st) ← st.pop
    pure (st.push (.toDict index x))
  | "StringOperationOpcode" => do
    let (x, st) ← st.pop
    let (op, st) ← addModifiers x st index
    pure (st.push op)
  | "HiliteOpcode" => do
    let (x, st) ← st.pop
    let (f, st) ← addModifiers (fieldOf index x) st index
    pure (st.addStmt index (.unary (S "hilite") index f))
  | "PutIntoFieldOpcode" | "PutIntoFieldSpOpcode" => putChunk ctx "field" (S "into") st index
  | "PutAfterFieldOpcode" => putChunk ctx "field" (S "after") st index
  | "PutBeforeFieldOpcode" => putChunk ctx "field" (S "before") st index
  | "PutIntoListOpcode" => putChunk ctx "list" (S "into") st index
  | "PutAfterListOpcode" => putChunk ctx "list" (S "after") st index
  | "PutBeforeListOpcode" => putChunk ctx "list" (S "before") st index
  | "PutIntoStringOpcode" => putChunk ctx "string" (S "into") st index
  | "PutAfterStringOpcode" => putChunk ctx "string" (S "after") st index
  | "PutBeforeStringOpcode" => putChunk ctx "string" (S "before") st index
  | "DeleteFromListOpcode" => deleteChunk ctx "list" st index
  | "DeleteFromStringOpcode" => deleteChunk ctx "string" st index
  | "DeleteFromFieldOpcode" => deleteChunk ctx "field" st index
  | _ => .error .notImpl

/-- `process` of the classes that read `self.param1` -/
def process1 (ctx : Ctx) (info : Opcodes.OpInfo) (p1 : Nat) (index : Int) (st : PState) : R PState :=
  match info.impl with
  | "Int1bOpcode" => .ok (st.push (mkConst (.s (intStr (int1b p1))) index))
  | "LiteralOpcode" => do
    let (st, idx) := recIndex st p1
    let c ← pyGet ctx.constants idx
    pure (st.push (mkConst c index))
  | "SymbolOpcode" => do
    let n ← nameAt ctx p1
    pure (st.push (.sym (.s n) index true))
  | "PropertyOpcode" => do
    let n ← nameAt ctx p1
    pure (st.push (.leaf .propName (.s n) index))
  | "VariableOpcode" => do
    let n ← nameAt ctx p1
    let gv := Node.leaf .globalVar (.s n) index
    pure (if pyIn gv st.gvars ∨ ctx.scriptGlobals.contains n then st.push gv else st.push (.leaf .localVar (.s n) index))
  | "GlobalVariableOpcode" => do
    let n ← nameAt ctx p1
    let gv := Node.leaf .globalVar (.s n) index
    let st := st.push gv
    pure (if pyIn gv st.gvars then st else { st with gvars := st.gvars ++ [gv] })
  | "PropertyNameOpcode" => do
    let n ← nameAt ctx p1
    pure (st.push (.leaf .definedProp (.s n) index))
  | "ParameterNameOpcode" => do
    let (st, idx) := recIndex st p1
    let v ← pyGet ctx.params idx
    let n ← v.name
    pure (st.push (.leaf .paramName n index))
  | "LocalVariableOpcode" => do
    let (st, idx) := recIndex st p1
    let v ← pyGet ctx.localVars idx
    pure (st.push v)
  | "TellPropertyOpcode" => do
    let n ← nameAt ctx p1
    let (ps, st) ← st.pop
    pure (st.addStmt index (.callFn (.s n) index ps true true false .none))
  | "AssignGlobalVariableOpcode" => do
    let n ← nameAt ctx p1
    let gv := Node.leaf .globalVar (.s n) index
    let (r, st) ← st.pop
    let st := st.addStmt index (assignNode index gv r)
    pure (if pyIn gv st.gvars then st else { st with gvars := st.gvars ++ [gv] })
  | "LoadPropertyOpcode" => do
    let n ← nameAt ctx p1
    match dictGet PropTables.knownPropertiesAssign n with
    | .ok owner => pure (st.push (.propAcc index (.leaf .localVar (.s owner) index) n false))
    | .error _ => pure (st.push (.leaf .propName (.s n) index))
  | "AssignPropertyOpcode" => do
    let n ← nameAt ctx p1
    let left : Node :=
      if ctx.props.contains n then .propAcc index (.leaf .node (.s (S "me")) index) n false
      else match dictGet PropTables.knownPropertiesAssign n with
        | .ok owner => .propAcc index (.leaf .localVar (.s owner) index) n false     -- same object as LoadPropertyOpcode reads
        | .error _ => .leaf .propName (.s n) index
    let (r, st) ← st.pop
    pure (st.addStmt index (assignNode index left r))
  | "AssignValToPropertyOpcode" => do
    -- `set the P = v` (opcode 60): the movie / system property, also when the script declares a property of that name (F150)
    let n ← nameAt ctx p1
    let left : Node :=
      match dictGet PropTables.knownPropertiesAssign n with
      | .ok owner => .propAcc index (.leaf .localVar (.s owner) index) n false
      | .error _ => .leaf .propName (.s n) index
    let (r, st) ← st.pop
    pure (st.addStmt index (assignNode index left r))
  | "AssignParameterOpcode" => do
    let (st, idx) := recIndex st p1
    let l ← pyGet ctx.params idx
    let (r, st) ← st.pop
    pure (st.addStmt index (assignNode index l r))
  | "AssignLocalVariableOpcode" => do
    let (st, idx) := recIndex st p1
    let l ← pyGet ctx.localVars idx
    let (r, st) ← st.pop
    pure (st.addStmt index (assignNode index l r))
  | "JumpOpcode" => do
    let stmts ← jumpBack st.stmts index p1
    pure { st with stmts := stmts }
  | "CallLocalOpcode" => do
    let fname ← pyGet ctx.localFuncs p1
    let (ps, st) ← st.pop
    pushOrStmt st index (.callFn (.s fname) index ps true false true .none) ps
  | "CallExternalOpcode" => do
    let fname ← nameAt ctx p1
    let (ps, st) ← st.pop
    pushOrStmt st index (.callFn (.s fname) index ps true false false .none) ps
  | "CallObjectMethodOpcode" => do
    -- the receiver node is looked at before findVarName pops it
    let receiver : Node := if p1 = 1 ∨ p1 = 2 ∨ p1 = 3 then (st.stack.head?).getD .none else .none
    let (fname, st) ← findVarName ctx p1 st
    let (ps, st) ← st.pop
    match ps with
    | .loadList ln lp ops =>
      let ps' := Node.loadList ln lp (clearHashLast ops)
      let op := Node.callFn fname index ps' true false false receiver
      pure (if startsWith ln (S "<") then st.push op else st.addStmt index op)
    | _ => throw Err.type
  | "CallExternalMethodOpcode" => do
    let fname ← nameAt ctx p1
    let (ps, st) ← st.pop
    let inner ← ps.operand
    match inner with
    | .loadList ln lp ops =>
      match ops with
      | [] => throw Err.index
      | obj :: rest =>
        let inner' := Node.loadList ln lp rest
        let op := Node.callMethod (.s fname) index obj inner'
        pure (if startsWith ln (S "<") then st.push op else st.addStmt index op)
    | _ => throw Err.type
  | "PropertyAccesorOpcode" => do
    let prop ← nameAt ctx p1
    let (x, st) ← st.pop
    pure (st.push (.propAcc index x prop true))
  | "AssignPropertyAccesorOpcode" => do
    let (value, st) ← st.pop
    let (node, st) ← st.pop
    let prop ← nameAt ctx p1
    pure (st.addStmt index (assignNode index (.propAcc index node prop true) value))
  | "KeyPropertyAccesorOpcode" => do
    let prop ← nameAt ctx p1
    let (e, st) ← st.pop
    match e with
    | .loadList _ _ [] => pure (st.push (.keyAcc index prop))
    | _ => throw Err.other
  | "CopySymbolOpcode" => do
    -- stack[len - 1 - op1] with Python's negative-index wrap; the stack's LAST element is the head here
    let x ← pyGet st.stack.reverse ((st.stack.length : Int) - 1 - p1)
    pure (st.push x)
  | "DiscardSymbolsOpcode" =>
    if p1 ≤ st.stack.length then .ok { st with stack := st.stack.drop p1 } else .error .index
  | "LoadListOpcode" => do
    let name ← attr info "name"
    if p1 ≤ st.stack.length then
      pure ({ st with stack := st.stack.drop p1 }.push (.loadList name index (st.stack.take p1)))
    else throw Err.index
  | _ => .error .notImpl

/-- `process` of the classes that read `self.param1` and `self.param2` -/
def process2 (ctx : Ctx) (info : Opcodes.OpInfo) (p1 p2 : Nat) (index : Int) (st : PState) : R PState :=
  let long : Int := (p1 * 256 + p2 : Nat)
  match info.impl with
  | "Int2bOpcode" => .ok (st.push (mkConst (.s (intStr (int2b p1 p2))) index))
  | "Literal2Opcode" => do
    let (st, idx) := recIndex st long
    let c ← pyGet ctx.constants idx
    pure (st.push (mkConst c index))
  | "FowardJumpOpcode" => .ok (st.addStmt index (.jump index (index + long)))
  | "ConditionalJumpOpcode" => do
    let (c, st) ← st.pop
    pure (st.addStmt index (.jz index c (index + long)))
  | "LoadLongListOpcode" => do
    let name ← attr info "name"
    let n := p1 * 256 + p2
    if n ≤ st.stack.length then
      pure ({ st with stack := st.stack.drop n }.push (.loadList name index (st.stack.take n)))
    else throw Err.index
  | _ => .error .notImpl

/-- `parse_obj.process(context, stack, fn, index)` for the singleton described by `info`, whose operand registers currently
    hold `p1`, `p2`. Which registers a class reads is part of the model (`readsP1`, `readsP2`). -/
def process (ctx : Ctx) (info : Opcodes.OpInfo) (p1 p2 : Nat) (index : Int) (st : PState) : R PState :=
  if info.impl ∈ readsP2 then process2 ctx info p1 p2 index st
  else if info.impl ∈ readsP1 then process1 ctx info p1 index st
  else process0 ctx info index st

/-! ### parse_opcodes -/

/-- operand registers of the shared singletons: key of `OPCODES` (first opcode byte) ↦ (param1, param2) -/
abbrev Regs := List (Nat × Nat × Nat)

def Regs.get (r : Regs) (k : Nat) : Nat × Nat := (r.lookup k).getD (0, 0)
def Regs.set (r : Regs) (k : Nat) (v : Nat × Nat) : Regs := (k, v) :: r.filter fun e => e.1 ≠ k

/-- two-byte instruction: a two-byte opcode proper (dispatch through BI_OPCODES, no register involved) or an opcode with a
    one-byte operand (`cast(Param1Opcode, parse_obj).param1 = opcode2`). `idxc` points after the first byte. -/
def step2 (ctx : Ctx) (d : Bytes) (opcode : Nat) (info : Opcodes.OpInfo) (idxc index : Int) (regs : Regs) (st : PState) :
    R (Int × Regs × PState) := do
  let opcode2 ← byteAtI d idxc
  if info.kind = "bi" ∨ info.kind = "tri" then
    match Opcodes.biOpcodes.lookup (opcode * 256 + opcode2) with
    | none => .error .key
    | some info2 => do
      let st ← process ctx info2 0 0 index st
      pure (idxc + 1, regs, st)
  else do
    let regs := regs.set opcode (opcode2, (regs.get opcode).2)
    let st ← process ctx info (regs.get opcode).1 (regs.get opcode).2 index st
    pure (idxc + 1, regs, st)

/-- three-byte instruction -/
def step3 (ctx : Ctx) (d : Bytes) (opcode : Nat) (info : Opcodes.OpInfo) (idxc index : Int) (regs : Regs) (st : PState) :
    R (Int × Regs × PState) := do
  let opcode2 ← byteAtI d idxc
  let opcode3 ← byteAtI d (idxc + 1)
  if info.kind = "tri" then
    match Opcodes.triOpcodes.lookup (opcode * 65536 + opcode2 * 256 + opcode3) with
    | none => .error .key
    | some info3 => do
      let st ← process ctx info3 0 0 index st
      pure (idxc + 2, regs, st)
  else do
    let regs := regs.set opcode (opcode2, opcode3)
    let st ← process ctx info (regs.get opcode).1 (regs.get opcode).2 index st
    pure (idxc + 2, regs, st)

/-- one-byte instruction: `process` runs with whatever the singleton's registers hold -/
def step1 (ctx : Ctx) (opcode : Nat) (info : Opcodes.OpInfo) (idxc index : Int) (regs : Regs) (st : PState) :
    R (Int × Regs × PState) := do
  let st ← process ctx info (regs.get opcode).1 (regs.get opcode).2 index st
  pure (idxc, regs, st)

/-- one iteration of the `while (idxc - bc_off) < bc_length` loop: fetch, decode (writing the operand registers), process.
    Returns the new `idxc`. -/
def stepOpcode (ctx : Ctx) (d : Bytes) (idxc : Int) (index : Int) (regs : Regs) (st : PState) : R (Int × Regs × PState) := do
  let opcode ← byteAtI d idxc
  match Opcodes.opcodes.lookup opcode with
  | none => .error .other
  | some info =>
    if info.nbytes = 2 then step2 ctx d opcode info (idxc + 1) index regs st
    else if info.nbytes = 3 then step3 ctx d opcode info (idxc + 1) index regs st
    else step1 ctx opcode info (idxc + 1) index regs st

theorem step1_advance {ctx : Ctx} {opcode : Nat} {info : Opcodes.OpInfo} {idxc index : Int} {regs : Regs} {st : PState}
    {r : Int × Regs × PState} (h : step1 ctx opcode info idxc index regs st = .ok r) : r.1 = idxc := by
  unfold step1 at h
  cases hp : process ctx info (regs.get opcode).1 (regs.get opcode).2 index st with
  | error e => rw [hp] at h; simp [bind, Except.bind] at h
  | ok v => rw [hp] at h; simp [bind, Except.bind, pure, Except.pure] at h; rw [← h]

theorem step2_advance {ctx : Ctx} {d : Bytes} {opcode : Nat} {info : Opcodes.OpInfo} {idxc index : Int} {regs : Regs} {st : PState}
    {r : Int × Regs × PState} (h : step2 ctx d opcode info idxc index regs st = .ok r) : r.1 = idxc + 1 := by
  unfold step2 at h
  cases hb : byteAtI d idxc with
  | error e => rw [hb] at h; simp [bind, Except.bind] at h
  | ok opcode2 =>
    rw [hb] at h
    simp only [bind, Except.bind] at h
    split at h
    · split at h
      · cases h
      · split at h
        · cases h
        · simp only [pure, Except.pure, Except.ok.injEq] at h; rw [← h]
    · split at h
      · cases h
      · simp only [pure, Except.pure, Except.ok.injEq] at h; rw [← h]

theorem step3_advance {ctx : Ctx} {d : Bytes} {opcode : Nat} {info : Opcodes.OpInfo} {idxc index : Int} {regs : Regs} {st : PState}
    {r : Int × Regs × PState} (h : step3 ctx d opcode info idxc index regs st = .ok r) : r.1 = idxc + 2 := by
  unfold step3 at h
  cases hb : byteAtI d idxc with
  | error e => rw [hb] at h; simp [bind, Except.bind] at h
  | ok opcode2 =>
    rw [hb] at h
    simp only [bind, Except.bind] at h
    cases hb3 : byteAtI d (idxc + 1) with
    | error e => rw [hb3] at h; simp at h
    | ok opcode3 =>
      rw [hb3] at h
      simp only at h
      split at h
      · split at h
        · cases h
        · split at h
          · cases h
          · simp only [pure, Except.pure, Except.ok.injEq] at h; rw [← h]
      · split at h
        · cases h
        · simp only [pure, Except.pure, Except.ok.injEq] at h; rw [← h]

/-- every instruction is one to three bytes long: the loop index advances -/
theorem stepOpcode_advance {ctx : Ctx} {d : Bytes} {idxc index : Int} {regs : Regs} {st : PState}
    {r : Int × Regs × PState} (h : stepOpcode ctx d idxc index regs st = .ok r) : r.1 > idxc := by
  unfold stepOpcode at h
  cases hb : byteAtI d idxc with
  | error e => rw [hb] at h; simp [bind, Except.bind] at h
  | ok opcode =>
    rw [hb] at h
    simp only [bind, Except.bind] at h
    split at h
    · cases h
    · split at h
      · have := step2_advance h; omega
      · split at h
        · have := step3_advance h; omega
        · have := step1_advance h; omega

/-- the opcode loop `while (idxc - bc_off) < bc_length`. `idxc` strictly increases (`stepOpcode_advance`). -/
def opcodeLoop (ctx : Ctx) (d : Bytes) (bcOff bcLen : Int) (idxc : Int) (regs : Regs) (st : PState) : R (Regs × PState) :=
  if idxc - bcOff < bcLen then
    match h : stepOpcode ctx d idxc idxc regs st with
    | .error e => .error e
    | .ok r => opcodeLoop ctx d bcOff bcLen r.1 r.2.1 r.2.2
  else .ok (regs, st)
termination_by (bcLen - (idxc - bcOff)).toNat
decreasing_by
  have := stepOpcode_advance h
  omega

/-! ### function records, script -/

structure FrbState where
  bpc : Nat
  tell : Bool
  regs : Regs
  funcs : List FuncDef
  declared : Nat := 0      -- bytes of bytecode and name tables declared by the function records read so far

def localNames (ctx : Ctx) (d : Bytes) (off : Int) : Nat → Nat → R (List Node)
  | 0, _ => .ok []
  | k + 1, nl => do
    let idxl : Int := 2 * nl + off
    let n ← getSI 2 d idxl
    let name ← nameAt ctx n
    let rest ← localNames ctx d off k (nl + 1)
    pure (.leaf .localVar (.s name) idxl :: rest)

/-- parameter names; also reports whether some index was < 0 (`fn.is_method = True`) -/
def paramNames (ctx : Ctx) (d : Bytes) (off : Int) : Nat → Nat → R (List Node × Bool)
  | 0, _ => .ok ([], false)
  | k + 1, nl => do
    let idxl : Int := 2 * nl + off
    let n ← getSI 2 d idxl
    let (node, m) ← if n ≥ 0 then do
        let name ← nameAt ctx n
        pure (Node.leaf .paramName (.s name) idxl, false)
      else pure (Node.leaf .paramName (.s (S "me")) idxl, true)
    let (rest, m') ← paramNames ctx d off k (nl + 1)
    pure (node :: rest, m || m')

/-- the handler's table of global names: `for nl in range(count_c)`, entries that are not valid name indices are skipped -/
def handlerGlobals (ctx : Ctx) (d : Bytes) (off : Int) : Nat → Nat → List Node → R (List Node)
  | 0, _, acc => .ok acc
  | k + 1, nl, acc => do
    let idxl : Int := 2 * nl + off
    let n ← getSI 2 d idxl
    let acc' :=
      if n ≥ 0 ∧ n < (ctx.names.length : Int) then
        let gv := Node.leaf .globalVar (.s (nameOr ctx.names n)) idxl
        if pyIn gv acc then acc else acc ++ [gv]
      else acc
    handlerGlobals ctx d off k (nl + 1) acc'

/-- the fields of one function record block that are used, with the local-variable and parameter name tables -/
structure FrbRec where
  fname : Str
  bcLen : Int
  bcOff : Int
  locals : List Node
  params : List Node
  isMethod : Bool
  globals : List Node      -- the handler's own table of global names (count C entries)
  declared : Nat           -- bytes of bytecode and name tables declared by the records up to and including this one

/-- the straight-line part of one `parse_frb` iteration -/
def readFrb (ctx0 : Ctx) (d : Bytes) (idx : Int) (declared0 : Nat) : R FrbRec := do
  let nameIdx ← getSI 2 d idx
  let _ ← getSI 2 d (idx + 2)
  let bcLen ← getSI 4 d (idx + 4)
  let bcOff ← getSI 4 d (idx + 8)
  let nArg ← getSI 2 d (idx + 12)
  let argOff ← getSI 4 d (idx + 14)
  let nLocal ← getSI 2 d (idx + 18)
  let localOff ← getSI 4 d (idx + 20)
  let countC ← getSI 2 d (idx + 24)
  let globOff ← getSI 4 d (idx + 26)
  let _ ← getSI 4 d (idx + 30)
  let _ ← getSI 2 d (idx + 34)
  let _ ← getSI 2 d (idx + 36)
  let _ ← getSI 4 d (idx + 38)
  -- the regions of different handlers do not overlap: together they fit in the file (F103)
  let declared := declared0 + (bcLen.toNat + 2 * (nLocal.toNat + nArg.toNat + countC.toNat))
  if declared > d.length then throw .value else
  let fname := nameOr ctx0.names nameIdx
  let locals ← localNames ctx0 d localOff nLocal.toNat 0
  let (params, isMethod) ← paramNames ctx0 d argOff nArg.toNat 0
  let globals ← handlerGlobals ctx0 d globOff countC.toNat 0 []
  pure { fname, bcLen, bcOff, locals, params, isMethod, globals, declared }

/-- `parse_opcodes` for one handler: the opcode loop, then condition_detect and loop_detect -/
def parseOpcodes (ctx : Ctx) (d : Bytes) (r : FrbRec) (regs : Regs) (bpc : Nat) (tell : Bool) : R (Regs × PState) := do
  let (regs, st) ← opcodeLoop ctx d r.bcOff r.bcLen r.bcOff regs { bpc := bpc, tell := tell, gvars := r.globals }
  let stmts ← condDetect st.stmts
  let stmts ← loopDetect stmts
  pure (regs, { st with stmts := stmts })

/-- one function record block + its bytecode + condition_detect + loop_detect -/
def parseFunc (ctx0 : Ctx) (d : Bytes) (idx : Int) (fs : FrbState) : R FrbState := do
  let r ← readFrb ctx0 d idx fs.declared
  let ctx := { ctx0 with params := r.params, localVars := r.locals }
  let (regs, st) ← parseOpcodes ctx d r fs.regs fs.bpc fs.tell
  let f : FuncDef := { name := r.fname, pos := idx + 42, params := r.params, localVars := r.locals, globalVars := st.gvars,
                       stmts := st.stmts, isMethod := r.isMethod }
  pure { bpc := st.bpc, tell := st.tell, regs := regs, funcs := fs.funcs ++ [f], declared := r.declared }

def parseFuncs (ctx : Ctx) (d : Bytes) : Nat → Int → FrbState → R FrbState
  | 0, _, fs => .ok fs
  | k + 1, idx, fs => do
    let fs ← parseFunc ctx d idx fs
    parseFuncs ctx d k (idx + 42) fs

/-- everything `parse_lrcr_file_data` reads before the function records -/
structure Container where
  h : Header
  constants : List Name
  bpc : Nat
  factoryName : Str
  props : List Str
  globs : List Str
  lfn : List Str

def readContainer (codec : Codec) (d : Bytes) (names : List Str) : R Container := do
  let h ← parseHeader d
  let (constants, bpc) ← parseCrb codec d h.crbOff h.conOff h.crbN
  let factoryName ← if h.factoryNameIdx ≥ 0 then pyGet names h.factoryNameIdx else pure []
  let props ← if h.grbOff ≠ h.prbOff then nameRecords d names h.prbOff h.grbOff else pure []
  let globs ← if h.frbOff ≠ h.grbOff then nameRecords d names h.grbOff h.frbOff else pure []
  let lfn ← funcNames d names h.frbN.toNat h.frbOff
  pure { h, constants, bpc, factoryName, props, globs, lfn }

/-- `parse_lrcr_file_data(fdata, name_list)` started with the opcode singletons' operand registers `regs`;
    returns the script and the registers afterwards -/
def parseLscrWith (codec : Codec) (regs : Regs) (d : Bytes) (names : List Str) : R (Script × Regs) := do
  let c ← readContainer codec d names
  let ctx : Ctx := { names := names, constants := c.constants, localFuncs := c.lfn, props := c.props, scriptGlobals := c.globs,
                     params := [], localVars := [] }
  let fs ← parseFuncs ctx d c.h.frbN.toNat c.h.frbOff { bpc := c.bpc, tell := false, regs := regs, funcs := [] }
  pure ({ properties := c.props, globalVars := c.globs, functions := fs.funcs, scrNum := c.h.scrNum, contScrNum := c.h.contScrNum,
          factoryName := c.factoryName }, fs.regs)

/-- parse an Lscr chunk with the name table given as an Lnam chunk -/
def parseScriptWith (codec : Codec) (regs : Regs) (lscr lnam : Bytes) : R (Script × Regs) := do
  let names ← parseLnam codec lnam
  parseLscrWith codec regs lscr names

/-- fresh process: every operand register is 0 (`Param1Opcode.__init__`) -/
def parseScript (lscr lnam : Bytes) : R Script := (parseScriptWith .macRoman [] lscr lnam).map (·.1)

end Drx.Lscr
