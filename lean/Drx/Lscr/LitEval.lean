/-
  Spec side of property C11: what a literal in the emitted text DENOTES.
    evalLingoLit   Lingo: string literals have no escape mechanism (a literal runs from `"` to the next `"`), the named
                   constants RETURN TAB QUOTE ENTER BACKSPACE EMPTY, concatenation `&`
    evalJsLit      JavaScript: `new LingoString("…")` with the escapes of ECMAScript string literals
    evalIntLit     decimal integer with optional minus sign
    evalDecimal    decimal floating literal as an exact rational  digits * 10^exp  (sign separately)
  These are readers a user of the output would apply; they are trusted as the meaning of "evaluates to".
-/
import Drx.Lscr.PyStr
namespace Drx.Lscr
open Drx

/-! ### Lingo -/

def lingoNamed : List (Str × Str) :=
  [(S "RETURN", ['\r']), (S "TAB", ['\t']), (S "QUOTE", ['"']), (S "ENTER", [Char.ofNat 3]), (S "BACKSPACE", [Char.ofNat 8]),
   (S "EMPTY", [])]

def isIdentChar (c : Char) : Bool := c.isAlphanum || c = '_'
def isIdentStart (c : Char) : Bool := c.isAlpha || c = '_'

/-- The reference reader of a Lingo literal expression  `term (" & " term)*`  as a scanner, one character at a time.
    `T` a term is expected · `S` inside a string literal (it runs to the next `"`; there is no escape mechanism, a backslash
    is an ordinary character) · `E p` (only used by the proofs, see `escs`) inside an escape sequence · `N acc` inside an
    identifier · `A k` after a term, `k` characters of the separator `" & "` read · `X` not a literal expression. -/
inductive LQ where
  | T | S | E (p : Str) | N (acc : Str) | A (k : Nat) | X
  deriving DecidableEq, Repr

structure LM where
  q : LQ
  out : Str
  deriving DecidableEq, Repr

/-- escape sequences (without the backslash) that `unicode_escape` writes for the characters Lingo names -/
def escTable : List (Str × Char) :=
  [(['x', '0', '8'], Char.ofNat 8), (['x', '0', '3'], Char.ofNat 3), (['r'], '\r'), (['t'], '\t')]

/-- one character. `escs` = escape sequences that are decoded inside string literals: `none` for Lingo itself (the reader the
    property speaks about); `some J` is the reading of the intermediate texts of `replace_chars_with_lingo_constants`, in which
    the sequences in `J` still stand for their characters and every other backslash is an error -/
def lstep (escs : Option (List Str)) (m : LM) (c : Char) : LM :=
  match m.q with
  | .T => if c = '"' then { m with q := .S } else if isIdentStart c then { m with q := .N [c] } else { m with q := .X }
  | .S =>
    if c = '"' then { m with q := .A 0 }
    else match escs with
      | some _ => if c = '\\' then { m with q := .E [] } else { m with out := m.out ++ [c] }
      | none => { m with out := m.out ++ [c] }
  | .E p =>
    match escs with
    | some J =>
      let p' := p ++ [c]
      if p' ∈ J then
        match escTable.lookup p' with
        | some d => { q := .S, out := m.out ++ [d] }
        | none => { m with q := .X }
      else if J.any (fun e => p'.isPrefixOf e) then { m with q := .E p' }
      else { m with q := .X }
    | none => { m with q := .X }
  | .N acc =>
    if isIdentChar c then { m with q := .N (acc ++ [c]) }
    else if c = ' ' then
      match lingoNamed.lookup acc with
      | some v => { q := .A 1, out := m.out ++ v }
      | none => { m with q := .X }
    else { m with q := .X }
  | .A k =>
    if k = 0 ∧ c = ' ' then { m with q := .A 1 }
    else if k = 1 ∧ c = '&' then { m with q := .A 2 }
    else if k = 2 ∧ c = ' ' then { m with q := .T }
    else { m with q := .X }
  | .X => m

def lrun (escs : Option (List Str)) (m : LM) (s : Str) : LM := s.foldl (lstep escs) m

/-- the value if the text ended where a literal expression can end -/
def lfinal (m : LM) : Option Str :=
  match m.q with
  | .A 0 => some m.out
  | .N acc => (lingoNamed.lookup acc).map (m.out ++ ·)
  | _ => none

def linit : LM := { q := .T, out := [] }

/-- value of a Lingo literal expression -/
def evalLingoLit (s : Str) : Option Str := lfinal (lrun none linit s)

/-! The same reader written as a recursive descent over terms; the harness compares the two on every text it evaluates. -/

/-- body of a string literal: everything up to the next `"`; returns (body, text after the closing quote) -/
def lingoStrBody : Str → Option (Str × Str)
  | [] => none
  | c :: rest => if c = '"' then some ([], rest) else (lingoStrBody rest).map fun (b, r) => (c :: b, r)

/-- a named constant at the head of the text (the whole identifier) -/
def lingoNamedAt (s : Str) : Option (Str × Str) :=
  let idn := s.takeWhile isIdentChar
  if (idn.head?.map isIdentStart).getD false then (lingoNamed.lookup idn).map fun v => (v, s.drop idn.length) else none

/-- one operand of `&` -/
def lingoTerm : Str → Option (Str × Str)
  | '"' :: rest => lingoStrBody rest
  | s => lingoNamedAt s

def evalLingoAux : Nat → Str → Option Str
  | 0, _ => none
  | fuel + 1, s =>
    match lingoTerm s with
    | none => none
    | some (v, rest) =>
      if rest = [] then some v
      else if (S " & ").isPrefixOf rest then (evalLingoAux fuel (rest.drop 3)).map (v ++ ·)
      else none

def evalLingoLitRD (s : Str) : Option Str := evalLingoAux (s.length + 1) s

/-! ### JavaScript -/

def hexVal2 (a b : Char) : Option Nat := do
  let x ← hexVal a; let y ← hexVal b; pure (x * 16 + y)

def hexVal4 (a b c d : Char) : Option Nat := do
  let x ← hexVal2 a b; let y ← hexVal2 c d; pure (x * 256 + y)

/-- a UTF-16 code unit as a character (surrogates are outside the modelled values) -/
def unitChar (n : Nat) : Option Char := if 0xD800 ≤ n ∧ n ≤ 0xDFFF then none else mkCharOpt n
where mkCharOpt (n : Nat) : Option Char := if h : n.isValidChar then some (Char.ofNatAux n h) else none

/-- body of a double-quoted ECMAScript string literal: (value, text after the closing quote) -/
def jsStrBody : Str → Option (Str × Str)
  | [] => none
  | '"' :: rest => some ([], rest)
  | '\\' :: 'x' :: a :: b :: rest => do
    let n ← hexVal2 a b; let c ← unitChar n; let (v, r) ← jsStrBody rest; pure (c :: v, r)
  | '\\' :: 'u' :: a :: b :: c :: d :: rest => do
    let n ← hexVal4 a b c d; let ch ← unitChar n; let (v, r) ← jsStrBody rest; pure (ch :: v, r)
  | '\\' :: e :: rest =>
    if e = 'x' ∨ e = 'u' then none                    -- malformed \x / \u
    else if isAsciiDigit e then none                  -- \0 and legacy octal escapes: not produced, not modelled
    else if e = '\n' ∨ e = '\r' then none             -- line continuation: not modelled
    else
      let c : Char := if e = 'n' then '\n' else if e = 'r' then '\r' else if e = 't' then '\t' else if e = 'b' then Char.ofNat 8
        else if e = 'f' then Char.ofNat 12 else if e = 'v' then Char.ofNat 11 else e
      (jsStrBody rest).map fun (v, r) => (c :: v, r)
  | ['\\'] => none
  | c :: rest =>
    if c = '\n' ∨ c = '\r' then none                  -- a line terminator ends the literal: syntax error
    else (jsStrBody rest).map fun (v, r) => (c :: v, r)

/-- value of `new LingoString("…")` -/
def evalJsLit (s : Str) : Option Str :=
  if (S "new LingoString(\"").isPrefixOf s then
    match jsStrBody (s.drop 17) with
    | some (v, rest) => if rest = [')'] then some v else none
    | none => none
  else none

/-! ### numbers -/

def digitsVal : Str → Nat → Option Nat
  | [], acc => some acc
  | c :: cs, acc => if isAsciiDigit c then digitsVal cs (acc * 10 + (c.toNat - 48)) else none

/-- decimal integer literal (`-` for negative numbers, as both languages read it) -/
def evalIntLit (s : Str) : Option Int :=
  match s with
  | '-' :: d :: ds => (digitsVal (d :: ds) 0).map fun n => - (n : Int)
  | d :: ds => (digitsVal (d :: ds) 0).map fun n => (n : Int)
  | [] => none

/-- a decimal floating literal `[-]d+[.d*][e[+-]d+]` as (negative, digits, exponent) meaning ±digits·10^exponent;
    `inf`/`nan` are not literals of either language -/
def evalDecimal (s : Str) : Option (Bool × Nat × Int) :=
  let (neg, s) := match s with | '-' :: r => (true, r) | r => (false, r)
  let ip := s.takeWhile isAsciiDigit
  let r1 := s.dropWhile isAsciiDigit
  let (fp, r2) := match r1 with
    | '.' :: r => (r.takeWhile isAsciiDigit, r.dropWhile isAsciiDigit)
    | r => ([], r)
  if ip = [] then none else
  match digitsVal (ip ++ fp) 0 with
  | none => none
  | some m =>
    match r2 with
    | [] => some (neg, m, - (fp.length : Int))
    | 'e' :: r =>
      let (eneg, ed) := match r with | '-' :: x => (true, x) | '+' :: x => (false, x) | x => (false, x)
      if ed = [] then none else
      (digitsVal ed 0).map fun e => (neg, m, (if eneg then - (e : Int) else (e : Int)) - (fp.length : Int))
    | _ => none

/-! ### the domain on which the Lingo string literal is right (complement of findings F15–F17) -/

/-- a byte that `escape_string` leaves as it is (printable ASCII other than the backslash) or that
    `replace_chars_with_lingo_constants` turns into a named constant (BACKSPACE ENTER RETURN TAB; QUOTE is printable) -/
def lingoSafeByte (b : UInt8) : Bool :=
  let n := b.toNat
  (32 ≤ n && n < 127 && n != 92) || n == 8 || n == 3 || n == 13 || n == 9

def LingoSafe (bs : Bytes) : Prop := ∀ b ∈ bs, lingoSafeByte b = true

instance (bs : Bytes) : Decidable (LingoSafe bs) := by unfold LingoSafe; infer_instance

end Drx.Lscr
