/-
  Python `str` semantics used by the decompiler model (text is `List Char`):
  str(int), int(str), startswith/endswith, find with bounds, replace, rstrip, lower, capitalize,
  the one regular expression of SpAssignOperation.generate_js, list indexing with negative indices.
  Core Lean only.
-/
import Drx.Py
namespace Drx.Lscr
open Drx

abbrev Str := List Char

/-- string literal as text -/
@[inline] def S (s : String) : Str := s.toList

/-! ### numbers -/

def digitChar (n : Nat) : Char := Char.ofNat (48 + n % 10)

def natDigits : Nat → Nat → Str → Str
  | 0, _, acc => acc
  | fuel + 1, n, acc => if n < 10 then digitChar n :: acc else natDigits fuel (n / 10) (digitChar n :: acc)

/-- `str(n)` for a natural number (fuel = n + 1 is always enough: one digit per division by ten) -/
def natStr (n : Nat) : Str := natDigits (n + 1) n []

/-- `str(i)` -/
def intStr (i : Int) : Str :=
  match i with
  | .ofNat n => natStr n
  | .negSucc n => '-' :: natStr (n + 1)

/-- A Python value that is a `str` or an `int` (node names, results of generate_*). -/
inductive Name where
  | s (v : Str)
  | i (v : Int)
  deriving DecidableEq, Repr, Inhabited

/-- `'%s' % x` / `str(x)` -/
def Name.str : Name → Str
  | .s v => v
  | .i v => intStr v

/-- use as a `str` object (method call, `+` with a str): AttributeError/TypeError for an int -/
def Name.asStr : Name → R Str
  | .s v => .ok v
  | .i _ => .error .type

/-- Python `x == 'literal'` -/
def Name.eqS (n : Name) (lit : Str) : Bool := n == Name.s lit

instance : Coe Str Name := ⟨Name.s⟩

/-- characters `str.strip()`/`int()` treat as white space (Py_UNICODE_ISSPACE) -/
def isPySpace (c : Char) : Bool :=
  let n := c.toNat
  (9 ≤ n && n ≤ 13) || (28 ≤ n && n ≤ 32) || n == 0x85 || n == 0xA0 || n == 0x1680 ||
  (0x2000 ≤ n && n ≤ 0x200A) || n == 0x2028 || n == 0x2029 || n == 0x202F || n == 0x205F || n == 0x3000

def isAsciiDigit (c : Char) : Bool := '0' ≤ c && c ≤ '9'

def stripLeft : Str → Str
  | [] => []
  | c :: cs => if isPySpace c then stripLeft cs else c :: cs

/-- `s.rstrip()` -/
def rstrip (s : Str) : Str := (stripLeft s.reverse).reverse

/-- `s.strip()` -/
def strip (s : Str) : Str := rstrip (stripLeft s)

/-- digits with single underscores between digits (`int()` literal syntax); accumulates the value -/
def intDigits : Str → Bool → Nat → Option Nat
  | [], lastDigit, acc => if lastDigit then some acc else none
  | c :: cs, lastDigit, acc =>
    if isAsciiDigit c then intDigits cs true (acc * 10 + (c.toNat - 48))
    else if c = '_' ∧ lastDigit then
      match cs with
      | d :: _ => if isAsciiDigit d then intDigits cs false acc else none
      | [] => none
    else none

/-- `int(s)` for a `str` in base 10 (ValueError → `.value`). Non-ASCII decimal digits are not modelled
    (none is reachable through the mac_roman codec). -/
def pyIntOfStr (s : Str) : R Int :=
  let t := strip s
  let (neg, body) := match t with
    | '-' :: r => (true, r)
    | '+' :: r => (false, r)
    | r => (false, r)
  match body with
  | [] => .error .value
  | c :: _ =>
    if isAsciiDigit c then
      match intDigits body false 0 with
      | some n => .ok (if neg then - (n : Int) else (n : Int))
      | none => .error .value
    else .error .value

/-- `int(x)` for a name -/
def Name.toInt : Name → R Int
  | .i v => .ok v
  | .s v => pyIntOfStr v

/-! ### indexing -/

/-- `l[i]` with Python's negative indices; IndexError otherwise -/
def pyGet (l : List α) (i : Int) : R α :=
  let n : Int := l.length
  let j := if i < 0 then i + n else i
  if j < 0 then .error .index else
  match l[j.toNat]? with
  | some x => .ok x
  | none => .error .index

/-- `l.pop()` on a list whose LAST element is the top: returns (popped, rest) -/
def popLast (l : List α) : R (α × List α) :=
  match l.reverse with
  | [] => .error .index
  | x :: r => .ok (x, r.reverse)

/-! ### searching -/

def startsWith (s p : Str) : Bool := p.isPrefixOf s
def endsWith (s p : Str) : Bool := p.isSuffixOf s

/-- first `k ≥ 0` such that `p` is a prefix of `s.drop k` and `k + p.length ≤ limit`, scanning at most `s.length + 1` positions -/
def findFrom : Str → Str → Nat → Nat → Option Nat
  | s, p, k, limit =>
    if k + p.length > limit then none
    else if p.isPrefixOf s then some k
    else match s with
      | [] => none
      | _ :: t => findFrom t p (k + 1) limit

/-- `s.find(p, a, b)` for non-negative `a`, `b` (returns -1 when absent) -/
def pyFind (s p : Str) (a b : Nat) : Int :=
  let b' := min b s.length
  if a > s.length then -1 else
  match findFrom (s.drop a) p a b' with
  | some k => (k : Int)
  | none => -1

/-- `s.find(p) >= 0`, i.e. `p in s` -/
def contains (s p : Str) : Bool := pyFind s p 0 s.length ≥ 0

/-- `s.replace(old, new)` for a non-empty `old` (left to right, non-overlapping) -/
def replaceAll : Str → Str → Str → Str
  | [], _, _ => []
  | c :: cs, old, new =>
    if old ≠ [] ∧ old.isPrefixOf (c :: cs) then
      -- skip `old`: recursion on a strict suffix
      new ++ replaceAll ((c :: cs).drop old.length) old new
    else c :: replaceAll cs old new
termination_by s => s.length
decreasing_by
  all_goals simp_wf
  · rename_i h
    have : old.length > 0 := by
      cases old with
      | nil => exact absurd rfl h.1
      | cons _ _ => simp
    simp [List.length_drop]; omega

def removePrefix (s p : Str) : Str := if p.isPrefixOf s then s.drop p.length else s

def joinWith (sep : Str) : List Str → Str
  | [] => []
  | [x] => x
  | x :: y :: r => x ++ sep ++ joinWith sep (y :: r)

/-- `'    ' * n` -/
def indentOf (n : Nat) : Str := (List.replicate n (S "    ")).flatten

/-! ### case mapping (ASCII exactly; the non-ASCII characters of the configured codec through a generated table) -/

def asciiLower (c : Char) : Char := if 'A' ≤ c ∧ c ≤ 'Z' then Char.ofNat (c.toNat + 32) else c
def asciiUpper (c : Char) : Char := if 'a' ≤ c ∧ c ≤ 'z' then Char.ofNat (c.toNat - 32) else c

def codesToStr (l : List Nat) : Str := l.map Char.ofNat

/-- `c.lower()` given the generated exception table (code point → code points) -/
def lowerChar (tbl : List (Nat × List Nat)) (c : Char) : Str :=
  if c.toNat < 128 then [asciiLower c] else
  match tbl.lookup c.toNat with
  | some l => codesToStr l
  | none => [c]

def titleChar (tbl : List (Nat × List Nat)) (c : Char) : Str :=
  if c.toNat < 128 then [asciiUpper c] else
  match tbl.lookup c.toNat with
  | some l => codesToStr l
  | none => [c]

/-! ### `re.sub('(field\\([^\\)]+\\))', '\\1.text', s)` -/

/-- length of the longest run of non-`)` characters at the head, and whether a `)` follows it -/
def spanNotClose : Str → Nat × Bool
  | [] => (0, false)
  | c :: cs => if c = ')' then (0, true) else let (n, ok) := spanNotClose cs; (n + 1, ok)

theorem spanNotClose_le (s : Str) : (spanNotClose s).1 ≤ s.length := by
  induction s with
  | nil => simp [spanNotClose]
  | cons c cs ih =>
    unfold spanNotClose
    split
    · simp
    · simp only [List.length_cons]; omega

/-- append `.text` after every leftmost non-overlapping match of `field\([^)]+\)`; also reports whether there was a match -/
def fieldTextSub : Str → Str × Bool
  | [] => ([], false)
  | c :: cs =>
    let s := c :: cs
    if (S "field(").isPrefixOf s then
      let body := s.drop 6
      let r := spanNotClose body
      if r.1 ≥ 1 ∧ r.2 then
        let rest := body.drop (r.1 + 1)
        let (t, _) := fieldTextSub rest
        (S "field(" ++ body.take (r.1 + 1) ++ S ".text" ++ t, true)
      else
        let (t, m) := fieldTextSub cs
        (c :: t, m)
    else
      let (t, m) := fieldTextSub cs
      (c :: t, m)
termination_by s => s.length
decreasing_by
  all_goals simp_wf
  all_goals (try simp [List.length_drop])
  all_goals omega

/-- `fmt % tuple(args)` for format strings made of text, `%s` and `%%` (TypeError on a count mismatch, ValueError on any
    other conversion) -/
def pyFormat : Str → List Str → R Str
  | [], [] => .ok []
  | [], _ :: _ => .error .type
  | '%' :: 's' :: rest, a :: args => (pyFormat rest args).map (a ++ ·)
  | '%' :: 's' :: _, [] => .error .type
  | '%' :: '%' :: rest, args => (pyFormat rest args).map ('%' :: ·)
  | '%' :: _, _ => .error .value
  | c :: rest, args => (pyFormat rest args).map (c :: ·)

end Drx.Lscr
