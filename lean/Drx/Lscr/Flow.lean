/-
  Control-flow reconstruction: opcodes/jump_op.py (JumpOpcode.process), opcodes/tell_op.py (WindowTellEndOpcode.process),
  parse/loop_detection.py (condition_detect, break_detect_in_statements, loop_detect, is_repeat_*).

  The Python works by in-place list surgery (`statements.remove(st)` = remove the first element that is `==`, i.e. the first
  Statement with the same position; `statements[index].code = ifop`); here every list is a value and the rewrites are explicit.

  Recursion scheme of `condDetect`:
   * into the body of a nested repeat: the first argument (nesting depth of repeat bodies, `cdDepthL`) decreases;
   * into a freshly built if list or else list: same depth, the list is shorter than the list being processed — this is tested
     (`if h : … < n`), because proving it needs the invariant that the jz being processed is still in the list
     (positions in a statement list are strictly increasing). If the test failed the model returns an error; the
     correspondence check would show it.
-/
import Drx.Lscr.GenLingo
namespace Drx.Lscr
open Drx

/-! ### JumpOpcode.process (backward jump = loop) -/

def stmtPos? : Node → R Int
  | .stmt p _ => .ok p
  | _ => .error .type

/-- `JumpOpcode.process`: statements at or after `start_index` become the body of a `repeat while TRUE` -/
def jumpBack (stmts : List Node) (index : Int) (op1 : Nat) : R (List Node) := do
  let startIndex := index - op1
  let body := stmts.filter fun s => s.pos ≥ startIndex
  let rest ← pyRemoveAll stmts body
  let ro := Node.repeat_ startIndex index (.leaf .const (.s (S "TRUE")) startIndex) body (S "while") .none (.s []) [] .none
  pure (rest ++ [.stmt index ro])

/-! ### WindowTellEndOpcode.process -/

/-- is the statement a tell block that has not been closed yet? -/
def isOpenTell : Node → Bool
  | .stmt _ (.tell _ _ _ closed) => !closed
  | _ => false

/-- split at the last statement whose code is a WindowTellOperation that is still open: (before, tell statement, after) -/
def splitLastTell : List Node → Option (List Node × Node × List Node)
  | [] => none
  | x :: r =>
    match splitLastTell r with
    | some (b, t, a) => some (x :: b, t, a)
    | none => if isOpenTell x then some ([], x, r) else none

/-- `WindowTellEndOpcode.process`: the new statement list and whether a tell block is still open afterwards
    (`context.tell_object is not None`) -/
def tellEnd (stmts : List Node) : R (List Node × Bool) := do
  -- every element must be a Statement (`st.code`)
  let _ ← stmts.mapM stmtPos?
  let stmts' ← match splitLastTell stmts with
    | none =>
      -- no open tell found: `statements` is the whole (reversed) list and every statement is removed
      pyRemoveAll stmts stmts.reverse
    | some (before, .stmt tp (.tell p operand inner _), after) =>
      let moved := inner ++ after
      pyRemoveAll (before ++ [.stmt tp (.tell p operand moved true)] ++ after) moved
    | some _ => .error .other
  pure (stmts', stmts'.any isOpenTell)

/-! ### break_detect_in_statements -/

def exitRepeatStmt (pos : Int) : Node := .stmt pos (.leaf .exitRepeat (.s (S "exit repeat")) pos)

def breakDetect (stmts : List Node) (roEnd : Option Int) : R (List Node) :=
  match roEnd with
  | none => .ok stmts
  | some e =>
    if stmts.length < 2 then .ok stmts else
    match stmts.reverse with
    | elseJump :: lastSt :: revInit =>
      match lastSt with
      | .stmt _ (.jump jpos jaddr) =>
        if e < jaddr then .ok (revInit.reverse ++ [exitRepeatStmt jpos, elseJump]) else .ok stmts
      | .stmt _ _ => .ok stmts
      | _ => .error .type
    | _ => .ok stmts

theorem breakDetect_length (stmts : List Node) (roEnd : Option Int) (l : List Node) (h : breakDetect stmts roEnd = .ok l) :
    l.length = stmts.length := by
  unfold breakDetect at h
  split at h
  · cases h; rfl
  · split at h
    · cases h; rfl
    · split at h
      · rename_i elseJump lastSt revInit hrev
        have hl : stmts.length = revInit.length + 2 := by
          have := congrArg List.length hrev
          simp at this; omega
        split at h
        · split at h
          · cases h; simp; omega
          · cases h; rfl
        · cases h; rfl
        · cases h
      · cases h; rfl

/-! ### condition_detect_in_statements -/

-- nesting depth of repeat bodies in a statement list (the recursion `condition_detect` makes through `ro.statements_list`)
mutual
  def cdDepth : Node → Nat
    | .stmt _ (.repeat_ _ _ _ body _ _ _ _ _) => 1 + cdDepthL body
    | .stmt _ (.tell _ _ inner _) => 1 + cdDepthL inner
    | _ => 0
  def cdDepthL : List Node → Nat
    | [] => 0
    | x :: r => max (cdDepth x) (cdDepthL r)
end

structure ScanSt where
  address : Option Int := none
  prev : Option Node := none
  inElse : Bool := false
  jzs : List Node := []

/-- one iteration of the first loop of condition_detect_in_statements (after the nested-repeat call) -/
def scanStep (roEnd : Option Int) (s : ScanSt) (st : Node) : R ScanSt :=
  match st with
  | .stmt pos code =>
    if (match s.address with | some a => decide (pos < a) | none => false) then .ok { s with prev := some st }
    else
      let s := if s.inElse then { s with prev := none, address := none, inElse := false } else s
      match s.prev with
      | some (.stmt _ (.jump _ addr)) => .ok { s with address := some addr, inElse := true }
      | some (.stmt _ _) | none =>
        match code with
        | .jz _ _ addr =>
          let address := match roEnd with
            | some e => if e < addr then none else some addr
            | none => some addr
          .ok { s with address := address, jzs := s.jzs ++ [code] }
        | _ => .ok s
      | some _ => .error .type
  | _ => .error .type

/-- the `for index in range(len(statements))` scan of the "normal if part": replace the code of every statement whose
    code `== op` by `ph`, collect the statements with `start ≤ position < end`, stop at the first with `position ≥ end` -/
def ifScan (op ph : Node) (start stop : Int) : List Node → R (List Node × List Node)
  | [] => .ok ([], [])
  | st :: rest =>
    match st with
    | .stmt pos code =>
      if code.pyEq op then do
        let (l, c) ← ifScan op ph start stop rest
        pure (.stmt pos ph :: l, c)
      else
        let inRange := start ≤ pos ∧ pos < stop
        if pos ≥ stop then .ok (st :: rest, if inRange then [st] else [])
        else do
          let (l, c) ← ifScan op ph start stop rest
          pure (st :: l, if inRange then st :: c else c)
    | _ => .error .type

/-- the scan of the "normal else part": statements with `start < position < end`, stop at the first with `position ≥ end` -/
def elseScan (start stop : Int) : List Node → List Node
  | [] => []
  | st :: rest =>
    let pos := st.pos
    let c := if start < pos ∧ pos < stop then [st] else []
    if pos ≥ stop then c else c ++ elseScan start stop rest

/-- exit-repeat-in-if-part: replace the code of the FIRST statement whose code `== op` -/
def replaceFirstCode (op new : Node) : List Node → R (List Node)
  | [] => .ok []
  | st :: rest =>
    match st with
    | .stmt pos code =>
      if code.pyEq op then .ok (.stmt pos new :: rest)
      else (replaceFirstCode op new rest).map (st :: ·)
    | _ => .error .type

/-- put the finished if-then node where its placeholder (same position, empty lists) sits -/
def finalizeIf (opos : Int) (final : Node) (l : List Node) : List Node :=
  l.map fun st =>
    match st with
    | .stmt p (.ifThen q _ [] []) => if q = opos then .stmt p final else st
    | _ => st

def isRepeatStmt : Node → Bool
  | .stmt _ (.repeat_ ..) => true
  | _ => false

def isTellStmt : Node → Bool
  | .stmt _ (.tell ..) => true
  | _ => false

/-- a statement whose own statement list `condition_detect_in_statements` recurses into -/
def isNestStmt (x : Node) : Bool := isRepeatStmt x || isTellStmt x

mutual
  /-- `condition_detect_in_statements(statements, repeat_op)`; `roEnd` = `repeat_op.end_position` -/
  def condDetectD (d : Nat) (stmts : List Node) (roEnd : Option Int) : R (List Node) := do
    -- first loop, part 1: nested repeats and tell blocks
    let stmts1 ← match hd : d with
      | 0 => if stmts.any isNestStmt then (.error .other : R (List Node)) else pure stmts
      | d' + 1 => stmts.mapM fun st =>
          match st with
          | .stmt p (.repeat_ rp re c body t s v sg vr) => do
            let body' ← condDetectD d' body (some re)
            pure (.stmt p (.repeat_ rp re c body' t s v sg vr))
          | .stmt p (.tell tp operand inner closed) => do       -- a tell block has its own conditions (same enclosing loop)
            let inner' ← condDetectD d' inner roEnd
            pure (.stmt p (.tell tp operand inner' closed))
          | x => pure x
    -- first loop, part 2: which jz operations are handled at this level
    let sc ← stmts1.foldlM (scanStep roEnd) {}
    -- second loop
    condJzs d stmts.length sc.jzs stmts1 roEnd
  termination_by (d, stmts.length + 1, 0)
  decreasing_by
    all_goals simp_wf
    all_goals first
      | exact Prod.Lex.left _ _ (by omega)
      | exact Prod.Lex.right _ (Prod.Lex.left _ _ (by omega))

  /-- the loop `for op in jzOperations` on the statement list `stmts`; `n` bounds the length of the lists recursed on -/
  def condJzs (d n : Nat) (jzs : List Node) (stmts : List Node) (roEnd : Option Int) : R (List Node) :=
    match jzs with
    | [] => .ok stmts
    | op :: restJz =>
      match op with
      | .jz opos cond addr => do
        let exitIf := match roEnd with | some e => decide (e < addr) | none => false
        if exitIf then do
          let ifop := Node.ifThen opos (.unary (S "not") opos cond) [exitRepeatStmt opos] []
          let stmts' ← replaceFirstCode op ifop stmts
          condJzs d n restJz stmts' roEnd
        else do
          let ph := Node.ifThen opos cond [] []
          let (stmts1, coll) ← ifScan op ph opos addr stmts
          let stmts2 ← pyRemoveAll stmts1 coll
          let ifl0 ← breakDetect coll roEnd
          if h : ifl0.length < n then do
            let ifl ← condDetectD d ifl0 roEnd
            -- `last_idx >= 0 and isinstance(…, JumpOperation)` (F133): an empty if-list has no else jump
            if ifl.isEmpty then
              condJzs d n restJz (finalizeIf opos (.ifThen opos cond ifl []) stmts2) roEnd
            else do
              let last ← pyGet ifl (-1)
              match last with
              | .stmt _ (.jump jpos jaddr) =>
                let exitElse := match roEnd with | some e => decide (e < jaddr) | none => false
                if exitElse then
                  let ifl' := ifl.dropLast ++ [exitRepeatStmt jpos]
                  condJzs d n restJz (finalizeIf opos (.ifThen opos cond ifl' []) stmts2) roEnd
                else do
                  let ecoll := elseScan jpos jaddr stmts2
                  let stmts3 ← pyRemoveAll stmts2 ecoll
                  let ifl' := ifl.dropLast
                  let el0 ← breakDetect ecoll roEnd
                  if h2 : el0.length < n then do
                    let el ← condDetectD d el0 roEnd
                    condJzs d n restJz (finalizeIf opos (.ifThen opos cond ifl' el) stmts3) roEnd
                  else .error .other
              | .stmt _ _ =>
                condJzs d n restJz (finalizeIf opos (.ifThen opos cond ifl []) stmts2) roEnd
              | _ => .error .type
          else .error .other
      | _ => .error .other
  termination_by (d, n, jzs.length)
  decreasing_by
    all_goals simp_wf
    · exact Prod.Lex.right _ (Prod.Lex.right _ (by simp))
    · apply Prod.Lex.right
      by_cases hh : ifl0.length + 1 < n
      · exact Prod.Lex.left _ _ hh
      · have : ifl0.length + 1 = n := by omega
        rw [this]; exact Prod.Lex.right _ (by simp)
    · exact Prod.Lex.right _ (Prod.Lex.right _ (by simp))
    · exact Prod.Lex.right _ (Prod.Lex.right _ (by simp))
    · apply Prod.Lex.right
      by_cases hh : el0.length + 1 < n
      · exact Prod.Lex.left _ _ hh
      · have : el0.length + 1 = n := by omega
        rw [this]; exact Prod.Lex.right _ (by simp)
    · exact Prod.Lex.right _ (Prod.Lex.right _ (by simp))
    · exact Prod.Lex.right _ (Prod.Lex.right _ (by simp))
end

/-- `condition_detect(fn)` -/
def condDetect (stmts : List Node) : R (List Node) := condDetectD (cdDepthL stmts) stmts none

/-! ### loop_detect -/

theorem Node.weight_pos (x : Node) : 0 < x.weight := by
  cases x <;> simp [Node.weight] <;> omega

theorem weightList_drop_le (l : List Node) (k : Nat) : weightList (l.drop k) ≤ weightList l := by
  induction l generalizing k with
  | nil => simp [weightList]
  | cons x xs ih =>
    cases k with
    | zero => simp
    | succ k => simp only [List.drop_succ_cons, weightList]; have := ih k; omega

theorem weightList_dropLast_le (l : List Node) : weightList l.dropLast ≤ weightList l := by
  induction l with
  | nil => simp [weightList]
  | cons x xs ih =>
    cases xs with
    | nil => simp [weightList]
    | cons y ys => simp only [List.dropLast_cons₂, weightList] at *; omega

/-- fields of a RepeatOperation while loop_detect rewrites it -/
structure Ro where
  pos : Int
  endPos : Int
  cond : Node
  stmts : List Node
  type : Str
  start : Node
  varname : Name
  sign : Str
  loopVar : Node

def Ro.toNode (r : Ro) : Node := .repeat_ r.pos r.endPos r.cond r.stmts r.type r.start r.varname r.sign r.loopVar

/-- `is_repeat_while(ro)` together with the rewrite that follows it -/
def repeatWhile (r : Ro) : R Ro :=
  match r.stmts with
  | [] => .ok r
  | st :: rest =>
    match st with
    | .stmt _ (.ifThen _ (.unary op _ operand) [only] []) =>
      match only with
      | .stmt _ (.leaf .exitRepeat _ _) =>
        if op = S "not" then .ok { r with cond := operand, stmts := rest } else .ok r
      | .stmt _ _ => .ok r
      | _ => .error .type
    | .stmt _ _ => .ok r
    | _ => .error .type

/-- `is_repeat_with(ro, previous_st)`: the (varname, start) to use if it is one -/
def isRepeatWith (r : Ro) (prev : Option Node) : R Bool :=
  match prev with
  | none => .ok false
  | some (.stmt _ (.binary pop _ pleft _)) =>
    if pop ≠ S "assign" then .ok false else do
      let varname1 ← pleft.name
      match r.cond with
      | .binary cname _ cleft _ => do
        let varname2 ← cleft.name
        if varname1 ≠ varname2 then pure false else
        match r.stmts.reverse with
        | [] => pure false
        | st :: _ =>
          match st with
          | .stmt _ (.binary lop _ lleft lright) =>
            if lop ≠ S "assign" then pure false else do
              let varname3 ← lleft.name
              if varname1 ≠ varname3 then pure false else
              match lright with
              | .binary iop _ ileft iright => do
                let rn ← iright.name
                if rn ≠ varname3 ∨ iop ≠ S "add" then pure false else
                -- the step is the constant 1 (to, while v <= end) or -1 (down to, while v >= end)   (F134, F135)
                match ileft with
                | .leaf .const sn _ =>
                  if sn == Name.s (S "1") then pure (cname == S "lte")
                  else if sn == Name.s (S "-1") then pure (cname == S "gte")
                  else pure false
                | _ => pure false
              | _ => pure false
          | .stmt _ _ => pure false
          | _ => .error .type
      | _ => pure false
  | some (.stmt _ _) => .ok false
  | some _ => .error .type

/-- the rewrite after a positive `is_repeat_with` -/
def applyRepeatWith (r : Ro) (prev : Node) : R Ro :=
  match prev, r.stmts.reverse with
  | .stmt _ (.binary _ _ pleft pright), (.stmt _ (.binary _ _ _ (.binary _ _ increment _))) :: _ => do
    let varname ← pleft.name
    let sign : Str := match increment with
      | .leaf .const n _ => if n == Name.s (S "-1") then S "-" else S "+"
      | _ => S "+"
    pure { r with type := S "for", varname := varname, loopVar := pleft, start := pright, sign := sign, stmts := r.stmts.dropLast }
  | _, _ => .error .other

/-- `x.operands` -/
def Node.operands : Node → R (List Node)
  | .loadList _ _ ops => .ok ops
  | _ => .error .type

/-- `is_repeat_with_in_list(ro)` -/
def isRepeatWithIn (r : Ro) : R Bool :=
  match r.cond with
  | .binary _ _ (.leaf .const index ipos) (.callFn cname _ cpar _ _ _ _) =>
    if index ≠ Name.s (S "1") ∨ cname ≠ Name.s (S "count") then .ok false else
    match r.stmts with
    | [] => .ok false
    | st :: _ =>
      match st with
      | .stmt _ (.binary fop _ _ fright) =>
        if fop ≠ S "assign" then .ok false else
        match fright with
        | .callFn aname _ apar _ _ _ _ =>
          if aname ≠ Name.s (S "getAt") then .ok false else do
            let cops ← cpar.operands
            let aops ← apar.operands
            let c0 ← pyGet cops 0
            let a1 ← pyGet aops 1
            if !(c0.pyEq a1) then pure false else do
              let a0 ← pyGet aops 0
              pure (a0.pyEq (.leaf .const index ipos))      -- the getAt index is the loop's own counter (F136)
        | _ => .ok false
      | .stmt _ _ => .ok false
      | _ => .error .type
  | _ => .ok false

def applyRepeatWithIn (r : Ro) : R Ro :=
  match r.stmts with
  | (.stmt _ (.binary _ _ fleft (.callFn _ _ apar _ _ _ _))) :: rest => do
    let varname ← fleft.name
    let aops ← apar.operands
    let start ← pyGet aops 1
    pure { r with type := S "for_in", varname := varname, loopVar := fleft, start := start, stmts := rest }
  | _ => .error .other

/-- the three recognisers in sequence; returns the rewritten loop and whether the previous statement is to be removed -/
def rewriteRepeat (r : Ro) (prev : Option Node) : R (Ro × Bool) := do
  let r1 ← repeatWhile r
  let isWith ← isRepeatWith r1 prev
  let (r2, rm) ← if isWith then
      match prev with
      | some p => do let r2 ← applyRepeatWith r1 p; pure (r2, true)
      | none => .error .other
    else pure (r1, false)
  let isIn ← isRepeatWithIn r2
  let r3 ← if isIn then applyRepeatWithIn r2 else pure r2
  pure (r3, rm)

mutual
  /-- `loop_detect_in_statements(statements)` -/
  def loopDetect (stmts : List Node) : R (List Node) := do
    let (l, rem) ← loopWalk stmts none
    pyRemoveAll l rem
  termination_by (weightList stmts, 1)
  decreasing_by exact Prod.Lex.right _ (by omega)

  /-- the `for st in statements` loop: (rewritten statements, to_remove) -/
  def loopWalk (stmts : List Node) (prev : Option Node) : R (List Node × List Node) :=
    match stmts with
    | [] => .ok ([], [])
    | st :: rest =>
      match st with
      | .stmt p (.repeat_ rp re c body t s v sg vr) => do
        let (r, rm) ← rewriteRepeat { pos := rp, endPos := re, cond := c, stmts := body, type := t, start := s, varname := v, sign := sg, loopVar := vr } prev
        if h : weightList r.stmts ≤ weightList body then do
          let body' ← loopDetect r.stmts
          let st' := Node.stmt p ({ r with stmts := body' } : Ro).toNode
          let (l, rem) ← loopWalk rest (some st')
          let rem0 := match rm, prev with | true, some pst => [pst] | _, _ => []
          pure (st' :: l, rem0 ++ rem)
        else .error .other
      | .stmt p (.ifThen ip c ifs elses) => do
        let ifs' ← loopDetect ifs
        let elses' ← loopDetect elses
        let st' := Node.stmt p (.ifThen ip c ifs' elses')
        let (l, rem) ← loopWalk rest (some st')
        pure (st' :: l, rem)
      | .stmt p (.tell tp operand inner closed) => do
        let inner' ← loopDetect inner
        let st' := Node.stmt p (.tell tp operand inner' closed)
        let (l, rem) ← loopWalk rest (some st')
        pure (st' :: l, rem)
      | .stmt _ _ => do
        let (l, rem) ← loopWalk rest (some st)
        pure (st :: l, rem)
      | _ => .error .type
  termination_by (weightList stmts, 0)
  decreasing_by
    all_goals simp_wf
    all_goals simp only [weightList, Node.weight]
    all_goals first
      | exact Prod.Lex.left _ _ (by omega)
      | (have := Node.weight_pos st; exact Prod.Lex.left _ _ (by simp only [weightList, Node.weight] at *; omega))
end

end Drx.Lscr
