/-
  Constants of a Lingo script (property C11):
    parse_lrcr_crb            -> `parseCrb`
    util.escape_string        -> `escapeString`  ('"' + s.encode('unicode_escape').decode('ascii') + '"')
    util.unpack_float80       -> `unpackFloat80` (after the F19 sign repair)
    Int1bOpcode / Int2bOpcode -> `int1b`, `int2b`
    ConstantValue.generate_lingo / replace_chars_with_lingo_constants / generate_js -> `constLingo`, `replaceCharsWithLingoConstants`, `constJs`
  Tables come from Drx/Gen/PropTables.lean (PREDEFINED_CONSTANTS, REPLACEMENT_CONSTANTS, dict order).
-/
import Drx.Codec
import Drx.Lscr.Float
import Drx.Gen.PropTables
namespace Drx.Lscr
open Drx

/-! ### integer/slice helpers with Python's (possibly negative) offsets -/

/-- `struct.unpack('>h'|'>i', d[off:off+k])[0]` for an arbitrary integer offset -/
def getSI (k : Nat) (d : Bytes) (off : Int) : R Int := unpackS .be k (pySlice d off (off + k))

def getUI (k : Nat) (d : Bytes) (off : Int) : R Nat := unpackU .be k (pySlice d off (off + k))

/-- `int(d[i])` -/
def byteAtI (d : Bytes) (i : Int) : R Nat := (pyGet d i).map UInt8.toNat

/-! ### escape_string -/

def hex2 (n : Nat) : Str := [hexDigit (n / 16 % 16), hexDigit (n % 16)]
def hex4l (n : Nat) : Str := [hexDigit (n / 4096 % 16), hexDigit (n / 256 % 16), hexDigit (n / 16 % 16), hexDigit (n % 16)]
def hex8l (n : Nat) : Str := hex4l (n / 65536) ++ hex4l (n % 65536)

/-- one character under the `unicode_escape` codec -/
def unicodeEscapeChar (c : Char) : Str :=
  let n := c.toNat
  if c = '\\' then ['\\', '\\']
  else if c = '\t' then ['\\', 't']
  else if c = '\n' then ['\\', 'n']
  else if c = '\r' then ['\\', 'r']
  else if 32 ≤ n ∧ n < 127 then [c]
  else if n < 256 then '\\' :: 'x' :: hex2 n
  else if n < 65536 then '\\' :: 'u' :: hex4l n
  else '\\' :: 'U' :: hex8l n

def unicodeEscape (s : Str) : Str := s.flatMap unicodeEscapeChar

/-- `escape_string(strval)` -/
def escapeString (s : Str) : Str := '"' :: (unicodeEscape s ++ ['"'])

/-! ### inline integers -/

/-- Int1bOpcode: `v = param1; if v > 127: v -= 256; str(v)` -/
def int1b (p1 : Nat) : Int := if p1 > 127 then (p1 : Int) - 256 else p1

/-- Int2bOpcode -/
def int2b (p1 p2 : Nat) : Int :=
  let v := p1 * 256 + p2
  if v > 32767 then (v : Int) - 65536 else v

/-! ### unpack_float80 -/

/-- the double `m = (q*2.0)/(1<<64)` and then `m * pow(2, k)` as CPython computes them; `.error .overflow` where
    `m * 2**k` converts an int above the double range -/
def float80Value (q : Nat) (k : Int) : R Dbl :=
  -- q -> float (round half even), *2.0 and /2^64 are exact
  match roundDbl q 0 with
  | .inf => .error .overflow   -- unreachable: q < 2^64
  | .fin m e =>
    let me : Int := e + 1 - 64
    if k ≥ 0 then
      -- pow(2, k) is an int; int -> float conversion fails above the double range
      if k > 1023 then .error .overflow
      else .ok (roundDbl m (me + k))
    else
      -- pow(2, k) is a float: 0.0 once below the smallest denormal
      if k < -1074 then .ok (.fin 0 (-1074))
      else .ok (roundDbl m (me + k))

/-- `unpack_float80(b)` -/
def unpackFloat80 (b : Bytes) : R Str := do
  let e ← unpackU .be 2 (pySlice b 0 2)
  let q ← unpackU .be 8 (pySlice b 2 10)
  let neg := e ≥ 0x8000
  let e' := if neg then e - 0x8000 else e
  let v ← float80Value q ((e' : Int) - 16383)
  pure ((if neg then ['-'] else []) ++ reprDbl false v)

/-! ### parse_lrcr_crb -/

structure CrbState where
  idx : Int
  bpc : Nat
  acc : List Name
  declared : Nat := 0      -- bytes of constant data declared by the records read so far (length words included)

/-- one iteration of the `for i in range(crb_nconstants)` loop -/
def crbStep (codec : Codec) (d : Bytes) (conOff : Int) (st : CrbState) : R CrbState := do
  let (ctype, idx1, bpc1) ←
    if st.bpc = 8 then do
      let t ← getSI 4 d st.idx
      pure (t, st.idx + 4, st.bpc)
    else do
      let t ← getSI 2 d st.idx
      if t = 0 then do
        let t2 ← getSI 2 d (st.idx + 2)
        pure (t2, st.idx + 4, 8)
      else pure (t, st.idx + 2, st.bpc)
  let coff ← getSI 4 d idx1
  let idx2 := idx1 + 4
  if ctype = 1 then do
    let idxc := conOff + coff
    let len ← getSI 4 d idxc
    let strlength := len - 1
    let idxc := idxc + 4
    -- the data of different constants do not overlap: together they fit in the file (F104); what counts is the bytes the slice
    -- really takes (F161: a negative length makes the slice end count from the end of the file)
    let strdata := pySlice d idxc (idxc + strlength)
    let declared := st.declared + (4 + strdata.length)
    if declared > d.length then throw .value else
    let s ← decodeText codec strdata
    pure { idx := idx2, bpc := bpc1, acc := st.acc ++ [Name.s (escapeString s)], declared := declared }
  else if ctype = 4 then
    pure { idx := idx2, bpc := bpc1, acc := st.acc ++ [Name.s (intStr coff)], declared := st.declared }
  else if ctype = 9 then do
    let idxc := conOff + coff
    let flen ← getSI 4 d idxc
    let idxc := idxc + 4
    let fdata := pySlice d idxc (idxc + flen)
    let declared := st.declared + (4 + fdata.length)
    if declared > d.length then throw .value else
    let f ← unpackFloat80 fdata
    pure { idx := idx2, bpc := bpc1, acc := st.acc ++ [Name.s f], declared := declared }
  else .error .value

def crbLoop (codec : Codec) (d : Bytes) (conOff : Int) : Nat → CrbState → R CrbState
  | 0, st => .ok st
  | n + 1, st => (crbStep codec d conOff st).bind (crbLoop codec d conOff n)

/-- `parse_lrcr_crb`: (constants, header.bytes_per_constant) -/
def parseCrb (codec : Codec) (d : Bytes) (crbOff conOff nconst : Int) : R (List Name × Nat) := do
  let st ← crbLoop codec d conOff nconst.toNat { idx := crbOff, bpc := 6, acc := [] }
  pure (st.acc, st.bpc)

/-! ### ConstantValue -/

def predefinedConstants : List (Str × Str) := Gen.PropTables.predefinedConstants.map fun (k, v) => (k.toList, v.toList)
def replacementConstants : List (Str × Str) := Gen.PropTables.replacementConstants.map fun (k, v) => (k.toList, v.toList)

/-- body of the `while pos > 0` loop for a match at `p`: the rewritten text and the index where the search resumes -/
def replStep (k v n : Str) (p : Nat) : Str × Nat :=
  let start := n.take p
  let end_ := n.drop (p + v.length)
  let c1 := endsWith start (S "& \"")
  let start' := if c1 then start.take (start.length - 1) else start ++ S "\" & "
  let idx2 := if c1 then start.length - 1 else start.length + 4
  let idx3 := idx2 + k.length
  let c2 := end_ = S "\""
  let end' := if c2 then [] else S " & \"" ++ end_
  let idx4 := if c2 then idx3 else idx3 + 4
  (start' ++ k ++ end', idx4)

/-- progress: what is left to scan after the resumption point is shorter than what was left before -/
theorem replStep_dec (k v n : Str) (p idx : Nat) (h1 : idx ≤ p) (h2 : p + v.length ≤ n.length) (h3 : 0 < v.length) :
    (replStep k v n p).1.length - (replStep k v n p).2 < n.length - idx := by
  unfold replStep
  simp only [List.length_append, List.length_take, List.length_drop]
  split <;> split <;> simp [S] <;> omega

/-- the `while pos > 0` loop for one `(k, v)`; `pos` is the position just found.
    The `if h : …` test restates what `str.find` guarantees (idx ≤ pos, the match lies inside n, v non-empty) and makes
    the progress argument explicit (`replStep_dec`). -/
def replLoop (k v : Str) (n : Str) (idx : Nat) (pos : Int) : Str :=
  if pos > 0 then
    let p := pos.toNat
    if h : idx ≤ p ∧ p + v.length ≤ n.length ∧ 0 < v.length then
      let r := replStep k v n p
      replLoop k v r.1 r.2 (pyFind r.1 v r.2 (r.1.length - 1))
    else n
  else n
termination_by n.length - idx
decreasing_by exact replStep_dec k v n _ idx h.1 h.2.1 h.2.2

/-- `replace_chars_with_lingo_constants(n)` -/
def replaceCharsWithLingoConstants (n : Str) : Str :=
  replacementConstants.foldl (fun n (k, v) => replLoop k v n 1 (pyFind n v 1 (n.length - 1))) n

/-- `ConstantValue.generate_lingo` -/
def constLingo (name : Name) : Name :=
  match name with
  | .i v => .i v
  | .s n =>
    match predefinedConstants.lookup n with
    | some c => .s c
    | none => if startsWith n ['"'] then .s (replaceCharsWithLingoConstants n) else .s n

/-- `ConstantValue.generate_js` -/
def constJs (name : Name) : Name :=
  match name with
  | .i v => .i v
  | .s n =>
    if startsWith n ['"'] then
      let body := slice n 1 (n.length - 1)
      .s (S "new LingoString(\"" ++ replaceAll body ['"'] ['\\', '"'] ++ S "\")")
    else .s n

end Drx.Lscr
