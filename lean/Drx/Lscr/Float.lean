/-
  CPython float arithmetic needed by `unpack_float80` and `'%s' % float` (= `repr(float)`), done exactly over `Nat`/`Int`:
  int → double (round half even), multiplication by a power of two with gradual underflow, and the shortest
  round-tripping decimal (David Gay's mode 0, as used by `float_repr`) with Python's choice between fixed and
  exponent notation. A finite non-negative double is `m * 2^e` with `m < 2^53`.
-/
import Drx.Lscr.PyStr
namespace Drx.Lscr
open Drx

/-- number of binary digits -/
def bitLen (n : Nat) : Nat := if n = 0 then 0 else Nat.log2 n + 1

/-- `round(n / 2^s)` to nearest, ties to even -/
def shrRNE (n s : Nat) : Nat :=
  let q := n / 2 ^ s
  let r := n % 2 ^ s
  let half := 2 ^ s / 2
  if s = 0 then n
  else if r > half then q + 1
  else if r < half then q
  else if q % 2 = 0 then q else q + 1

/-- magnitude of a finite double: `m * 2^e`, or infinity -/
inductive Dbl where
  | fin (m : Nat) (e : Int)
  | inf
  deriving Repr, DecidableEq, Inhabited

/-- round the real number `m * 2^e` to the nearest double (ties to even), with gradual underflow and overflow to inf.
    Result normalised: `2^52 ≤ m' < 2^53` and `e' ≥ -1074`, or `m' < 2^52` and `e' = -1074`, or `m' = 0`. -/
def roundDbl (m : Nat) (e : Int) : Dbl :=
  if m = 0 then .fin 0 (-1074) else
  let bl := bitLen m
  -- exponent of the unit in the last place if the value is normal: (bl - 53) + e ; never below -1074
  let ulpE : Int := max ((bl : Int) - 53 + e) (-1074)
  let sh : Int := ulpE - e            -- how many low bits of m are dropped (may be negative: shift left)
  let m' := if sh ≤ 0 then m * 2 ^ (-sh).toNat else shrRNE m sh.toNat
  -- rounding may carry to 2^53
  let (m'', e'') := if m' = 2 ^ 53 then (2 ^ 52, ulpE + 1) else (m', ulpE)
  if e'' + 53 > 1024 ∧ m'' ≥ 2 ^ 52 then .inf else .fin m'' e''

/-! ### shortest decimal -/

/-- compare `a * 2^s` with `c * 10^n` (all exact): returns `a * 2^s - c * 10^n` up to a positive factor -/
def cmpScaled (a : Nat) (s : Int) (c : Nat) (n : Int) : Int :=
  -- bring to integers: multiply both sides by 2^(-s) if s < 0 and 10^(-n) if n < 0
  let lhs : Nat := a * (if s ≥ 0 then 2 ^ s.toNat else 1) * (if n < 0 then 10 ^ (-n).toNat else 1)
  let rhs : Nat := c * (if n ≥ 0 then 10 ^ n.toNat else 1) * (if s < 0 then 2 ^ (-s).toNat else 1)
  (lhs : Int) - (rhs : Int)

/-- `floor(a * 2^s / 10^n)` -/
def floorDiv10 (a : Nat) (s : Int) (n : Int) : Nat :=
  let num : Nat := a * (if s ≥ 0 then 2 ^ s.toNat else 1) * (if n < 0 then 10 ^ (-n).toNat else 1)
  let den : Nat := (if n ≥ 0 then 10 ^ n.toNat else 1) * (if s < 0 then 2 ^ (-s).toNat else 1)
  num / den

/-- shortest digits of the positive double `m * 2^e` (normalised as by `roundDbl`): (digits without trailing zeros, decpt)
    meaning `0.d1d2… * 10^decpt` -/
def shortestDigits (m : Nat) (e : Int) : Str × Int :=
  -- everything scaled by 2^(e-2): value 4m, neighbours' midpoints 4m-2 (4m-1 at a binade boundary) and 4m+2
  let s : Int := e - 2
  let v := 4 * m
  let lo := if m = 2 ^ 52 ∧ e > -1074 then 4 * m - 1 else 4 * m - 2
  let hi := 4 * m + 2
  let incl := m % 2 = 0
  let inIv (c : Nat) (n : Int) : Bool :=
    let dl := cmpScaled lo s c n   -- lo - c
    let dh := cmpScaled hi s c n   -- hi - c
    (if incl then dl ≤ 0 else dl < 0) && (if incl then dh ≥ 0 else dh > 0)
  -- decimal exponent: largest e10 with 10^e10 ≤ value
  let est : Int := (((bitLen m : Int) + e - 1) * 30103).fdiv 100000
  let e10 : Int := ([est + 2, est + 1, est, est - 1, est - 2].find? fun k => cmpScaled v s 1 k ≥ 0).getD (est - 3)
  let try_ (p : Nat) : Option (Nat × Int) :=
    let n : Int := e10 - (p : Int) + 1
    let c0 := floorDiv10 v s n
    let c1 := c0 + 1
    let in0 := c0 > 0 && inIv c0 n
    let in1 := inIv c1 n
    if in0 && in1 then
      -- both: the closer one; distance comparison  v - c0*10^n  vs  c1*10^n - v
      let d0 := cmpScaled v s c0 n
      let d1 := - cmpScaled v s c1 n
      if d0 < d1 then some (c0, n) else if d1 < d0 then some (c1, n) else some (if c0 % 2 = 0 then c0 else c1, n)
    else if in0 then some (c0, n)
    else if in1 then some (c1, n)
    else none
  let res := (List.range 17).findSome? fun i => try_ (i + 1)
  match res with
  | some (c, n) =>
    let ds := natStr c
    let decpt : Int := (ds.length : Int) + n
    let ds' := (ds.reverse.dropWhile (· = '0')).reverse
    (if ds' = [] then ['0'] else ds', decpt)
  | none =>
    -- 17 significant digits always suffice; unreachable
    let c := floorDiv10 v s (e10 - 16)
    (natStr c, (natStr c).length + (e10 - 16))

/-- `repr(x)` for the double `±m*2^e` -/
def reprDbl (neg : Bool) (d : Dbl) : Str :=
  let sgn : Str := if neg then ['-'] else []
  match d with
  | .inf => sgn ++ S "inf"
  | .fin m e =>
    if m = 0 then sgn ++ S "0.0" else
    let (ds, decpt) := shortestDigits m e
    let nd : Int := ds.length
    if decpt ≤ -4 ∨ decpt > 16 then
      let ex := decpt - 1
      let mant := match ds with
        | [d] => [d]
        | d :: r => d :: '.' :: r
        | [] => ['0']
      let exs := natStr ex.natAbs
      let exs := if exs.length < 2 then '0' :: exs else exs
      sgn ++ mant ++ ['e', if ex < 0 then '-' else '+'] ++ exs
    else if decpt ≤ 0 then
      sgn ++ S "0." ++ List.replicate (-decpt).toNat '0' ++ ds
    else if decpt < nd then
      sgn ++ ds.take decpt.toNat ++ ['.'] ++ ds.drop decpt.toNat
    else
      sgn ++ ds ++ List.replicate (decpt - nd).toNat '0' ++ S ".0"

end Drx.Lscr
