/-
  Access to the tables regenerated from /repo (Drx/Gen/OpNames, PropTables, PyCase) in the model's text type.
-/
import Drx.Lscr.Ast
import Drx.Gen.OpNames
import Drx.Gen.PropTables
import Drx.Gen.PyCase
namespace Drx.Lscr
open Drx

/-- `d[key]` on a generated dict (KeyError → `.key`) -/
def dictGet (d : List (String × String)) (key : Str) : R Str :=
  match d.find? fun kv => kv.1.toList == key with
  | some kv => .ok kv.2.toList
  | none => .error .key

/-- `key in d` -/
def dictHas (d : List (String × String)) (key : Str) : Bool := d.any fun kv => kv.1.toList == key

/-- `x in lst` for a generated list of strings -/
def listHas (l : List String) (x : Str) : Bool := l.any fun s => s.toList == x

/-- `name in table` where `name` may be a Python int (never equal to a str) -/
def nameInList (l : List String) (n : Name) : Bool := match n with | .s v => listHas l v | .i _ => false
def nameInDict (d : List (String × String)) (n : Name) : Bool := match n with | .s v => dictHas d v | .i _ => false

/-- `lst[i]` on a generated list -/
def listGet (l : List String) (i : Int) : R Str := (pyGet l i).map String.toList

/-- `list(d.keys())[i]` together with `d[key]` -/
def dictNth (d : List (String × String)) (i : Int) : R (Str × Str) := (pyGet d i).map fun kv => (kv.1.toList, kv.2.toList)

/-- `s.lower()` -/
def pyLower (s : Str) : Str := s.flatMap (lowerChar Gen.PyCase.lowerTbl)

/-- `s.capitalize()` -/
def pyCapitalize : Str → Str
  | [] => []
  | c :: cs => titleChar Gen.PyCase.titleTbl c ++ pyLower cs

end Drx.Lscr
