/-
  generate_lingo of every AST class (drxtract/lingosrc/ast/*.py) and codegen/lingo.py.

  Python's generators write to the tree in two places (inventory: Drx/Gen/Mutations.lean):
    Statement.generate_lingo   code.use_parenthesis = False      (when the code is a CallFunction)
    generate_lingo_code        f.global_vars = sorted(...)
  (CallFunction.gv_as_sym used to be a third; since the F100 repair it returns a corrected copy of the argument list:
   `gvAsSym`, folded into `lingoStrs gv` / `jsStrs gv`. Symbol.generate_lingo used to clear use_hash for KNOWN_SYMBOLS; since
   F124 it only reads the flag.)
  Each write happens immediately before the only read of the written field in the same method, so the model is split into
    `lingo …`      the text, reading every such field through the write that precedes it, and
    `afterLingo …` the tree as a completed generation leaves it.
  A result is a `Name`: Python `str`, or `int` (a pool integer constant returns its int from generate_lingo);
  `asStr` marks the places where Python needs a real `str` (method call / `+`) and raises otherwise.
-/
import Drx.Lscr.Const
import Drx.Lscr.Tables
namespace Drx.Lscr
open Drx Drx.Gen

/-! ### gv_as_sym -/

def mapLast (f : α → α) : List α → List α
  | [] => []
  | [x] => [f x]
  | x :: y :: r => x :: mapLast f (y :: r)

def symToGv : Node → Node
  | .sym n p _ => .leaf .globalVar n p
  | x => x

/-- is the call one to a list function (`self.name.lower() in LIST_FUNCTIONS`)? AttributeError for an int name -/
def isListFn (fname : Name) : R Bool := do
  let nm ← fname.asStr
  pure (listHas PropTables.listFunctions (pyLower nm))

/-- `CallFunction.gv_as_sym`: the parameters node to print -/
def gvAsSym (fname : Name) (params : Node) : R Node :=
  match params with
  | .none => .ok .none
  | .loadList n p ops =>
    if ops.isEmpty then .ok params else do
      let gv ← isListFn fname
      pure (if gv then .loadList n p (mapLast symToGv ops) else params)
  | _ => .error .type

/-- name of the last operand (= first argument) after gv_as_sym: `operands[len-1].name` -/
def lastNameGv (gv : Bool) (ops : List Node) : R Name := do
  let lastOp ← pyGet ops (-1)
  (if gv then symToGv lastOp else lastOp).name

/-! ### text -/

def commaJoinRev (l : List Str) : Str := joinWith (S ", ") l.reverse

def leafLingo (c : Leaf) (name : Name) : Name :=
  match c with
  | .propName => .s (S "the " ++ name.str)
  | .definedProp => name
  | .dateTime => .s (S "the " ++ name.str)
  | .menu => .s (S "menu " ++ name.str)
  | .menuItem => .s (S "menuItem " ++ name.str)
  | .soundChan => .s (S "sound " ++ name.str)
  | .sprite => .s (S "sprite " ++ name.str)
  | .cast => .s (S "cast " ++ name.str)
  | .const => constLingo name
  | _ => name      -- Node.generate_lingo: self.name

/-- Symbol.generate_lingo -/
def symLingo (name : Name) (useHash : Bool) : R Name :=
  if useHash then (name.asStr).map fun s => .s ('#' :: s) else .ok name

/-- `len(params.operands) == 1 and isinstance(params.operands[0], Symbol) and params.operands[0].name in GO_WORDS`:
    the word of `go loop` / `go next` / `go previous` -/
def goWord (ops : List Node) : Option Name :=
  match ops with
  | [.sym n _ _] => if nameInList PropTables.goWords n then some n else none
  | _ => none

/-- `str_cond[1:-1]` -/
def stripParens (s : Str) : Str := pySlice s 1 (-1)

mutual
  /-- `node.generate_lingo(ind)`; `noParen` = the node is the code of a Statement (use_parenthesis was just set False) -/
  def lingo (noParen : Bool) : Node → Nat → R Name
    | .none, _ => .error .type
    | .leaf c name _, _ => .ok (leafLingo c name)
    | .sym name _ useHash, _ => symLingo name useHash
    | .unary op _ x, ind => do
      let t ← lingo false x ind
      if op = S "minus" then
        -- '--' starts a comment in Lingo: an operand text that starts with '-' is parenthesised
        pure (.s (S "-" ++ (if startsWith t.str (S "-") then S "(" ++ t.str ++ S ")" else t.str)))
      else pure (.s (op ++ S " " ++ t.str))
    | .binary op _ l r, ind =>
      if op = S "assign" then do
        let lt ← lingo false l ind
        let rt ← lingo false r ind
        let ls ← lt.asStr
        if startsWith ls (S "field(") ∧ endsWith ls (S ")") then
          pure (.s (S "put " ++ rt.str ++ S " into " ++ ls))
        else pure (.s (S "set " ++ ls ++ S " = " ++ rt.str))
      else do
        let o ← dictGet OpNames.lingoBinOp op
        let lt ← lingo false l ind
        let rt ← lingo false r ind
        if startsWith o (S "sprite... ") then
          pure (.s (S "sprite " ++ lt.str ++ S " " ++ removePrefix o (S "sprite... ") ++ S " " ++ rt.str))
        else pure (.s (S "(" ++ lt.str ++ S " " ++ o ++ S " " ++ rt.str ++ S ")"))
    | .spAssign _ l r mode, ind => do
      let rt ← lingo false r ind
      let lt ← lingo false l ind
      pure (.s (S "put " ++ rt.str ++ S " " ++ mode ++ S " " ++ lt.str))
    | .strOp kind _ start stop of_, _ =>
      if stop.isNone then do
        let a ← lingo false start 0
        let c ← lingo false of_ 0
        pure (.s (kind ++ S " " ++ a.str ++ S " of " ++ c.str))
      else do
        let a ← lingo false start 0
        let b ← lingo false stop 0
        let c ← lingo false of_ 0
        pure (.s (kind ++ S " " ++ a.str ++ S " to " ++ b.str ++ S " of " ++ c.str))
    | .unaryStr op _ type of_, ind => do
      let t ← lingo false of_ ind
      match type with
      | some ty =>
        if op = S "last" then pure (.s (S "the " ++ op ++ S " " ++ ty ++ S " of " ++ t.str))
        else pure (.s (S "the " ++ op ++ S " of " ++ ty ++ S "s of " ++ t.str))
      | none => pure (.s (S "the " ++ op ++ S " of " ++ t.str))
    | .propAcc _ obj prop ex, ind => do
      let t ← lingo false obj ind
      if t == Name.s (S "me") ∧ obj.cls = .leaf .node then pure (.s prop)      -- `type(self.obj) is Node`
      else do
        let os ← t.asStr
        if !ex ∧ (startsWith os (S "_") ∨ os = S "tell_obj") then pure (.s (S "the " ++ prop))      -- F142
        else pure (.s (S "the " ++ prop ++ S " of " ++ os))
    | .keyAcc _ prop, _ => .ok (.s (S "the " ++ prop))
    | .menuItemAcc _ menu item, _ => do
      let i ← lingo false item 0
      let m ← lingo false menu 0
      pure (.s (i.str ++ S " of " ++ m.str))
    | .menuItemsAcc _ menu, _ => do
      let m ← lingo false menu 0
      pure (.s (S "menuItems of " ++ m.str))
    | .loadList _ _ ops, ind => do
      let l ← lingoStrs false ops ind
      pure (.s (commaJoinRev l))
    | .toList _ (.loadList _ _ ops), ind => do
      let l ← lingoStrs false ops ind
      pure (.s (S "[" ++ commaJoinRev l ++ S "]"))
    | .toList _ _, _ => .error .type
    | .toDict _ (.loadList _ _ ops), ind => do
      let l ← lingoPairs ops ind
      if l.isEmpty then pure (.s (S "[:]")) else pure (.s (S "[" ++ commaJoinRev l ++ S "]"))
    | .toDict _ _, _ => .error .type
    | .stmt _ code, ind => do
      let t ← lingo true code ind
      let ts ← t.asStr
      pure (.s (indentOf ind ++ ts ++ S "\n"))
    | .callFn name _ .none useParen _ withResult _, _ =>
      if useParen ∧ ¬ noParen ∧ ¬ withResult then (name.asStr).map fun nm => .s (nm ++ S "()") else .ok name
    | .callFn name _ (.loadList _ _ ops) useParen _ withResult _, ind =>
      if ops.isEmpty then
        (if useParen ∧ ¬ noParen ∧ ¬ withResult then (name.asStr).map fun nm => .s (nm ++ S "()") else .ok name)
      else do
        let gv ← isListFn name
        if name == Name.s (S "sound") then do
          let mname ← lastNameGv gv ops           -- modif.name
          let l ← lingoStrsButLast ops ind
          pure (.s (S "sound " ++ mname.str ++ S " " ++ commaJoinRev l))
        else match (if name == Name.s (S "go") ∧ ¬ gv then goWord ops else none) with
        | some w => pure (.s (S "go " ++ w.str))
        | none => do
          let l ← lingoStrs gv ops ind
          let nm ← name.asStr
          if useParen ∧ ¬ noParen then pure (.s (nm ++ S "(" ++ commaJoinRev l ++ S ")"))
          else pure (.s (nm ++ S " " ++ commaJoinRev l))
    | .callFn .., _ => .error .type
    | .callMethod name _ obj params, ind => do
      let o ← lingo false obj ind
      let p ← lingo false params ind
      pure (.s (S "tell " ++ o.str ++ S " to " ++ name.str ++ S "(" ++ p.str ++ S ")"))
    | .repeat_ _ _ cond stmts type start varname _sign _, ind => do
      let ct ← lingo false cond 0
      let cs ← ct.asStr
      let cs := if startsWith cs (S "(") then stripParens cs else cs
      let head ←
        if type = S "while" then pure (S "repeat while " ++ cs ++ S "\n")
        else if type = S "for" then do
          let a ← lingo false start 0
          let b ← lingoRight cond                    -- ro.end is cond.right (same object)
          pure (S "repeat with " ++ varname.str ++ S " = " ++ a.str ++ S " " ++
                (if _sign = S "+" then S "to" else S "down to") ++ S " " ++ b.str ++ S "\n")
        else do
          let a ← lingo false start 0
          pure (S "repeat with " ++ varname.str ++ S " in " ++ a.str ++ S "\n")
      let body ← lingoStmts stmts (ind + 1)
      pure (.s (head ++ body ++ indentOf ind ++ S "end repeat"))
    | .ifThen _ cond ifs elses, ind => do
      let ct ← lingo false cond 0
      let a ← lingoStmts ifs (ind + 1)
      let b ← if elses.isEmpty then pure [] else do
        let e ← lingoStmts elses (ind + 1)
        pure (indentOf ind ++ S "else\n" ++ e)
      pure (.s (S "if " ++ ct.str ++ S " then\n" ++ a ++ b ++ indentOf ind ++ S "end if"))
    | .jump .., _ => .ok (.s (S "jump"))
    | .jz .., _ => .ok (.s (S "jz"))
    | .tell _ operand stmts _, ind => do
      let o ← lingo false operand 0
      let body ← lingoStmts stmts (ind + 1)
      pure (.s (S "tell " ++ o.str ++ S "\n" ++ body ++ indentOf ind ++ S "end tell"))

  /-- `ro.end.generate_lingo(0)` where `ro.end` is `ro.condition.right` -/
  def lingoRight : Node → R Name
    | .binary _ _ _ r => lingo false r 0
    | _ => .error .type

  /-- `[str(s.generate_lingo(ind)) for s in l]`; with `gv`, the last element is first passed through gv_as_sym -/
  def lingoStrs (gv : Bool) : List Node → Nat → R (List Str)
    | [], _ => .ok []
    | [x], ind =>
      match (if gv then x.symName? else none) with
      | some n => .ok [n.str]                    -- GlobalVariable(sym.name).generate_lingo
      | none => do let t ← lingo false x ind; pure [t.str]
    | x :: y :: r, ind => do
      let t ← lingo false x ind
      let ts ← lingoStrs gv (y :: r) ind
      pure (t.str :: ts)

  /-- the same for `operands[0:last]` (`sound` modifier excluded) -/
  def lingoStrsButLast : List Node → Nat → R (List Str)
    | [], _ => .ok []
    | [_], _ => .ok []
    | x :: y :: r, ind => do
      let t ← lingo false x ind
      let ts ← lingoStrsButLast (y :: r) ind
      pure (t.str :: ts)

  /-- `for st in l: code = code + st.generate_lingo(ind)` -/
  def lingoStmts : List Node → Nat → R Str
    | [], _ => .ok []
    | x :: r, ind => do
      let t ← lingo false x ind
      let ts ← t.asStr
      let rest ← lingoStmts r ind
      pure (ts ++ rest)

  /-- ToDictionaryOperation: `"%s: %s" % (operands[i+1], operands[i])` for even i -/
  def lingoPairs : List Node → Nat → R (List Str)
    | [], _ => .ok []
    | [_], _ => .error .index
    | v :: k :: r, ind => do
      let vt ← lingo false v ind
      let kt ← lingo false k ind
      let rest ← lingoPairs r ind
      pure ((kt.str ++ S ": " ++ vt.str) :: rest)
end

/-! ### the tree after a completed generation -/

/-- `cast(CallFunction, self.code).use_parenthesis = False` -/
def clearParen : Node → Node
  | .callFn n p ps _ it wr rc => .callFn n p ps false it wr rc
  | x => x

mutual
  def afterLingo : Node → Node
    | .none => .none
    | .leaf c n p => .leaf c n p
    | .sym name p useHash => .sym name p useHash
    | .unary op p x => .unary op p (afterLingo x)
    | .binary op p l r => .binary op p (afterLingo l) (afterLingo r)
    | .spAssign p l r m => .spAssign p (afterLingo l) (afterLingo r) m
    | .strOp k p a b c => .strOp k p (afterLingo a) (afterLingo b) (afterLingo c)
    | .unaryStr op p t x => .unaryStr op p t (afterLingo x)
    | .propAcc p o pr ex => .propAcc p (afterLingo o) pr ex
    | .keyAcc p pr => .keyAcc p pr
    | .menuItemAcc p m i => .menuItemAcc p (afterLingo m) (afterLingo i)
    | .menuItemsAcc p m => .menuItemsAcc p (afterLingo m)
    | .loadList n p ops => .loadList n p (afterLingoList ops)
    | .toList p x => .toList p (afterLingo x)
    | .toDict p x => .toDict p (afterLingo x)
    | .stmt p code => .stmt p (clearParen (afterLingo code))
    | .callFn name p (.loadList ln lp ops) up it wr rc =>
      -- `sound`: the modifier (last operand) is read by name only, never generated
      .callFn name p (.loadList ln lp (if name == Name.s (S "sound") then afterLingoButLast ops else afterLingoList ops)) up it wr rc
    | .callFn name p params up it wr rc => .callFn name p params up it wr rc
    | .callMethod n p o ps => .callMethod n p (afterLingo o) (afterLingo ps)
    | .repeat_ p e cond stmts type start varname sign vr =>
      let start' := if type = S "while" then start else afterLingo start
      .repeat_ p e (afterLingo cond) (afterLingoList stmts) type start' varname sign vr
    | .ifThen p c a b => .ifThen p (afterLingo c) (afterLingoList a) (afterLingoList b)
    | .jump p a => .jump p a
    | .jz p c a => .jz p c a
    | .tell p o l cl => .tell p (afterLingo o) (afterLingoList l) cl
  def afterLingoList : List Node → List Node
    | [] => []
    | x :: r => afterLingo x :: afterLingoList r
  def afterLingoButLast : List Node → List Node
    | [] => []
    | [x] => [x]
    | x :: y :: r => afterLingo x :: afterLingoButLast (y :: r)
end

/-! ### codegen/lingo.py -/

/-- `sorted(l, key=lambda x: x.name)` for str names: stable insertion sort by code points -/
def strLe : Str → Str → Bool
  | [], _ => true
  | _ :: _, [] => false
  | a :: as, b :: bs => if a.toNat < b.toNat then true else if b.toNat < a.toNat then false else strLe as bs

def nameKey (n : Node) : Str := match n.name with | .ok nm => nm.str | .error _ => []

/-- `sorted(l, key=lambda x: x.name)`: stable sort by code points (core `List.mergeSort` is stable) -/
def sortedByName (l : List Node) : List Node := l.mergeSort fun a b => strLe (nameKey a) (nameKey b)

/-- `f.statements[last].code.name == 'exit'` (False for an empty handler; AttributeError if the last element is not a Statement) -/
def endsWithExit (stmts : List Node) : R Bool :=
  match stmts.getLast? with
  | none => .ok false
  | some (.stmt _ code) => (code.name).map fun n => n == Name.s (S "exit")
  | some _ => .error .type

/-- the statements a script generator walks: all, except a final statement whose code is named 'exit' -/
def bodyStmts (stmts : List Node) : R (List Node) := do
  let e ← endsWithExit stmts
  pure (if e then stmts.dropLast else stmts)

/-- the loop `for i in range(len(f.statements))` of generate_lingo_code -/
def bodyLingo (stmts : List Node) (ind : Nat) : R Str := (bodyStmts stmts).bind fun b => lingoStmts b ind

def funcLingo (script : Script) (f : FuncDef) : R Str := do
  let head : Str := (if f.isMethod then S "method " else S "on ") ++ f.name
  let pnames ← f.params.mapM fun p => p.name
  let head :=
    if f.params.isEmpty then head else
      let ps := pnames.map Name.str
      let ps := if f.isMethod then ps.drop 1 else ps
      head ++ rstrip (S " " ++ joinWith (S ", ") ps)
  let head := head ++ S "\n"
  let inst : Str :=
    if pyLower f.name = S "mnew" ∧ f.isMethod ∧ script.properties.length > 3 then
      indentOf 1 ++ S "instance " ++ joinWith (S ", ") (script.properties.drop 3) ++ S "\n\n"
    else []
  let gvs := sortedByName f.globalVars
  let gnames ← gvs.mapM fun g => g.name
  let shown := gnames.filter fun g => !(match g with | .s v => script.globalVars.contains v | .i _ => false)
  let gtxt : Str := (shown.map fun g => indentOf 1 ++ S "global " ++ g.str ++ S "\n").flatten
  let gtxt := if shown.isEmpty then gtxt else gtxt ++ S "\n"
  let btxt ← bodyLingo f.stmts 1
  pure (head ++ inst ++ gtxt ++ btxt ++ S "end\n")

def funcsLingo (script : Script) : List FuncDef → Bool → R Str
  | [], _ => .ok []
  | f :: fs, first => do
    let t ← funcLingo script f
    let rest ← funcsLingo script fs false
    pure ((if first then [] else S "\n") ++ t ++ rest)

/-- `generate_lingo_code(script)`: the text -/
def lingoText (script : Script) : R Str := do
  let c1 : Str := if script.properties.length > 0 ∧ script.factoryName.length = 0
    then S "property " ++ joinWith (S ", ") script.properties ++ S "\n" else []
  let c2 : Str := if script.factoryName.length > 0 then S "factory " ++ script.factoryName ++ S "\n\n" else []
  let c3 : Str := if script.globalVars.length > 0
    then (script.globalVars.map fun g => S "global " ++ g ++ S "\n").flatten ++ S "\n" else []
  let fs ← funcsLingo script script.functions true
  pure (c1 ++ c2 ++ c3 ++ fs)

/-- the statements of a handler after generation: every walked statement, the trailing `exit` untouched -/
def afterLingoBody (stmts : List Node) : List Node :=
  match endsWithExit stmts with
  | .ok true => afterLingoList stmts.dropLast ++ stmts.drop (stmts.length - 1)
  | .ok false => afterLingoList stmts
  | .error _ => stmts

def afterLingoFunc (f : FuncDef) : FuncDef :=
  { f with globalVars := sortedByName f.globalVars, stmts := afterLingoBody f.stmts }

/-- the tree as `generate_lingo_code` leaves it (when it returns) -/
def afterLingoScript (s : Script) : Script := { s with functions := s.functions.map afterLingoFunc }

/-- `generate_lingo_code`: text and the tree it leaves behind. When the generation raises, Python's tree is somewhere
    between the input and `afterLingoScript` (a prefix of the writes was done); the model returns the input tree then. -/
def genLingo (s : Script) : R Str × Script :=
  match lingoText s with
  | .ok t => (.ok t, afterLingoScript s)
  | .error e => (.error e, s)

end Drx.Lscr
