/-
  Counting twins of the decompiler's loops (C10 support; theorems in DrxProps/C10Lscr.lean, proofs in DrxProofs/LscrSteps*.lean).

  A twin returns the number of loop ROUNDS THAT START on the same input = executions of the first body line of the loop in the
  Python code (the round that raises included), for the loops of these (module, function)s:
      drxtract.lingosrc.parse.lscr            parse_lrcr_crb, parse_lrcr_prb, parse_lrcr_grb, parse_frb_func_names, parse_frb,
                                              parse_opcodes
      drxtract.lingosrc.opcodes.jump_op       process                (the first one of the module: JumpOpcode.process)
      drxtract.lingosrc.parse.loop_detection  condition_detect_in_statements, loop_detect_in_statements
  The first body line of the `while` loops of parse_lrcr_prb / parse_lrcr_grb is a statement that spans two source lines
  (`namelist_index = struct.unpack(…, fdata[` / `idx:idx+2])[0]`): CPython reports that line three times per round
  (first line, second line, first line again; the third report comes after `struct.unpack` returned, so a round in which it
  raises reports the line twice): those two loops count 3 per completed round and 2 for the round that raises.

  Nothing here changes the model: every twin either re-runs the model's own step function (`crbStep`, `stepOpcode`, `getSI`, …)
  and counts, or — for the two flow passes, whose recursion is not a simple loop — is the model function with a counter
  threaded through it (`condDetectDS`/`condJzsS` = `condDetectD`/`condJzs`, `loopDetectS`/`loopWalkS` = `loopDetect`/`loopWalk`;
  the equalities are theorems `condDetectDS_result`, `loopDetectS_result`).
-/
import Drx.Lscr.Parse
namespace Drx.Lscr.Steps
open Drx Drx.Gen Drx.Lscr

/-! ### container loops -/

/-- rounds of `for i in range(0, header.crb_nconstants)` -/
def crbSteps (codec : Codec) (d : Bytes) (conOff : Int) : Nat → CrbState → Nat
  | 0, _ => 0
  | n + 1, st =>
    match crbStep codec d conOff st with
    | .error _ => 1
    | .ok st' => 1 + crbSteps codec d conOff n st'

/-- rounds of the `while idx < stop` loops of parse_lrcr_prb / parse_lrcr_grb -/
def nameRecordsSteps (d : Bytes) (idx stop : Int) : Nat :=
  if h : idx < stop then
    match getSI 2 d idx with
    | .error _ => 1
    | .ok _ => 1 + nameRecordsSteps d (idx + 2) stop
  else 0
termination_by (stop - idx).toNat
decreasing_by omega

/-- rounds of `for i in range(0, header.frb_nrecords)` in parse_frb_func_names -/
def funcNamesSteps (d : Bytes) : Nat → Int → Nat
  | 0, _ => 0
  | k + 1, idx =>
    match getSI 2 d idx with
    | .error _ => 1
    | .ok _ => 1 + funcNamesSteps d k (idx + 42)

/-- rounds of `for nl in range(0, bc_nlocal)` -/
def localNamesSteps (ctx : Ctx) (d : Bytes) (off : Int) : Nat → Nat → Nat
  | 0, _ => 0
  | k + 1, nl =>
    match getSI 2 d (2 * nl + off) with
    | .error _ => 1
    | .ok n =>
      match nameAt ctx n with
      | .error _ => 1
      | .ok _ => 1 + localNamesSteps ctx d off k (nl + 1)

/-- rounds of `for nl in range(0, bc_narg)` -/
def paramNamesSteps (ctx : Ctx) (d : Bytes) (off : Int) : Nat → Nat → Nat
  | 0, _ => 0
  | k + 1, nl =>
    match getSI 2 d (2 * nl + off) with
    | .error _ => 1
    | .ok n =>
      if n ≥ 0 then
        match nameAt ctx n with
        | .error _ => 1
        | .ok _ => 1 + paramNamesSteps ctx d off k (nl + 1)
      else 1 + paramNamesSteps ctx d off k (nl + 1)

/-- rounds of `for nl in range(0, count_c)` -/
def handlerGlobalsSteps (d : Bytes) (off : Int) : Nat → Nat → Nat
  | 0, _ => 0
  | k + 1, nl =>
    match getSI 2 d (2 * nl + off) with
    | .error _ => 1
    | .ok _ => 1 + handlerGlobalsSteps d off k (nl + 1)

/-! ### the opcode loop and JumpOpcode.process -/

/-- rounds of the two loops of `JumpOpcode.process` if the instruction at `idxc` is a backward jump whose operand can be read:
    `for stmnt in fn.statements` and `for stmnt in op.statements_list` -/
def jumpRounds (d : Bytes) (idxc : Int) (st : PState) : Nat :=
  match byteAtI d idxc with
  | .ok opcode =>
    match Opcodes.opcodes.lookup opcode with
    | some info =>
      if info.impl = "JumpOpcode" ∧ info.nbytes = 2 ∧ ¬ (info.kind = "bi" ∨ info.kind = "tri") then
        match byteAtI d (idxc + 1) with
        | .ok p1 => st.stmts.length + (st.stmts.filter fun s => s.pos ≥ idxc - (p1 : Int)).length
        | .error _ => 0
      else 0
    | none => 0
  | .error _ => 0

/-- counts of one handler's opcode loop -/
structure OpS where
  rounds : Nat := 0      -- `while (idxc - bc_off) < bc_length`
  jump : Nat := 0        -- the two loops of JumpOpcode.process
  deriving Repr

/-- the opcode loop with its counters: result = `opcodeLoop` -/
def opcodeLoopS (ctx : Ctx) (d : Bytes) (bcOff bcLen : Int) (idxc : Int) (regs : Regs) (st : PState) : OpS × R (Regs × PState) :=
  if idxc - bcOff < bcLen then
    match h : stepOpcode ctx d idxc idxc regs st with
    | .error e => ({ rounds := 1, jump := jumpRounds d idxc st }, .error e)
    | .ok r =>
      let rest := opcodeLoopS ctx d bcOff bcLen r.1 r.2.1 r.2.2
      ({ rounds := 1 + rest.1.rounds, jump := jumpRounds d idxc st + rest.1.jump }, rest.2)
  else ({}, .ok (regs, st))
termination_by (bcLen - (idxc - bcOff)).toNat
decreasing_by
  have := stepOpcode_advance h
  omega

/-! ### condition_detect_in_statements -/

/-- counters of the condition-detection pass -/
structure FS where
  steps : Nat := 0       -- loop rounds, all seven loops of condition_detect_in_statements, all invocations
  ops : Nat := 0         -- of these: rounds of `for op in jzOperations`
  calls : Nat := 0       -- invocations of condition_detect_in_statements
  maxLen : Nat := 0      -- longest statement list an invocation was given
  deriving Repr

def FS.add (a b : FS) : FS := { steps := a.steps + b.steps, ops := a.ops + b.ops, calls := a.calls + b.calls, maxLen := max a.maxLen b.maxLen }

instance : Add FS := ⟨FS.add⟩

/-- rounds of `for st in xs: statements.remove(st)`: all of them unless a removal raises -/
def removeRounds : List Node → List Node → Nat
  | _, [] => 0
  | l, x :: xs =>
    match pyRemove l x with
    | .error _ => 1
    | .ok l' => 1 + removeRounds l' xs

/-- rounds of the scan `for index in range(0, len(statements))` of the exit-repeat-in-if part: up to the first statement whose
    code `== op` (then `break`) -/
def replaceRounds (op : Node) : List Node → Nat
  | [] => 0
  | st :: rest =>
    match st with
    | .stmt _ code => if code.pyEq op then 1 else 1 + replaceRounds op rest
    | _ => 1

/-- rounds of the scan of the normal if part: a statement whose code `== op` continues; the first other statement with
    `position >= end` ends the scan -/
def ifScanRounds (op : Node) (stop : Int) : List Node → Nat
  | [] => 0
  | st :: rest =>
    match st with
    | .stmt pos code =>
      if code.pyEq op then 1 + ifScanRounds op stop rest
      else if pos ≥ stop then 1 else 1 + ifScanRounds op stop rest
    | _ => 1

/-- rounds of the scan of the normal else part -/
def elseScanRounds (stop : Int) : List Node → Nat
  | [] => 0
  | st :: rest => if st.pos ≥ stop then 1 else 1 + elseScanRounds stop rest

mutual
  /-- `condDetectD` with counters -/
  def condDetectDS (d : Nat) (stmts : List Node) (roEnd : Option Int) : FS × R (List Node) :=
    let here : FS := { calls := 1, maxLen := stmts.length }
    -- first loop, part 1
    let p1 : (FS × Nat) × R (List Node) := match d with
      | 0 => if stmts.any isNestStmt then (({}, 0), .error .other) else (({}, stmts.length), .ok stmts)
      | d' + 1 => nestedSD d' roEnd stmts
    match p1.2 with
    | .error e => (here + p1.1.1 + { steps := p1.1.2 }, .error e)
    | .ok stmts1 =>
      match stmts1.foldlM (scanStep roEnd) {} with
      | .error e => (here + p1.1.1 + { steps := p1.1.2 }, .error e)
      | .ok sc =>
        let r := condJzsS d stmts.length sc.jzs stmts1 roEnd
        (here + p1.1.1 + { steps := p1.1.2 } + r.1, r.2)
  termination_by (d, stmts.length + 1, 0, 0)
  decreasing_by
    all_goals simp_wf
    all_goals first
      | exact Prod.Lex.left _ _ (by omega)
      | exact Prod.Lex.right _ (Prod.Lex.left _ _ (by omega))

  /-- the first loop's nested calls at depth `d' + 1` (structural in the list) -/
  def nestedSD (d' : Nat) (roEnd : Option Int) (l : List Node) : (FS × Nat) × R (List Node) :=
    match l with
    | [] => (({}, 0), .ok [])
    | st :: rest =>
      match st with
      | .stmt p (.repeat_ rp re c body t s v sg vr) =>
        let r := condDetectDS d' body (some re)
        match r.2 with
        | .error e => ((r.1, 1), .error e)
        | .ok body' =>
          let q := nestedSD d' roEnd rest
          ((r.1 + q.1.1, 1 + q.1.2), q.2.map (Node.stmt p (.repeat_ rp re c body' t s v sg vr) :: ·))
      | .stmt p (.tell tp operand inner closed) =>
        let r := condDetectDS d' inner roEnd
        match r.2 with
        | .error e => ((r.1, 1), .error e)
        | .ok inner' =>
          let q := nestedSD d' roEnd rest
          ((r.1 + q.1.1, 1 + q.1.2), q.2.map (Node.stmt p (.tell tp operand inner' closed) :: ·))
      | x =>
        let q := nestedSD d' roEnd rest
        ((q.1.1, 1 + q.1.2), q.2.map (x :: ·))
  termination_by (d' + 1, 0, 0, l.length)
  decreasing_by
    all_goals simp_wf
    all_goals first
      | exact Prod.Lex.left _ _ (by omega)
      | exact Prod.Lex.right _ (Prod.Lex.right _ (Prod.Lex.right _ (by simp)))

  /-- `condJzs` with counters -/
  def condJzsS (d n : Nat) (jzs : List Node) (stmts : List Node) (roEnd : Option Int) : FS × R (List Node) :=
    match jzs with
    | [] => ({}, .ok stmts)
    | op :: restJz =>
      let one : FS := { steps := 1, ops := 1 }
      match op with
      | .jz opos cond addr =>
        let exitIf := match roEnd with | some e => decide (e < addr) | none => false
        if exitIf then
          let ifop := Node.ifThen opos (.unary (S "not") opos cond) [exitRepeatStmt opos] []
          let c : FS := { steps := replaceRounds op stmts }
          match replaceFirstCode op ifop stmts with
          | .error e => (one + c, .error e)
          | .ok stmts' =>
            let r := condJzsS d n restJz stmts' roEnd
            (one + c + r.1, r.2)
        else
          let ph := Node.ifThen opos cond [] []
          let c1 : FS := { steps := ifScanRounds op addr stmts }
          match ifScan op ph opos addr stmts with
          | .error e => (one + c1, .error e)
          | .ok (stmts1, coll) =>
            let c2 : FS := { steps := removeRounds stmts1 coll }
            match pyRemoveAll stmts1 coll with
            | .error e => (one + c1 + c2, .error e)
            | .ok stmts2 =>
              match breakDetect coll roEnd with
              | .error e => (one + c1 + c2, .error e)
              | .ok ifl0 =>
                if h : ifl0.length < n then
                  let ri := condDetectDS d ifl0 roEnd
                  match ri.2 with
                  | .error e => (one + c1 + c2 + ri.1, .error e)
                  | .ok ifl =>
                    if ifl.isEmpty then
                      let r := condJzsS d n restJz (finalizeIf opos (.ifThen opos cond ifl []) stmts2) roEnd
                      (one + c1 + c2 + ri.1 + r.1, r.2)
                    else
                      match pyGet ifl (-1) with
                      | .error e => (one + c1 + c2 + ri.1, .error e)
                      | .ok last =>
                        match last with
                        | .stmt _ (.jump jpos jaddr) =>
                          let exitElse := match roEnd with | some e => decide (e < jaddr) | none => false
                          if exitElse then
                            let ifl' := ifl.dropLast ++ [exitRepeatStmt jpos]
                            let r := condJzsS d n restJz (finalizeIf opos (.ifThen opos cond ifl' []) stmts2) roEnd
                            (one + c1 + c2 + ri.1 + r.1, r.2)
                          else
                            let ecoll := elseScan jpos jaddr stmts2
                            let c3 : FS := { steps := elseScanRounds jaddr stmts2 + removeRounds stmts2 ecoll }
                            match pyRemoveAll stmts2 ecoll with
                            | .error e => (one + c1 + c2 + ri.1 + c3, .error e)
                            | .ok stmts3 =>
                              let ifl' := ifl.dropLast
                              match breakDetect ecoll roEnd with
                              | .error e => (one + c1 + c2 + ri.1 + c3, .error e)
                              | .ok el0 =>
                                if h2 : el0.length < n then
                                  let re := condDetectDS d el0 roEnd
                                  match re.2 with
                                  | .error e => (one + c1 + c2 + ri.1 + c3 + re.1, .error e)
                                  | .ok el =>
                                    let r := condJzsS d n restJz (finalizeIf opos (.ifThen opos cond ifl' el) stmts3) roEnd
                                    (one + c1 + c2 + ri.1 + c3 + re.1 + r.1, r.2)
                                else (one + c1 + c2 + ri.1 + c3, .error .other)
                        | .stmt _ _ =>
                          let r := condJzsS d n restJz (finalizeIf opos (.ifThen opos cond ifl []) stmts2) roEnd
                          (one + c1 + c2 + ri.1 + r.1, r.2)
                        | _ => (one + c1 + c2 + ri.1, .error .type)
                else (one + c1 + c2, .error .other)
      | _ => (one, .error .other)
  termination_by (d, n, jzs.length, 0)
  decreasing_by
    all_goals simp_wf
    · exact Prod.Lex.right _ (Prod.Lex.right _ (Prod.Lex.left _ _ (by simp)))
    · apply Prod.Lex.right
      by_cases hh : ifl0.length + 1 < n
      · exact Prod.Lex.left _ _ hh
      · have : ifl0.length + 1 = n := by omega
        rw [this]; exact Prod.Lex.right _ (Prod.Lex.left _ _ (by simp))
    · exact Prod.Lex.right _ (Prod.Lex.right _ (Prod.Lex.left _ _ (by simp)))
    · exact Prod.Lex.right _ (Prod.Lex.right _ (Prod.Lex.left _ _ (by simp)))
    · apply Prod.Lex.right
      by_cases hh : el0.length + 1 < n
      · exact Prod.Lex.left _ _ hh
      · have : el0.length + 1 = n := by omega
        rw [this]; exact Prod.Lex.right _ (Prod.Lex.left _ _ (by simp))
    · exact Prod.Lex.right _ (Prod.Lex.right _ (Prod.Lex.left _ _ (by simp)))
    · exact Prod.Lex.right _ (Prod.Lex.right _ (Prod.Lex.left _ _ (by simp)))
end

/-- `condition_detect(fn)` with counters -/
def condDetectS (stmts : List Node) : FS × R (List Node) := condDetectDS (cdDepthL stmts) stmts none

/-! ### loop_detect_in_statements -/

mutual
  /-- `loopDetect` with the number of rounds of its two loops (`for st in statements`, `for st in to_remove`) -/
  def loopDetectS (stmts : List Node) : Nat × R (List Node) :=
    let w := loopWalkS stmts none
    match w.2 with
    | .error e => (w.1, .error e)
    | .ok (l, rem) => (w.1 + removeRounds l rem, pyRemoveAll l rem)
  termination_by (weightList stmts, 1)
  decreasing_by exact Prod.Lex.right _ (by omega)

  def loopWalkS (stmts : List Node) (prev : Option Node) : Nat × R (List Node × List Node) :=
    match stmts with
    | [] => (0, .ok ([], []))
    | st :: rest =>
      match st with
      | .stmt p (.repeat_ rp re c body t s v sg vr) =>
        match rewriteRepeat { pos := rp, endPos := re, cond := c, stmts := body, type := t, start := s, varname := v, sign := sg, loopVar := vr } prev with
        | .error e => (1, .error e)
        | .ok (r, rm) =>
          if h : weightList r.stmts ≤ weightList body then
            let b := loopDetectS r.stmts
            match b.2 with
            | .error e => (1 + b.1, .error e)
            | .ok body' =>
              let st' := Node.stmt p ({ r with stmts := body' } : Ro).toNode
              let w := loopWalkS rest (some st')
              let rem0 := match rm, prev with | true, some pst => [pst] | _, _ => []
              (1 + b.1 + w.1, w.2.map fun (l, rem) => (st' :: l, rem0 ++ rem))
          else (1, .error .other)
      | .stmt p (.ifThen ip c ifs elses) =>
        let a := loopDetectS ifs
        match a.2 with
        | .error e => (1 + a.1, .error e)
        | .ok ifs' =>
          let b := loopDetectS elses
          match b.2 with
          | .error e => (1 + a.1 + b.1, .error e)
          | .ok elses' =>
            let st' := Node.stmt p (.ifThen ip c ifs' elses')
            let w := loopWalkS rest (some st')
            (1 + a.1 + b.1 + w.1, w.2.map fun (l, rem) => (st' :: l, rem))
      | .stmt p (.tell tp operand inner closed) =>
        let a := loopDetectS inner
        match a.2 with
        | .error e => (1 + a.1, .error e)
        | .ok inner' =>
          let st' := Node.stmt p (.tell tp operand inner' closed)
          let w := loopWalkS rest (some st')
          (1 + a.1 + w.1, w.2.map fun (l, rem) => (st' :: l, rem))
      | .stmt _ _ =>
        let w := loopWalkS rest (some st)
        (1 + w.1, w.2.map fun (l, rem) => (st :: l, rem))
      | _ => (1, .error .type)
  termination_by (weightList stmts, 0)
  decreasing_by
    all_goals simp_wf
    all_goals simp only [weightList, Node.weight]
    all_goals first
      | exact Prod.Lex.left _ _ (by omega)
      | (have := Node.weight_pos st; exact Prod.Lex.left _ _ (by simp only [weightList, Node.weight] at *; omega))
end

/-! ### one handler, the whole chunk -/

/-- all counters of one run of `parse_lrcr_file_data` -/
structure Total where
  crb : Nat := 0           -- parse_lrcr_crb
  prb : Nat := 0           -- parse_lrcr_prb (3 per round)
  grb : Nat := 0           -- parse_lrcr_grb (3 per round)
  fnames : Nat := 0        -- parse_frb_func_names
  frb : Nat := 0           -- parse_frb: function records
  tables : Nat := 0        -- parse_frb: the three name-table loops
  opcodes : Nat := 0       -- parse_opcodes
  jump : Nat := 0          -- JumpOpcode.process
  cond : Nat := 0          -- condition_detect_in_statements
  condOps : Nat := 0       -- … of these, rounds of `for op in jzOperations`
  condCalls : Nat := 0     -- invocations of condition_detect_in_statements
  condMaxLen : Nat := 0
  loop : Nat := 0          -- loop_detect_in_statements
  deriving Repr

def Total.sum (t : Total) : Nat :=
  t.crb + t.prb + t.grb + t.fnames + t.frb + t.tables + t.opcodes + t.jump + t.cond + t.loop

def Total.add (a b : Total) : Total :=
  { crb := a.crb + b.crb, prb := a.prb + b.prb, grb := a.grb + b.grb, fnames := a.fnames + b.fnames, frb := a.frb + b.frb,
    tables := a.tables + b.tables, opcodes := a.opcodes + b.opcodes, jump := a.jump + b.jump, cond := a.cond + b.cond,
    condOps := a.condOps + b.condOps, condCalls := a.condCalls + b.condCalls, condMaxLen := max a.condMaxLen b.condMaxLen,
    loop := a.loop + b.loop }

instance : Add Total := ⟨Total.add⟩

/-- the three name-table loops of one function record: rounds, and whether all three completed -/
def tablesSteps (ctx0 : Ctx) (d : Bytes) (idx : Int) (declared0 : Nat) : Nat :=
  match getSI 2 d (idx + 12), getSI 4 d (idx + 14), getSI 2 d (idx + 18), getSI 4 d (idx + 20), getSI 2 d (idx + 24), getSI 4 d (idx + 26),
        getSI 4 d (idx + 4) with
  | .ok nArg, .ok argOff, .ok nLocal, .ok localOff, .ok countC, .ok globOff, .ok bcLen =>
    -- the running-total guard (F103) comes before the loops
    if declared0 + (bcLen.toNat + 2 * (nLocal.toNat + nArg.toNat + countC.toNat)) > d.length then 0 else
    let a := localNamesSteps ctx0 d localOff nLocal.toNat 0
    match localNames ctx0 d localOff nLocal.toNat 0 with
    | .error _ => a
    | .ok _ =>
      let b := paramNamesSteps ctx0 d argOff nArg.toNat 0
      match paramNames ctx0 d argOff nArg.toNat 0 with
      | .error _ => a + b
      | .ok _ => a + b + handlerGlobalsSteps d globOff countC.toNat 0
  | _, _, _, _, _, _, _ => 0

/-- the fourteen field reads of one function record (all of them come before the name-table loops) -/
def frbFields (d : Bytes) (idx : Int) : R Unit := do
  let _ ← getSI 2 d idx
  let _ ← getSI 2 d (idx + 2)
  let _ ← getSI 4 d (idx + 4)
  let _ ← getSI 4 d (idx + 8)
  let _ ← getSI 2 d (idx + 12)
  let _ ← getSI 4 d (idx + 14)
  let _ ← getSI 2 d (idx + 18)
  let _ ← getSI 4 d (idx + 20)
  let _ ← getSI 2 d (idx + 24)
  let _ ← getSI 4 d (idx + 26)
  let _ ← getSI 4 d (idx + 30)
  let _ ← getSI 2 d (idx + 34)
  let _ ← getSI 2 d (idx + 36)
  let _ ← getSI 4 d (idx + 38)
  pure ()

/-- one round of `for i in range(0, header.frb_nrecords)` of parse_frb: its counters and the state for the next round -/
def parseFuncS (ctx0 : Ctx) (d : Bytes) (idx : Int) (fs : FrbState) : Total × R FrbState :=
  match readFrb ctx0 d idx fs.declared with
  | .error e =>
    -- the record's 42 bytes could not be read (no name-table loop ran) or a name-table loop raised
    (match frbFields d idx with
     | .ok _ => { frb := 1, tables := tablesSteps ctx0 d idx fs.declared }
     | .error _ => { frb := 1 }, .error e)
  | .ok r =>
    let t0 : Total := { frb := 1, tables := tablesSteps ctx0 d idx fs.declared }
    let ctx := { ctx0 with params := r.params, localVars := r.locals }
    let o := opcodeLoopS ctx d r.bcOff r.bcLen r.bcOff fs.regs { bpc := fs.bpc, tell := fs.tell, gvars := r.globals }
    let t1 : Total := { opcodes := o.1.rounds, jump := o.1.jump }
    match o.2 with
    | .error e => (t0 + t1, .error e)
    | .ok (regs, st) =>
      let c := condDetectS st.stmts
      let t2 : Total := { cond := c.1.steps, condOps := c.1.ops, condCalls := c.1.calls, condMaxLen := c.1.maxLen }
      match c.2 with
      | .error e => (t0 + t1 + t2, .error e)
      | .ok stmts =>
        let l := loopDetectS stmts
        let t3 : Total := { loop := l.1 }
        match l.2 with
        | .error e => (t0 + t1 + t2 + t3, .error e)
        | .ok stmts' =>
          let f : FuncDef := { name := r.fname, pos := idx + 42, params := r.params, localVars := r.locals, globalVars := st.gvars,
                               stmts := stmts', isMethod := r.isMethod }
          (t0 + t1 + t2 + t3, .ok { bpc := st.bpc, tell := st.tell, regs := regs, funcs := fs.funcs ++ [f], declared := r.declared })

def parseFuncsS (ctx : Ctx) (d : Bytes) : Nat → Int → FrbState → Total
  | 0, _, _ => {}
  | k + 1, idx, fs =>
    let r := parseFuncS ctx d idx fs
    match r.2 with
    | .error _ => r.1
    | .ok fs' => r.1 + parseFuncsS ctx d k (idx + 42) fs'

/-- counters of `parse_lrcr_file_data(fdata, name_list)` in a fresh process -/
def lscrStepsWith (codec : Codec) (d : Bytes) (names : List Str) : Total :=
  match parseHeader d with
  | .error _ => {}
  | .ok h =>
    let t0 : Total := { crb := crbSteps codec d h.conOff h.crbN.toNat { idx := h.crbOff, bpc := 6, acc := [] } }
    match parseCrb codec d h.crbOff h.conOff h.crbN with
    | .error _ => t0
    | .ok (constants, bpc) =>
      match (if h.factoryNameIdx ≥ 0 then pyGet names h.factoryNameIdx else pure []) with
      | .error _ => t0
      | .ok _ =>
        let t1 : Total := if h.grbOff ≠ h.prbOff then { prb := 3 * nameRecordsSteps d h.prbOff h.grbOff } else {}
        match (if h.grbOff ≠ h.prbOff then nameRecords d names h.prbOff h.grbOff else pure []) with
        | .error _ => t0 + { prb := t1.prb - 1 }       -- the round that raises reports its first line twice only
        | .ok props =>
          let t2 : Total := if h.frbOff ≠ h.grbOff then { grb := 3 * nameRecordsSteps d h.grbOff h.frbOff } else {}
          match (if h.frbOff ≠ h.grbOff then nameRecords d names h.grbOff h.frbOff else pure []) with
          | .error _ => t0 + t1 + { grb := t2.grb - 1 }
          | .ok globs =>
            let t3 : Total := { fnames := funcNamesSteps d h.frbN.toNat h.frbOff }
            match funcNames d names h.frbN.toNat h.frbOff with
            | .error _ => t0 + t1 + t2 + t3
            | .ok lfn =>
              let ctx : Ctx := { names := names, constants := constants, localFuncs := lfn, props := props, scriptGlobals := globs,
                                 params := [], localVars := [] }
              t0 + t1 + t2 + t3 + parseFuncsS ctx d h.frbN.toNat h.frbOff { bpc := bpc, tell := false, regs := [], funcs := [] }

/-- `names = parse_lnam_file_data(lnam)` (or `[]` when no name table is given), then the chunk -/
def lscrSteps (lscr : Bytes) (lnam : Option Bytes) : Total :=
  match lnam with
  | none => lscrStepsWith .macRoman lscr []
  | some n =>
    match parseLnam .macRoman n with
    | .error _ => {}
    | .ok names => lscrStepsWith .macRoman lscr names

end Drx.Lscr.Steps
