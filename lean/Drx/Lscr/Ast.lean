/-
  The AST of drxtract/lingosrc/ast/*.py as ONE inductive family.

  * Python classes that only carry `name` and `position` are `Node.leaf` with a class tag (`Leaf`).
  * `Node.none` is Python's `None` stored in an `Optional[Node]` field (CallFunction.parameters of `exit`,
    StringOperation.end, RepeatOperation.start/end before loop detection).
  * `name` is a `Name` (Python `str` or `int`) wherever the value is copied from a popped node
    (pool integers are Python ints in `ConstantValue.name`, and `Sprite(x.name)`, `ro.varname = left.name` … copy them).
  * Python aliasing is copying here (DESIGN section 6); see Drx/Lscr.lean for the domain restriction this implies.
-/
import Drx.Lscr.PyStr
namespace Drx.Lscr
open Drx

/-- classes with no fields beyond `name`, `position` -/
inductive Leaf where
  | node          -- plain `Node` (only `Node('me', …)`)
  | localVar | globalVar | propName | definedProp | paramName | dateTime
  | menu | menuItem | soundChan | sprite | sysObj | cast
  | const         -- ConstantValue
  | exitRepeat
  deriving DecidableEq, Repr, Inhabited

inductive Node where
  | none
  | leaf (c : Leaf) (name : Name) (pos : Int)
  /-- Symbol -/
  | sym (name : Name) (pos : Int) (useHash : Bool)
  /-- UnaryOperation; `op` = enum value (minus not field hilite delete …) -/
  | unary (op : Str) (pos : Int) (operand : Node)
  /-- BinaryOperation; `op` = enum value (assign add …) -/
  | binary (op : Str) (pos : Int) (left right : Node)
  /-- SpAssignOperation (name 'assign') -/
  | spAssign (pos : Int) (left right : Node) (mode : Str)
  /-- StringOperation; `kind` = enum value (char word item line UNKNOWN); `stop` = `.end` -/
  | strOp (kind : Str) (pos : Int) (start stop of_ : Node)
  /-- UnaryStringOperation; `type` = StringOperationNames value or none -/
  | unaryStr (op : Str) (pos : Int) (type : Option Str) (of_ : Node)
  /-- PropertyAccessorOperation (name 'accessor') -/
  | propAcc (pos : Int) (obj : Node) (prop : Str) (explicitObj : Bool)   -- explicitObj: the object came from the stack (opcodes 0x61 / 0x62)
  /-- KeyPropertyAccessorOperation (name 'accessor') -/
  | keyAcc (pos : Int) (prop : Str)
  /-- MenuitemAccessorOperation (name 'menu_item') -/
  | menuItemAcc (pos : Int) (menu item : Node)
  /-- MenuitemsAccessorOperation (name 'menu_items') -/
  | menuItemsAcc (pos : Int) (menu : Node)
  /-- LoadListOperation; operands in pop order (last argument first) -/
  | loadList (name : Str) (pos : Int) (operands : List Node)
  /-- ToListOperation (name 'to_list') -/
  | toList (pos : Int) (operand : Node)
  /-- ToDictionaryOperation (name 'to_dict') -/
  | toDict (pos : Int) (operand : Node)
  /-- Statement (name 'statement') -/
  | stmt (pos : Int) (code : Node)
  /-- CallFunction -/
  | callFn (name : Name) (pos : Int) (params : Node) (useParen inTell withResult : Bool) (receiver : Node)
  /-- CallMethod -/
  | callMethod (name : Name) (pos : Int) (obj params : Node)
  /-- RepeatOperation (name 'repeat'); `type` ∈ while / for / for_in; `sign` '+' / '-' / ''.
      Python's `ro.end` is the very object `ro.condition.right` (set by loop_detect, never reassigned), so it is not
      stored: see `Node.repeatEnd`. -/
  | repeat_ (pos endPos : Int) (cond : Node) (stmts : List Node) (type : Str) (start : Node) (varname : Name) (sign : Str)
      (loopVar : Node)
  /-- IfThenOperation (name 'if-then') -/
  | ifThen (pos : Int) (cond : Node) (ifs elses : List Node)
  /-- JumpOperation (name 'jump') -/
  | jump (pos : Int) (addr : Int)
  /-- JzOperation (name 'jz') -/
  | jz (pos : Int) (cond : Node) (addr : Int)
  /-- WindowTellOperation (name 'tell') -/
  | tell (pos : Int) (operand : Node) (stmts : List Node) (closed : Bool)
  deriving Repr, Inhabited

/-- class identity for `isinstance` / `__eq__` (DefinedPropertyName is the only proper subclass of a non-base class) -/
inductive Cls where
  | none | leaf (c : Leaf) | sym | unary | binary | spAssign | strOp | unaryStr | propAcc | keyAcc | menuItemAcc
  | menuItemsAcc | loadList | toList | toDict | stmt | callFn | callMethod | repeat_ | ifThen | jump | jz | tell
  deriving DecidableEq, Repr

def Node.cls : Node → Cls
  | .none => .none
  | .leaf c _ _ => .leaf c
  | .sym .. => .sym
  | .unary .. => .unary
  | .binary .. => .binary
  | .spAssign .. => .spAssign
  | .strOp .. => .strOp
  | .unaryStr .. => .unaryStr
  | .propAcc .. => .propAcc
  | .keyAcc .. => .keyAcc
  | .menuItemAcc .. => .menuItemAcc
  | .menuItemsAcc .. => .menuItemsAcc
  | .loadList .. => .loadList
  | .toList .. => .toList
  | .toDict .. => .toDict
  | .stmt .. => .stmt
  | .callFn .. => .callFn
  | .callMethod .. => .callMethod
  | .repeat_ .. => .repeat_
  | .ifThen .. => .ifThen
  | .jump .. => .jump
  | .jz .. => .jz
  | .tell .. => .tell

/-- `x.name` (AttributeError on None) -/
def Node.name : Node → R Name
  | .none => .error .type
  | .leaf _ n _ => .ok n
  | .sym n _ _ => .ok n
  | .unary op _ _ => .ok (.s op)
  | .binary op _ _ _ => .ok (.s op)
  | .spAssign .. => .ok (.s (S "assign"))
  | .strOp k _ _ _ _ => .ok (.s k)
  | .unaryStr op _ _ _ => .ok (.s op)
  | .propAcc .. => .ok (.s (S "accessor"))
  | .keyAcc .. => .ok (.s (S "accessor"))
  | .menuItemAcc .. => .ok (.s (S "menu_item"))
  | .menuItemsAcc .. => .ok (.s (S "menu_items"))
  | .loadList n _ _ => .ok (.s n)
  | .toList .. => .ok (.s (S "to_list"))
  | .toDict .. => .ok (.s (S "to_dict"))
  | .stmt .. => .ok (.s (S "statement"))
  | .callFn n .. => .ok n
  | .callMethod n .. => .ok n
  | .repeat_ .. => .ok (.s (S "repeat"))
  | .ifThen .. => .ok (.s (S "if-then"))
  | .jump .. => .ok (.s (S "jump"))
  | .jz .. => .ok (.s (S "jz"))
  | .tell .. => .ok (.s (S "tell"))

/-- `x.position` (0 for None, which has none; callers test the class first) -/
def Node.pos : Node → Int
  | .none => 0
  | .leaf _ _ p => p
  | .sym _ p _ => p
  | .unary _ p _ => p
  | .binary _ p _ _ => p
  | .spAssign p _ _ _ => p
  | .strOp _ p _ _ _ => p
  | .unaryStr _ p _ _ => p
  | .propAcc p _ _ _ => p
  | .keyAcc p _ => p
  | .menuItemAcc p _ _ => p
  | .menuItemsAcc p _ => p
  | .loadList _ p _ => p
  | .toList p _ => p
  | .toDict p _ => p
  | .stmt p _ => p
  | .callFn _ p _ _ _ _ _ => p
  | .callMethod _ p _ _ => p
  | .repeat_ p .. => p
  | .ifThen p .. => p
  | .jump p _ => p
  | .jz p _ _ => p
  | .tell p _ _ _ => p

/-- `a == b` as implemented by `Node.__eq__` / `GlobalVariable.__eq__`.
    `is_same_class(other, self)` is `isinstance(other, type(self))`; CPython first tries the right operand's `__eq__`
    when its type is a proper subclass of the left's. For every pair of classes other than the plain base class `Node`
    (never compared: `Node('me')` only lives inside an accessor) this is: same class (or both property-name classes with
    the subclass on the right handled first, which yields False unless the classes are equal), equal names, equal positions. -/
def Node.pyEq (a b : Node) : Bool :=
  match a, b with
  | .none, .none => true
  | .none, _ => false
  | _, .none => false
  | a, b =>
    if a.cls ≠ b.cls then false
    else if a.cls = .leaf .globalVar then
      (match a.name, b.name with | .ok x, .ok y => x == y | _, _ => false)
    else
      (match a.name, b.name with | .ok x, .ok y => x == y | _, _ => false) && a.pos == b.pos

/-- `x in l` -/
def pyIn (x : Node) (l : List Node) : Bool := l.any fun y => y.pyEq x

/-- `l.remove(x)`: first element equal to `x`; ValueError if absent -/
def pyRemove : List Node → Node → R (List Node)
  | [], _ => .error .value
  | y :: ys, x => if y.pyEq x then .ok ys else (pyRemove ys x).map (y :: ·)

def pyRemoveAll (l : List Node) (xs : List Node) : R (List Node) :=
  xs.foldlM pyRemove l

/-- `x is None` -/
def Node.isNone : Node → Bool
  | .none => true
  | _ => false

/-- the name if the node is a Symbol -/
def Node.symName? : Node → Option Name
  | .sym n _ _ => some n
  | _ => Option.none

/-- CallFunction.with_result (False for every other class) -/
def Node.withResult : Node → Bool
  | .callFn _ _ _ _ _ wr _ => wr
  | _ => false

/-- `isinstance(x, LocalVariable) and x.name == 'menus'` -/
def Node.isMenusVar : Node → Bool
  | .leaf .localVar n _ => n == Name.s (S "menus")
  | _ => false

/-- FunctionDef -/
structure FuncDef where
  name : Str
  pos : Int
  params : List Node := []       -- ParameterName leaves
  localVars : List Node := []    -- LocalVariable leaves
  globalVars : List Node := []   -- GlobalVariable leaves
  stmts : List Node := []
  isMethod : Bool := false
  deriving Repr, Inhabited

/-- Script -/
structure Script where
  properties : List Str := []
  globalVars : List Str := []
  functions : List FuncDef := []
  scrNum : Int := -1
  contScrNum : Int := -1
  factoryName : Str := []
  deriving Repr, Inhabited

/-! ### size measure for the well-founded recursions of the control-flow passes -/

mutual
  def Node.weight : Node → Nat
    | .none => 1
    | .leaf .. => 1
    | .sym .. => 1
    | .unary _ _ x => 1 + x.weight
    | .binary _ _ l r => 1 + l.weight + r.weight
    | .spAssign _ l r _ => 1 + l.weight + r.weight
    | .strOp _ _ a b c => 1 + a.weight + b.weight + c.weight
    | .unaryStr _ _ _ x => 1 + x.weight
    | .propAcc _ x _ _ => 1 + x.weight
    | .keyAcc .. => 1
    | .menuItemAcc _ a b => 1 + a.weight + b.weight
    | .menuItemsAcc _ a => 1 + a.weight
    | .loadList _ _ l => 1 + weightList l
    | .toList _ x => 1 + x.weight
    | .toDict _ x => 1 + x.weight
    | .stmt _ x => 1 + x.weight
    | .callFn _ _ p _ _ _ r => 1 + p.weight + r.weight
    | .callMethod _ _ a b => 1 + a.weight + b.weight
    | .repeat_ _ _ c l _ a _ _ v => 1 + c.weight + weightList l + a.weight + v.weight
    | .ifThen _ c a b => 1 + c.weight + weightList a + weightList b
    | .jump .. => 1
    | .jz _ c _ => 1 + c.weight
    | .tell _ x l _ => 1 + x.weight + weightList l
  def weightList : List Node → Nat
    | [] => 0
    | x :: xs => x.weight + weightList xs
end

end Drx.Lscr
