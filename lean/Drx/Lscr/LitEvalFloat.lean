/-
  Spec side of property C11, floats: what a decimal floating literal READS BACK as — the sign and the double nearest to the
  decimal (round half to even, gradual underflow, overflow to infinity), the way both Lingo and JavaScript read a literal.
  Trusted as the meaning of "evaluates to"; compared with CPython's `float(text)` on every run (`lscr readdbl`).
-/
import Drx.Lscr.LitEval
import Drx.Lscr.Float
namespace Drx.Lscr
open Drx

/-- the double nearest to `n / d` (`d > 0`): the quotient with more than 1140 binary digits after the point and a sticky bit
    for the remainder, rounded once by `roundDbl` (every double is a multiple of 2^-1074, so the sticky bit decides all ties) -/
def roundRat (n d : Nat) : Dbl :=
  let K := 1140 + bitLen d
  let num := n * 2 ^ K
  roundDbl (2 * (num / d) + (if num % d = 0 then 0 else 1)) (-(K : Int) - 1)

/-- the double nearest to `digits · 10^ex` -/
def roundDec (digits : Nat) (ex : Int) : Dbl :=
  if ex ≥ 0 then roundDbl (digits * 10 ^ ex.toNat) 0 else roundRat digits (10 ^ (-ex).toNat)

/-- what the literal reads back as: (negative?, magnitude as a double); `none` if the text is not a decimal literal -/
def readDbl (s : Str) : Option (Bool × Dbl) := (evalDecimal s).map fun (neg, m, ex) => (neg, roundDec m ex)

/-- a finite non-zero double magnitude in the normal form `roundDbl` produces -/
def NormDbl (m : Nat) (e : Int) : Prop :=
  (2 ^ 52 ≤ m ∧ m < 2 ^ 53 ∧ -1074 ≤ e ∧ e + 53 ≤ 1024) ∨ (0 < m ∧ m < 2 ^ 52 ∧ e = -1074)

/-- HYPOTHESIS of the float theorem (not an axiom: a premise): `repr(float)` round-trips — the shortest-digits text CPython
    prints for a finite non-zero double reads back as that double.  (Guaranteed by CPython's `float_repr_style = 'short'`;
    the model of `repr` is Float.lean `reprDbl`, the reader is `readDbl`; checked on every run for sampled doubles.) -/
def ReprRoundTrips : Prop := ∀ (m : Nat) (e : Int), NormDbl m e → readDbl (reprDbl false (.fin m e)) = some (false, .fin m e)

end Drx.Lscr
