/-
  Counting twins of the loops of the cast model (support for property C10; the model is Drx/Cast.lean).

  parse_basic_cast_data has three Python-level loops:
    (1) `for i in range(0, nelems)`      one `>i` read per round (the numbers area beyond its 0x14 fixed bytes)
    (2) `for i in range(0, nstruct+1)`   one `>i` read per round (the offset table)
    (3) `for i in range(0, nstruct)`     one slice + base64 per round (the structures)
  `nelems` and `nstruct` are DECLARED by the input. Rounds of (1) and (2) raise as soon as a read passes the end of the data,
  (3) only runs after (2) has read `nstruct+1` offsets. The twins count the rounds that START (the raising round included), following
  the control flow of `parseBasic` exactly (a failure before a loop means the loop does not run). Everything else in the cast
  readers is straight-line. Work inside the rounds of (3) is measured by `extrasBytes` (bytes sliced/encoded) and `nameBytes`.
-/
import Drx.Cast
namespace Drx.Cast
open Drx

/-- rounds of `for i in range(n): x = unpack(...)` that start: stops after the first failing read -/
def readNSteps (k : FK) : Nat → Bytes → Nat → Nat
  | 0, _, _ => 0
  | n + 1, d, off =>
    match readField k d off with
    | .error _ => 1
    | .ok _ => 1 + readNSteps k n d (off + k.size)

/-- rounds of the structure loop: one per consecutive pair of offsets (= `nstruct`) -/
def collectSteps : List Int → Nat
  | _ :: o1 :: rest => 1 + collectSteps (o1 :: rest)
  | _ => 0

/-- bytes of the Pascal-string body handed to the codec: `len(stdata[1:nchars+1])` -/
def nameBytes (extras : List Bytes) : Nat :=
  match extras with
  | _ :: (n :: cs) :: _ => (slice (n :: cs) 1 (n.toNat + 1)).length
  | _ => 0

structure BasicSteps where
  numbers : Nat        -- rounds of loop (1)
  offsets : Nat        -- rounds of loop (2)
  structures : Nat     -- rounds of loop (3)
  extrasBytes : Nat    -- bytes sliced (and base64-encoded) inside loop (3), all rounds together
  nameBytes : Nat      -- bytes decoded for the member name
  deriving Repr, DecidableEq, Inhabited

/-- Python-level loop rounds -/
def BasicSteps.total (s : BasicSteps) : Nat := s.numbers + s.offsets + s.structures

/-- the fixed reads and checks of `parseBasic` before the first loop; the numbers size when they all succeed -/
def basicPrefix (b : Bytes) : Option Int :=
  match getS .be 4 b 0 with
  | .error _ => none
  | .ok ns =>
    if ns < 0x14 then none else
    match readField .u32 b 4, getS .be 4 b 8, getS .be 4 b 12, getS .be 4 b 16 with
    | .ok _, .ok _, .ok bd2, .ok _ => match purgeName bd2 with | .ok _ => some ns | .error _ => none
    | _, _, _, _ => none

/-- counting twin of `parseBasic` -/
def parseBasicSteps (b : Bytes) : BasicSteps :=
  if b.length = 0 then ⟨0, 0, 0, 0, 0⟩ else
  match basicPrefix b with
  | none => ⟨0, 0, 0, 0, 0⟩
  | some ns =>
    let nelems := ((ns - 0x14) / 4).toNat
    let s1 := readNSteps .s32 nelems b 20
    match readN .s32 nelems b 20 with
    | .error _ => ⟨s1, 0, 0, 0, 0⟩
    | .ok _ =>
      let idx := 20 + 4 * nelems
      match getS .be 2 b idx with
      | .error _ => ⟨s1, 0, 0, 0, 0⟩
      | .ok nstruct =>
        if nstruct > 0 then
          let s2 := readNSteps .s32 (nstruct.toNat + 1) b (idx + 2)
          match readN .s32 (nstruct.toNat + 1) b (idx + 2) with
          | .error _ => ⟨s1, s2, 0, 0, 0⟩
          | .ok offs =>
            let extras := collectExtras b offs (idx + 2 + 4 * (nstruct.toNat + 1))
            ⟨s1, s2, collectSteps offs, extras.flatten.length, nameBytes extras⟩
        else ⟨s1, 0, 0, 0, 0⟩

/-- counting twin of `parseCast`: the container is straight-line, the loops are those of the info block -/
def castSteps (d : Bytes) : BasicSteps :=
  match getU .be 4 d 0 with
  | .error _ => ⟨0, 0, 0, 0, 0⟩
  | .ok w =>
    match (if w / 256 ≠ 0 then structD4 d else structD5 d) with
    | .error _ => ⟨0, 0, 0, 0, 0⟩
    | .ok st => parseBasicSteps st.basic

end Drx.Cast
