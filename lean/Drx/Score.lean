/-
  Model of drxtract/vwsc/vwsc.py `vwsc_to_score` (property C09), exactly as written: a first pass over the frames
  collecting transition / sound / script / tempo / palette events, a second pass frame by frame and channel by channel
  extending the last span of the channel or opening a new one.  Input: the decoded frame table (`Drx.Vwsc.Frame`).
-/
import Drx.VwscChannels
namespace Drx.Score
open Drx Drx.Vwsc

/-- a sound span `{'startFrame','endFrame','castId'}` -/
structure Snd where
  startFrame : Nat
  endFrame : Nat
  castId : Int
  deriving Repr, DecidableEq, Inhabited

/-- a sprite span (one dict of `data['sprite'][j]`) -/
structure Span where
  castId : Int
  backColor : Int
  foreColor : Int
  width : Int
  height : Int
  ink : Int
  type : Int
  locH : Int
  locV : Int
  editable : Bool
  moveable : Bool
  trails : Int
  startFrame : Nat
  endFrame : Nat
  locZ : Nat
  left : Int
  top : Int
  right : Int
  bottom : Int
  deriving Repr, DecidableEq, Inhabited

structure TransEv where
  frame : Nat
  id : List Char
  chunkSize : Int
  duration : Int
  deriving Repr, DecidableEq, Inhabited

/-- the event lists of the first pass -/
structure Events where
  transition : List TransEv := []
  palette : List (Nat × Int) := []
  sound1 : List Snd := []
  sound2 : List Snd := []
  tempo : List (Nat × Int) := []
  script : List (Nat × Int) := []
  deriving Repr, DecidableEq, Inhabited

structure Score where
  lastChannel : Nat
  lastFrame : Nat
  events : Events
  sprite : List (List Span)
  deriving Repr, DecidableEq, Inhabited

/-- one `sound1`/`sound2` step of frame `i` (0-based) carrying cast `cast > 0`: extend the last span if it ended on the
    previous frame (`endFrame == i`) and has the same cast, else append a new span -/
def sndStep (i : Nat) (l : List Snd) (cast : Int) : List Snd :=
  match l.getLast? with
  | some prev =>
    if prev.endFrame = i ∧ prev.castId = cast then l.dropLast ++ [{ prev with endFrame := i + 1 }]
    else l ++ [⟨i + 1, i + 1, cast⟩]
  | none => l ++ [⟨i + 1, i + 1, cast⟩]

/-- the body of the first `for i in range(lastFrame)` loop -/
def eventStep (i : Nat) (f : Frame) (e : Events) : Events :=
  match f.main with
  | none => match f.palette with
    | some p => { e with palette := e.palette ++ [(i + 1, p.paletteId)] }
    | none => e
  | some m =>
    let e := match m.ext with
      | .d4 tid chunk dur => if tid ≠ [] then { e with transition := e.transition ++ [⟨i + 1, tid, chunk, dur⟩] } else e
      | .d5 _ => e                                  -- no 'transition_id' key in the 24-byte layout's dict
    let e := if m.sound1 > 0 then { e with sound1 := sndStep i e.sound1 m.sound1 } else e
    let e := if m.sound2 > 0 then { e with sound2 := sndStep i e.sound2 m.sound2 } else e
    let e := if m.script > 0 then { e with script := e.script ++ [(i + 1, m.script)] } else e
    let e := if m.fps > 0 then { e with tempo := e.tempo ++ [(i + 1, m.fps)] } else e
    match f.palette with
    | some p => { e with palette := e.palette ++ [(i + 1, p.paletteId)] }
    | none => e

def pass1 : Nat → List Frame → Events → Events
  | _, [], e => e
  | i, f :: fs, e => pass1 (i + 1) fs (eventStep i f e)

/-- the 12 compared attributes -/
def sameAttrs (prev : Span) (s : Sprite) : Bool :=
  prev.castId == s.castId && prev.castId == s.castId && prev.backColor == s.backgroundColor &&
  prev.foreColor == s.foregroundColor && prev.width == s.width && prev.height == s.height && prev.ink == s.inkType &&
  prev.type == s.spriteType && prev.locH == s.x && prev.locV == s.y && prev.editable == s.editable &&
  prev.moveable == s.moveable && prev.trails == s.trails

/-- 'This is a new sprite': `math.ceil(locH - width/2)` is `locH - ⌊width/2⌋` (exact while the operands are exact floats) -/
def newSpan (i j : Nat) (s : Sprite) : Span :=
  let left := s.x - s.width / 2
  let top := s.y - s.height / 2
  { castId := s.castId, backColor := s.backgroundColor, foreColor := s.foregroundColor, width := s.width, height := s.height,
    ink := s.inkType, type := s.spriteType, locH := s.x, locV := s.y, editable := s.editable, moveable := s.moveable,
    trails := s.trails, startFrame := i + 1, endFrame := i + 1, locZ := j + 1, left := left, top := top,
    right := left + s.width, bottom := top + s.height }

/-- the body of the inner loop for one cell: frame `i`, channel `j` -/
def stepCell (i j : Nat) (spans : List Span) : Option Sprite → List Span
  | none => spans                                     -- `'castId' in score[j]` is false
  | some s =>
    match spans.getLast? with
    | some prev =>
      if prev.endFrame = i ∧ sameAttrs prev s = true then spans.dropLast ++ [{ prev with endFrame := i + 1 }]
      else spans ++ [newSpan i j s]
    | none => spans ++ [newSpan i j s]

/-- `for j in range(lastChannel)`: one span list per channel; `score[j]` raises IndexError on a short frame -/
def stepFrame (i : Nat) : Nat → List (List Span) → List (Option Sprite) → R (List (List Span))
  | _, [], _ => .ok []
  | _, _ :: _, [] => .error .index
  | j, sp :: sps, c :: cs =>
    match stepFrame i (j + 1) sps cs with
    | .error e => .error e
    | .ok rest => .ok (stepCell i j sp c :: rest)

def pass2 : Nat → List Frame → List (List Span) → R (List (List Span))
  | _, [], sps => .ok sps
  | i, f :: fs, sps =>
    match stepFrame i 0 sps f.score with
    | .error e => .error e
    | .ok sps' => pass2 (i + 1) fs sps'

/-- vwsc.vwsc_to_score -/
def vwscToScore (frames : List Frame) : R Score :=
  let lastChannel := match frames with | [] => 0 | f :: _ => f.score.length
  match pass2 0 frames (List.replicate lastChannel []) with
  | .error e => .error e
  | .ok sprite => .ok ⟨lastChannel, frames.length, pass1 0 frames {}, sprite⟩

/-! ### canonical observable -/

def Snd.toJ (s : Snd) : J := .obj [("startFrame", .nat s.startFrame), ("endFrame", .nat s.endFrame), ("castId", .int s.castId)]

def Span.toJ (s : Span) : J :=
  .obj [("castId", .int s.castId), ("backColor", .int s.backColor), ("foreColor", .int s.foreColor), ("width", .int s.width),
        ("height", .int s.height), ("ink", .int s.ink), ("type", .int s.type), ("locH", .int s.locH), ("locV", .int s.locV),
        ("editable", .bool s.editable), ("moveable", .bool s.moveable), ("trails", .int s.trails), ("startFrame", .nat s.startFrame),
        ("endFrame", .nat s.endFrame), ("locZ", .nat s.locZ), ("left", .int s.left), ("top", .int s.top), ("right", .int s.right),
        ("bottom", .int s.bottom)]

def Score.toJ (s : Score) : J :=
  .obj [("lastChannel", .nat s.lastChannel), ("lastFrame", .nat s.lastFrame),
        ("transition", .arr (s.events.transition.map fun t => .obj [("frame", .nat t.frame), ("transition_id", .str t.id),
            ("transition_chunk_size", .int t.chunkSize), ("transition_duration", .int t.duration)])),
        ("palette", .arr (s.events.palette.map fun p => .obj [("frame", .nat p.1), ("palette_id", .int p.2)])),
        ("sound1", .arr (s.events.sound1.map Snd.toJ)), ("sound2", .arr (s.events.sound2.map Snd.toJ)),
        ("tempo", .arr (s.events.tempo.map fun p => .obj [("frame", .nat p.1), ("fps", .int p.2)])),
        ("script", .arr (s.events.script.map fun p => .obj [("frame", .nat p.1), ("castId", .int p.2)])),
        ("sprite", .arr (s.sprite.map fun l => .arr (l.map Span.toJ)))]

end Drx.Score
