/-
  The REAL decoders of drxtract, composed: `realDecoders codec : Dir.Decoders` instantiates every parameter of the
  whole-movie assembly model (Drx/Dir.lean) with the finished Lean model of the corresponding Python function:

    key     key.parse_key_file_data                         Idx.parseKey                      (C17)
    vwcf    vwcf.parse_vwcf_file_data                       Idx.parseVwcf                     (C17)
    cas     cas.parse_cas_file_data                         Idx.parseCas                      (C17)
    lctx    lctx.parse_lctx_file_data                       Idx.parseLctx                     (C17)
    lnam    lingosrc.parse.lnam.parse_lnam_file_data        Idx.parseLnam                     (C17)
    script  parse_lrcr_file_data + generate_lingo_code
            + generate_js_code (on the SAME tree)           Lscr.parseLscrWith, genLingo, genJs (C12 model)
    vwlb    vwlb.parse_vwlb_data                            Idx.parseVwlb                     (C17)
    score   vwsc_to_score ∘ parse_vwsc_file_data            Score.vwscToScore ∘ Vwsc.parseVwscFile (C08, C09)
    fmap    fmap.parse_fmap_data                            Fmap.parseFmap                    (C16)
    cast    cast.parse_cast_file_data                       Cast.parseCast                    (C15)
    stxt    stxt.parse_stxt_data                            Stxt.parseStxt                    (C16)
    snd     snd.snd_to_sampled                              Snd.sndToSampled                  (C07)
    clut    clut.clut2palette                               Pal.clut2palette                  (C14)
    bitd    bitd.bitd2bmp                                   Bitd.bitd2bmp                     (C06, C13)

  `codec` is util.get_encoding() (env DRX_ENCODING; it is read by lnam, vwlb, fmap, stxt, the cast member name and the
  string constants of a script).

  Where a model's result type differs from what `Decoders` expects there is a small ADAPTER below. A decoder result that the
  assembly only passes on is a `J` built with that family's own `toJ` (the observable its own check compares), except raw
  `bytes` results (palette, bitmap), which are `{"__bytes__": hex}` so that a later decoder (bitd2bmp receives the palette
  bytes of ANOTHER member) can read them back without ambiguity with a `str` value.

  Python process state that the pure `Decoders.script` cannot carry (operand registers of the opcode singletons, the tree a
  generator leaves behind) is covered by C12: `parse_regs_irrelevant` (registers never influence a parse) — so the fresh
  registers `[]` used here lose nothing — and `movie_path_eq_cli`; the JS text is generated from the tree the Lingo generator
  left behind, exactly as dir.py does.
-/
import Drx.Dir
import Drx.Idx
import Drx.Codec
import Drx.Fmap
import Drx.Stxt
import Drx.Cast
import Drx.Pal
import Drx.Bitd
import Drx.Snd
import Drx.Vwsc
import Drx.Score
import Drx.Lscr
namespace Drx.DirReal
open Drx Drx.Dir

/-! ### small adapters -/

/-- a Python `bytes` value that the assembly hands on or stores -/
def bytesJ (b : Bytes) : J := .obj [("__bytes__", J.hex b)]

/-- reads `bytesJ` back -/
def bytesOfJ : J → Option Bytes
  | .obj [("__bytes__", .str h)] => bytesOfHexAux h []
  | _ => none

/-- `Idx.KeyData` and `Dir.KeyData` are the same table with differently named records -/
def keyConv (kd : Idx.KeyData) : Dir.KeyData := kd.map fun (k, l) => (k, l.map fun r => ⟨r.chunkID, r.index⟩)

def textsJ (l : List (List Char)) : J := .arr (l.map J.str)

/-- the name list as `parse_lrcr_file_data` receives it (the value `parse_lnam_file_data` returned, or `[]`) -/
def namesOfJ : J → R (List (List Char))
  | .arr l => l.mapM fun | .str s => .ok s | _ => .error .type
  | _ => .error .type

/-- the font map as `parse_stxt_data` receives it (the value `parse_fmap_data` returned, or `[]`) -/
def fontsOfJ : J → R (List Fmap.FontInfo)
  | .arr l => l.mapM fun
      | .obj [("name", .str n), ("id", .int i)] => .ok ⟨n, i⟩
      | _ => .error .type
  | _ => .error .type

/-- `s.lstrip('-').isdigit()` for the strings `str(int)` produces, together with `int(s)`: optional sign, then one or more
    ASCII digits. (`'--5'` also passes Python's test and then makes `int()` raise; no decoder produces such a value.) -/
def digitsVal : List Char → Nat → Option Nat
  | [], acc => some acc
  | c :: cs, acc => if '0' ≤ c ∧ c ≤ '9' then digitsVal cs (acc * 10 + (c.toNat - 48)) else none

def intOfStr? : List Char → Option Int
  | '-' :: c :: cs => (digitsVal (c :: cs) 0).map fun n => -(n : Int)
  | c :: cs => if c = '-' then none else (digitsVal (c :: cs) 0).map fun n => (n : Int)
  | [] => none

/-- a value of the record `parse_cast_file_data` returns as the assembly sees it: the `palette` entry is inspected by
    `int(palette) if str(palette).lstrip('-').isdigit()`, everything else is only passed on -/
def castVal (k : String) (v : J) : Val :=
  if k = "palette" then
    match v with
    | .str s => match intOfStr? s with | some i => .intStr i | none => .tok v
    | _ => .tok v
  else .tok v

/-- the dict `parse_cast_file_data` returns: the keys of the per-type reader in insertion order, then `castData['content'] = content` -/
def castConv (c : Cast.CastData) : Dir.CastData :=
  (c.fields ++ [("content", c.content.toJ)]).foldl (fun acc p => acc.set p.1 (castVal p.1 p.2)) []

/-- `castData[k]` for a key whose value is an `int` -/
def castInt (cd : Dir.CastData) (k : String) : R Int :=
  match cd.get? k with
  | some (.tok (.int i)) => .ok i
  | some _ => .error .type
  | none => .error .key

/-- `str(castData['palette_txt'])` -/
def castPaletteTxt (cd : Dir.CastData) : R String :=
  match cd.get? "palette_txt" with
  | some (.tok (.str s)) => .ok (String.ofList s)
  | some (.tok (.int i)) => .ok (toString i)
  | some _ => .error .type
  | none => .error .key

/-- the `clutData` argument of `bitd2bmp`: `bytes()` when no custom palette is referenced, else `cast[p]['palette']`.
    That value is palette BYTES when the referenced member is a palette (CLUT link). When it is a `str` (the referenced member is
    itself an 8-bit bitmap: its palette number or system palette name), `Decoder.writeColorPalette` takes the "custom palette"
    branch (`len(palette_data) > 0`) and `struct.pack('B'*1024, *palette_data[0:1024])` raises for every string. -/
def clutArg : Option Val → R Bytes
  | none => .ok []
  | some (.tok j) => match bytesOfJ j with | some b => .ok b | none => .error .struct
  | some (.intStr _) => .error .struct

/-- whether the numbers of a bitmap record are inside the domain of the bitmap model (`Bitd.Request` has natural-number
    width, height and depth; both registration offsets are integers) -/
def bitdInDomain (width height : Int) : Bool := decide (0 ≤ width) && decide (0 ≤ height)

/-- bitd2bmp(castData, clutData, fdata): the reads of `castData` in Python's order, then the decoder for the depth (`dec`, a
    parameter only so that the DRIVER can substitute the array-based twin of lean/Drx/BitdFast.lean for large images; the model the
    theorems talk about is `bitdReal`, with the list model `Bitd.bitd2bmpI`).
    Outside `bitdInDomain` (a negative width or height in the member record) the bitmap model has no
    counterpart: `Err.notImpl` (the harness does not compare such movies; none is produced by any encoder). -/
def bitdRealWith (dec : Bitd.Request → R Bytes) (cd : Dir.CastData) (clut : Option Val) (d : Bytes) : R J := do
  let height ← castInt cd "height"
  let width ← castInt cd "width"
  let depth ← castInt cd "depth"
  let padW ← castInt cd "w_padding"
  let padH ← castInt cd "h_padding"
  let palette ← if depth = 8 then castPaletteTxt cd else pure ""
  -- not a key of DECODERS: "Bad BPP value"
  if depth < 0 ∨ (Bitd.lookupN depth.toNat Gen.BitdTables.decoders).isNone then .error .value else
  if !bitdInDomain width height then .error .notImpl else
  let clutB ← clutArg clut
  let bmp ← dec { depth := depth.toNat, width := width.toNat, height := height.toNat, padW := padW, padH := padH,
                  palette := palette, clut := clutB, fdata := d }
  .ok (bytesJ bmp)

def bitdReal : Dir.CastData → Option Val → Bytes → R J := bitdRealWith Bitd.bitd2bmpI

/-- parse_lrcr_file_data(chunk, name_list); generate_lingo_code(lscr); generate_js_code(lscr) — the second generator runs on
    the tree the first one left behind -/
def scriptReal (codec : Codec) (d : Bytes) (names : J) : R ScriptOut := do
  let ns ← namesOfJ names
  let (s, _) ← Lscr.parseLscrWith codec [] d ns
  let (lingo, s') := Lscr.genLingo s
  let l ← lingo
  let j ← (Lscr.genJs s').1
  .ok ⟨s.scrNum, s.contScrNum, l, j⟩

/-- parse_stxt_data(chunk, fontmap) -> (text_data['text'], text_data['txt_format']) -/
def stxtReal (codec : Codec) (d : Bytes) (fontmap : J) : R (J × J) := do
  let fonts ← fontsOfJ fontmap
  let t ← Stxt.parseStxt (decodeText codec) fonts d
  .ok (.str t.text, .arr (t.formats.map Stxt.TextFormat.toJ))

/-! ### the real decoders -/

def realDecoders (codec : Codec) : Decoders where
  key := fun o d => (Idx.parseKey o d).map keyConv
  vwcf := fun d => (Idx.parseVwcf d).map Idx.Vwcf.toJ
  cas := Idx.parseCas
  lctx := fun d => (Idx.parseLctx d).map fun l => l.map (·.index)
  lnam := fun d => (Idx.parseLnam (decodeText codec) d).map textsJ
  script := scriptReal codec
  vwlb := fun d => (Idx.parseVwlb (decodeText codec) d).map fun l => .arr (l.map Idx.Marker.toJ)
  score := fun d => ((Vwsc.parseVwscFile d).bind Score.vwscToScore).map Score.Score.toJ
  fmap := fun d => (Fmap.parseFmap (decodeText codec) d).map fun l => .arr (l.map Fmap.FontInfo.toJ)
  cast := fun d => (Cast.parseCast codec d).map castConv
  stxt := stxtReal codec
  snd := fun d => (Snd.sndToSampled d).map Snd.Sampled.toJ
  clut := fun d => (Pal.clut2palette d).map bytesJ
  bitd := bitdReal

/-- dir.parse_dir_file_data with the real decoders: the whole pipeline of the repository -/
def parseDirReal (codec : Codec) (o : Order) (P : Nat) (d : Bytes) : R DirectorFile := parseDir (realDecoders codec) o P d

end Drx.DirReal
