/-
  Model of drxtract/dir/dir.py parse_dir_file_data (property C05): the whole-movie assembly.
  The individual chunk decoders are PARAMETERS (`Decoders`), so that the statement "the assembled result is the
  composition of the individual chunk decoders over the chunks the movie's own index designates" is literal.
  Chunk fetching is factored through `Fetch` (resource index -> chunk), so that the same assembly logic runs
  (a) over a parsed file (`fetchOfFile`: mmap entry -> offset - prefix -> get_by_offset) and
  (b) over an abstract resource table (the spec side, Drx/DirSpec.lean).
-/
import Drx.Py
import Drx.Json
import Drx.Riff
namespace Drx.Dir
open Drx Drx.Riff

/-- values the assembly stores in / reads from a cast entry (a Python dict) -/
inductive Val where
  | tok (j : J)            -- any decoder result the assembly only passes on
  | intStr (i : Int)       -- a value `int()` accepts (the bitmap's palette number, stored as str)
  deriving Inhabited

/-- a cast entry: Python dict, keys unique; `set` replaces or appends -/
abbrev CastData := List (String × Val)

def CastData.get? (c : CastData) (k : String) : Option Val := (c.find? (·.1 == k)).map (·.2)

def CastData.set (c : CastData) (k : String) (v : Val) : CastData :=
  if c.any (·.1 == k) then c.map (fun p => if p.1 == k then (k, v) else p) else c ++ [(k, v)]

/-- `FileReference`: resource index and expected type of a linked resource -/
structure Ref where
  chunkID : List Char
  index : Int
  deriving Repr, DecidableEq, Inhabited

/-- owner -> links, in insertion order (what parse_key_file_data returns) -/
abbrev KeyData := List (Int × List Ref)

structure ScriptOut where
  scrNum : Int
  contScrNum : Int
  lingo : List Char
  js : List Char
  deriving Inhabited

/-- the individual chunk decoders (and the two text generators), as parameters -/
structure Decoders where
  key : Order → Bytes → R KeyData
  vwcf : Bytes → R J
  cas : Bytes → R (List Int)
  lctx : Bytes → R (List Int)                 -- the 'index' of each script reference
  lnam : Bytes → R J
  script : Bytes → J → R ScriptOut            -- parse_lrcr_file_data + generate_lingo_code + generate_js_code
  vwlb : Bytes → R J
  score : Bytes → R J                         -- vwsc_to_score ∘ parse_vwsc_file_data
  fmap : Bytes → R J
  cast : Bytes → R CastData
  stxt : Bytes → J → R (J × J)                -- (chunk, fontmap) -> (text, txt_format)
  snd : Bytes → R J
  clut : Bytes → R J
  bitd : CastData → Option Val → Bytes → R J  -- (castData, palette of the referenced member or none = b'', chunk)

/-- the memory-map view the assembly uses: type and a way to fetch the chunk of resource `i` -/
structure Res where
  chunkID : List Char
  chunk : R Chunk          -- `riffData.get_by_offset(res.offset - rifx_offset)`
  deriving Inhabited

/-- Python list indexing `l[i]` for any integer -/
def getIdx (l : List α) (n : Nat) : R α := match l[n]? with | some x => .ok x | none => .error .index

def pyIndex (l : List α) (i : Int) : R α :=
  if i < 0 then (if i + (l.length : Int) < 0 then .error .index else getIdx l (i + (l.length : Int)).toNat)
  else getIdx l i.toNat

def existsChunk (rs : List Res) (id : String) : Bool := rs.any (·.chunkID == id.toList)

/-- locate_chunk: first resource of that type -/
def locateChunk (rs : List Res) (id : String) : R Res :=
  match rs.find? (·.chunkID == id.toList) with | some r => .ok r | none => .error .value

/-- dict with int keys in insertion order -/
abbrev ScrDict := List (Int × List Char)

def ScrDict.setNew (d : ScrDict) (n : Int) (s : List Char) : ScrDict :=
  if d.any (·.1 == n) then d.map (fun p => if p.1 == n then (n, s) else p) else d ++ [(n, s)]

/-- `d[n] += "\n" + s` (KeyError when absent) -/
def ScrDict.append (d : ScrDict) (n : Int) (s : List Char) : R ScrDict :=
  if d.any (·.1 == n) then .ok (d.map (fun p => if p.1 == n then (n, p.2 ++ '\n' :: s) else p)) else .error .key

/-- the `for lscr_ref in lctx_elements` loop -/
def scriptLoop (D : Decoders) (rs : List Res) (names : J) : List Int → ScrDict → ScrDict → R (ScrDict × ScrDict)
  | [], l, j => .ok (l, j)
  | idx :: rest, l, j =>
    if idx < 0 then scriptLoop D rs names rest l j else do
    let res ← pyIndex rs idx
    let chunk ← res.chunk
    let s ← D.script chunk.data names
    if s.contScrNum < 0 then
      scriptLoop D rs names rest (l.setNew s.scrNum s.lingo) (j.setNew s.scrNum s.js)
    else do
      let l' ← l.append s.contScrNum s.lingo
      let j' ← j.append s.contScrNum s.js
      scriptLoop D rs names rest l' j'

/-- `int(p) if str(p).lstrip('-').isdigit() else 0` for `p = castData.get('palette', 0)` (after fix F27):
    only a stored palette *number* counts; an absent key, a system-palette name or palette bytes mean "no custom palette" -/
def paletteId (c : CastData) : Int :=
  match c.get? "palette" with
  | some (.intStr i) => i
  | _ => 0

/-- the `for rf in kelm` loop over the resources linked to one member -/
def linkLoop (D : Decoders) (rs : List Res) (fontmap : J) (cast : List CastData) : List Ref → CastData → R CastData
  | [], cd => .ok cd
  | rf :: rest, cd => do
    let res ← pyIndex rs rf.index
    if rf.chunkID ≠ res.chunkID then .error .value else
    let chunk ← res.chunk
    if res.chunkID = "STXT".toList then do
      let (t, f) ← D.stxt chunk.data fontmap
      linkLoop D rs fontmap cast rest ((cd.set "text" (.tok t)).set "txt_format" (.tok f))
    else if res.chunkID = "snd ".toList then do
      let s ← D.snd chunk.data
      linkLoop D rs fontmap cast rest (cd.set "sampled_sound" (.tok s))
    else if res.chunkID = "CLUT".toList then do
      let p ← D.clut chunk.data
      linkLoop D rs fontmap cast rest (cd.set "palette" (.tok p))
    else if res.chunkID = "THUM".toList then
      linkLoop D rs fontmap cast rest cd
    else if res.chunkID = "BITD".toList then do
      let pid := paletteId cd
      let clut ← if pid > 0 then do
          let owner ← pyIndex cast (pid - 1)
          match owner.get? "palette" with
          | some v => pure (some v)
          | none => throw Err.key
        else pure none
      let bmp ← D.bitd cd clut chunk.data
      linkLoop D rs fontmap cast rest (cd.set "bitmap" (.tok bmp))
    else .error .value

def keyGet? (k : KeyData) (i : Int) : Option (List Ref) := (k.find? (·.1 == i)).map (·.2)

/-- the body of the cast loop for a non-empty slot: the member record, then its linked resources -/
def memberEntry (D : Decoders) (rs : List Res) (key : KeyData) (fontmap : J) (cast : List CastData) (ci : Int) : R CastData :=
  match pyIndex rs ci with
  | .error e => .error e
  | .ok res =>
    match res.chunk with
    | .error e => .error e
    | .ok chunk =>
      match D.cast chunk.data with
      | .error e => .error e
      | .ok cd =>
        match keyGet? key ci with
        | some refs => linkLoop D rs fontmap cast refs cd
        | none => .ok cd

/-- the `for cas_index in cas_elements` loop; `cast` is the list built so far -/
def castLoop (D : Decoders) (rs : List Res) (key : KeyData) (fontmap : J) : List Int → List CastData → R (List CastData)
  | [], cast => .ok cast
  | ci :: rest, cast =>
    if ci = 0 then castLoop D rs key fontmap rest (cast ++ [[]]) else
    match memberEntry D rs key fontmap cast ci with
    | .error e => .error e
    | .ok cd => castLoop D rs key fontmap rest (cast ++ [cd])

structure DirectorFile where
  info : J
  cast : List CastData
  lingoScr : ScrDict
  jsScr : ScrDict
  markers : J
  score : J
  fontmap : J
  deriving Inhabited

def optionalChunk (rs : List Res) (id : String) (dflt : J) (dec : Bytes → R J) : R J :=
  if existsChunk rs id then do
    let res ← locateChunk rs id
    let c ← res.chunk
    dec c.data
  else .ok dflt

/-- the script part: Lctx -> (optional Lnam) -> one decompiled script per non-negative reference -/
def scriptsPart (D : Decoders) (rs : List Res) : R (ScrDict × ScrDict) :=
  if existsChunk rs "Lctx" then
    match locateChunk rs "Lctx" with
    | .error e => .error e
    | .ok res =>
      match res.chunk with
      | .error e => .error e
      | .ok lc =>
        match D.lctx lc.data with
        | .error e => .error e
        | .ok refs =>
          match optionalChunk rs "Lnam" (.arr []) D.lnam with
          | .error e => .error e
          | .ok names => scriptLoop D rs names refs [] []
  else .ok ([], [])

/-- everything after the key table has been decoded (the only step that depends on the container's byte order) -/
def assembleK (D : Decoders) (rs : List Res) (key : KeyData) : R DirectorFile :=
  match locateChunk rs "VWCF" with
  | .error e => .error e
  | .ok vres =>
  match vres.chunk with
  | .error e => .error e
  | .ok vc =>
  match D.vwcf vc.data with
  | .error e => .error e
  | .ok info =>
  match locateChunk rs "CAS*" with
  | .error e => .error e
  | .ok cres =>
  match cres.chunk with
  | .error e => .error e
  | .ok cc =>
  match D.cas cc.data with
  | .error e => .error e
  | .ok cas =>
  match scriptsPart D rs with
  | .error e => .error e
  | .ok (lingo, js) =>
  match optionalChunk rs "VWLB" (.arr []) D.vwlb with
  | .error e => .error e
  | .ok markers =>
  match optionalChunk rs "VWSC" (.obj []) D.score with
  | .error e => .error e
  | .ok score =>
  match optionalChunk rs "Fmap" (.arr []) D.fmap with
  | .error e => .error e
  | .ok fontmap =>
  match castLoop D rs key fontmap cas [] with
  | .error e => .error e
  | .ok cast => .ok ⟨info, cast, lingo, js, markers, score, fontmap⟩

/-- everything after the memory map has been read -/
def assemble (D : Decoders) (o : Order) (rs : List Res) : R DirectorFile := do
  let kc ← (← locateChunk rs "KEY*").chunk
  let key ← D.key o kc.data
  assembleK D rs key

/-- resources of a parsed file: memory-map entry i -> `get_by_offset(entry.offset - rifx_offset)` -/
def resOfFile (chunks : List Chunk) (P : Nat) (es : List MmapEntry) : List Res :=
  es.map fun e => ⟨e.chunkID, getByOffset chunks (e.offset - (P : Int))⟩

/-- dir.parse_dir_file_data -/
def parseDir (D : Decoders) (o : Order) (P : Nat) (d : Bytes) : R DirectorFile := do
  let chunks ← parseRiff d P o
  let c0 ← match chunks with | c :: _ => pure c | [] => throw Err.index
  if c0.id ≠ "imap".toList then .error .value else
  let im ← parseImap c0.data o
  let mc ← getByOffset chunks (im.offset - (P : Int))
  if mc.id ≠ "mmap".toList then .error .value else
  let mm ← parseMmap mc.data o
  assemble D o (resOfFile chunks P mm.resources)

/-! ### observable -/

def Val.toJ : Val → J
  | .tok j => j
  | .intStr i => .str (toString i).toList

def castJ (c : CastData) : J := .obj (c.map fun (k, v) => (k, v.toJ))

def scrJ (d : ScrDict) : J := .obj (d.map fun (k, v) => (toString k, J.str v))

def DirectorFile.toJ (f : DirectorFile) : J :=
  .obj [("info", f.info), ("cast", .arr (f.cast.map castJ)), ("lingoScr", scrJ f.lingoScr), ("jsScr", scrJ f.jsScr),
        ("markers", f.markers), ("score", f.score), ("fontmap", f.fontmap)]

end Drx.Dir
