/-
  Specification side of property C15: cast members as field values, the two byte layouts (`encD4`, `encD5`) and the
  view a decoder has to report (`view`). Core Lean only (the driver runs these encoders, see `cast spec`).
-/
import Drx.Cast
namespace Drx.Cast
open Drx

/-! ### field encoders (counterpart of `readFields`) -/

def FK.inRange (k : FK) (v : Int) : Prop :=
  match k with
  | .u8 => 0 ≤ v ∧ v < 256
  | .s16 => -32768 ≤ v ∧ v < 32768
  | .s32 => -2147483648 ≤ v ∧ v < 2147483648
  | .u32 => 0 ≤ v ∧ v < 4294967296

instance (k : FK) (v : Int) : Decidable (k.inRange v) := by
  cases k <;> (unfold FK.inRange; infer_instance)

def encField (k : FK) (v : Int) : Bytes :=
  match k with
  | .u8 => [UInt8.ofNat v.toNat]
  | .s16 => encS .be 2 v
  | .s32 => encS .be 4 v
  | .u32 => encOrd .be 4 v.toNat

def encFields : List (FK × Int) → Bytes
  | [] => []
  | (k, v) :: fs => encField k v ++ encFields fs

def fieldsOK (fs : List (FK × Int)) : Prop := ∀ f ∈ fs, f.1.inRange f.2

instance (fs : List (FK × Int)) : Decidable (fieldsOK fs) := by unfold fieldsOK; infer_instance

/-! ### members -/

/-- bitmap: the fixed 23-byte part and the optional depth/palette tail -/
structure BitmapF where
  flags : Int
  code : Int
  unknown11 : Int
  hPad : Int
  wPad : Int
  height : Int
  width : Int
  top : Int
  left : Int
  bottom : Int
  right : Int
  locV : Int
  locH : Int
  tail : Option (Int × Int)     -- (bit depth, palette number)
  deriving Repr, DecidableEq, Inhabited

structure FieldF where
  unknown0 : Int
  border : Int
  margin2 : Int          -- stored doubled
  boxShadow2 : Int       -- stored doubled
  boxType : Int
  alignment : Int
  red : Int
  unknown4 : Int
  green : Int
  unknown5 : Int
  blue : Int
  unknown6 : Int
  scrollTop : Int
  top : Int
  left : Int
  bottom : Int
  right : Int
  pageHeight : Int
  dropShadow : Int
  options : Int
  scrollHeight : Int
  deriving Repr, DecidableEq, Inhabited

structure ButtonF where
  unknown0 : Int
  unknown1 : Int
  unknown2 : Int
  alignment : Int
  red : Int
  unknown4 : Int
  green : Int
  unknown5 : Int
  blue : Int
  unknown6 : Int
  unknown7 : Int
  unknown8 : Int
  unknown9 : Int
  unknown10 : Int
  unknown11 : Int
  unknown12 : Int
  unknown13 : Int
  unknown14 : Int
  buttonType : Int
  deriving Repr, DecidableEq, Inhabited

structure ShapeF where
  unknown0 : Int
  shapeType : Int
  top : Int
  left : Int
  bottom : Int
  right : Int
  unknown2 : Int
  pattern : Int
  foreColor : Int
  backColor : Int
  filled : Int
  lineWidth1 : Int       -- stored plus one
  direction : Int
  deriving Repr, DecidableEq, Inhabited

structure TextF where
  hPad : Int
  wPad : Int
  height : Int
  width : Int
  top : Int
  left : Int
  bottom : Int
  right : Int
  antialias : Int
  boxType : Int
  unknown2 : Int
  threshold : Int
  deriving Repr, DecidableEq, Inhabited

structure TransF where
  smoothness : Int
  transition : Int
  stageOrArea : Int
  duration : Int
  deriving Repr, DecidableEq, Inhabited

inductive Body where
  | bitmap (f : BitmapF)
  | field (f : FieldF)
  | palette
  | sound
  | button (f : ButtonF)
  | shape (f : ShapeF)
  | script
  | richText (f : TextF)
  | transition (f : TransF)
  deriving Repr, DecidableEq, Inhabited

/-- Director's member type codes -/
def Body.typeCode : Body → Nat
  | .bitmap _ => 1 | .field _ => 3 | .palette => 4 | .sound => 6 | .button _ => 7 | .shape _ => 8 | .script => 11
  | .richText _ => 12 | .transition _ => 14

/-- the fixed part of the type-specific header as a run of fields -/
def Body.fields : Body → List (FK × Int)
  | .bitmap f => [(.u8, f.flags), (.u8, f.code), (.u8, f.unknown11), (.s16, f.hPad), (.s16, f.wPad), (.s16, f.height),
                  (.s16, f.width), (.s16, f.top), (.s16, f.left), (.s16, f.bottom), (.s16, f.right), (.s16, f.locV), (.s16, f.locH)]
  | .field f => [(.u8, f.unknown0), (.u8, f.border), (.u8, f.margin2), (.u8, f.boxShadow2), (.u8, f.boxType), (.s16, f.alignment),
                 (.u8, f.red), (.u8, f.unknown4), (.u8, f.green), (.u8, f.unknown5), (.u8, f.blue), (.u8, f.unknown6),
                 (.s16, f.scrollTop), (.s16, f.top), (.s16, f.left), (.s16, f.bottom), (.s16, f.right), (.s16, f.pageHeight),
                 (.u8, f.dropShadow), (.u8, f.options), (.s16, f.scrollHeight)]
  | .button f => [(.u8, f.unknown0), (.s16, f.unknown1), (.s16, f.unknown2), (.s16, f.alignment), (.u8, f.red), (.u8, f.unknown4),
                  (.u8, f.green), (.u8, f.unknown5), (.u8, f.blue), (.u8, f.unknown6), (.s16, f.unknown7), (.s16, f.unknown8),
                  (.s16, f.unknown9), (.s16, f.unknown10), (.s16, f.unknown11), (.s16, f.unknown12), (.s16, f.unknown13),
                  (.s16, f.unknown14), (.s16, f.buttonType)]
  | .shape f => [(.u8, f.unknown0), (.s16, f.shapeType), (.s16, f.top), (.s16, f.left), (.s16, f.bottom), (.s16, f.right),
                 (.u8, f.unknown2), (.u8, f.pattern), (.u8, f.foreColor), (.u8, f.backColor), (.u8, f.filled), (.u8, f.lineWidth1),
                 (.u8, f.direction)]
  | .richText f => [(.s16, f.hPad), (.s16, f.wPad), (.s16, f.height), (.s16, f.width), (.s16, f.top), (.s16, f.left),
                    (.s16, f.bottom), (.s16, f.right), (.u8, f.antialias), (.u8, f.boxType), (.s16, f.unknown2), (.s16, f.threshold)]
  | .transition f => [(.s16, f.smoothness), (.u8, f.transition), (.u8, f.stageOrArea), (.s16, f.duration)]
  | .palette => []
  | .sound => []
  | .script => []

/-- the optional part that follows the fixed fields (bitmap only) -/
def Body.tailFields : Body → List (FK × Int)
  | .bitmap f => match f.tail with | some (d, p) => [(.s16, d), (.s16, p)] | none => []
  | _ => []

/-- the info block -/
structure Info where
  scriptKey : Int
  bd1 : Int
  bd2 : Int
  scriptIndex : Int
  unknowns : List Int          -- the numbers area beyond its 0x14 fixed bytes
  extras : List Bytes          -- the structures (entry 0 script text, entry 1 Pascal-string name, …), empty ones allowed
  deriving Repr, DecidableEq, Inhabited

structure Member where
  body : Body
  hdrPad : Bytes               -- bytes after the fields of the type-specific header (ignored by every reader)
  info : Option Info           -- `none`: empty info block
  deriving Repr, DecidableEq, Inhabited

/-- entry `i` of the offset table: where structure `i` starts, relative to the first one; one extra entry for the end -/
def offsetsFrom (base : Nat) : List Bytes → List Int
  | [] => [(base : Int)]
  | e :: es => (base : Int) :: offsetsFrom (base + e.length) es

def encInfo (i : Info) : Bytes :=
  encFields [(.s32, 0x14 + 4 * (i.unknowns.length : Int)), (.u32, i.scriptKey), (.s32, i.bd1), (.s32, i.bd2), (.s32, i.scriptIndex)]
  ++ encFields (i.unknowns.map fun u => (.s32, u))
  ++ encFields [(.s16, (i.extras.length : Int))]
  ++ encFields ((offsetsFrom 0 i.extras).map fun o => (.s32, o))
  ++ i.extras.flatten

def Member.header (m : Member) : Bytes := encFields m.body.fields ++ encFields m.body.tailFields ++ m.hdrPad

def Member.infoBytes (m : Member) : Bytes := match m.info with | some i => encInfo i | none => []

/-- Director 4 layout: 16-bit size of (type byte + header), 32-bit info size, type byte, header, info -/
def encD4 (m : Member) : Bytes :=
  encS .be 2 (1 + (m.header.length : Int)) ++ encS .be 4 (m.infoBytes.length : Int) ++ [UInt8.ofNat m.body.typeCode]
  ++ m.header ++ m.infoBytes

/-- Director 5 layout: 32-bit type, 32-bit info size, 32-bit header size, info, header -/
def encD5 (m : Member) : Bytes :=
  encS .be 4 (m.body.typeCode : Int) ++ encS .be 4 (m.infoBytes.length : Int) ++ encS .be 4 (m.header.length : Int)
  ++ m.infoBytes ++ m.header

/-- a Pascal string (the form of the name structure) -/
def pascal (name : Bytes) : Bytes := UInt8.ofNat name.length :: name

/-! ### what a decoder has to report -/

/-- colour depth of the bitmap type byte -/
def depthOfCode (code : Int) : Int :=
  if code = 0x00 then 1 else if code = 0x81 then 4 else if code = 0x84 ∨ code = 0x85 then 16 else if code = 0x8A then 24 else 8

def alignmentView (v : Int) : J :=
  if v = 0 then jS "left" else if v = 1 then jS "center" else if v = -1 then jS "right" else jI v

def boxTypeView (v : Int) : String :=
  if v = 0 then "adjust" else if v = 1 then "scroll" else if v = 2 then "fixed" else if v = 3 then "limit" else toString v

def buttonTypeView (v : Int) : J :=
  if v = 1 then jS "pushButton" else if v = 2 then jS "checkBox" else if v = 3 then jS "radioButton" else jI v

def nameFrom (t : List (Int × String)) (v : Int) : String := (t.lookup v).getD (toString v)

/-- bit `k` of a byte value -/
def bit (v : Int) (k : Nat) : Bool := v.toNat / 2 ^ k % 2 = 1

def viewBody (b : Body) (bd2 : Int) : Fields :=
  match b with
  | .bitmap f =>
    let depth := match f.tail with
      | some (d, _) => max (depthOfCode f.code) d
      | none => depthOfCode f.code
    [("type", jS "bitmap"), ("height", jI f.height), ("width", jI f.width), ("top", jI f.top), ("left", jI f.left),
     ("bottom", jI f.bottom), ("right", jI f.right), ("h_padding", jI f.hPad), ("w_padding", jI f.wPad),
     ("locH", jI f.locH), ("locV", jI f.locV), ("depth", jI depth)]
    ++ (if depth = 8 then
          match f.tail with
          | some (_, p) => [("palette", jS (toString p)), ("palette_txt", jS (Pal.paletteName p))]
          | none => [("palette", jS "systemMac"), ("palette_txt", jS "systemMac")]
        else [])
  | .field f =>
    [("type", jS "field"), ("wordWrap", jB (!bit f.options 2)), ("boxType", jS (boxTypeView f.boxType)),
     ("editable", jB (bit f.options 0)), ("autoTab", jB (bit f.options 1)), ("alignment", alignmentView f.alignment),
     ("border", jI f.border), ("margin", jI (f.margin2 / 2)), ("boxDropShadow", jI (f.boxShadow2 / 2)),
     ("dropShadow", jI f.dropShadow), ("backgroundColor", colorU f.red f.green f.blue),
     ("height", jI (f.bottom - f.top)), ("width", jI (f.right - f.left)), ("pageHeight", jI f.pageHeight),
     ("scrollHeight", jI f.scrollHeight), ("scrollTop", jI f.scrollTop)]
  | .palette => [("type", jS "palette")]
  | .sound => [("type", jS "sound"), ("loop", jB (bd2 ≠ 16))]
  | .button f =>
    [("type", jS "button"), ("alignment", alignmentView f.alignment), ("backgroundColor", colorU f.red f.green f.blue),
     ("buttonType", buttonTypeView f.buttonType)]
  | .shape f =>
    [("type", jS "shape"), ("shapeType", jS (nameFrom Gen.CastTables.shapeNames f.shapeType)), ("top", jI f.top),
     ("left", jI f.left), ("bottom", jI f.bottom), ("right", jI f.right), ("pattern", jI f.pattern),
     ("foreColor", jI f.foreColor), ("backColor", jI f.backColor), ("filled", jI f.filled),
     ("lineSize", jI (f.lineWidth1 - 1)), ("direction", jS (nameFrom Gen.CastTables.directions f.direction))]
  | .script => [("type", jS "script")]
  | .richText f =>
    [("type", jS "richText"), ("boxType", jS (boxTypeView f.boxType)), ("antiAlias", jB (f.antialias ≠ 0)),
     ("antiAliasThreshold", jI (max f.threshold 0)), ("width", jI f.width), ("height", jI f.height), ("top", jI f.top),
     ("left", jI f.left), ("bottom", jI f.bottom), ("right", jI f.right), ("h_padding", jI f.hPad), ("w_padding", jI f.wPad)]
  | .transition f =>
    [("type", jS "transition"),
     ("transition", .obj [("type", jS (nameFrom Gen.CastTables.transitionNames f.transition)), ("smoothness", jI f.smoothness),
                          ("duration", jI f.duration), ("in_changing_area", jB (f.stageOrArea = 2))])]

/-- purge priority: bits 2–3 of the flag word (two's complement: floor division, non-negative remainder) -/
def purgeView (bd2 : Int) : String :=
  Gen.CastTables.purgePriority.getD ((bd2 / 4) % 4).toNat ""

/-- the reported name: the characters of the Pascal string in structure 1, every character outside `[A-Za-z0-9-_. ]`
    replaced by `_`; empty when there is no such structure -/
def nameView (codec : Codec) (extras : List Bytes) : R (List Char) :=
  match extras with
  | _ :: (n :: cs) :: _ => (decodeText codec (cs.take n.toNat)).map fun s => s.map safeChar
  | _ => .ok []

def viewContent (codec : Codec) : Option Info → R Content
  | none => .ok .empty
  | some i =>
    let basic : Basic := ⟨i.scriptKey, i.bd1, i.bd2, purgeView i.bd2, i.scriptIndex⟩
    if i.extras = [] then .ok (.basic basic)
    else (nameView codec i.extras).map fun n => .full basic i.extras n

/-- the decoder's result for a member; an error only when the configured codec cannot decode the name bytes -/
def view (codec : Codec) (m : Member) : R CastData :=
  (viewContent codec m.info).map fun c => ⟨viewBody m.body (match m.info with | some i => i.bd2 | none => 0), c⟩

/-! ### the storage ranges -/

def Info.valid (i : Info) : Prop :=
  fieldsOK [(.u32, i.scriptKey), (.s32, i.bd1), (.s32, i.bd2), (.s32, i.scriptIndex)]
  ∧ (∀ u ∈ i.unknowns, FK.inRange .s32 u)
  ∧ i.extras.length < 32768
  ∧ 0x14 + 4 * i.unknowns.length < 2147483648
  ∧ i.extras.flatten.length < 2147483648

instance (i : Info) : Decidable i.valid := by unfold Info.valid; infer_instance

/-- every field in its storage range, sizes representable in the size fields of both layouts; a bitmap without tail has at
    most one pad byte (a longer header *is* a header with tail) -/
def Member.valid (m : Member) : Prop :=
  fieldsOK m.body.fields ∧ fieldsOK m.body.tailFields
  ∧ 1 + m.header.length < 32768
  ∧ (match m.info with | some i => i.valid ∧ (encInfo i).length < 2147483648 | none => True)
  ∧ (match m.body with | .bitmap f => f.tail = none → m.hdrPad.length ≤ 1 | _ => True)

instance (m : Member) : Decidable m.valid := by
  unfold Member.valid
  have : Decidable (match m.info with | some i => i.valid ∧ (encInfo i).length < 2147483648 | none => True) := by
    cases m.info <;> simp only <;> infer_instance
  have : Decidable (match m.body with | .bitmap f => f.tail = none → m.hdrPad.length ≤ 1 | _ => True) := by
    cases m.body <;> simp only <;> infer_instance
  infer_instance

end Drx.Cast
