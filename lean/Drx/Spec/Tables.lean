/-
  Spec layer (trusted): Director 4's numbering of built-in properties (the operand pushed before `5c xx` / `5d xx`) and
  the set of `the` properties compiled as zero-argument functions (`ARGS 0; 66 n`).  Written from the Director 4
  documentation / the ScummVM Director engine tables the repository cites; every entry exercised by a fixture is
  cross-checked by the fixture recompilation (`scheme_validation`).  These are the SPEC's tables: they are *not*
  generated from the Python source, so a swapped entry there shows up as a failing input of C02.
-/
import Drx.Spec.Ast
namespace Drx.Spec

def lowerName (s : Name) : Name := s.map Char.toLower

def tblSpecial : List (Nat × String) :=
  [(0, "floatPrecision"), (1, "mouseDownScript"), (2, "mouseUpScript"), (3, "keyDownScript"), (4, "keyUpScript"), (5, "timeoutScript")]

/-- `the short time` … : (index, style, unit) -/
def tblDate : List (Nat × String × String) :=
  [(6, "short", "time"), (7, "abbr", "time"), (8, "long", "time"), (9, "short", "date"), (10, "abbr", "date"), (11, "long", "date")]

def tblMenuItem : List (Nat × String) := [(1, "name"), (2, "checkMark"), (3, "enabled"), (4, "script")]

def tblSprite : List (Nat × String) :=
  [(1, "type"), (2, "backColor"), (3, "bottom"), (4, "castNum"), (5, "constraint"), (6, "cursor"), (7, "foreColor"), (8, "height"),
   (9, "immediate"), (10, "ink"), (11, "left"), (12, "lineSize"), (13, "locH"), (14, "locV"), (15, "movieRate"), (16, "movieTime"),
   (17, "pattern"), (18, "puppet"), (19, "right"), (20, "startTime"), (21, "stopTime"), (22, "stretch"), (23, "top"), (24, "trails"),
   (25, "visible"), (26, "volume"), (27, "width"), (28, "blend"), (29, "scriptNum"), (30, "moveableSprite"), (31, "editabletext"),
   (32, "scoreColor"), (33, "loc"), (34, "rect")]

def tblCast : List (Nat × String) :=
  [(1, "name"), (2, "text"), (3, "textStyle"), (4, "textFont"), (5, "textHeight"), (6, "textAlign"), (7, "textSize"), (8, "picture"),
   (9, "hilite"), (10, "number"), (11, "size"), (17, "foreColor"), (18, "backColor")]

def tblSound : List (Nat × String) := [(1, "volume")]

def tblVideo : List (Nat × String) := [(12, "loop"), (13, "duration"), (14, "controller"), (15, "directToStage"), (16, "sound")]

def tblSys : List (Nat × String) :=
  [(1, "beepOn"), (2, "buttonStyle"), (3, "centerStage"), (4, "checkBoxAccess"), (5, "checkBoxType"), (6, "colorDepth"),
   (8, "exitLock"), (9, "fixStageSize"), (10, "fullColorPermit"), (11, "imageDirect"), (0x13, "timeoutLapsed"),
   (0x17, "selEnd"), (0x18, "selStart"), (0x19, "soundEnabled"), (0x1a, "soundLevel"), (0x1b, "stageColor"),
   (0x1d, "switchColorDepth"), (0x1e, "timeoutKeyDown"), (0x1f, "timeoutLength"), (0x20, "timeoutMouse"),
   (0x21, "timeoutPlay"), (0x22, "timer")]

/-- `the` properties compiled `ARGS 0; 66 n` -/
def keyNames : List String :=
  ["commandDown", "shiftDown", "controlDown", "optionDown", "key", "keyCode", "stillDown", "date", "time",
   "labelList", "lastClick", "lastEvent", "lastKey", "lastRoll", "machineType", "mouseCast", "mouseChar", "mouseDown",
   "mouseH", "mouseItem", "mouseLine", "mouseUp", "mouseV", "mouseWord", "doubleClick", "clickOn", "movie", "pathName",
   "movieFileSize", "movieFileFreeSize", "pauseState", "result", "selection", "stageBottom", "stageLeft", "stageRight",
   "stageTop", "ticks", "maxinteger", "multiSound"]

/-- `the` properties of the movie compiled `5f n` / `60 n` (never followed by `of <object>`) -/
def movieNames : List String :=
  ["actorList", "itemDelimiter", "frameLabel", "updateMovieEnabled", "cpuHogTicks", "romanLingo", "traceLoad", "traceLogFile",
   "movieName", "moviePath"]

def tblLookupName (t : List (Nat × String)) (n : Name) : Option Nat :=
  (t.find? fun x => lowerName x.2.toList == lowerName n).map (·.1)

def tblLookupIdx (t : List (Nat × String)) (k : Nat) : Option Name :=
  (t.find? fun x => x.1 == k).map (·.2.toList)

def isKeyName (n : Name) : Bool := keyNames.any fun k => lowerName k.toList == lowerName n

def isMovieName (n : Name) : Bool := movieNames.any fun k => lowerName k.toList == lowerName n

/-- properties that never take an `of <object>` part: an `of` after them belongs to an enclosing construct -/
def isObjectless (n : Name) : Bool :=
  (tblLookupName tblSpecial n).isSome || (tblLookupName tblSys n).isSome || isKeyName n || isMovieName n
    || lowerName n == "perframehook".toList

def chunkOfPlural (n : Name) : Option ChunkKind :=
  let l := lowerName n
  if l = "chars".toList then some .char else if l = "words".toList then some .word
  else if l = "items".toList then some .item else if l = "lines".toList then some .line else none

def chunkOfSingular (n : Name) : Option ChunkKind :=
  let l := lowerName n
  if l = "char".toList then some .char else if l = "word".toList then some .word
  else if l = "item".toList then some .item else if l = "line".toList then some .line else none

def ChunkKind.ofRank (r : Nat) : Option ChunkKind :=
  if r = 1 then some .char else if r = 2 then some .word else if r = 3 then some .item else if r = 4 then some .line else none

/-- the six named string constants of Lingo -/
def namedConstants : List (String × Name) :=
  [("EMPTY", []), ("BACKSPACE", [Char.ofNat 8]), ("ENTER", [Char.ofNat 3]), ("QUOTE", ['"']), ("RETURN", ['\r']), ("TAB", ['\t'])]

def namedConstantOf (n : Name) : Option Name :=
  (namedConstants.find? fun x => lowerName x.1.toList == lowerName n).map (·.2)

def nameOfConstant (s : Name) : Option Name :=
  (namedConstants.find? fun x => x.2 == s).map (·.1.toList)

/-- words that cannot be used as variable / handler names by generated programs (reserved by the reference grammar) -/
def reservedWords : List String :=
  ["the", "of", "to", "in", "into", "after", "before", "set", "put", "if", "then", "else", "end", "repeat", "while", "with", "down",
   "exit", "tell", "delete", "hilite", "sound", "on", "method", "global", "instance", "property", "factory", "not", "and", "or", "mod",
   "contains", "starts", "sprite", "intersects", "within", "field", "cast", "menu", "menuitem", "menuitems", "char", "word", "item", "line",
   "chars", "words", "items", "lines", "number", "last", "me", "true", "false", "empty", "backspace", "enter", "quote", "return", "tab",
   "go", "loop", "next", "previous", "castmembers", "menus", "long", "short", "abbr", "abbrev", "abbreviated"]

end Drx.Spec
