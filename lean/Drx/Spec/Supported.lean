/-
  C03: the decidable `Supported` predicate = complement of the exit-repeat configurations the reconstruction heuristic of
  `loop_detection.py` gets wrong (open findings F23, F24, F25, F126).  It is a predicate on SOURCE statement lists.
  harness/c03.py checks on every run (exhaustive skeleton enumerations + random programs) that
      handler fails on the real code  ⇔  exitClasses body ≠ []
  and that this Lean function agrees with the Python matcher side (`lingo_gen.c03_classes`) on every generated handler.
-/
import Drx.Spec.Ast
namespace Drx.Spec

/-- control skeleton of a statement list; every `exit repeat` gets a number (its position in text order) -/
inductive Sk where
  | s                                   -- simple statement
  | x (id : Nat)                        -- exit repeat
  | ifs (t : List Sk)                   -- if without else
  | ife (t e : List Sk)                 -- if … else
  | loop (withInit : Bool) (b : List Sk)   -- `repeat with v = a to b` starts with the separate statement `set v = a`
  | tell (b : List Sk)                  -- a tell block: one statement of the list it stands in, its statements a list of their own
  deriving Repr, Inhabited

mutual
def skOf : Nat → Stmt → (List Sk × Nat)
  | n, .exitRepeat => ([.x n], n + 1)
  | n, .ifThen _ t e =>
    let (t', n1) := skOfL n t
    if e.isEmpty then ([.ifs t'], n1) else
    let (e', n2) := skOfL n1 e
    ([.ife t' e'], n2)
  | n, .repeatWhile _ b => let (b', n1) := skOfL n b; ([.loop false b'], n1)
  | n, .repeatWith _ _ _ _ b => let (b', n1) := skOfL n b; ([.loop true b'], n1)
  | n, .repeatIn _ _ b => let (b', n1) := skOfL n b; ([.loop false b'], n1)
  | n, .tell _ b => let (b', n1) := skOfL n b; ([.tell b'], n1)
  | n, _ => ([.s], n)
def skOfL : Nat → List Stmt → (List Sk × Nat)
  | n, [] => ([], n)
  | n, s :: ss =>
    let (a, n1) := skOf n s
    let (b, n2) := skOfL n1 ss
    (a ++ b, n2)
end

mutual
/-- instruction-level statements of a branch: `some id` = exit jump, `none` = anything else -/
def flatSk : Sk → List (Option Nat)
  | .s => [none]
  | .x i => [some i]
  | .ifs t => none :: flatSkL t
  | .ife t e => none :: flatSkL t ++ none :: flatSkL e
  | .loop w _ => if w then [none, none] else [none]
  | .tell _ => [none]
def flatSkL : List Sk → List (Option Nat)
  | [] => []
  | k :: ks => flatSk k ++ flatSkL ks
end

/-- the second-to-last instruction-level statement, if it is an exit jump -/
def secondToLastExit (f : List (Option Nat)) : List Nat :=
  match f.reverse with
  | _ :: some i :: _ => [i]
  | _ => []

mutual
def lastIsExit : Sk → Bool
  | .x _ => true
  | .ifs t => lastIsExitL t
  | .ife _ e => lastIsExitL e
  | _ => false
def lastIsExitL : List Sk → Bool
  | [] => false
  | [k] => lastIsExit k
  | _ :: ks => lastIsExitL ks
end

inductive SkCtx where
  | top | loop | thn | thnE | els | tell
  deriving DecidableEq, Repr

def isIfNoElseEndingInExit : Sk → Bool
  | .ifs t => lastIsExitL t
  | _ => false

mutual
/-- classes found in a list; `fixed` = exit jumps an enclosing branch's break detection has already converted; `isLast` tells whether
    the element is the last item of the list; `before` = number of earlier items of this list that are an `if` without else ending in
    an exit jump; `visits` = how often the heuristic scans the nearest enclosing loop / tell body (once with the flat list it is first
    met in, once more for every if branch extracted around the loop; a loop lying directly in a loop body is scanned again on every
    further visit of that body). Every visit converts the ifs of the list up to and including the next `if … exit repeat`: an if with
    `visits` or more such ifs before it stays raw (F24). -/
def classesOf (ctx : SkCtx) (fixed : List Nat) (visits : Nat) (ifdepth : Nat) (before : Nat) (isLast : Bool) : Sk → List String
  | .s => []
  | .x i =>
    if ctx = .loop then ["F23"]
    else if ctx = .tell then ["F138"]
    else if fixed.contains i || (ctx = .thn && isLast) then []
    else if ctx = .els then ["F25"]
    else if ctx = .thn || ctx = .thnE then ["F126"]
    else []
  | .ifs t =>
    (if before ≥ (if ctx = .loop || ctx = .tell then visits else 1) then ["F24"] else [])
      ++ classesOfL .thn (fixed ++ secondToLastExit (flatSkL t)) visits (ifdepth + 1) 0 t
  | .ife t e =>
    (if before ≥ (if ctx = .loop || ctx = .tell then visits else 1) then ["F24"] else [])
      ++ classesOfL .thnE (fixed ++ secondToLastExit (flatSkL t ++ [none])) visits (ifdepth + 1) 0 t
      ++ classesOfL .els (fixed ++ secondToLastExit (flatSkL e)) visits (ifdepth + 1) 0 e
  | .loop _ b => classesOfL .loop [] (1 + ifdepth + (if ifdepth = 0 then visits - 1 else 0)) 0 0 b
  | .tell b => classesOfL .tell [] (1 + ifdepth + (if ifdepth = 0 then visits - 1 else 0)) 0 0 b
def classesOfL (ctx : SkCtx) (fixed : List Nat) (visits : Nat) (ifdepth : Nat) (before : Nat) : List Sk → List String
  | [] => []
  | [k] => classesOf ctx fixed visits ifdepth before true k
  | k :: k2 :: ks =>
    classesOf ctx fixed visits ifdepth before false k
      ++ classesOfL ctx fixed visits ifdepth (before + (if isIfNoElseEndingInExit k then 1 else 0)) (k2 :: ks)
end

def dedupS : List String → List String → List String
  | [], acc => acc
  | x :: xs, acc => if acc.contains x then dedupS xs acc else dedupS xs (acc ++ [x])

/-- the failure classes a handler body falls into (F23 exit repeat directly in a loop body; F138 directly in a tell block; F24 an if
    after as many `if … exit repeat` in its list as the list is scanned; F25 / F126 exit repeat in an else / then branch at a position the break
    detection misses) -/
def exitClasses (body : List Stmt) : List String :=
  dedupS (classesOfL .top [] 1 0 0 (skOfL 0 body).1) []

/-! ### the one coincidence of the compile scheme: a `repeat while` written like a `repeat with`

`set v = a` directly followed by `repeat while v <= b … set v = 1 + v end repeat` compiles to the very bytes of
`repeat with v = a to b … end repeat` (compile is not injective there): no decompiler can tell them apart, and the real one prints
the `repeat with`.  Such sources are outside `Supported`; harness/c03.py checks that they come back in the canonical form.
(Every other near miss — another step, another comparison, `v + 1`, another variable — is a `repeat while` and must stay one:
findings F134, F135; the same for `repeat while 1 <= count(l)` loops that merely look like `repeat with x in l`: F136.) -/

def isWithLike (s1 s2 : Stmt) : Bool :=
  match s1, s2 with
  | .set (.var k n) _, .repeatWhile (.bin .le (.var k' n') _) body =>
    k == k' && n == n' &&
      (match body.getLast? with
       | some (.set (.var k2 n2) (.bin .add (.int 1) (.var k3 n3))) => k == k2 && n == n2 && k == k3 && n == n3
       | _ => false)
  | _, _ => false

mutual
def Stmt.hasWithLike : Stmt → Bool
  | .tell _ b => hasWithLikeL b
  | .repeatWhile _ b => hasWithLikeL b
  | .repeatWith _ _ _ _ b => hasWithLikeL b
  | .repeatIn _ _ b => hasWithLikeL b
  | .ifThen _ t e => hasWithLikeL t || hasWithLikeL e
  | _ => false
def hasWithLikeL : List Stmt → Bool
  | [] => false
  | s :: ss => s.hasWithLike || (match ss with | s2 :: _ => isWithLike s s2 | [] => false) || hasWithLikeL ss
end

/-! ### a declared property as loop variable (open findings F151, F152)

The assignment to a declared property is a `PropertyAccessorOperation` whose `.name` is the constant `accessor`; the loop detection
compares and prints `.name`: `repeat with <prop> in l` is printed `repeat with accessor in l` (F151) and `repeat with <prop> = a to b`
is not recognised and stays in its lowered form `set / repeat while / set` (F152). Locals, parameters and globals are exact. -/

mutual
def Stmt.propLoopVar : Stmt → Bool
  | .tell _ b => propLoopVarL b
  | .repeatWhile _ b => propLoopVarL b
  | .repeatWith (.var .prop _) _ _ _ _ => true
  | .repeatWith _ _ _ _ b => propLoopVarL b
  | .repeatIn (.var .prop _) _ _ => true
  | .repeatIn _ _ b => propLoopVarL b
  | .ifThen _ t e => propLoopVarL t || propLoopVarL e
  | _ => false
def propLoopVarL : List Stmt → Bool
  | [] => false
  | s :: ss => s.propLoopVar || propLoopVarL ss
end

/-- `Supported`: the domain of `C03_partial` (empty bodies are inside it) -/
def C03Supported (body : List Stmt) : Bool := (exitClasses body).isEmpty && !hasWithLikeL body && !propLoopVarL body

end Drx.Spec
