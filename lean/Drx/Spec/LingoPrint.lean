/-
  Spec layer: the reference printer of Lingo (`printLingo : Script → tokens`, `renderToks : tokens → text`).
  It writes a program the way the decompiler means to: binary operations fully parenthesised, unary operators prefixed,
  `sprite a intersects b`, `the P of obj`, chunk expressions without parentheses, calls `f(a, b)`, commands `f a, b`.
  Theorems (DrxProps/C02.lean): `pExpr env (prE e) = e` for the expression fragment — the reader inverts the printer.
-/
import Drx.Spec.Ast
import Drx.Spec.Tables
import Drx.Spec.LingoRead
import Drx.Spec.Compile
namespace Drx.Spec

def kw (s : String) : Tok := .id s.toList

/-- operator token of the 17 infix operators (intersects / within are prefix forms) -/
def BinOp.tok : BinOp → Tok
  | .mul => .p .star | .add => .p .plus | .sub => .p .minus | .div => .p .slash | .mod => kw "mod"
  | .concat => .p .amp | .concats => .p .amp2 | .lt => .p .lt | .le => .p .le | .ne => .p .ne | .eq => .p .eq
  | .gt => .p .gt | .ge => .p .ge | .and => kw "and" | .or => kw "or" | .contains => kw "contains" | .starts => kw "starts"
  | .intersects => kw "intersects" | .within => kw "within"

/-- precedence level of the infix operators (Appendix B) -/
def BinOp.level : BinOp → Nat
  | .concat | .concats => 1
  | .lt | .le | .ne | .eq | .gt | .ge | .contains | .starts => 2
  | .add | .sub => 3
  | .mul | .div | .mod | .and | .or => 4
  | .intersects | .within => 5

def BinOp.isInfix : BinOp → Bool
  | .intersects | .within => false
  | _ => true

def nameOrUnknown (t : List (Nat × String)) (k : Nat) : Name := (tblLookupIdx t k).getD "UNKNOWN".toList

def chunkPlural (k : ChunkKind) : String := k.tag ++ "s"

/-- a string constant: the named constant where Lingo has one for exactly this string (QUOTE, RETURN, TAB, BACKSPACE, ENTER — their
    characters cannot stand inside a string literal), else the literal (EMPTY is written `""`) -/
def strToks (s : Name) : List Tok :=
  if s = [] then [.str s] else
  match nameOfConstant s with
  | some c => [.id c]
  | none => [.str s]

mutual
def prE : Expr → List Tok
  | .int n => [.num n]
  | .str s => strToks s
  | .float d s => [.flt d s]
  | .sym n => [.p .hash, .id n]
  | .var _ n => [.id n]
  | .me => [kw "me"]
  | .bin op a b =>
    if op.isInfix then .p .lp :: prE a ++ op.tok :: prE b ++ [.p .rp]
    else kw "sprite" :: prE a ++ op.tok :: prE b
  | .un .neg a => .p .minus :: prE a
  | .un .not a => kw "not" :: prE a
  | .field a => kw "field" :: prE a
  | .call f as => .id f :: .p .lp :: prArgs as ++ [.p .rp]
  | .mcall o m as => prE o ++ .p .lp :: .id m :: prTail as ++ [.p .rp]
  | .list as => .p .lb :: prArgs as ++ [.p .rb]
  | .plist as => if as.isEmpty then [.p .lb, .p .colon, .p .rb] else .p .lb :: prPairs as ++ [.p .rb]
  | .the t k as => prThe t k as
  | .key n => [kw "the", .id n]
  | .movie n => [kw "the", .id n]
  | .oprop n o => kw "the" :: .id n :: kw "of" :: prE o
  | .chunk c a b d =>
    match b with
    | .int 0 => kw c.tag :: prE a ++ kw "of" :: prE d
    | _ => kw c.tag :: prE a ++ kw "to" :: prE b ++ kw "of" :: prE d
/-- `a, b, c` -/
def prArgs : List Expr → List Tok
  | [] => []
  | [e] => prE e
  | e :: es => prE e ++ .p .comma :: prArgs es
/-- `, a, b` -/
def prTail : List Expr → List Tok
  | [] => []
  | e :: es => .p .comma :: prE e ++ prTail es
/-- `k1: v1, k2: v2` -/
def prPairs : List Expr → List Tok
  | [] => []
  | [k] => prE k
  | [k, v] => prE k ++ .p .colon :: prE v
  | k :: v :: rest => prE k ++ .p .colon :: prE v ++ .p .comma :: prPairs rest
def prThe : Tbl → Nat → List Expr → List Tok
  | .special, k, [] =>
    if k < 6 then [kw "the", .id (nameOrUnknown tblSpecial k)]
    else match tblDate.find? fun x => x.1 == k with
      | some (_, st, un) => [kw "the", kw st, kw un]
      | none => [kw "the", kw "UNKNOWN"]
  | .special, k, [e] => kw "the" :: kw "last" :: kw ((ChunkKind.ofRank (k - 11)).map (·.tag) |>.getD "UNKNOWN") :: kw "of" :: prE e
  | .numChunks, k, [e] => kw "the" :: kw "number" :: kw "of" :: kw ((ChunkKind.ofRank k).map chunkPlural |>.getD "UNKNOWN") :: kw "of" :: prE e
  | .menu, k, [m] =>
    if k = 1 then kw "the" :: kw "name" :: kw "of" :: kw "menu" :: prE m
    else kw "the" :: kw "number" :: kw "of" :: kw "menuItems" :: kw "of" :: kw "menu" :: prE m
  | .menuItem, k, [i, m] => kw "the" :: .id (nameOrUnknown tblMenuItem k) :: kw "of" :: kw "menuItem" :: prE i ++ kw "of" :: kw "menu" :: prE m
  | .sound, k, [n] => kw "the" :: .id (nameOrUnknown tblSound k) :: kw "of" :: kw "sound" :: prE n
  | .sprite, k, [n] => kw "the" :: .id (nameOrUnknown tblSprite k) :: kw "of" :: kw "sprite" :: prE n
  | .cast, k, [n] => kw "the" :: .id (nameOrUnknown tblCast k) :: kw "of" :: kw "cast" :: prE n
  | .video, k, [n] => kw "the" :: .id (nameOrUnknown tblVideo k) :: kw "of" :: kw "cast" :: prE n
  | .field, k, [n] => kw "the" :: .id (nameOrUnknown tblCast k) :: kw "of" :: kw "field" :: prE n
  | .sys, k, [] => [kw "the", .id (nameOrUnknown tblSys k)]
  | .count, k, [] =>
    if k = 1 then [kw "the", kw "perFrameHook"]
    else if k = 2 then [kw "the", kw "number", kw "of", kw "castMembers"]
    else [kw "the", kw "number", kw "of", kw "menus"]
  | _, _, _ => [kw "the", kw "UNKNOWN"]
end

/-! ### statements, handlers, scripts -/

def prCallStmt (f : Name) (args : List Expr) : List Tok :=
  if f = "sound".toList then
    match args with
    | .sym m :: rest => .id f :: .id m :: prArgs rest
    | _ => .id f :: prArgs args
  else if f = "go".toList then
    match args with
    | [.sym w] => if goWord w then [.id f, .id w] else .id f :: prArgs args
    | _ => .id f :: prArgs args
  else .id f :: prArgs args

mutual
def prS : Stmt → List Tok
  | .set lv v => kw "set" :: prE lv ++ .p .eq :: prE v ++ [.nl]
  | .put m v lv => kw "put" :: prE v ++ kw m.tag :: prE lv ++ [.nl]
  | .delete t => kw "delete" :: prE t ++ [.nl]
  | .hilite t => kw "hilite" :: prE t ++ [.nl]
  | .call f as => prCallStmt f as ++ [.nl]
  | .mcall o m as => prE o ++ .id m :: prTail as ++ [.nl]
  | .exit => [kw "exit", .nl]
  | .tell o b => kw "tell" :: prE o ++ .nl :: prSs b ++ [kw "end", kw "tell", .nl]
  | .ifThen c t e =>
    kw "if" :: prE c ++ kw "then" :: .nl :: prSs t ++
      (if e.isEmpty then [] else kw "else" :: .nl :: prSs e) ++ [kw "end", kw "if", .nl]
  | .repeatWhile c b => kw "repeat" :: kw "while" :: prE c ++ .nl :: prSs b ++ [kw "end", kw "repeat", .nl]
  | .repeatWith v a b down body =>
    kw "repeat" :: kw "with" :: prE v ++ .p .eq :: prE a ++ (if down then [kw "down", kw "to"] else [kw "to"]) ++ prE b ++ .nl :: prSs body
      ++ [kw "end", kw "repeat", .nl]
  | .repeatIn v l body => kw "repeat" :: kw "with" :: prE v ++ kw "in" :: prE l ++ .nl :: prSs body ++ [kw "end", kw "repeat", .nl]
  | .exitRepeat => [kw "exit", kw "repeat", .nl]
def prSs : List Stmt → List Tok
  | [] => []
  | s :: ss => prS s ++ prSs ss
end

def prNames : List Name → List Tok
  | [] => []
  | [n] => [.id n]
  | n :: ns => .id n :: .p .comma :: prNames ns

/-- insertion sort by code point order (what Python's `sorted` does on the global names) -/
def insertName (x : Name) : List Name → List Name
  | [] => [x]
  | y :: ys => if x < y then x :: y :: ys else y :: insertName x ys

def prHandler (s : Script) (h : Handler) : List Tok :=
  let gl := (h.globalsUsed s.globals).foldr insertName []
  (if h.isMethod then kw "method" else kw "on") :: .id h.name :: prNames h.params ++ [.nl]
    ++ (if h.isMethod ∧ lowerName h.name = "mnew".toList ∧ s.props ≠ [] then kw "instance" :: prNames s.props ++ [.nl] else [])
    ++ gl.flatMap (fun g => [kw "global", .id g, .nl])
    ++ prSs h.body ++ [kw "end", .nl]

def printLingo (s : Script) : List Tok :=
  (if s.props ≠ [] ∧ s.factory = [] then kw "property" :: prNames s.props ++ [.nl] else [])
    ++ (if s.factory ≠ [] then [kw "factory", .id s.factory, .nl] else [])
    ++ s.globals.flatMap (fun g => [kw "global", .id g, .nl])
    ++ s.handlers.flatMap (prHandler s)

/-! ### tokens → text -/

def digitChar (d : Nat) : Char := Char.ofNat (48 + d)

/-- decimal digits of a number (most significant first), no leading zero -/
def natDigits (n : Nat) : List Char :=
  if h : n < 10 then [digitChar n] else natDigits (n / 10) ++ [digitChar (n % 10)]
termination_by n
decreasing_by omega

def fltText (d s : Nat) : List Char :=
  let ds := natDigits d
  let ds := if ds.length ≤ s then List.replicate (s + 1 - ds.length) '0' ++ ds else ds
  ds.take (ds.length - s) ++ '.' :: ds.drop (ds.length - s)

def P.text : P → String
  | .lp => "(" | .rp => ")" | .lb => "[" | .rb => "]" | .comma => "," | .colon => ":" | .hash => "#" | .eq => "=" | .lt => "<"
  | .gt => ">" | .le => "<=" | .ge => ">=" | .ne => "<>" | .amp => "&" | .amp2 => "&&" | .plus => "+" | .minus => "-"
  | .star => "*" | .slash => "/"

def Tok.text : Tok → List Char
  | .id s => s
  | .num n => natDigits n
  | .flt d s => fltText d s
  | .str s => '"' :: s ++ ['"']
  | .p x => x.text.toList
  | .nl => ['\n']

/-- one space between tokens (none after `#`, none around newlines): no two tokens can fuse, `- -` never becomes a comment -/
def renderToks : List Tok → List Char
  | [] => []
  | .p .hash :: ts => '#' :: renderToks ts
  | .nl :: ts => '\n' :: renderToks ts
  | t :: ts => t.text ++ ' ' :: renderToks ts

def printLingoText (s : Script) : List Char := renderToks (printLingo s)

end Drx.Spec
