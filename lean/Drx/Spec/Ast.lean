/-
  Spec layer (trusted): source-level Lingo programs for properties C02 / C03 / C04.

  `Expr` / `Stmt` / `Handler` / `Script` are the *source* trees the compile scheme (`Drx.Spec.Compile`) turns into
  Director-4 bytecode, the reference reader (`Drx.Spec.LingoRead`) reads back from emitted Lingo text and
  `Drx.Spec.Js.toJs` maps to the JavaScript subset.  A compact S-expression form (`SX`) with a total
  parser and a printer is the wire format between the Python harness and the `lspec` driver.

  Core Lean only (no Mathlib), no `partial`.
-/
namespace Drx.Spec

abbrev Name := List Char

/-- the 19 binary operators of the expression stack machine (opcodes 04-08, 0a-13, 15, 16, 19, 1a) -/
inductive BinOp where
  | mul | add | sub | div | mod | concat | concats | lt | le | ne | eq | gt | ge | and | or
  | contains | starts | intersects | within
  deriving DecidableEq, Repr, Inhabited

inductive UnOp where
  | neg | not
  deriving DecidableEq, Repr, Inhabited

inductive ChunkKind where
  | char | word | item | line
  deriving DecidableEq, Repr, Inhabited

/-- variable kinds: local (`4c`/`52`), parameter (`4b`/`51`), global (`49`/`4f`), declared property (`4a`/`50`) -/
inductive VarKind where
  | loc | param | glob | prop
  deriving DecidableEq, Repr, Inhabited

/-- built-in property tables reached through `5c xx` (read) / `5d xx` (write); `xx` = `Tbl.code` -/
inductive Tbl where
  | special    -- 5c 00 : 0..5 floatPrecision..timeoutScript, 6..11 date/time functions, 12..15 the last <chunk> of s
  | numChunks  -- 5c 01 : the number of chars/words/items/lines of s
  | menu       -- 5c 02 : 1 the name of menu m, 2 the number of menuItems of menu m
  | menuItem   -- 5c 03 : the P of menuItem i of menu m
  | sound      -- 5c 04
  | sprite     -- 5c 06
  | sys        -- 5c 07 : the beepOn ...
  | count      -- 5c 08 : 1 the perFrameHook, 2 the number of castMembers, 3 the number of menus
  | cast       -- 5c 09
  | field      -- 5c 0b
  | video      -- 5c 0d
  deriving DecidableEq, Repr, Inhabited

inductive PutMode where
  | into | after | before
  deriving DecidableEq, Repr, Inhabited

/-- Source expressions.  `plist` holds `k1, v1, k2, v2, …` flattened; `chunk … last` uses `int 0` for "no `to` part"
    (exactly the bytecode's convention). -/
inductive Expr where
  | int (n : Nat)
  | str (s : Name)
  | float (digits scale : Nat)            -- digits / 10^scale, scale ≥ 1
  | sym (n : Name)
  | var (k : VarKind) (n : Name)
  | me                                    -- the receiver inside a factory method (`46 me`)
  | bin (op : BinOp) (a b : Expr)
  | un (op : UnOp) (a : Expr)
  | field (a : Expr)
  | call (f : Name) (args : List Expr)    -- function call in expression position (local `56` if `f` is a handler of the script, else `57`)
  | mcall (obj : Expr) (m : Name) (args : List Expr)   -- factory method call `obj(m, args)` (`58 k`)
  | list (items : List Expr)
  | plist (kvs : List Expr)
  | the (t : Tbl) (k : Nat) (args : List Expr)
  | key (n : Name)                        -- `the n` compiled `ARGS 0; 66 n`
  | movie (n : Name)                      -- `the n` compiled `5f n` / `60 n`
  | oprop (n : Name) (obj : Expr)         -- `the n of obj` compiled `obj; 61 n` / `62 n`
  | chunk (c : ChunkKind) (first last of_ : Expr)
  deriving Repr, Inhabited

inductive Stmt where
  | set (lv v : Expr)
  | put (mode : PutMode) (v lv : Expr)
  | delete (target : Expr)
  | hilite (target : Expr)
  | call (f : Name) (args : List Expr)
  | mcall (obj : Expr) (m : Name) (args : List Expr)
  | exit
  | tell (obj : Expr) (body : List Stmt)
  | ifThen (c : Expr) (t e : List Stmt)
  | repeatWhile (c : Expr) (body : List Stmt)
  | repeatWith (v : Expr) (a b : Expr) (down : Bool) (body : List Stmt)
  | repeatIn (v : Expr) (l : Expr) (body : List Stmt)
  | exitRepeat
  deriving Repr, Inhabited

structure Handler where
  name : Name
  params : List Name
  isMethod : Bool
  body : List Stmt
  deriving Repr, Inhabited

structure Script where
  factory : Name            -- [] = not a factory
  props : List Name         -- `property a, b` (or `instance a, b` of a factory)
  globals : List Name       -- script-level `global` lines
  handlers : List Handler
  deriving Repr, Inhabited

/-! ### decidable equality (nested inductives: written by hand as Boolean functions) -/

mutual
def Expr.beq : Expr → Expr → Bool
  | .int a, .int b => a == b
  | .str a, .str b => a == b
  | .float a b, .float c d => a == c && b == d
  | .sym a, .sym b => a == b
  | .var k a, .var k' b => decide (k = k') && a == b
  | .me, .me => true
  | .bin o a b, .bin o' a' b' => decide (o = o') && Expr.beq a a' && Expr.beq b b'
  | .un o a, .un o' a' => decide (o = o') && Expr.beq a a'
  | .field a, .field a' => Expr.beq a a'
  | .call f as, .call f' as' => f == f' && Expr.beqList as as'
  | .mcall o m as, .mcall o' m' as' => Expr.beq o o' && m == m' && Expr.beqList as as'
  | .list as, .list as' => Expr.beqList as as'
  | .plist as, .plist as' => Expr.beqList as as'
  | .the t k as, .the t' k' as' => decide (t = t') && k == k' && Expr.beqList as as'
  | .key a, .key b => a == b
  | .movie a, .movie b => a == b
  | .oprop n o, .oprop n' o' => n == n' && Expr.beq o o'
  | .chunk c a b d, .chunk c' a' b' d' => decide (c = c') && Expr.beq a a' && Expr.beq b b' && Expr.beq d d'
  | _, _ => false
def Expr.beqList : List Expr → List Expr → Bool
  | [], [] => true
  | a :: as, b :: bs => Expr.beq a b && Expr.beqList as bs
  | _, _ => false
end

mutual
def Stmt.beq : Stmt → Stmt → Bool
  | .set a b, .set a' b' => a.beq a' && b.beq b'
  | .put m a b, .put m' a' b' => decide (m = m') && a.beq a' && b.beq b'
  | .delete a, .delete a' => a.beq a'
  | .hilite a, .hilite a' => a.beq a'
  | .call f as, .call f' as' => f == f' && Expr.beqList as as'
  | .mcall o m as, .mcall o' m' as' => o.beq o' && m == m' && Expr.beqList as as'
  | .exit, .exit => true
  | .tell o b, .tell o' b' => o.beq o' && Stmt.beqList b b'
  | .ifThen c t e, .ifThen c' t' e' => c.beq c' && Stmt.beqList t t' && Stmt.beqList e e'
  | .repeatWhile c b, .repeatWhile c' b' => c.beq c' && Stmt.beqList b b'
  | .repeatWith v a b d body, .repeatWith v' a' b' d' body' =>
      v.beq v' && a.beq a' && b.beq b' && d == d' && Stmt.beqList body body'
  | .repeatIn v l b, .repeatIn v' l' b' => v.beq v' && l.beq l' && Stmt.beqList b b'
  | .exitRepeat, .exitRepeat => true
  | _, _ => false
def Stmt.beqList : List Stmt → List Stmt → Bool
  | [], [] => true
  | a :: as, b :: bs => Stmt.beq a b && Stmt.beqList as bs
  | _, _ => false
end

def Handler.beq (a b : Handler) : Bool :=
  a.name == b.name && a.params == b.params && a.isMethod == b.isMethod && Stmt.beqList a.body b.body

def Handler.beqList : List Handler → List Handler → Bool
  | [], [] => true
  | a :: as, b :: bs => a.beq b && Handler.beqList as bs
  | _, _ => false

def Script.beq (a b : Script) : Bool :=
  a.factory == b.factory && a.props == b.props && a.globals == b.globals && Handler.beqList a.handlers b.handlers

/-! ### names of operators and tables (shared by the S-expression form) -/

def BinOp.all : List BinOp :=
  [.mul, .add, .sub, .div, .mod, .concat, .concats, .lt, .le, .ne, .eq, .gt, .ge, .and, .or, .contains, .starts, .intersects, .within]

def BinOp.tag : BinOp → String
  | .mul => "mul" | .add => "add" | .sub => "sub" | .div => "div" | .mod => "mod"
  | .concat => "concat" | .concats => "concats" | .lt => "lt" | .le => "le" | .ne => "ne" | .eq => "eq"
  | .gt => "gt" | .ge => "ge" | .and => "and" | .or => "or" | .contains => "contains" | .starts => "starts"
  | .intersects => "intersects" | .within => "within"

def BinOp.ofTag (s : String) : Option BinOp := BinOp.all.find? (fun o => o.tag == s)

def UnOp.tag : UnOp → String | .neg => "neg" | .not => "not"
def UnOp.ofTag (s : String) : Option UnOp := if s == "neg" then some .neg else if s == "not" then some .not else none

def ChunkKind.tag : ChunkKind → String | .char => "char" | .word => "word" | .item => "item" | .line => "line"
def ChunkKind.all : List ChunkKind := [.char, .word, .item, .line]
def ChunkKind.ofTag (s : String) : Option ChunkKind := ChunkKind.all.find? (fun o => o.tag == s)

/-- granularity order of chunk kinds (also the operand of `5c 01`) -/
def ChunkKind.rank : ChunkKind → Nat
  | .char => 1 | .word => 2 | .item => 3 | .line => 4

def VarKind.tag : VarKind → String | .loc => "l" | .param => "p" | .glob => "g" | .prop => "r"
def VarKind.all : List VarKind := [.loc, .param, .glob, .prop]
def VarKind.ofTag (s : String) : Option VarKind := VarKind.all.find? (fun o => o.tag == s)

def Tbl.all : List Tbl := [.special, .numChunks, .menu, .menuItem, .sound, .sprite, .sys, .count, .cast, .field, .video]
def Tbl.tag : Tbl → String
  | .special => "special" | .numChunks => "numChunks" | .menu => "menu" | .menuItem => "menuItem" | .sound => "sound"
  | .sprite => "sprite" | .sys => "sys" | .count => "count" | .cast => "cast" | .field => "field" | .video => "video"
def Tbl.ofTag (s : String) : Option Tbl := Tbl.all.find? (fun o => o.tag == s)

/-- second opcode byte of `5c xx` / `5d xx` -/
def Tbl.code : Tbl → Nat
  | .special => 0x00 | .numChunks => 0x01 | .menu => 0x02 | .menuItem => 0x03 | .sound => 0x04
  | .sprite => 0x06 | .sys => 0x07 | .count => 0x08 | .cast => 0x09 | .field => 0x0b | .video => 0x0d

def PutMode.tag : PutMode → String | .into => "into" | .after => "after" | .before => "before"
def PutMode.ofTag (s : String) : Option PutMode :=
  if s == "into" then some .into else if s == "after" then some .after else if s == "before" then some .before else none

/-! ### S-expressions -/

inductive SX where
  | atom (s : Name)
  | str (s : Name)
  | list (l : List SX)
  deriving Repr, Inhabited

def isAtomChar (c : Char) : Bool := c.isAlphanum || c == '_' || c == '-' || c == '.' || c == '+'

def hexVal (c : Char) : Option Nat :=
  if '0' ≤ c ∧ c ≤ '9' then some (c.toNat - '0'.toNat)
  else if 'a' ≤ c ∧ c ≤ 'f' then some (c.toNat - 'a'.toNat + 10)
  else if 'A' ≤ c ∧ c ≤ 'F' then some (c.toNat - 'A'.toNat + 10)
  else none

def hexDig (n : Nat) : Char := if n < 10 then Char.ofNat (48 + n) else Char.ofNat (87 + n)

/-- body of a string literal up to the closing quote; escapes: `\"` `\\` `\xHH` -/
def sxStr : Nat → List Char → List Char → Option (List Char × List Char)
  | 0, _, _ => none
  | _ + 1, [], _ => none
  | _ + 1, '"' :: rest, acc => some (acc.reverse, rest)
  | f + 1, '\\' :: 'x' :: a :: b :: rest, acc =>
    match hexVal a, hexVal b with
    | some x, some y => sxStr f rest (Char.ofNat (16 * x + y) :: acc)
    | _, _ => none
  | f + 1, '\\' :: c :: rest, acc => sxStr f rest (c :: acc)
  | f + 1, c :: rest, acc => sxStr f rest (c :: acc)

def sxAtom : List Char → List Char → List Char × List Char
  | c :: rest, acc => if isAtomChar c then sxAtom rest (c :: acc) else (acc.reverse, c :: rest)
  | [], acc => (acc.reverse, [])

mutual
/-- one S-expression; fuel bounds nesting + length (callers pass the input length + 1) -/
def sxParse : Nat → List Char → Option (SX × List Char)
  | 0, _ => none
  | _ + 1, [] => none
  | f + 1, c :: rest =>
    if c == ' ' || c == '\n' || c == '\t' then sxParse f rest
    else if c == '(' then
      match sxParseList f rest with
      | some (l, r) => some (.list l, r)
      | none => none
    else if c == '"' then
      match sxStr (rest.length + 1) rest [] with
      | some (s, r) => some (.str s, r)
      | none => none
    else if isAtomChar c then
      let (a, r) := sxAtom (c :: rest) []
      some (.atom a, r)
    else none
def sxParseList : Nat → List Char → Option (List SX × List Char)
  | 0, _ => none
  | _ + 1, [] => none
  | f + 1, c :: rest =>
    if c == ' ' || c == '\n' || c == '\t' then sxParseList f rest
    else if c == ')' then some ([], rest)
    else
      match sxParse f (c :: rest) with
      | some (x, r) =>
        match sxParseList f r with
        | some (xs, r') => some (x :: xs, r')
        | none => none
      | none => none
end

def SX.parse (s : List Char) : Option SX :=
  match sxParse (2 * s.length + 2) s with
  | some (x, r) => if r.all (fun c => c == ' ' || c == '\n') then some x else none
  | none => none

def sxEscChar (c : Char) : List Char :=
  if c == '"' then ['\\', '"'] else if c == '\\' then ['\\', '\\']
  else if c.toNat < 0x20 ∨ c.toNat > 0x7e then
    if c.toNat < 256 then ['\\', 'x', hexDig (c.toNat / 16), hexDig (c.toNat % 16)] else ['?']
  else [c]

def isPlainName (n : Name) : Bool := n ≠ [] && n.all isAtomChar

mutual
def SX.render : SX → List Char
  | .atom s => s
  | .str s => '"' :: (s.flatMap sxEscChar) ++ ['"']
  | .list l => '(' :: SX.renderList l ++ [')']
def SX.renderList : List SX → List Char
  | [] => []
  | [x] => x.render
  | x :: xs => x.render ++ ' ' :: SX.renderList xs
end

def SX.a (s : String) : SX := .atom s.toList
def SX.name (n : Name) : SX := if isPlainName n then .atom n else .str n
def SX.nat (n : Nat) : SX := .atom (toString n).toList

def SX.getName : SX → Option Name
  | .atom s => some s
  | .str s => some s
  | .list _ => none

def natOfDigits (s : List Char) : Option Nat :=
  if s = [] then none else
  s.foldl (fun acc c => match acc with
    | none => none
    | some n => if c.isDigit then some (n * 10 + (c.toNat - 48)) else none) (some 0)

def SX.getNat : SX → Option Nat
  | .atom s => natOfDigits s
  | _ => none

/-! ### trees ⇄ S-expressions -/

mutual
def Expr.toSX : Expr → SX
  | .int n => .list [.a "i", .nat n]
  | .str s => .list [.a "s", .str s]
  | .float d s => .list [.a "f", .nat d, .nat s]
  | .sym n => .list [.a "y", .name n]
  | .var k n => .list [.a k.tag, .name n]
  | .me => .a "me"
  | .bin o a b => .list [.a "b", .a o.tag, a.toSX, b.toSX]
  | .un o a => .list [.a "u", .a o.tag, a.toSX]
  | .field a => .list [.a "fld", a.toSX]
  | .call f as => .list (.a "c" :: .name f :: Expr.toSXs as)
  | .mcall o m as => .list (.a "m" :: o.toSX :: .name m :: Expr.toSXs as)
  | .list as => .list (.a "li" :: Expr.toSXs as)
  | .plist as => .list (.a "pl" :: Expr.toSXs as)
  | .the t k as => .list (.a "the" :: .a t.tag :: .nat k :: Expr.toSXs as)
  | .key n => .list [.a "key", .name n]
  | .movie n => .list [.a "mov", .name n]
  | .oprop n o => .list [.a "op", .name n, o.toSX]
  | .chunk c a b d => .list [.a "ch", .a c.tag, a.toSX, b.toSX, d.toSX]
def Expr.toSXs : List Expr → List SX
  | [] => []
  | e :: es => e.toSX :: Expr.toSXs es
end

mutual
def Stmt.toSX : Stmt → SX
  | .set lv v => .list [.a "set", lv.toSX, v.toSX]
  | .put m v lv => .list [.a "put", .a m.tag, v.toSX, lv.toSX]
  | .delete t => .list [.a "del", t.toSX]
  | .hilite t => .list [.a "hil", t.toSX]
  | .call f as => .list (.a "call" :: .name f :: Expr.toSXs as)
  | .mcall o m as => .list (.a "mcall" :: o.toSX :: .name m :: Expr.toSXs as)
  | .exit => .a "exit"
  | .tell o b => .list (.a "tell" :: o.toSX :: Stmt.toSXs b)
  | .ifThen c t e => .list [.a "if", c.toSX, .list (Stmt.toSXs t), .list (Stmt.toSXs e)]
  | .repeatWhile c b => .list (.a "while" :: c.toSX :: Stmt.toSXs b)
  | .repeatWith v a b d body => .list (.a "with" :: v.toSX :: a.toSX :: b.toSX :: .a (if d then "down" else "up") :: Stmt.toSXs body)
  | .repeatIn v l b => .list (.a "in" :: v.toSX :: l.toSX :: Stmt.toSXs b)
  | .exitRepeat => .a "exitrep"
def Stmt.toSXs : List Stmt → List SX
  | [] => []
  | s :: ss => s.toSX :: Stmt.toSXs ss
end

def Handler.toSX (h : Handler) : SX :=
  .list (.a (if h.isMethod then "method" else "on") :: .name h.name :: .list (h.params.map SX.name) :: Stmt.toSXs h.body)

def Script.toSX (s : Script) : SX :=
  .list (.a "script" :: .list [.a "factory", if s.factory = [] then .a "-" else .name s.factory]
    :: .list (.a "props" :: s.props.map SX.name) :: .list (.a "globals" :: s.globals.map SX.name)
    :: s.handlers.map Handler.toSX)

def tagOf : SX → String
  | .atom s => String.ofList s
  | _ => ""

mutual
/-- fuel = nesting depth bound (the S-expression's own size is enough) -/
def Expr.ofSX : Nat → SX → Option Expr
  | 0, _ => none
  | _ + 1, .atom s => if s = "me".toList then some .me else none
  | _ + 1, .str _ => none
  | f + 1, .list (hd :: xs) =>
    let t := tagOf hd
    match t, xs with
    | "i", [n] => n.getNat.map .int
    | "s", [.str s] => some (.str s)
    | "s", [.atom s] => some (.str s)
    | "f", [d, s] => do some (.float (← d.getNat) (← s.getNat))
    | "y", [n] => n.getName.map .sym
    | "l", [n] => n.getName.map (.var .loc)
    | "p", [n] => n.getName.map (.var .param)
    | "g", [n] => n.getName.map (.var .glob)
    | "r", [n] => n.getName.map (.var .prop)
    | "b", [o, a, b] => do some (.bin (← BinOp.ofTag (tagOf o)) (← Expr.ofSX f a) (← Expr.ofSX f b))
    | "u", [o, a] => do some (.un (← UnOp.ofTag (tagOf o)) (← Expr.ofSX f a))
    | "fld", [a] => do some (.field (← Expr.ofSX f a))
    | "c", n :: as => do some (.call (← n.getName) (← Expr.ofSXs f as))
    | "m", o :: n :: as => do some (.mcall (← Expr.ofSX f o) (← n.getName) (← Expr.ofSXs f as))
    | "li", as => do some (.list (← Expr.ofSXs f as))
    | "pl", as => do some (.plist (← Expr.ofSXs f as))
    | "the", t :: k :: as => do some (.the (← Tbl.ofTag (tagOf t)) (← k.getNat) (← Expr.ofSXs f as))
    | "key", [n] => n.getName.map .key
    | "mov", [n] => n.getName.map .movie
    | "op", [n, o] => do some (.oprop (← n.getName) (← Expr.ofSX f o))
    | "ch", [c, a, b, d] => do some (.chunk (← ChunkKind.ofTag (tagOf c)) (← Expr.ofSX f a) (← Expr.ofSX f b) (← Expr.ofSX f d))
    | _, _ => none
  | _ + 1, .list [] => none
def Expr.ofSXs : Nat → List SX → Option (List Expr)
  | 0, _ => none
  | _ + 1, [] => some []
  | f + 1, x :: xs => do some ((← Expr.ofSX f x) :: (← Expr.ofSXs f xs))
end

mutual
def Stmt.ofSX : Nat → SX → Option Stmt
  | 0, _ => none
  | _ + 1, .atom s => if s = "exit".toList then some .exit else if s = "exitrep".toList then some .exitRepeat else none
  | _ + 1, .str _ => none
  | f + 1, .list (hd :: xs) =>
    let t := tagOf hd
    let ex := Expr.ofSX (f + 1)
    match t, xs with
    | "set", [a, b] => do some (.set (← ex a) (← ex b))
    | "put", [m, v, lv] => do some (.put (← PutMode.ofTag (tagOf m)) (← ex v) (← ex lv))
    | "del", [a] => do some (.delete (← ex a))
    | "hil", [a] => do some (.hilite (← ex a))
    | "call", n :: as => do some (.call (← n.getName) (← Expr.ofSXs (f + 1) as))
    | "mcall", o :: n :: as => do some (.mcall (← ex o) (← n.getName) (← Expr.ofSXs (f + 1) as))
    | "tell", o :: b => do some (.tell (← ex o) (← Stmt.ofSXs f b))
    | "if", [c, .list t, .list e] => do some (.ifThen (← ex c) (← Stmt.ofSXs f t) (← Stmt.ofSXs f e))
    | "while", c :: b => do some (.repeatWhile (← ex c) (← Stmt.ofSXs f b))
    | "with", v :: a :: b :: d :: body => do
        let dn ← (if tagOf d == "down" then some true else if tagOf d == "up" then some false else none)
        some (.repeatWith (← ex v) (← ex a) (← ex b) dn (← Stmt.ofSXs f body))
    | "in", v :: l :: b => do some (.repeatIn (← ex v) (← ex l) (← Stmt.ofSXs f b))
    | _, _ => none
  | _ + 1, .list [] => none
def Stmt.ofSXs : Nat → List SX → Option (List Stmt)
  | 0, _ => none
  | _ + 1, [] => some []
  | f + 1, x :: xs => do some ((← Stmt.ofSX f x) :: (← Stmt.ofSXs f xs))
end

def Handler.ofSX (fuel : Nat) : SX → Option Handler
  | .list (hd :: n :: .list ps :: body) => do
    let isM ← (if tagOf hd == "method" then some true else if tagOf hd == "on" then some false else none)
    some { name := ← n.getName, params := ← ps.mapM SX.getName, isMethod := isM, body := ← Stmt.ofSXs fuel body }
  | _ => none

def Script.ofSX (fuel : Nat) : SX → Option Script
  | .list (hd :: .list [fh, fac] :: .list (ph :: props) :: .list (gh :: globs) :: hs) => do
    if tagOf hd != "script" || tagOf fh != "factory" || tagOf ph != "props" || tagOf gh != "globals" then none else
    let fn ← fac.getName
    some { factory := if fn = "-".toList then [] else fn, props := ← props.mapM SX.getName, globals := ← globs.mapM SX.getName,
           handlers := ← hs.mapM (Handler.ofSX fuel) }
  | _ => none

def Handler.parse (s : List Char) : Option Handler := do
  let x ← SX.parse s
  Handler.ofSX (s.length + 4) x

def Script.parse (s : List Char) : Option Script := do
  let x ← SX.parse s
  Script.ofSX (s.length + 4) x

def Script.render (s : Script) : List Char := s.toSX.render

end Drx.Spec
