/-
  Spec layer (trusted): Director-4 code generation scheme  `compile : Script → (Lscr bytes, Lnam bytes)`.

  The scheme is the one observed in the repository's 70 fixtures (DESIGN.md Appendix D); `harness/c02.py`
  validates it on every run by reading each fixture's `.lingo` with the reference reader, compiling, and comparing the
  bytecode handler by handler with the fixture's real `.Lscr` (coverage key `scheme_validation`).

  Three stages:
    A  `lowerExpr` / `lowerStmt`: source tree → straight-line instruction lists inside a control skeleton `CStmt`
       (threading the name table and the constant pool),
    B  `layout`: control skeleton → instruction list with 2-byte forward jumps (`93`, `95`, relative to the opcode's
       own address), 1-byte back jump (`54`), exit repeat = forward jump to the address after the back jump,
    C  `encodeInstrs` + container assembly (header, handler records, constant records of width 6, name table).
-/
import Drx.Py
import Drx.Spec.Ast
namespace Drx.Spec
open Drx

/-! ### instructions and their encoding -/

/-- Director bytecode: opcode < 0x40 has no operand, 0x40..0x7f one operand byte, ≥ 0x80 two (big-endian). -/
inductive Instr where
  | op1 (b : Nat)
  | op2 (b x : Nat)
  | op3 (b x : Nat)
  deriving DecidableEq, Repr, Inhabited

def Instr.WF : Instr → Prop
  | .op1 b => b < 0x40
  | .op2 b x => 0x40 ≤ b ∧ b < 0x80 ∧ x < 256
  | .op3 b x => 0x80 ≤ b ∧ b < 0x100 ∧ x < 65536

instance : (i : Instr) → Decidable i.WF
  | .op1 _ => by unfold Instr.WF; infer_instance
  | .op2 _ _ => by unfold Instr.WF; infer_instance
  | .op3 _ _ => by unfold Instr.WF; infer_instance

def Instr.size : Instr → Nat
  | .op1 _ => 1
  | .op2 _ _ => 2
  | .op3 _ _ => 3

def codeSize : List Instr → Nat
  | [] => 0
  | i :: is => i.size + codeSize is

def Instr.encode : Instr → Bytes
  | .op1 b => [UInt8.ofNat b]
  | .op2 b x => [UInt8.ofNat b, UInt8.ofNat x]
  | .op3 b x => [UInt8.ofNat b, UInt8.ofNat (x / 256), UInt8.ofNat (x % 256)]

def encodeInstrs : List Instr → Bytes
  | [] => []
  | i :: is => i.encode ++ encodeInstrs is

/-- the decoder a reader of the bytecode applies (operand length from the opcode range); `none` on a truncated operand -/
def decodeInstrs : Bytes → Option (List Instr)
  | [] => some []
  | b :: rest =>
    if b.toNat < 0x40 then
      match decodeInstrs rest with
      | some is => some (.op1 b.toNat :: is)
      | none => none
    else if b.toNat < 0x80 then
      match rest with
      | x :: rest' =>
        match decodeInstrs rest' with
        | some is => some (.op2 b.toNat x.toNat :: is)
        | none => none
      | [] => none
    else
      match rest with
      | x :: y :: rest' =>
        match decodeInstrs rest' with
        | some is => some (.op3 b.toNat (x.toNat * 256 + y.toNat) :: is)
        | none => none
      | _ => none

/-! ### opcode numbers of the scheme -/

def BinOp.code : BinOp → Nat
  | .mul => 0x04 | .add => 0x05 | .sub => 0x06 | .div => 0x07 | .mod => 0x08
  | .concat => 0x0a | .concats => 0x0b | .lt => 0x0c | .le => 0x0d | .ne => 0x0e | .eq => 0x0f
  | .gt => 0x10 | .ge => 0x11 | .and => 0x12 | .or => 0x13 | .contains => 0x15 | .starts => 0x16
  | .intersects => 0x19 | .within => 0x1a

def UnOp.code : UnOp → Nat
  | .neg => 0x09 | .not => 0x14

def PutMode.hi : PutMode → Nat
  | .into => 0x10 | .after => 0x20 | .before => 0x30

/-! ### stage A: lowering with name table and constant pool -/

inductive Const where
  | str (s : Name)
  | int (n : Nat)
  | float (digits scale : Nat)
  deriving DecidableEq, Repr, Inhabited

structure St where
  names : List Name
  consts : List Const
  deriving Repr, Inhabited

abbrev M := StateT St (Except String)

def fail {α} (msg : String) : M α := fun _ => .error msg

def idxOf (n : Name) : List Name → Nat → Option Nat
  | [], _ => none
  | x :: xs, i => if x = n then some i else idxOf n xs (i + 1)

/-- index of a name in the name table (first occurrence), appended if absent -/
def nameIdx (n : Name) : M Nat := do
  let st ← get
  match idxOf n st.names 0 with
  | some i => if i < 256 then pure i else fail "name index does not fit one byte"
  | none =>
    let i := st.names.length
    if i < 256 then do set { st with names := st.names ++ [n] }; pure i
    else fail "name table full (operands are one byte)"

def addConst (c : Const) : M Nat := do
  let st ← get
  set { st with consts := st.consts ++ [c] }
  pure st.consts.length

structure Ctx where
  handlers : List Name
  params : List Name      -- for methods: the unnamed receiver slot is index 0 and is NOT in this list
  locals : List Name
  isMethod : Bool
  inTell : Bool
  deriving Repr, Inhabited

def Ctx.paramOff (c : Ctx) (n : Name) : Option Nat :=
  (idxOf n c.params 0).map fun i => 6 * (if c.isMethod then i + 1 else i)

def Ctx.localOff (c : Ctx) (n : Name) : Option Nat := (idxOf n c.locals 0).map (6 * ·)

/-- constant-pool reference: operand = index × 6 (Director-4 constant records are 6 bytes) -/
def litInstr (k : Nat) : M (List Instr) :=
  let x := 6 * k
  if x < 256 then pure [.op2 0x44 x] else if x < 65536 then pure [.op3 0x84 x] else fail "constant pool too large"

/-- a non-negative integer literal: `03`, `41 n`, `81 hi lo`, or a pool constant -/
def lowerInt (n : Nat) : M (List Instr) :=
  if n = 0 then pure [.op1 0x03]
  else if n < 128 then pure [.op2 0x41 n]
  else if n < 32768 then pure [.op3 0x81 n]
  else if n < 2147483648 then do litInstr (← addConst (.int n))
  else fail "integer literal out of range"

def argsInstr (result : Bool) (n : Nat) : M (List Instr) :=
  if n < 256 then pure [.op2 (if result then 0x43 else 0x42) n]
  else if n < 65536 then pure [.op3 (if result then 0x83 else 0x82) n]
  else fail "too many arguments"

def op2c (b x : Nat) : M (List Instr) := if x < 256 then pure [.op2 b x] else fail "operand does not fit one byte"

/-- code of the eight chunk slots from a rank-sorted association list -/
def slotCode (sl : List (Nat × List Instr × List Instr)) : List Instr :=
  let get := fun (r : Nat) => match sl.find? (fun x => x.1 == r) with
    | some (_, a, b) => a ++ b
    | none => [Instr.op1 0x03, .op1 0x03]
  get 1 ++ get 2 ++ get 3 ++ get 4

/-- what a chunk chain / put target bottoms out in -/
inductive Base where
  | field (code : List Instr)
  | loc (off : Nat)
  | named (idx : Nat)
  | other (code : List Instr)

mutual
def lowerExpr (c : Ctx) : Expr → M (List Instr)
  | .int n => lowerInt n
  | .str s => do litInstr (← addConst (.str s))
  | .float d s => do litInstr (← addConst (.float d s))
  | .sym n => do op2c 0x45 (← nameIdx n)
  | .var .loc n => match c.localOff n with
    | some o => op2c 0x4c o
    | none => fail "unknown local"
  | .var .param n => match c.paramOff n with
    | some o => op2c 0x4b o
    | none => fail "unknown parameter"
  | .var .glob n => do op2c 0x49 (← nameIdx n)
  | .var .prop n => do op2c 0x4a (← nameIdx n)
  | .me => do op2c 0x46 (← nameIdx "me".toList)
  | .bin o a b => do
    let ca ← lowerExpr c a
    let cb ← lowerExpr c b
    pure (ca ++ cb ++ [.op1 o.code])
  | .un o a => do pure ((← lowerExpr c a) ++ [.op1 o.code])
  | .field a => do pure ((← lowerExpr c a) ++ [.op1 0x1b])
  | .call f as => do
    let ca ← lowerArgs c as
    let n ← argsInstr true as.length
    match idxOf f c.handlers 0 with
    | some k => pure (ca ++ n ++ (← op2c 0x56 k))
    | none => pure (ca ++ n ++ (← op2c 0x57 (← nameIdx f)))
  | .mcall o m as => do
    let cm ← op2c 0x45 (← nameIdx m)
    let ca ← lowerArgs c as
    let n ← argsInstr true (as.length + 1)
    let (ref, k) ← lowerObjRef c o
    pure (cm ++ ca ++ n ++ ref ++ [.op2 0x58 k])
  | .list as => do
    let ca ← lowerArgs c as
    pure (ca ++ (← argsInstr true as.length) ++ [.op1 0x1e])
  | .plist as => do
    let ca ← lowerArgs c as
    pure (ca ++ (← argsInstr true as.length) ++ [.op1 0x1f])
  | .the t k as => do
    let ca ← lowerArgs c as
    pure (ca ++ (← lowerInt k) ++ [.op2 0x5c t.code])
  | .key n => do pure (.op2 0x43 0 :: (← op2c 0x66 (← nameIdx n)))
  | .movie n => do op2c 0x5f (← nameIdx n)
  | .oprop n o => do
    let co ← lowerExpr c o
    pure (co ++ (← op2c 0x61 (← nameIdx n)))
  | .chunk k a b d => do
    let ca ← lowerExpr c a
    let cb ← lowerExpr c b
    match ← lowerChunkTail c k.rank d with
    | some (sl, base) => pure (slotCode ((k.rank, ca, cb) :: sl) ++ base ++ [.op1 0x17])
    | none =>
      let base ← lowerExpr c d
      pure (slotCode [(k.rank, ca, cb)] ++ base ++ [.op1 0x17])
/-- `chunk … of chunk …` with strictly increasing granularity (char < word < item < line) is ONE slice instruction -/
def lowerChunkTail (c : Ctx) (r : Nat) : Expr → M (Option (List (Nat × List Instr × List Instr) × List Instr))
  | .chunk k a b d =>
    if k.rank > r then do
      let ca ← lowerExpr c a
      let cb ← lowerExpr c b
      match ← lowerChunkTail c k.rank d with
      | some (sl, base) => pure (some ((k.rank, ca, cb) :: sl, base))
      | none =>
        let base ← lowerExpr c d
        pure (some ([(k.rank, ca, cb)], base))
    else pure none
  | _ => pure none
def lowerArgs (c : Ctx) : List Expr → M (List Instr)
  | [] => pure []
  | e :: es => do
    let ce ← lowerExpr c e
    let cs ← lowerArgs c es
    pure (ce ++ cs)
/-- receiver of a factory method call: local → offset, `58 5`; parameter → offset, `58 4`; `me` / global → `46 n`, `58 3` -/
def lowerObjRef (c : Ctx) : Expr → M (List Instr × Nat)
  | .var .loc n => match c.localOff n with
    | some o => do pure (← lowerInt o, 5)
    | none => fail "unknown local"
  | .var .param n => match c.paramOff n with
    | some o => do pure (← lowerInt o, 4)
    | none => fail "unknown parameter"
  | .var .glob n => do pure (← op2c 0x46 (← nameIdx n), 3)
  | .me => do pure (← op2c 0x46 (← nameIdx "me".toList), 3)
  | _ => fail "unsupported method receiver"
end

/-- target of put / delete / hilite: slots (possibly none) and what the chain bottoms out in -/
def lowerTarget (c : Ctx) : Expr → M (List Instr × Base)
  | .chunk k a b d => do
    let ca ← lowerExpr c a
    let cb ← lowerExpr c b
    let rec go (r : Nat) (sl : List (Nat × List Instr × List Instr)) : Expr → M (List Instr × Base)
      | .chunk k' a' b' d' =>
        if k'.rank > r then do
          let ca' ← lowerExpr c a'
          let cb' ← lowerExpr c b'
          go k'.rank (sl ++ [(k'.rank, ca', cb')]) d'
        else fail "chunk target is not a single slice"
      | .field e => do pure (slotCode sl, .field (← lowerExpr c e))
      | .var .loc n => match c.localOff n with
        | some o => pure (slotCode sl, .loc o)
        | none => fail "unknown local"
      | .var .glob n => do pure (slotCode sl, .named (← nameIdx n))
      | e => do pure (slotCode sl, .other (← lowerExpr c e))
    go k.rank [(k.rank, ca, cb)] d
  | .field e => do pure ([], .field (← lowerExpr c e))
  | .var .loc n => match c.localOff n with
    | some o => pure ([], .loc o)
    | none => fail "unknown local"
  | _ => fail "unsupported put/delete target"

/-- control skeleton: straight-line code fragments inside if / loop / exit-repeat structure -/
inductive CStmt where
  | code (is : List Instr)
  | ifThen (cond : List Instr) (t e : List CStmt)
  | loop (pre cond bodyPre : List Instr) (body : List CStmt) (incr post : List Instr)
  | exitRepeat
  deriving Repr, Inhabited

def lowerSet (c : Ctx) (lv : Expr) (cv : List Instr) : M (List Instr) :=
  match lv with
  | .var .loc n => match c.localOff n with
    | some o => do pure (cv ++ (← op2c 0x52 o))
    | none => fail "unknown local"
  | .var .param n => match c.paramOff n with
    | some o => do pure (cv ++ (← op2c 0x51 o))
    | none => fail "unknown parameter"
  | .var .glob n => do pure (cv ++ (← op2c 0x4f (← nameIdx n)))
  | .var .prop n => do pure (cv ++ (← op2c 0x50 (← nameIdx n)))
  | .movie n => do pure (cv ++ (← op2c 0x60 (← nameIdx n)))
  | _ => fail "unsupported assignment target"

def lowerGet (c : Ctx) (v : Expr) : M (List Instr) :=
  match v with
  | .var _ _ => lowerExpr c v
  | _ => fail "loop variable must be a variable"

mutual
def lowerStmt (c : Ctx) : Stmt → M (List CStmt)
  | .set (.the t k as) v => do
    let ca ← lowerArgs c as
    let cv ← lowerExpr c v
    pure [.code (ca ++ cv ++ (← lowerInt k) ++ [.op2 0x5d t.code])]
  | .set (.oprop n o) v => do
    let co ← lowerExpr c o
    let cv ← lowerExpr c v
    pure [.code (co ++ cv ++ (← op2c 0x62 (← nameIdx n)))]
  | .set lv v => do
    -- text order: the target's names first (only matters for the name table order)
    let cv ← lowerExpr c v
    pure [.code (← lowerSet c lv cv)]
  | .put m v lv => do
    let cv ← lowerExpr c v
    let (slots, base) ← lowerTarget c lv
    match slots, base with
    | [], .loc o =>
      if m = .into then fail "put into a variable is written as set" else
      pure [.code (cv ++ (← lowerInt o) ++ [.op2 0x59 (m.hi + 5)])]
    | [], .field ce => pure [.code (cv ++ ce ++ [.op2 0x59 (m.hi + 6)])]
    | [], _ => fail "unsupported put target"
    | sl, .field ce => pure [.code (cv ++ sl ++ ce ++ [.op2 0x5a (m.hi + 6)])]
    | sl, .loc o => do pure [.code (cv ++ sl ++ (← lowerInt o) ++ [.op2 0x5a (m.hi + 5)])]
    | sl, .named i => do pure [.code (cv ++ sl ++ (← op2c 0x46 i) ++ [.op2 0x5a (m.hi + 2)])]
    | _, .other _ => fail "unsupported chunk put target"
  | .delete t => do
    let (slots, base) ← lowerTarget c t
    match slots, base with
    | [], _ => fail "delete needs a chunk"
    | sl, .field ce => pure [.code (sl ++ ce ++ [.op2 0x5b 0x06])]
    | sl, .loc o => do pure [.code (sl ++ (← lowerInt o) ++ [.op2 0x5b 0x05])]
    | sl, .named i => do pure [.code (sl ++ (← op2c 0x46 i) ++ [.op2 0x5b 0x02])]
    | _, .other _ => fail "unsupported delete target"
  | .hilite t => do
    let (slots, base) ← lowerTarget c t
    match slots, base with
    | [], .field ce => pure [.code (slotCode [] ++ ce ++ [.op1 0x18])]
    | sl, .field ce => pure [.code (sl ++ ce ++ [.op1 0x18])]
    | _, _ => fail "hilite needs a field"
  | .call f as => do
    let ca ← lowerArgs c as
    let n ← argsInstr false as.length
    if c.inTell then pure [.code (ca ++ n ++ (← op2c 0x63 (← nameIdx f)))] else
    match idxOf f c.handlers 0 with
    | some k => pure [.code (ca ++ n ++ (← op2c 0x56 k))]
    | none => pure [.code (ca ++ n ++ (← op2c 0x57 (← nameIdx f)))]
  | .mcall o m as => do
    let cm ← op2c 0x45 (← nameIdx m)
    let ca ← lowerArgs c as
    let n ← argsInstr false (as.length + 1)
    let (ref, k) ← lowerObjRef c o
    pure [.code (cm ++ ca ++ n ++ ref ++ [.op2 0x58 k])]
  | .exit => pure [.code [.op1 (if c.isMethod then 0x02 else 0x01)]]
  | .tell o body => do
    let co ← lowerExpr c o
    let cb ← lowerStmts { c with inTell := true } body
    pure ([.code (co ++ [.op1 0x1c])] ++ cb ++ [.code [.op1 0x1d]])
  | .ifThen cd t e => do
    let cc ← lowerExpr c cd
    let ct ← lowerStmts c t
    let ce ← lowerStmts c e
    pure [.ifThen cc ct ce]
  | .repeatWhile cd body => do
    let cc ← lowerExpr c cd
    let cb ← lowerStmts c body
    pure [.loop [] cc [] cb [] []]
  | .repeatWith v a b down body => do
    let ca ← lowerExpr c a
    let setv ← lowerSet c v []
    let getv ← lowerGet c v
    let cb ← lowerExpr c b
    let cbody ← lowerStmts c body
    let step := if down then Instr.op2 0x41 0xff else .op2 0x41 0x01
    pure [.loop (ca ++ setv) (getv ++ cb ++ [.op1 (if down then 0x11 else 0x0d)]) [] cbody
            ([step] ++ getv ++ [.op1 0x05] ++ setv) []]
  | .repeatIn v l body => do
    let cl ← lowerExpr c l
    let cnt ← op2c 0x57 (← nameIdx "count".toList)
    let gat ← op2c 0x57 (← nameIdx "getAt".toList)
    let setv ← lowerSet c v []
    let cbody ← lowerStmts c body
    pure [.loop (cl ++ [.op2 0x64 0, .op2 0x43 1] ++ cnt ++ [.op2 0x41 1])
            [.op2 0x64 0, .op2 0x64 2, .op1 0x0d]
            ([.op2 0x64 2, .op2 0x64 1, .op2 0x43 2] ++ gat ++ setv) cbody
            [.op2 0x41 1, .op1 0x05] [.op2 0x65 3]]
  | .exitRepeat => pure [.exitRepeat]
def lowerStmts (c : Ctx) : List Stmt → M (List CStmt)
  | [] => pure []
  | s :: ss => do
    let cs ← lowerStmt c s
    let rest ← lowerStmts c ss
    pure (cs ++ rest)
end

/-! ### stage B: layout of the control skeleton (`compileStructured`) -/

mutual
def CStmt.size : CStmt → Nat
  | .code is => codeSize is
  | .ifThen c t e => codeSize c + 3 + CStmt.sizes t + (if e.isEmpty then 0 else 3 + CStmt.sizes e)
  | .loop pre c bp body incr post => codeSize pre + codeSize c + 3 + codeSize bp + CStmt.sizes body + codeSize incr + 2 + codeSize post
  | .exitRepeat => 3
def CStmt.sizes : List CStmt → Nat
  | [] => 0
  | s :: ss => s.size + CStmt.sizes ss
end

mutual
/-- `toEnd` = number of bytes between the end of this statement and the address after the enclosing loop's back jump
    (`none` outside loops: an `exit repeat` there has no target and is laid out as a jump to itself + 3) -/
def layoutStmt (toEnd : Option Nat) : CStmt → List Instr
  | .code is => is
  | .ifThen c t e =>
    if e.isEmpty then
      c ++ [.op3 0x95 (3 + CStmt.sizes t)] ++ layoutStmts toEnd t
    else
      c ++ [.op3 0x95 (3 + CStmt.sizes t + 3)] ++ layoutStmts (toEnd.map (· + 3 + CStmt.sizes e)) t
        ++ [.op3 0x93 (3 + CStmt.sizes e)] ++ layoutStmts toEnd e
  | .loop pre c bp body incr post =>
    let inner := codeSize bp + CStmt.sizes body + codeSize incr
    pre ++ c ++ [.op3 0x95 (3 + inner + 2)] ++ bp ++ layoutStmts (some (codeSize incr + 2)) body ++ incr
      ++ [.op2 0x54 (codeSize c + 3 + inner)] ++ post
  | .exitRepeat => [.op3 0x93 (3 + toEnd.getD 0)]
def layoutStmts (toEnd : Option Nat) : List CStmt → List Instr
  | [] => []
  | s :: ss => layoutStmt (toEnd.map (· + CStmt.sizes ss)) s ++ layoutStmts toEnd ss
end

/-! ### variables of a kind: first appearance in text order (locals table, per-handler globals table) -/

mutual
def Expr.vars (vk : VarKind) : Expr → List Name
  | .var k n => if k = vk then [n] else []
  | .bin _ a b => a.vars vk ++ b.vars vk
  | .un _ a => a.vars vk
  | .field a => a.vars vk
  | .call _ as => Expr.varsList vk as
  | .mcall o _ as => o.vars vk ++ Expr.varsList vk as
  | .list as => Expr.varsList vk as
  | .plist as => Expr.varsList vk as
  | .the _ _ as => Expr.varsList vk as
  | .oprop _ o => o.vars vk
  | .chunk _ a b d => a.vars vk ++ b.vars vk ++ d.vars vk
  | _ => []
def Expr.varsList (vk : VarKind) : List Expr → List Name
  | [] => []
  | e :: es => e.vars vk ++ Expr.varsList vk es
end

mutual
def Stmt.vars (vk : VarKind) : Stmt → List Name
  | .set lv v => lv.vars vk ++ v.vars vk
  | .put _ v lv => v.vars vk ++ lv.vars vk
  | .delete t => t.vars vk
  | .hilite t => t.vars vk
  | .call _ as => Expr.varsList vk as
  | .mcall o _ as => o.vars vk ++ Expr.varsList vk as
  | .exit => []
  | .tell o b => o.vars vk ++ Stmt.varsList vk b
  | .ifThen c t e => c.vars vk ++ Stmt.varsList vk t ++ Stmt.varsList vk e
  | .repeatWhile c b => c.vars vk ++ Stmt.varsList vk b
  | .repeatWith v a b _ body => v.vars vk ++ a.vars vk ++ b.vars vk ++ Stmt.varsList vk body
  | .repeatIn v l b => v.vars vk ++ l.vars vk ++ Stmt.varsList vk b
  | .exitRepeat => []
def Stmt.varsList (vk : VarKind) : List Stmt → List Name
  | [] => []
  | s :: ss => s.vars vk ++ Stmt.varsList vk ss
end

def dedup : List Name → List Name → List Name
  | [], acc => acc.reverse
  | x :: xs, acc => if acc.contains x then dedup xs acc else dedup xs (x :: acc)

def Handler.locals (h : Handler) : List Name := dedup (Stmt.varsList .loc h.body) []

/-- globals the handler uses (what its own `global` lines declare, minus the script-level ones) -/
def Handler.globalsUsed (h : Handler) (scriptGlobals : List Name) : List Name :=
  (dedup (Stmt.varsList .glob h.body) []).filter fun g => !scriptGlobals.contains g

/-! ### stage C: container -/

def be16 (n : Nat) : Bytes := [UInt8.ofNat (n / 256), UInt8.ofNat (n % 256)]
def be32 (n : Nat) : Bytes := [UInt8.ofNat (n / 16777216), UInt8.ofNat (n / 65536), UInt8.ofNat (n / 256), UInt8.ofNat (n % 256)]
def be64 (n : Nat) : Bytes := be32 (n / 4294967296) ++ be32 (n % 4294967296)
def nameBytes (n : Name) : Bytes := n.map fun c => UInt8.ofNat c.toNat
def padEven (b : Bytes) : Bytes := if b.length % 2 = 1 then b ++ [0] else b

/-- 80-bit extended float (sign 0, 15-bit exponent biased 16383, 64-bit mantissa with explicit integer bit) nearest to
    `digits / 10^scale`, ties to even -/
def float80 (digits scale : Nat) : Bytes :=
  if digits = 0 then List.replicate 10 0 else
  let num := digits
  let den := 10 ^ scale
  let l0 : Int := (Nat.log2 num : Int) - (Nat.log2 den : Int)
  -- e = floor(log2(num/den)) ∈ {l0 - 1, l0, l0 + 1}
  let ge := fun (e : Int) => if e ≥ 0 then den * 2 ^ e.toNat ≤ num else den ≤ num * 2 ^ (-e).toNat
  let e : Int := if ge (l0 + 1) then l0 + 1 else if ge l0 then l0 else l0 - 1
  let sh : Int := 63 - e
  let (n2, d2) := if sh ≥ 0 then (num * 2 ^ sh.toNat, den) else (num, den * 2 ^ (-sh).toNat)
  let q := n2 / d2
  let r := n2 % d2
  let m := if 2 * r > d2 ∨ (2 * r = d2 ∧ q % 2 = 1) then q + 1 else q
  let (m, e) := if m ≥ 2 ^ 64 then (m / 2, e + 1) else (m, e)
  be16 (e + 16383).toNat ++ be64 m

def Const.record (c : Const) (off : Nat) : Bytes :=
  match c with
  | .str _ => be16 1 ++ be32 off
  | .int n => be16 4 ++ be32 n
  | .float _ _ => be16 9 ++ be32 off

def Const.data : Const → Bytes
  | .str s => be32 (s.length + 1) ++ padEven (nameBytes s ++ [0])
  | .int _ => []
  | .float d s => be32 10 ++ float80 d s

def constRecords : List Const → Nat → Bytes × Bytes
  | [], _ => ([], [])
  | c :: cs, off =>
    let d := c.data
    let (rs, ds) := constRecords cs (off + d.length)
    (c.record off ++ rs, d ++ ds)

structure HCode where
  nameIdx : Nat
  args : List Nat        -- name indices (0xffff for the unnamed receiver of a method)
  locals : List Nat
  globals : List Nat     -- per-handler globals table (declared by `global` lines inside the handler)
  code : Bytes
  deriving Repr, Inhabited

def lowerHandler (handlers : List Name) (scriptGlobals : List Name) (h : Handler) : M HCode := do
  let ni ← nameIdx h.name
  let args ← h.params.mapM nameIdx
  let locals := h.locals
  let locIdx ← locals.mapM nameIdx
  let globIdx ← (h.globalsUsed scriptGlobals).mapM nameIdx
  let ctx : Ctx := { handlers, params := h.params, locals, isMethod := h.isMethod, inTell := false }
  let cs ← lowerStmts ctx h.body
  let is := layoutStmts none cs ++ [.op1 (if h.isMethod then 0x02 else 0x01)]
  if is.all (fun i => decide i.WF) then
    pure { nameIdx := ni, args := (if h.isMethod then [0xffff] else []) ++ args, locals := locIdx, globals := globIdx, code := encodeInstrs is }
  else fail "operand out of range (jump distance or count too large)"

def lowerHandlers (handlers : List Name) (scriptGlobals : List Name) : List Handler → M (List HCode)
  | [] => pure []
  | h :: hs => do
    let c ← lowerHandler handlers scriptGlobals h
    let cs ← lowerHandlers handlers scriptGlobals hs
    pure (c :: cs)

/-- per-handler block: code (padded to even), argument names, local names, global names; returns (bytes, record) -/
def handlerBlock (h : HCode) (off : Nat) : Bytes × Bytes :=
  let code := padEven h.code
  let argOff := off + code.length
  let locOff := argOff + 2 * h.args.length
  let globOff := locOff + 2 * h.locals.length
  let endOff := globOff + 2 * h.globals.length
  let blk := code ++ h.args.flatMap be16 ++ h.locals.flatMap be16 ++ h.globals.flatMap be16
  let rec_ := be16 h.nameIdx ++ be16 0xffff ++ be32 h.code.length ++ be32 off ++ be16 h.args.length ++ be32 argOff
    ++ be16 h.locals.length ++ be32 locOff ++ be16 h.globals.length ++ be32 globOff ++ be32 0 ++ be16 0 ++ be16 0 ++ be32 endOff
  (blk, rec_)

def handlerBlocks : List HCode → Nat → Bytes × Bytes
  | [], _ => ([], [])
  | h :: hs, off =>
    let (b, r) := handlerBlock h off
    let (bs, rs) := handlerBlocks hs (off + b.length)
    (b ++ bs, r ++ rs)

def lnamBytes (names : List Name) : Bytes :=
  let body := names.flatMap fun n => UInt8.ofNat n.length :: nameBytes n
  let size := 20 + body.length
  be32 0 ++ be32 0 ++ be32 size ++ be32 size ++ be16 0x14 ++ be16 names.length ++ body

structure Options where
  pre : List Name := []      -- given prefix of the name table (arbitrary order / extra entries / duplicates)
  scrNum : Nat := 0
  deriving Repr, Inhabited

structure Compiled where
  lscr : Bytes
  lnam : Bytes
  names : List Name
  handlerCode : List (Name × Bytes)
  deriving Repr, Inhabited

def compileM (s : Script) (scrNum : Nat) : M Compiled := do
  let hnames := s.handlers.map (·.name)
  let facIdx ← (if s.factory = [] then pure 0xffff else nameIdx s.factory)
  let propIdx ← s.props.mapM nameIdx
  let globIdx ← s.globals.mapM nameIdx
  let meIdx ← (if s.factory = [] then pure 0 else nameIdx "me".toList)
  let hs ← lowerHandlers hnames s.globals s.handlers
  let st ← get
  let (blocks, records) := handlerBlocks hs 92
  -- a factory's property table starts with three fixed slots (unnamed, `me`, 0), then the instance variables
  let props := (if s.factory = [] then [] else [0xffff, meIdx, 0]) ++ propIdx
  let prbOff := 92 + blocks.length
  let grbOff := prbOff + 2 * props.length
  let frbOff := grbOff + 2 * globIdx.length
  let crbOff := frbOff + records.length
  let conOff := crbOff + 6 * st.consts.length
  let (crecs, cdata) := constRecords st.consts 0
  let size := conOff + cdata.length
  if size ≥ 32768 then fail "script too large for 16-bit header offsets" else
  if s.handlers.length ≥ 256 then fail "too many handlers" else
  if st.names.any (fun n => n.length ≥ 256) then fail "name too long" else
  let header := be32 0 ++ be32 1 ++ be32 size ++ be32 size ++ be16 92 ++ be16 scrNum ++ be16 2 ++ be16 0xffff
    ++ be32 0xffff0000 ++ be32 0 ++ be32 0 ++ be32 0 ++ be32 0 ++ be32 1 ++ be16 facIdx ++ be16 0 ++ be32 0 ++ be32 0 ++ be32 0
    ++ be16 prbOff ++ be16 globIdx.length ++ be16 0 ++ be16 grbOff ++ be16 s.handlers.length ++ be16 0 ++ be16 frbOff
    ++ be16 st.consts.length ++ be16 0 ++ be16 crbOff ++ be16 0 ++ be16 cdata.length ++ be16 0 ++ be16 conOff
  let lscr := header ++ blocks ++ props.flatMap be16 ++ globIdx.flatMap be16 ++ records ++ crecs ++ cdata
  pure { lscr, lnam := lnamBytes st.names, names := st.names,
         handlerCode := (s.handlers.zip hs).map fun (h, c) => (h.name, c.code) }

/-- `compile` : the whole scheme -/
def compile (o : Options) (s : Script) : Except String Compiled :=
  match compileM s o.scrNum { names := o.pre, consts := [] } with
  | .ok (c, _) => .ok c
  | .error e => .error e

/-- one handler compiled on its own (constant pool restarted; name table and local-handler numbering as given) -/
def compileHandlerAlone (names : List Name) (handlers : List Name) (h : Handler) : Except String Bytes :=
  match lowerHandler handlers [] h { names, consts := [] } with
  | .ok (c, _) => .ok c.code
  | .error e => .error e

end Drx.Spec
