/-
  Spec layer (trusted) for C04: the JavaScript subset the translator emits.

  `JE` / `JS` / `JTop`  : syntax trees of the subset
  `lexJs`, `parseJsProg`, `readJs = parseJsProg ∘ lexJs` : a reader with JavaScript's own grouping rules (postfix call / member /
                          index bind tighter than prefix `-` `!`, then `* / %`, `+ -`, relational, equality, `&&`, `||`); a numeric
                          literal immediately followed by an identifier is a lexical error, as in JavaScript (`1.concat(b)`)
  `toJs : Script → List JTop` : the translator's fixed correspondences written once as data (string-object literals, symbol / list /
                          propList constructors, method-style string operators, if / while / for / break, `this` and `_global.`
                          prefixes, class wrappers for factories and property scripts)
  `printJs`               : reference printer of the expression fragment (theorem: `readJs (printJs e) = e`)
-/
import Drx.Spec.Ast
import Drx.Spec.Tables
import Drx.Spec.Compile
import Drx.Spec.LingoRead
namespace Drx.Spec

inductive JE where
  | num (digits scale : Nat)
  | lstr (s : Name)            -- new LingoString("s")
  | dstr (s : Name)            -- "s"
  | sstr (s : Name)            -- 's'
  | id (n : Name)
  | mem (o : JE) (n : Name)    -- o.n
  | idx (o : JE) (i : JE)      -- o[i]
  | call (f : JE) (args : List JE)
  | newLS (e : JE)             -- new LingoString(e), e not a string literal
  | un (op : Name) (a : JE)    -- prefix - !
  | bin (op : Name) (a b : JE)
  | spread (n : Name)          -- ...n
  deriving Repr, Inhabited

inductive JS where
  | expr (e : JE)
  | assign (l r : JE)
  | ret (e : List JE)          -- return; / return e;
  | var (n : Name)
  | ifs (c : JE) (t e : List JS)
  | while (c : JE) (body : List JS)
  | for3 (v a c : JE) (down : Bool) (body : List JS)      -- for(v = a; c; v++|v--)
  | forOf (v l : JE) (body : List JS)
  | with (o : JE) (body : List JS)
  | brk
  deriving Repr, Inhabited

structure JFunc where
  name : Name
  params : List JE             -- identifiers or a spread
  body : List JS
  deriving Repr, Inhabited

inductive JTop where
  | func (f : JFunc)
  | cls (name base : Name) (methods : List JFunc)
  deriving Repr, Inhabited

/-! ### canonical rendering (S-expression text), used to compare trees -/

def sxs (tag : String) (parts : List (List Char)) : List Char :=
  '(' :: tag.toList ++ parts.flatMap (fun p => ' ' :: p) ++ [')']

def renderStr (s : Name) : List Char := (SX.str s).render
def renderName (s : Name) : List Char := (SX.name s).render

mutual
def JE.render : JE → List Char
  | .num d s => sxs "num" [(toString d).toList, (toString s).toList]
  | .lstr s => sxs "lstr" [renderStr s]
  | .dstr s => sxs "dstr" [renderStr s]
  | .sstr s => sxs "sstr" [renderStr s]
  | .id n => sxs "id" [renderName n]
  | .mem o n => sxs "mem" [o.render, renderName n]
  | .idx o i => sxs "idx" [o.render, i.render]
  | .call f as => sxs "call" (f.render :: JE.renderList as)
  | .newLS e => sxs "newLS" [e.render]
  | .un op a => sxs "un" [renderStr op, a.render]
  | .bin op a b => sxs "bin" [renderStr op, a.render, b.render]
  | .spread n => sxs "spread" [renderName n]
def JE.renderList : List JE → List (List Char)
  | [] => []
  | e :: es => e.render :: JE.renderList es
end

mutual
def JS.render : JS → List Char
  | .expr e => sxs "expr" [e.render]
  | .assign l r => sxs "assign" [l.render, r.render]
  | .ret es => sxs "ret" (JE.renderList es)
  | .var n => sxs "var" [renderName n]
  | .ifs c t e => sxs "if" [c.render, sxs "then" (JS.renderList t), sxs "else" (JS.renderList e)]
  | .while c b => sxs "while" (c.render :: JS.renderList b)
  | .for3 v a c d b => sxs "for" (v.render :: a.render :: c.render :: (if d then "--" else "++").toList :: JS.renderList b)
  | .forOf v l b => sxs "forof" (v.render :: l.render :: JS.renderList b)
  | .with o b => sxs "with" (o.render :: JS.renderList b)
  | .brk => "break".toList
def JS.renderList : List JS → List (List Char)
  | [] => []
  | s :: ss => s.render :: JS.renderList ss
end

def JFunc.render (f : JFunc) : List Char :=
  sxs "func" (renderName f.name :: sxs "params" (JE.renderList f.params) :: JS.renderList f.body)

def JTop.render : JTop → List Char
  | .func f => f.render
  | .cls n b ms => sxs "class" (renderName n :: renderName b :: ms.map JFunc.render)

/-! ### lexer -/

inductive JP where
  | lp | rp | lc | rc | lb | rb | comma | semi | dot | dots | assign | eq | ne | lt | le | gt | ge
  | plus | minus | star | slash | pct | bang | and | or | inc | dec
  deriving DecidableEq, Repr, Inhabited

inductive JTok where
  | id (s : Name)
  | num (digits scale : Nat)
  | dstr (s : Name)
  | sstr (s : Name)
  | p (x : JP)
  deriving DecidableEq, Repr, Inhabited

def isJsIdStart (c : Char) : Bool := c.isAlpha || c == '_' || c == '$'
def isJsIdChar (c : Char) : Bool := c.isAlphanum || c == '_' || c == '$'

def hex2 (a b : Char) : Option Nat := do some (16 * (← hexVal a) + (← hexVal b))

/-- body of a JavaScript string literal up to the closing `q`; escapes `\\ \" \' \n \r \t \b \f \v \0 \xHH \uHHHH` -/
def jsStr (q : Char) : Nat → List Char → List Char → Option (List Char × List Char)
  | 0, _, _ => none
  | _ + 1, [], _ => none
  | f + 1, '\\' :: c :: rest, acc =>
    if c == 'x' then
      match rest with
      | a :: b :: r => (hex2 a b).bind fun n => jsStr q f r (Char.ofNat n :: acc)
      | _ => none
    else if c == 'u' then
      match rest with
      | a :: b :: c' :: d :: r =>
        match hex2 a b, hex2 c' d with
        | some h, some l => jsStr q f r (Char.ofNat (256 * h + l) :: acc)
        | _, _ => none
      | _ => none
    else
      let ch := if c == 'n' then '\n' else if c == 'r' then '\r' else if c == 't' then '\t' else if c == 'b' then Char.ofNat 8
        else if c == 'f' then Char.ofNat 12 else if c == 'v' then Char.ofNat 11 else if c == '0' then Char.ofNat 0 else c
      jsStr q f rest (ch :: acc)
  | f + 1, c :: rest, acc =>
    if c == q then some (acc.reverse, rest)
    else if c == '\n' then none
    else jsStr q f rest (c :: acc)

def lexJsAux : Nat → List Char → List JTok → Option (List JTok)
  | 0, _, _ => none
  | _ + 1, [], acc => some acc.reverse
  | f + 1, c :: cs, acc =>
    if c == ' ' || c == '\t' || c == '\n' || c == '\r' then lexJsAux f cs acc
    else if c == '"' then
      match jsStr '"' (cs.length + 1) cs [] with
      | some (s, r) => lexJsAux f r (.dstr s :: acc)
      | none => none
    else if c == '\'' then
      match jsStr '\'' (cs.length + 1) cs [] with
      | some (s, r) => lexJsAux f r (.sstr s :: acc)
      | none => none
    else if c.isDigit then
      let (ds, r) := spanC Char.isDigit (c :: cs)
      let (tok, r') : JTok × List Char := match r with
        | '.' :: r1 =>
          let (fs, r2) := spanC Char.isDigit r1
          (.num (digitsVal (ds ++ fs)) fs.length, r2)
        | _ => (.num (digitsVal ds) 0, r)
      -- an identifier may not start immediately after a numeric literal
      match r' with
      | x :: _ => if isJsIdStart x then none else lexJsAux f r' (tok :: acc)
      | [] => lexJsAux f r' (tok :: acc)
    else if isJsIdStart c then
      let (s, r) := spanC isJsIdChar (c :: cs)
      lexJsAux f r (.id s :: acc)
    else if c == '(' then lexJsAux f cs (.p .lp :: acc)
    else if c == ')' then lexJsAux f cs (.p .rp :: acc)
    else if c == '{' then lexJsAux f cs (.p .lc :: acc)
    else if c == '}' then lexJsAux f cs (.p .rc :: acc)
    else if c == '[' then lexJsAux f cs (.p .lb :: acc)
    else if c == ']' then lexJsAux f cs (.p .rb :: acc)
    else if c == ',' then lexJsAux f cs (.p .comma :: acc)
    else if c == ';' then lexJsAux f cs (.p .semi :: acc)
    else if c == '.' then
      match cs with
      | '.' :: '.' :: cs' => lexJsAux f cs' (.p .dots :: acc)
      | _ => lexJsAux f cs (.p .dot :: acc)
    else if c == '=' then
      match cs with
      | '=' :: cs' => lexJsAux f cs' (.p .eq :: acc)
      | _ => lexJsAux f cs (.p .assign :: acc)
    else if c == '!' then
      match cs with
      | '=' :: cs' => lexJsAux f cs' (.p .ne :: acc)
      | _ => lexJsAux f cs (.p .bang :: acc)
    else if c == '<' then
      match cs with
      | '=' :: cs' => lexJsAux f cs' (.p .le :: acc)
      | _ => lexJsAux f cs (.p .lt :: acc)
    else if c == '>' then
      match cs with
      | '=' :: cs' => lexJsAux f cs' (.p .ge :: acc)
      | _ => lexJsAux f cs (.p .gt :: acc)
    else if c == '+' then
      match cs with
      | '+' :: cs' => lexJsAux f cs' (.p .inc :: acc)
      | _ => lexJsAux f cs (.p .plus :: acc)
    else if c == '-' then
      match cs with
      | '-' :: cs' => lexJsAux f cs' (.p .dec :: acc)
      | _ => lexJsAux f cs (.p .minus :: acc)
    else if c == '*' then lexJsAux f cs (.p .star :: acc)
    else if c == '/' then lexJsAux f cs (.p .slash :: acc)
    else if c == '%' then lexJsAux f cs (.p .pct :: acc)
    else if c == '&' then
      match cs with
      | '&' :: cs' => lexJsAux f cs' (.p .and :: acc)
      | _ => none
    else if c == '|' then
      match cs with
      | '|' :: cs' => lexJsAux f cs' (.p .or :: acc)
      | _ => none
    else none

def lexJs (s : List Char) : Option (List JTok) := lexJsAux (s.length + 1) s []

/-! ### expressions -/

def jsBinOfTok : Nat → JTok → Option Name
  | 1, .p .or => some "||".toList
  | 2, .p .and => some "&&".toList
  | 3, .p .eq => some "==".toList
  | 3, .p .ne => some "!=".toList
  | 4, .p .lt => some "<".toList
  | 4, .p .le => some "<=".toList
  | 4, .p .gt => some ">".toList
  | 4, .p .ge => some ">=".toList
  | 5, .p .plus => some "+".toList
  | 5, .p .minus => some "-".toList
  | 6, .p .star => some "*".toList
  | 6, .p .slash => some "/".toList
  | 6, .p .pct => some "%".toList
  | _, _ => none

def jsKeywords : List String := ["function", "class", "extends", "var", "if", "else", "while", "for", "of", "with", "break", "return", "new"]
def isJsKeyword (s : Name) : Bool := jsKeywords.any fun k => k.toList == s

mutual
def jLevel : Nat → Nat → List JTok → Option (JE × List JTok)
  | 0, _, _ => none
  | f + 1, lvl, ts =>
    if lvl ≥ 7 then jUnary f ts else
    match jLevel f (lvl + 1) ts with
    | some (a, r) => jLoop f lvl a r
    | none => none
def jLoop : Nat → Nat → JE → List JTok → Option (JE × List JTok)
  | 0, _, _, _ => none
  | _ + 1, _, a, [] => some (a, [])
  | f + 1, lvl, a, t :: r =>
    match jsBinOfTok lvl t with
    | some op =>
      match jLevel f (lvl + 1) r with
      | some (b, r') => jLoop f lvl (.bin op a b) r'
      | none => none
    | none => some (a, t :: r)
def jUnary : Nat → List JTok → Option (JE × List JTok)
  | 0, _ => none
  | f + 1, .p .minus :: r =>
    match jUnary f r with
    | some (e, r') => some (.un "-".toList e, r')
    | none => none
  | f + 1, .p .bang :: r =>
    match jUnary f r with
    | some (e, r') => some (.un "!".toList e, r')
    | none => none
  | f + 1, ts =>
    match jPrimary f ts with
    | some (e, r) => jPostfix f e r
    | none => none
def jPostfix : Nat → JE → List JTok → Option (JE × List JTok)
  | 0, _, _ => none
  | f + 1, e, .p .dot :: .id n :: r => jPostfix f (.mem e n) r
  | f + 1, e, .p .lb :: r =>
    match jLevel f 1 r with
    | some (i, .p .rb :: r') => jPostfix f (.idx e i) r'
    | _ => none
  | f + 1, e, .p .lp :: r =>
    match jArgs f r with
    | some (as, r') => jPostfix f (.call e as) r'
    | none => none
  | _ + 1, e, ts => some (e, ts)
def jPrimary : Nat → List JTok → Option (JE × List JTok)
  | 0, _ => none
  | _ + 1, .num d s :: r => some (.num d s, r)
  | _ + 1, .dstr s :: r => some (.dstr s, r)
  | _ + 1, .sstr s :: r => some (.sstr s, r)
  | _ + 1, .p .dots :: .id n :: r => some (.spread n, r)
  | f + 1, .p .lp :: r =>
    match jLevel f 1 r with
    | some (e, .p .rp :: r') => some (e, r')
    | _ => none
  | f + 1, .id s :: r =>
    if s = "new".toList then
      match r with
      | .id c :: .p .lp :: .dstr str :: .p .rp :: r' => if c = "LingoString".toList then some (.lstr str, r') else none
      | .id c :: .p .lp :: r1 =>
        if c = "LingoString".toList then
          match jLevel f 1 r1 with
          | some (e, .p .rp :: r') => some (.newLS e, r')
          | _ => none
        else none
      | _ => none
    else if isJsKeyword s then none
    else some (.id s, r)
  | _ + 1, _ => none
/-- arguments after `(` up to and including `)` -/
def jArgs : Nat → List JTok → Option (List JE × List JTok)
  | 0, _ => none
  | _ + 1, .p .rp :: r => some ([], r)
  | f + 1, ts =>
    match jLevel f 1 ts with
    | some (e, .p .comma :: r) =>
      match jArgs f r with
      | some ([], _) => none          -- trailing comma
      | some (es, r') => some (e :: es, r')
      | none => none
    | some (e, .p .rp :: r) => some ([e], r)
    | _ => none
end

def jExpr (fuel : Nat) (ts : List JTok) : Option (JE × List JTok) := jLevel fuel 1 ts

/-! ### statements -/

mutual
/-- statements up to the closing `}` (consumed) -/
def jBlock : Nat → List JTok → Option (List JS × List JTok)
  | 0, _ => none
  | _ + 1, .p .rc :: r => some ([], r)
  | f + 1, ts =>
    match jStmt f ts with
    | some (s, r) =>
      match jBlock f r with
      | some (ss, r') => some (s :: ss, r')
      | none => none
    | none => none
def jStmt : Nat → List JTok → Option (JS × List JTok)
  | 0, _ => none
  | _ + 1, [] => none
  | f + 1, t :: r =>
    let fe := 10 * (r.length + 2)
    match t with
    | .id s =>
      if s = "var".toList then
        match r with
        | .id n :: .p .semi :: r' => some (.var n, r')
        | _ => none
      else if s = "break".toList then
        match r with
        | .p .semi :: r' => some (.brk, r')
        | _ => none
      else if s = "return".toList then
        match r with
        | .p .semi :: r' => some (.ret [], r')
        | _ =>
          match jExpr fe r with
          | some (e, .p .semi :: r') => some (.ret [e], r')
          | _ => none
      else if s = "if".toList then
        match r with
        | .p .lp :: r1 =>
          match jExpr fe r1 with
          | some (c, .p .rp :: .p .lc :: r2) =>
            match jBlock f r2 with
            | some (tb, .id e :: .p .lc :: r3) =>
              if e = "else".toList then
                match jBlock f r3 with
                | some (eb, r4) => some (.ifs c tb eb, r4)
                | none => none
              else some (.ifs c tb [], .id e :: .p .lc :: r3)
            | some (tb, r3) => some (.ifs c tb [], r3)
            | none => none
          | _ => none
        | _ => none
      else if s = "while".toList then
        match r with
        | .p .lp :: r1 =>
          match jExpr fe r1 with
          | some (c, .p .rp :: .p .lc :: r2) =>
            match jBlock f r2 with
            | some (b, r3) => some (.while c b, r3)
            | none => none
          | _ => none
        | _ => none
      else if s = "with".toList then
        match r with
        | .p .lp :: r1 =>
          match jExpr fe r1 with
          | some (o, .p .rp :: .p .lc :: r2) =>
            match jBlock f r2 with
            | some (b, r3) => some (.with o b, r3)
            | none => none
          | _ => none
        | _ => none
      else if s = "for".toList then
        match r with
        | .p .lp :: r1 =>
          match jExpr fe r1 with
          | some (v, .id o :: r2) =>
            if o = "of".toList then
              match jExpr fe r2 with
              | some (l, .p .rp :: .p .lc :: r3) =>
                match jBlock f r3 with
                | some (b, r4) => some (.forOf v l b, r4)
                | none => none
              | _ => none
            else none
          | some (v, .p .assign :: r2) =>
            match jExpr fe r2 with
            | some (a, .p .semi :: r3) =>
              match jExpr fe r3 with
              | some (c, .p .semi :: r4) =>
                match jExpr fe r4 with
                | some (v2, step :: .p .rp :: .p .lc :: r5) =>
                  let dir : Option Bool := if step = .p .inc then some false else if step = .p .dec then some true else none
                  match dir with
                  | some d =>
                    if v2.render = v.render then
                      match jBlock f r5 with
                      | some (b, r6) => some (.for3 v a c d b, r6)
                      | none => none
                    else none
                  | none => none
                | _ => none
              | _ => none
            | _ => none
          | _ => none
        | _ => none
      else
        match jExpr fe (t :: r) with
        | some (e, .p .semi :: r') => some (.expr e, r')
        | some (l, .p .assign :: r1) =>
          match jExpr fe r1 with
          | some (v, .p .semi :: r') => some (.assign l v, r')
          | _ => none
        | _ => none
    | _ =>
      match jExpr fe (t :: r) with
      | some (e, .p .semi :: r') => some (.expr e, r')
      | some (l, .p .assign :: r1) =>
        match jExpr fe r1 with
        | some (v, .p .semi :: r') => some (.assign l v, r')
        | _ => none
      | _ => none
end

mutual
/-- `with` statements anywhere in a body (class bodies are strict-mode code, where `with` is a SyntaxError) -/
def JS.hasWith : JS → Bool
  | .with _ _ => true
  | .ifs _ t e => JS.hasWithL t || JS.hasWithL e
  | .while _ b => JS.hasWithL b
  | .for3 _ _ _ _ b => JS.hasWithL b
  | .forOf _ _ b => JS.hasWithL b
  | _ => false
def JS.hasWithL : List JS → Bool
  | [] => false
  | s :: ss => s.hasWith || JS.hasWithL ss
end

/-- parameter list after `(` up to and including `)` -/
def jParams : List JTok → Option (List JE × List JTok)
  | .p .rp :: r => some ([], r)
  | .id n :: .p .comma :: r => (jParams r).bind fun (ps, r') => if ps.isEmpty then none else some (.id n :: ps, r')
  | .id n :: .p .rp :: r => some ([.id n], r)
  | .p .dots :: .id n :: .p .rp :: r => some ([.spread n], r)
  | _ => none

/-- `name(params) { body }` -/
def jMethod (fuel : Nat) : List JTok → Option (JFunc × List JTok)
  | .id n :: .p .lp :: r =>
    if isJsKeyword n then none else
    match jParams r with
    | some (ps, .p .lc :: r1) =>
      match jBlock fuel r1 with
      | some (b, r2) => some ({ name := n, params := ps, body := b }, r2)
      | none => none
    | _ => none
  | _ => none

def jMethods (fuel : Nat) : Nat → List JTok → Option (List JFunc × List JTok)
  | 0, _ => none
  | _ + 1, .p .rc :: r => some ([], r)
  | k + 1, ts =>
    match jMethod fuel ts with
    | some (m, r) => (jMethods fuel k r).map fun (ms, r') => (m :: ms, r')
    | none => none

def jTops (fuel : Nat) : Nat → List JTok → Option (List JTop)
  | 0, _ => none
  | _ + 1, [] => some []
  | k + 1, .id s :: r =>
    if s = "function".toList then
      match jMethod fuel r with
      | some (f, r') => (jTops fuel k r').map fun ts => .func f :: ts
      | none => none
    else if s = "class".toList then
      match r with
      | .id n :: .id e :: .id b :: .p .lc :: r1 =>
        if e = "extends".toList then
          match jMethods fuel (r1.length + 1) r1 with
          | some (ms, r2) =>
            -- a class body is strict-mode code: `with` is not allowed in it
            if ms.any (fun m => JS.hasWithL m.body) then none
            else (jTops fuel k r2).map fun ts => .cls n b ms :: ts
          | none => none
        else none
      | _ => none
    else none
  | _ + 1, _ => none

def parseJsProg (ts : List JTok) : Option (List JTop) := jTops (4 * ts.length + 16) (ts.length + 1) ts

def readJs (text : List Char) : Option (List JTop) := (lexJs text).bind parseJsProg

/-- one function (`function name(..) {..}`) or one method (`name(..) {..}`) on its own -/
def readJsFunc (isMethod : Bool) (text : List Char) : Option JFunc :=
  (lexJs text).bind fun ts =>
    let ts' := if isMethod then some ts else (match ts with | .id s :: r => if s = "function".toList then some r else none | _ => none)
    ts'.bind fun ts'' =>
      match jMethod (4 * ts''.length + 16) ts'' with
      | some (f, []) => if isMethod && JS.hasWithL f.body then none else some f
      | _ => none

/-! ### reserved words (F141): a strict variant of the readers, used by the check

The readers above know the keywords of the SUBSET; JavaScript reserves more words (some only in strict-mode code such as class
bodies), and none of them may name a variable, a parameter or a function.  The strict readers reject a function in which a declaration uses one (they accept nothing the plain
readers reject: `readJsFuncStrict_sub`). -/

def jsReserved : List String :=
  ["break", "case", "catch", "class", "const", "continue", "debugger", "default", "delete", "do", "else", "enum", "extends",
   "false", "finally", "for", "function", "if", "import", "in", "instanceof", "new", "null", "return", "super", "switch", "this", "throw",
   "true", "try", "typeof", "var", "void", "while", "with"]
/- `export` is left out: V8 (`node --check`, the second opinion of the thorough tier) accepts it as a variable name in scripts -/
/-- reserved in strict-mode code only (class bodies are strict; functions of a plain script are not) -/
def jsStrictReserved : List String :=
  ["let", "static", "yield", "implements", "interface", "package", "private", "protected", "public"]
def isJsReserved (strict : Bool) (s : Name) : Bool :=
  jsReserved.any (fun k => k.toList == s) || (strict && jsStrictReserved.any (fun k => k.toList == s))

mutual
/-- no `var` declaration of the statement (at any depth) declares a reserved word -/
def JS.varsOk (strict : Bool) : JS → Bool
  | .var n => !isJsReserved strict n
  | .ifs _ t e => JS.varsOkL strict t && JS.varsOkL strict e
  | .while _ b => JS.varsOkL strict b
  | .for3 _ _ _ _ b => JS.varsOkL strict b
  | .forOf _ _ b => JS.varsOkL strict b
  | .with _ b => JS.varsOkL strict b
  | _ => true
def JS.varsOkL (strict : Bool) : List JS → Bool
  | [] => true
  | s :: ss => s.varsOk strict && JS.varsOkL strict ss
end

def JFunc.namesOk (isMethod : Bool) (f : JFunc) : Bool :=
  (isMethod || !isJsReserved false f.name)      -- a class method may be named by a reserved word, a function may not
    && f.params.all (fun p => match p with | .id n => !isJsReserved isMethod n | .spread n => !isJsReserved isMethod n | _ => true)
    && JS.varsOkL isMethod f.body

def readJsFuncStrict (isMethod : Bool) (text : List Char) : Option JFunc :=
  (readJsFunc isMethod text).bind fun f => if f.namesOk isMethod then some f else none

def JTop.namesOk : JTop → Bool
  | .func f => f.namesOk false
  | .cls n _ ms => !isJsReserved false n && ms.all (JFunc.namesOk true)

def readJsStrict (text : List Char) : Option (List JTop) :=
  (readJs text).bind fun ts => if ts.all JTop.namesOk then some ts else none

theorem readJsFuncStrict_sub (m : Bool) (t : List Char) (f : JFunc) (h : readJsFuncStrict m t = some f) : readJsFunc m t = some f := by
  unfold readJsFuncStrict at h
  cases hr : readJsFunc m t with
  | none => simp [hr] at h
  | some g =>
    simp only [hr, Option.bind_some] at h
    split at h
    · exact h
    · cases h

theorem readJsStrict_sub (t : List Char) (ts : List JTop) (h : readJsStrict t = some ts) : readJs t = some ts := by
  unfold readJsStrict at h
  cases hr : readJs t with
  | none => simp [hr] at h
  | some g =>
    simp only [hr, Option.bind_some] at h
    split at h
    · exact h
    · cases h

def readJsExpr (text : List Char) : Option JE :=
  (lexJs text).bind fun ts =>
    match jExpr (24 * ts.length + 16) ts with
    | some (e, []) => some e
    | _ => none

/-! ### the translator's correspondences: `toJs` -/

def jid (x : String) : JE := .id x.toList
def jmem (o : JE) (x : String) : JE := .mem o x.toList
def jcall (f : String) (args : List JE) : JE := .call (.id f.toList) args

def jsBinOp : BinOp → Option String
  | .mul => some "*" | .add => some "+" | .sub => some "-" | .div => some "/" | .mod => some "%"
  | .lt => some "<" | .le => some "<=" | .ne => some "!=" | .eq => some "==" | .gt => some ">" | .ge => some ">="
  | .and => some "&&" | .or => some "||"
  | _ => none

def jsMethodOp : BinOp → Option String
  | .concat => some "concat" | .concats => some "concats" | .contains => some "contains" | .starts => some "start"
  | _ => none

/-- object a system property (`5c 07`) belongs to -/
def sysObj : List (Nat × String) :=
  [(1, "_movie"), (2, "_movie"), (3, "_movie"), (4, "_system"), (5, "_system"), (6, "_system"), (8, "_movie"), (9, "_movie"),
   (10, "_system"), (11, "_system"), (0x13, "_system"), (0x17, "_movie"), (0x18, "_movie"), (0x19, "_sound"), (0x1a, "_sound"),
   (0x1b, "_movie"), (0x1d, "_player"), (0x1e, "_system"), (0x1f, "_system"), (0x20, "_system"), (0x21, "_system"), (0x22, "_system")]

/-- object of a function-like property (`66 n`) -/
def keyObj : List (String × String) :=
  [("labelList", "_movie"), ("lastClick", "_player"), ("lastEvent", "_player"), ("lastKey", "_player"), ("lastRoll", "_player"),
   ("machineType", "_player"), ("mouseCast", "_mouse"), ("mouseChar", "_mouse"), ("mouseDown", "_mouse"), ("mouseH", "_mouse"),
   ("mouseItem", "_mouse"), ("mouseLine", "_mouse"), ("mouseUp", "_mouse"), ("mouseV", "_mouse"), ("mouseWord", "_mouse"),
   ("doubleClick", "_mouse"), ("clickOn", "_mouse"), ("movie", "_movie"), ("pathName", "_movie"), ("movieFileSize", "_movie"),
   ("movieFileFreeSize", "_movie"), ("pauseState", "_movie"), ("result", "_player"), ("selection", "_movie"), ("stageBottom", "_movie"),
   ("stageLeft", "_movie"), ("stageRight", "_movie"), ("stageTop", "_movie"), ("ticks", "_system"), ("maxinteger", "_system"),
   ("multiSound", "_system"), ("updateMovieEnabled", "_movie"), ("frameLabel", "_movie")]

/-- object of a movie property (`5f n` / `60 n`) -/
def movieObj : List (String × String) :=
  [("updateMovieEnabled", "_movie"), ("frameLabel", "_movie"), ("actorList", "_movie"), ("itemDelimiter", "_player"), ("movieName", "_movie"),
   ("moviePath", "_movie"), ("romanLingo", "_system"), ("cpuHogTicks", "_system"), ("traceLoad", "_system"), ("traceLogFile", "_system"),
   ("floatPrecision", "_system"), ("mouseDownScript", "_system"), ("mouseUpScript", "_system"), ("keyDownScript", "_system"),
   ("keyUpScript", "_system"), ("timeoutScript", "_system")]

def lookupObj (t : List (String × String)) (n : Name) (dflt : String) : String :=
  match t.find? fun x => x.1.toList == n with
  | some x => x.2
  | none => dflt

def capitalize : Name → Name
  | [] => []
  | c :: cs => c.toUpper :: cs.map Char.toLower

structure JCtx where
  handlers : List Name
  inTell : Bool
  deriving Inhabited

def isMeExpr : Expr → Bool
  | .me => true
  | .var _ n => n = "me".toList
  | _ => false


def toJsCall (c : JCtx) (f : Name) (src : List Expr) (args : List JE) : JE :=
  if f = "birth".toList then .call (jmem (jid "_movie") "newScript") args
  else if f = "new".toList then
    match src with
    | .sym _ :: _ => .call (jmem (jid "_movie") "newMember") args
    | _ => .call (jmem (jid "_movie") "newScript") args
  else if f = "go".toList then
    let base := fun (n : Name) => if c.inTell then JE.id n else JE.mem (jid "_movie") n
    match src with
    | [.sym s] => .call (base ("go".toList ++ capitalize s)) []
    | _ => .call (base "go".toList) args
  else if f = "cast".toList then jcall "member" args
  else if f = "continue".toList then jcall "resume" args
  else .call (.id f) args
def toJsThe (c : JCtx) (t : Tbl) (k : Nat) (args : List JE) : JE :=
  let prop := fun (tbl : List (Nat × String)) => ((tblLookupIdx tbl k).getD "UNKNOWN".toList)
  match t, args with
  | .special, [] =>
    if k < 6 then .mem (jid "_system") (prop tblSpecial)
    else
      match tblDate.find? fun x => x.1 == k with
      | some (_, st, un) => .call (jmem (jid "_system") "date") [.sstr (st ++ " " ++ un).toList]
      | none => jid "UNKNOWN"
  | .special, [e] => .idx (.mem e ((ChunkKind.ofRank (k - 11)).map (·.tag) |>.getD "UNKNOWN").toList) (.dstr "last".toList)
  | .numChunks, [e] => jmem (.mem e ((ChunkKind.ofRank k).map (·.tag) |>.getD "UNKNOWN").toList) "length"
  | .menu, [m] =>
    let mn := JE.idx (jmem (jid "_menuBar") "menu") m
    if k = 1 then jmem mn "name" else jmem (jmem mn "item") "length"
  | .menuItem, [i, m] => .mem (.idx (jmem (.idx (jmem (jid "_menuBar") "menu") m) "item") i) (prop tblMenuItem)
  | .sound, [n] => .mem (jcall "sound" [n]) (prop tblSound)
  | .sprite, [n] => .mem (jcall "sprite" [n]) (prop tblSprite)
  | .cast, [n] => .mem (jcall "member" [n]) (prop tblCast)
  | .video, [n] => .mem (jcall "member" [n]) (prop tblVideo)
  | .field, [n] => .mem (jcall "field" [n]) (prop tblCast)
  | .sys, [] =>
    let name := prop tblSys
    if c.inTell then .id name
    else .mem (jid ((sysObj.find? fun x => x.1 == k).map (·.2) |>.getD "UNKNOWN")) name
  | .count, [] =>
    if k = 1 then jmem (jid "_system") "perFrameHook"
    else if k = 2 then jmem (jid "castMembers") "length"
    else jmem (jmem (jid "_menuBar") "menu") "length"
  | _, _ => jid "UNKNOWN"


mutual
def toJsE (c : JCtx) : Expr → JE
  | .int n => .num n 0
  | .float d s => .num d s
  | .str s => .lstr s
  | .sym n => jcall "symbol" [.sstr n]
  | .var .loc n => if n = "me".toList then jid "this" else .id n
  | .var .param n => if n = "me".toList then jid "this" else .id n
  | .var .glob n => .mem (jid "_global") n
  | .var .prop n => .mem (jid "this") n
  | .me => jid "this"
  | .bin op a b =>
    match jsBinOp op with
    | some o => .bin o.toList (toJsE c a) (toJsE c b)
    | none =>
      match jsMethodOp op with
      | some m => .call (jmem (toJsE c a) m) [toJsE c b]
      | none =>
        let m := if op = .intersects then "intersects" else "within"
        .call (jmem (jcall "sprite" [toJsE c a]) m) [jcall "sprite" [toJsE c b]]
  | .un .neg a => .un "-".toList (toJsE c a)
  | .un .not a => .un "!".toList (toJsE c a)
  | .field a => jcall "field" [toJsE c a]
  | .call f as => toJsCall c f as (toJsEs c as)
  | .mcall o m as =>
    if isMeExpr o then .call (.mem (jid "this") m) (toJsEs c as)
    else .call (toJsE c o) (jcall "symbol" [.sstr m] :: toJsEs c as)
  | .list as => jcall "list" (toJsEs c as)
  | .plist as => jcall "propList" (toJsEs c as)
  | .the t k as => toJsThe c t k (toJsEs c as)
  | .key n =>
    if n = "date".toList ∨ n = "time".toList then .call (jmem (jid "_system") "date") [.sstr n]
    else .mem (jid (lookupObj keyObj n "_key")) n
  | .movie n => .mem (jid (lookupObj movieObj n "this")) n
  | .oprop n o => .mem (toJsE c o) n
  | .chunk k a b d =>
    let sel := match b with
      | .int 0 => toJsE c a
      | _ => jcall "range" [toJsE c a, toJsE c b]
    .idx (jmem (toJsE c d) k.tag) sel
def toJsEs (c : JCtx) : List Expr → List JE
  | [] => []
  | e :: es => toJsE c e :: toJsEs c es
end


/-- put target: the field at the bottom of the chunk chain is addressed through its `.text` -/
def putTarget (c : JCtx) : Expr → JE
  | .field e => jmem (jcall "field" [toJsE c e]) "text"
  | .chunk k a b d =>
    let sel := match b with
      | .int 0 => toJsE c a
      | _ => jcall "range" [toJsE c a, toJsE c b]
    .idx (jmem (putTarget c d) k.tag) sel
  | e => toJsE c e

mutual
def toJsS (c : JCtx) : Stmt → JS
  | .set lv v => .assign (toJsE c lv) (toJsE c v)
  | .put m v lv =>
    let l := putTarget c lv
    match m with
    | .into => .assign l (toJsE c v)
    | .after => .assign l (.newLS (.bin "+".toList l (toJsE c v)))
    | .before => .assign l (.newLS (.bin "+".toList (toJsE c v) l))
  | .delete t => .expr (jcall "delete" [toJsE c t])
  | .hilite t => .expr (jcall "hilite" [toJsE c t])
  | .call f as =>
    if f = "return".toList then .ret (toJsEs c as)
    else
      let e := toJsE c (.call f as)
      -- a call of a handler of the same script is wrapped (fn_call)
      if c.handlers.contains f && !c.inTell then .expr (jcall "fn_call" [e]) else .expr e
  | .mcall o m as => .expr (toJsE c (.mcall o m as))
  | .exit => .expr (jcall "exit" [])
  | .tell o b => .with (toJsE c o) (toJsSs { c with inTell := true } b)
  | .ifThen cd t e => .ifs (toJsE c cd) (toJsSs c t) (toJsSs c e)
  | .repeatWhile cd b => .while (toJsE c cd) (toJsSs c b)
  | .repeatWith v a b down body =>
    .for3 (toJsE c v) (toJsE c a) (.bin (if down then ">=" else "<=").toList (toJsE c v) (toJsE c b)) down (toJsSs c body)
  | .repeatIn v l body => .forOf (toJsE c v) (toJsE c l) (toJsSs c body)
  | .exitRepeat => .brk
def toJsSs (c : JCtx) : List Stmt → List JS
  | [] => []
  | s :: ss => toJsS c s :: toJsSs c ss
end

/-- a handler as a JavaScript function / method: parameters (a parameter called `me` is the receiver and is dropped in classes),
    one `var` per local in first-appearance order, the statements -/
def toJsFunc (handlers : List Name) (inClass : Bool) (h : Handler) : JFunc :=
  let ps := if inClass then h.params.filter (· ≠ "me".toList) else h.params
  { name := if h.name = "new".toList ∧ !inClass then "birth".toList else h.name,
    params := ps.map JE.id,
    body := h.locals.map JS.var ++ toJsSs { handlers, inTell := false } h.body }

def toJs (scrNum : Nat) (s : Script) : List JTop :=
  let hn := s.handlers.map (·.name)
  if s.factory ≠ [] then
    [.cls ("Factory__".toList ++ s.factory) "FactoryBase".toList (s.handlers.map (toJsFunc hn true)),
     .func { name := s.factory, params := [jid "methodName", .spread "args".toList],
             body := [.ret [jcall "factoryCall" [.sstr s.factory, jid "methodName", jid "args"]]] }]
  else if s.props ≠ [] then
    .cls ("Object__".toList ++ (toString scrNum).toList) "ObjectBase".toList (s.handlers.map (toJsFunc hn true))
      :: (s.handlers.filter (·.name ≠ "birth".toList)).map fun h =>
          .func { name := h.name, params := [jid "obj", .spread "args".toList],
                  body := [.ret [.call (.mem (jid "obj") h.name) [.spread "args".toList]]] }
  else s.handlers.map fun h => .func (toJsFunc hn false h)

/-! ### reference printer of the expression subset (tokens), as the translator writes it -/

def jsOpTok (op : Name) : Option JTok :=
  if op = "||".toList then some (.p .or) else if op = "&&".toList then some (.p .and)
  else if op = "==".toList then some (.p .eq) else if op = "!=".toList then some (.p .ne)
  else if op = "<".toList then some (.p .lt) else if op = "<=".toList then some (.p .le)
  else if op = ">".toList then some (.p .gt) else if op = ">=".toList then some (.p .ge)
  else if op = "+".toList then some (.p .plus) else if op = "-".toList then some (.p .minus)
  else if op = "*".toList then some (.p .star) else if op = "/".toList then some (.p .slash)
  else if op = "%".toList then some (.p .pct) else none

def jsUnTok (op : Name) : Option JTok :=
  if op = "-".toList then some (.p .minus) else if op = "!".toList then some (.p .bang) else none

/-- receivers of `.name`, `[i]`, `(args)` that are numeric literals or prefix operations are parenthesised (F41 / F42) -/
def JE.needsParen : JE → Bool
  | .num _ _ => true
  | .un _ _ => true
  | _ => false

def wrapRecv (o : JE) (ts : List JTok) : List JTok := if o.needsParen then .p .lp :: ts ++ [.p .rp] else ts

mutual
def prJ : JE → List JTok
  | .num d s => [.num d s]
  | .lstr s => [.id "new".toList, .id "LingoString".toList, .p .lp, .dstr s, .p .rp]
  | .dstr s => [.dstr s]
  | .sstr s => [.sstr s]
  | .id n => [.id n]
  | .mem o n => wrapRecv o (prJ o) ++ [.p .dot, .id n]
  | .idx o i => wrapRecv o (prJ o) ++ .p .lb :: prJ i ++ [.p .rb]
  | .call f as => wrapRecv f (prJ f) ++ .p .lp :: prJArgs as ++ [.p .rp]
  | .newLS e => .id "new".toList :: .id "LingoString".toList :: .p .lp :: prJ e ++ [.p .rp]
  | .un op a => (jsUnTok op).getD (.p .bang) :: .p .lp :: prJ a ++ [.p .rp]
  | .bin op a b => .p .lp :: prJ a ++ (jsOpTok op).getD (.p .plus) :: prJ b ++ [.p .rp]
  | .spread n => [.p .dots, .id n]
/-- `a, b, c` -/
def prJArgs : List JE → List JTok
  | [] => []
  | [e] => prJ e
  | e :: es => prJ e ++ .p .comma :: prJArgs es
end

end Drx.Spec
