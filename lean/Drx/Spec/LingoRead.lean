/-
  Spec layer (trusted): the reference reading of Lingo text (DESIGN.md section 3 and Appendix B).

  `lex`   : text → tokens   (`--` comments, string literals without escapes, case-insensitive keywords)
  `parseScript` : tokens → `Script`   (precedence: 1 `& &&`, 2 comparisons / contains / starts, 3 `+ -`,
                  4 `* / mod and or`, 5 unary `-` / `not` / `sprite … intersects|within …`; all binary operators
                  left-associative; operand positions after `sprite`, `cast`, `field`, `of`, `menu` take a level-5 expression)
  `readLingo = parseScript ∘ lex`.

  The reader accepts standard Lingo for the constructs of C02 / C03, not merely what the decompiler prints: a dropped
  parenthesis or a wrong operator changes the tree that is read.  All functions are total (fuel-indexed recursive
  descent; the fuel is computed from the token count and is never the reason for a rejection on well-formed input).
-/
import Drx.Spec.Ast
import Drx.Spec.Tables
namespace Drx.Spec

inductive P where
  | lp | rp | lb | rb | comma | colon | hash | eq | lt | gt | le | ge | ne | amp | amp2 | plus | minus | star | slash
  deriving DecidableEq, Repr, Inhabited

inductive Tok where
  | id (s : Name)
  | num (n : Nat)
  | flt (digits scale : Nat)
  | str (s : Name)
  | p (x : P)
  | nl
  deriving DecidableEq, Repr, Inhabited

/-! ### lexer -/

def isIdStart (c : Char) : Bool := c.isAlpha || c == '_'
def isIdChar (c : Char) : Bool := c.isAlphanum || c == '_'

def spanC (p : Char → Bool) : List Char → List Char × List Char
  | [] => ([], [])
  | c :: cs => if p c then let (a, b) := spanC p cs; (c :: a, b) else ([], c :: cs)

def digitsVal (s : List Char) : Nat := s.foldl (fun n c => n * 10 + (c.toNat - 48)) 0

def lexAux : Nat → List Char → List Tok → Option (List Tok)
  | 0, _, _ => none
  | _ + 1, [], acc => some acc.reverse
  | f + 1, c :: cs, acc =>
    if c == ' ' || c == '\t' then lexAux f cs acc
    else if c == '\n' || c == '\r' then lexAux f cs (.nl :: acc)
    else if c == '-' then
      match cs with
      | '-' :: cs' => lexAux f (spanC (fun x => x != '\n' && x != '\r') cs').2 acc
      | _ => lexAux f cs (.p .minus :: acc)
    else if c == '"' then
      let (s, r) := spanC (fun x => x != '"' && x != '\n' && x != '\r') cs
      match r with
      | '"' :: r' => lexAux f r' (.str s :: acc)
      | _ => none
    else if c.isDigit then
      let (ds, r) := spanC Char.isDigit (c :: cs)
      match r with
      | '.' :: d :: r' =>
        if d.isDigit then
          let (fs, r'') := spanC Char.isDigit (d :: r')
          lexAux f r'' (.flt (digitsVal (ds ++ fs)) fs.length :: acc)
        else lexAux f r (.num (digitsVal ds) :: acc)
      | _ => lexAux f r (.num (digitsVal ds) :: acc)
    else if isIdStart c then
      let (s, r) := spanC isIdChar (c :: cs)
      lexAux f r (.id s :: acc)
    else if c == '(' then lexAux f cs (.p .lp :: acc)
    else if c == ')' then lexAux f cs (.p .rp :: acc)
    else if c == '[' then lexAux f cs (.p .lb :: acc)
    else if c == ']' then lexAux f cs (.p .rb :: acc)
    else if c == ',' then lexAux f cs (.p .comma :: acc)
    else if c == ':' then lexAux f cs (.p .colon :: acc)
    else if c == '#' then lexAux f cs (.p .hash :: acc)
    else if c == '=' then lexAux f cs (.p .eq :: acc)
    else if c == '+' then lexAux f cs (.p .plus :: acc)
    else if c == '*' then lexAux f cs (.p .star :: acc)
    else if c == '/' then lexAux f cs (.p .slash :: acc)
    else if c == '&' then
      match cs with
      | '&' :: cs' => lexAux f cs' (.p .amp2 :: acc)
      | _ => lexAux f cs (.p .amp :: acc)
    else if c == '<' then
      match cs with
      | '=' :: cs' => lexAux f cs' (.p .le :: acc)
      | '>' :: cs' => lexAux f cs' (.p .ne :: acc)
      | _ => lexAux f cs (.p .lt :: acc)
    else if c == '>' then
      match cs with
      | '=' :: cs' => lexAux f cs' (.p .ge :: acc)
      | _ => lexAux f cs (.p .gt :: acc)
    else none

def lex (s : List Char) : Option (List Tok) := lexAux (s.length + 1) s []

/-! ### environment (how a bare identifier is classified) -/

structure Env where
  params : List Name := []
  globals : List Name := []
  props : List Name := []
  handlers : List Name := []
  assigned : List Name := []
  isMethod : Bool := false
  deriving Repr, Inhabited

def Tok.kw (t : Tok) (k : String) : Bool :=
  match t with
  | .id s => lowerName s == k.toList
  | _ => false

def Env.isVar (env : Env) (n : Name) : Bool :=
  env.params.contains n || env.globals.contains n || env.assigned.contains n || (env.isMethod && lowerName n == "me".toList)

/-- a bare identifier in expression position -/
def Env.resolve (env : Env) (n : Name) : Expr :=
  match namedConstantOf n with
  | some s => .str s
  | none =>
    let l := lowerName n
    if l = "true".toList then .int 1 else if l = "false".toList then .int 0
    else if env.isMethod && l = "me".toList then .me
    else if env.params.contains n then .var .param n
    else if env.globals.contains n then .var .glob n
    else if env.props.contains n then .var .prop n
    else if env.assigned.contains n then .var .loc n
    else if env.handlers.contains n then .call n []
    else .var .loc n

/-- a variable in assignment-target position (never a call, never a constant) -/
def Env.resolveVar (env : Env) (n : Name) : Expr :=
  if env.isMethod && lowerName n = "me".toList then .me
  else if env.params.contains n then .var .param n
  else if env.globals.contains n then .var .glob n
  else if env.props.contains n then .var .prop n
  else .var .loc n

def binOfTok : Nat → Tok → Option BinOp
  | 1, .p .amp => some .concat
  | 1, .p .amp2 => some .concats
  | 2, .p .lt => some .lt
  | 2, .p .le => some .le
  | 2, .p .ne => some .ne
  | 2, .p .eq => some .eq
  | 2, .p .gt => some .gt
  | 2, .p .ge => some .ge
  | 2, t => if t.kw "contains" then some .contains else if t.kw "starts" then some .starts else none
  | 3, .p .plus => some .add
  | 3, .p .minus => some .sub
  | 4, .p .star => some .mul
  | 4, .p .slash => some .div
  | 4, t => if t.kw "mod" then some .mod else if t.kw "and" then some .and else if t.kw "or" then some .or else none
  | _, _ => none

def dateIdx (style unit : Name) : Option Nat :=
  let s := lowerName style
  let u := lowerName unit
  let s' := if s = "abbrev".toList || s = "abbreviated".toList then "abbr".toList else s
  (tblDate.find? fun x => x.2.1.toList == s' && x.2.2.toList == u).map (·.1)

/-- `the P` without `of` -/
def theSimple (n : Name) : Expr :=
  match tblLookupName tblSpecial n with
  | some k => .the .special k []
  | none =>
    match tblLookupName tblSys n with
    | some k => .the .sys k []
    | none =>
      if lowerName n = "perframehook".toList then .the .count 1 []
      else if isKeyName n then .key n else .movie n

/-! ### expressions -/

mutual
/-- level `lvl` (1..4): operand {op operand}, left-associative; level 5 = unary -/
def pLevel (env : Env) : Nat → Nat → List Tok → Option (Expr × List Tok)
  | 0, _, _ => none
  | f + 1, lvl, ts =>
    if lvl ≥ 5 then pE5 env f ts else
    match pLevel env f (lvl + 1) ts with
    | some (a, r) => pLoop env f lvl a r
    | none => none
def pLoop (env : Env) : Nat → Nat → Expr → List Tok → Option (Expr × List Tok)
  | 0, _, _, _ => none
  | _ + 1, _, a, [] => some (a, [])
  | f + 1, lvl, a, t :: r =>
    match binOfTok lvl t with
    | some op =>
      match pLevel env f (lvl + 1) r with
      | some (b, r') => pLoop env f lvl (.bin op a b) r'
      | none => none
    | none => some (a, t :: r)
def pE5 (env : Env) : Nat → List Tok → Option (Expr × List Tok)
  | 0, _ => none
  | _ + 1, [] => none
  | f + 1, t :: r =>
    if t = .p .minus then
      match pE5 env f r with
      | some (e, r') => some (.un .neg e, r')
      | none => none
    else if t.kw "not" then
      match pE5 env f r with
      | some (e, r') => some (.un .not e, r')
      | none => none
    else if t.kw "sprite" then
      match pE5 env f r with
      | some (a, t2 :: r2) =>
        if t2.kw "intersects" then
          match pE5 env f r2 with
          | some (b, r3) => some (.bin .intersects a b, r3)
          | none => none
        else if t2.kw "within" then
          match pE5 env f r2 with
          | some (b, r3) => some (.bin .within a b, r3)
          | none => none
        else none
      | _ => none
    else pSimple env f (t :: r)
def pSimple (env : Env) : Nat → List Tok → Option (Expr × List Tok)
  | 0, _ => none
  | _ + 1, [] => none
  | _ + 1, .num n :: r => some (.int n, r)
  | _ + 1, .flt d s :: r => some (.float d s, r)
  | _ + 1, .str s :: r => some (.str s, r)
  | _ + 1, .p .hash :: .id s :: r => some (.sym s, r)
  | f + 1, .p .lp :: r =>
    match pLevel env f 1 r with
    | some (e, .p .rp :: r') => some (e, r')
    | _ => none
  | f + 1, .p .lb :: r =>
    match r with
    | .p .rb :: r' => some (.list [], r')
    | .p .colon :: .p .rb :: r' => some (.plist [], r')
    | _ =>
      match pLevel env f 1 r with
      | some (e, .p .colon :: r1) =>
        match pLevel env f 1 r1 with
        | some (v, r2) =>
          match pPairs env f r2 with
          | some (kvs, .p .rb :: r3) => some (.plist (e :: v :: kvs), r3)
          | _ => none
        | none => none
      | some (e, r1) =>
        match pMore env f r1 with
        | some (es, .p .rb :: r2) => some (.list (e :: es), r2)
        | _ => none
      | none => none
  | f + 1, .id s :: r =>
    let t := Tok.id s
    if t.kw "the" then pThe env f r
    else match chunkOfSingular s with
    | some k => pChunk env f k r
    | none =>
      if t.kw "field" then
        match pE5 env f r with
        | some (e, r') => some (.field e, r')
        | none => none
      else
        match r with
        | .p .lp :: r1 =>
          if env.isVar s then
            -- factory method call  obj(mMethod, args)
            match r1 with
            | .id m :: .p .rp :: r2 => some (.mcall (env.resolveVar s) m [], r2)
            | .id m :: .p .comma :: r2 =>
              match pArgs env f r2 with
              | some (as, .p .rp :: r3) => some (.mcall (env.resolveVar s) m as, r3)
              | _ => none
            | _ => none
          else
            match r1 with
            | .p .rp :: r2 => some (.call s [], r2)
            | _ =>
              match pArgs env f r1 with
              | some (as, .p .rp :: r2) => some (.call s as, r2)
              | _ => none
        | _ => some (env.resolve s, r)
  | _ + 1, _ => none
/-- `expr {, expr}` -/
def pArgs (env : Env) : Nat → List Tok → Option (List Expr × List Tok)
  | 0, _ => none
  | f + 1, ts =>
    match pLevel env f 1 ts with
    | some (e, r) =>
      match pMore env f r with
      | some (es, r') => some (e :: es, r')
      | none => none
    | none => none
/-- `{, expr}` -/
def pMore (env : Env) : Nat → List Tok → Option (List Expr × List Tok)
  | 0, _ => none
  | f + 1, .p .comma :: r =>
    match pLevel env f 1 r with
    | some (e, r') =>
      match pMore env f r' with
      | some (es, r'') => some (e :: es, r'')
      | none => none
    | none => none
  | _ + 1, ts => some ([], ts)
/-- `{, key : value}` -/
def pPairs (env : Env) : Nat → List Tok → Option (List Expr × List Tok)
  | 0, _ => none
  | f + 1, .p .comma :: r =>
    match pLevel env f 1 r with
    | some (k, .p .colon :: r1) =>
      match pLevel env f 1 r1 with
      | some (v, r2) =>
        match pPairs env f r2 with
        | some (kvs, r3) => some (k :: v :: kvs, r3)
        | none => none
      | none => none
    | _ => none
  | _ + 1, ts => some ([], ts)
/-- after `the` -/
def pThe (env : Env) : Nat → List Tok → Option (Expr × List Tok)
  | 0, _ => none
  | f + 1, .id p :: r =>
    let tp := Tok.id p
    -- the number of <units> of s / menuItems of menu m / castMembers / menus
    let numberForm : Option (Expr × List Tok) :=
      if tp.kw "number" then
        match r with
        | o :: .id u :: r1 =>
          if o.kw "of" then
            match chunkOfPlural u with
            | some k =>
              match r1 with
              | o2 :: r2 =>
                if o2.kw "of" || o2.kw "in" then
                  match pE5 env f r2 with
                  | some (e, r3) => some (.the .numChunks k.rank [e], r3)
                  | none => none
                else none
              | [] => none
            | none =>
              if (Tok.id u).kw "menuitems" then
                match r1 with
                | o2 :: m :: r2 =>
                  if o2.kw "of" && m.kw "menu" then
                    match pE5 env f r2 with
                    | some (e, r3) => some (.the .menu 2 [e], r3)
                    | none => none
                  else none
                | _ => none
              else if (Tok.id u).kw "castmembers" then some (.the .count 2 [], r1)
              else if (Tok.id u).kw "menus" then some (.the .count 3 [], r1)
              else none
          else none
        | _ => none
      else none
    match numberForm with
    | some x => some x
    | none =>
    if tp.kw "last" then
      match r with
      | .id u :: o :: r1 =>
        match chunkOfSingular u with
        | some k =>
          if o.kw "of" || o.kw "in" then
            match pE5 env f r1 with
            | some (e, r2) => some (.the .special (11 + k.rank) [e], r2)
            | none => none
          else none
        | none => none
      | _ => none
    else
    match (match r with | .id u :: r1 => (dateIdx p u).map fun k => (k, r1) | _ => none) with
    | some (k, r1) => some (.the .special k [], r1)
    | none =>
    if isObjectless p then some (theSimple p, r) else
    match r with
    | o :: r1 =>
      if o.kw "of" then
        match r1 with
        | obj :: r2 =>
          if obj.kw "sprite" then
            match pE5 env f r2 with
            | some (e, r3) =>
              -- `the P of sprite a intersects b`: the object is the intersection test, not sprite a
              let isTest := match r3 with | t3 :: _ => t3.kw "intersects" || t3.kw "within" | [] => false
              if isTest && (tblLookupName tblSprite p).isNone then
                match pE5 env f r1 with
                | some (e', r3') => some (.oprop p e', r3')
                | none => none
              else
              match tblLookupName tblSprite p with
              | some k => some (.the .sprite k [e], r3)
              | none => some (.oprop p (.call "sprite".toList [e]), r3)
            | none => none
          else if obj.kw "cast" then
            match pE5 env f r2 with
            | some (e, r3) =>
              match tblLookupName tblCast p with
              | some k => some (.the .cast k [e], r3)
              | none =>
                match tblLookupName tblVideo p with
                | some k => some (.the .video k [e], r3)
                | none => some (.oprop p (.call "cast".toList [e]), r3)
            | none => none
          else if obj.kw "field" then
            match pE5 env f r2 with
            | some (e, r3) =>
              match tblLookupName tblCast p with
              | some k => some (.the .field k [e], r3)
              | none => some (.oprop p (.field e), r3)
            | none => none
          else if obj.kw "sound" then
            match pE5 env f r2 with
            | some (e, r3) =>
              match tblLookupName tblSound p with
              | some k => some (.the .sound k [e], r3)
              | none => some (.oprop p (.call "sound".toList [e]), r3)
            | none => none
          else if obj.kw "menuitem" then
            match pE5 env f r2 with
            | some (i, o2 :: m :: r3) =>
              if o2.kw "of" && m.kw "menu" then
                match pE5 env f r3 with
                | some (mm, r4) =>
                  match tblLookupName tblMenuItem p with
                  | some k => some (.the .menuItem k [i, mm], r4)
                  | none => none
                | none => none
              else none
            | _ => none
          else if obj.kw "menu" then
            match pE5 env f r2 with
            | some (e, r3) => if tp.kw "name" then some (.the .menu 1 [e], r3) else none
            | none => none
          else
            match pE5 env f r1 with
            | some (e, r3) => some (.oprop p e, r3)
            | none => none
        | [] => none
      else some (theSimple p, r)
    | [] => some (theSimple p, [])
  | _ + 1, _ => none
/-- after `char` / `word` / `item` / `line` -/
def pChunk (env : Env) : Nat → ChunkKind → List Tok → Option (Expr × List Tok)
  | 0, _, _ => none
  | f + 1, k, r =>
    match pLevel env f 1 r with
    | some (a, t :: r1) =>
      if t.kw "to" then
        match pLevel env f 1 r1 with
        | some (b, o :: r2) =>
          if o.kw "of" then
            match pE5 env f r2 with
            | some (d, r3) => some (.chunk k a b d, r3)
            | none => none
          else none
        | _ => none
      else if t.kw "of" then
        match pE5 env f r1 with
        | some (d, r2) => some (.chunk k a (.int 0) d, r2)
        | none => none
      else none
    | _ => none
end

def pExpr (env : Env) (fuel : Nat) (ts : List Tok) : Option (Expr × List Tok) := pLevel env fuel 1 ts

/-- assignment target: an operand-level expression, identifiers read as variables -/
def pLvalue (env : Env) (fuel : Nat) : List Tok → Option (Expr × List Tok)
  | .id s :: r =>
    let t := Tok.id s
    if t.kw "the" || t.kw "field" || (chunkOfSingular s).isSome then pE5 env fuel (.id s :: r)
    else some (env.resolveVar s, r)
  | _ => none

/-! ### statements -/

def skipNl : List Tok → List Tok
  | .nl :: r => skipNl r
  | ts => ts

def skipLine : List Tok → List Tok
  | [] => []
  | .nl :: r => r
  | _ :: r => skipLine r

/-- end of statement: a newline (or end of input) -/
def eos : List Tok → Option (List Tok)
  | [] => some []
  | .nl :: r => some r
  | _ => none

def goWord (s : Name) : Bool :=
  let l := lowerName s
  l = "loop".toList || l = "next".toList || l = "previous".toList

mutual
def pStmts (env : Env) : Nat → List Tok → Option (List Stmt × List Tok)
  | 0, _ => none
  | _ + 1, [] => some ([], [])
  | f + 1, t :: r =>
    if t = .nl then pStmts env f r
    else if t.kw "end" || t.kw "else" then some ([], t :: r)
    else if t.kw "global" || t.kw "instance" || t.kw "property" then pStmts env f (skipLine r)
    else
      match pStmt env f (t :: r) with
      | some (s, r1) =>
        match pStmts env f r1 with
        | some (ss, r2) => some (s :: ss, r2)
        | none => none
      | none => none
def pStmt (env : Env) : Nat → List Tok → Option (Stmt × List Tok)
  | 0, _ => none
  | _ + 1, [] => none
  | f + 1, t :: r =>
    let fe := 32 * (r.length + 2)   -- fuel for one expression (30 per token suffices: DrxProofs.SpecLingo.fuel_bound)
    if t.kw "set" then
      match pLvalue env fe r with
      | some (lv, o :: r1) =>
        if o = .p .eq || o.kw "to" then
          match pExpr env fe r1 with
          | some (v, r2) => (eos r2).map fun r3 => (.set lv v, r3)
          | none => none
        else none
      | _ => none
    else if t.kw "put" && (eos r).isSome then (eos r).map fun r1 => (.call "put".toList [], r1)
    else if t.kw "put" then
      match pExpr env fe r with
      | some (v, []) => some (.call "put".toList [v], [])
      | some (v, m :: r1) =>
        let mode : Option PutMode := if m.kw "into" then some .into else if m.kw "after" then some .after else if m.kw "before" then some .before else none
        match mode with
        | some md =>
          match pLvalue env fe r1 with
          | some (lv, r2) =>
            (eos r2).map fun r3 =>
              match md, lv with
              | .into, .var k n => (.set (.var k n) v, r3)
              | .into, .me => (.set .me v, r3)
              | _, _ => (.put md v lv, r3)
          | none => none
        | none =>
          match pMore env fe (m :: r1) with
          | some (es, r2) => (eos r2).map fun r3 => (.call "put".toList (v :: es), r3)
          | none => none
      | none => none
    else if t.kw "if" then
      match pExpr env fe r with
      | some (c, th :: r1) =>
        if th.kw "then" then
          match eos r1 with
          | some r2 =>
            match pStmts env f r2 with
            | some (tb, e1 :: r3) =>
              if e1.kw "else" then
                match pStmts env f (skipNl r3) with
                | some (eb, e2 :: i2 :: r4) =>
                  if e2.kw "end" && i2.kw "if" then (eos r4).map fun r5 => (.ifThen c tb eb, r5) else none
                | _ => none
              else if e1.kw "end" then
                match r3 with
                | i2 :: r4 => if i2.kw "if" then (eos r4).map fun r5 => (.ifThen c tb [], r5) else none
                | [] => none
              else none
            | _ => none
          | none => none
        else none
      | _ => none
    else if t.kw "repeat" then
      match r with
      | w :: r1 =>
        if w.kw "while" then
          match pExpr env fe r1 with
          | some (c, r2) =>
            match eos r2 with
            | some r3 =>
              match pStmts env f r3 with
              | some (body, e1 :: e2 :: r4) =>
                if e1.kw "end" && e2.kw "repeat" then (eos r4).map fun r5 => (.repeatWhile c body, r5) else none
              | _ => none
            | none => none
          | none => none
        else if w.kw "with" then
          match r1 with
          | .id v :: o :: r2 =>
            if o = .p .eq then
              match pExpr env fe r2 with
              | some (a, d :: r3) =>
                let dir : Option (Bool × List Tok) :=
                  if d.kw "to" then some (false, r3)
                  else if d.kw "down" then (match r3 with | d2 :: r3' => if d2.kw "to" then some (true, r3') else none | [] => none)
                  else none
                match dir with
                | some (down, r4) =>
                  match pExpr env fe r4 with
                  | some (b, r5) =>
                    match eos r5 with
                    | some r6 =>
                      match pStmts env f r6 with
                      | some (body, e1 :: e2 :: r7) =>
                        if e1.kw "end" && e2.kw "repeat" then (eos r7).map fun r8 => (.repeatWith (env.resolveVar v) a b down body, r8) else none
                      | _ => none
                    | none => none
                  | none => none
                | none => none
              | _ => none
            else if o.kw "in" then
              match pExpr env fe r2 with
              | some (l, r3) =>
                match eos r3 with
                | some r4 =>
                  match pStmts env f r4 with
                  | some (body, e1 :: e2 :: r5) =>
                    if e1.kw "end" && e2.kw "repeat" then (eos r5).map fun r6 => (.repeatIn (env.resolveVar v) l body, r6) else none
                  | _ => none
                | none => none
              | none => none
            else none
          | _ => none
        else none
      | [] => none
    else if t.kw "exit" then
      match r with
      | w :: r1 => if w.kw "repeat" then (eos r1).map fun r2 => (.exitRepeat, r2) else (eos r).map fun r2 => (.exit, r2)
      | [] => some (.exit, [])
    else if t.kw "tell" then
      match pExpr env fe r with
      | some (o, r1) =>
        match eos r1 with
        | some r2 =>
          match pStmts env f r2 with
          | some (body, e1 :: e2 :: r3) =>
            if e1.kw "end" && e2.kw "tell" then (eos r3).map fun r4 => (.tell o body, r4) else none
          | _ => none
        | none => none
      | none => none
    else if t.kw "delete" then
      match pLvalue env fe r with
      | some (tg, r1) => (eos r1).map fun r2 => (.delete tg, r2)
      | none => none
    else if t.kw "hilite" then
      match pLvalue env fe r with
      | some (tg, r1) => (eos r1).map fun r2 => (.hilite tg, r2)
      | none => none
    else
      match t with
      | .id s =>
        if t.kw "sound" then
          match r with
          | .id m :: r1 =>
            match eos r1 with
            | some r2 => some (.call s [.sym m], r2)
            | none =>
              match pArgs env fe r1 with
              | some (as, r2) => (eos r2).map fun r3 => (.call s (.sym m :: as), r3)
              | none => none
          | _ => none
        else if env.isVar s then
          -- factory method call as a command:  obj mMethod [,] args
          match r with
          | .id m :: r1 =>
            match eos r1 with
            | some r2 => some (.mcall (env.resolveVar s) m [], r2)
            | none =>
              let r1' := match r1 with | .p .comma :: x => x | x => x
              match pArgs env fe r1' with
              | some (as, r2) => (eos r2).map fun r3 => (.mcall (env.resolveVar s) m as, r3)
              | none => none
          | _ => none
        else
          match eos r with
          | some r1 => some (.call s [], r1)
          | none =>
            -- `go loop` / `go next` / `go previous`: the word is a symbol
            let goForm : Option (Stmt × List Tok) :=
              if t.kw "go" then
                match r with
                | .id w :: r1 => if goWord w then (eos r1).map fun r2 => (.call s [.sym w], r2) else none
                | _ => none
              else none
            match goForm with
            | some x => some x
            | none =>
              -- `f(a, b)` with the whole argument list parenthesised, else `f a, b`
              let parenForm : Option (Stmt × List Tok) :=
                match r with
                | .p .lp :: .p .rp :: r1 => (eos r1).map fun r2 => (.call s [], r2)
                | .p .lp :: r1 =>
                  match pArgs env fe r1 with
                  | some (as, .p .rp :: r2) => (eos r2).map fun r3 => (.call s as, r3)
                  | _ => none
                | _ => none
              match parenForm with
              | some x => some x
              | none =>
                match pArgs env fe r with
                | some (as, r1) => (eos r1).map fun r2 => (.call s as, r2)
                | none => none
      | _ => none
end

/-! ### handlers and scripts -/

/-- comma separated identifiers up to the end of the line -/
def pNames : List Tok → Option (List Name × List Tok)
  | .id s :: .p .comma :: r =>
    match pNames r with
    | some (ns, r') => some (s :: ns, r')
    | none => none
  | .id s :: r => (eos r).map fun r' => ([s], r')
  | [] => some ([], [])
  | .nl :: r => some ([], r)
  | _ => none

def isHandlerStart (t : Tok) : Bool := t.kw "on" || t.kw "method"

/-- tokens of the current handler: up to the next line that starts with `on` / `method` -/
def handlerSpan : List Tok → List Tok
  | [] => []
  | .nl :: t :: r => if isHandlerStart t then [] else .nl :: handlerSpan (t :: r)
  | t :: r => t :: handlerSpan r

/-- names declared on lines starting with keyword `k` -/
def declared (k : String) : List Tok → List Name
  | [] => []
  | .nl :: t :: r =>
    if t.kw k then
      match pNames r with
      | some (ns, _) => ns ++ declared k r
      | none => declared k r
    else declared k (t :: r)
  | _ :: r => declared k r

/-- identifiers in assignment positions: `set X`, `repeat with X`, `into|after|before X` -/
def assignedNames : List Tok → List Name
  | [] => []
  | t :: .id x :: r =>
    if t.kw "set" || t.kw "with" || t.kw "into" || t.kw "after" || t.kw "before" then x :: assignedNames r
    else assignedNames (.id x :: r)
  | _ :: r => assignedNames r

def handlerNames : List Tok → List Name
  | [] => []
  | .nl :: t :: .id n :: r => if isHandlerStart t then n :: handlerNames r else handlerNames (t :: .id n :: r)
  | _ :: r => handlerNames r

structure ScriptEnv where
  props : List Name
  globals : List Name
  handlers : List Name

def pHandler (se : ScriptEnv) (fuel : Nat) : List Tok → Option (Handler × List Tok)
  | t :: .id name :: r =>
    if isHandlerStart t then
      match pNames r with
      | some (params, body) =>
        let span := .nl :: handlerSpan body
        let env : Env := { params, globals := se.globals ++ declared "global" span, props := se.props, handlers := se.handlers,
                           assigned := assignedNames span, isMethod := t.kw "method" }
        match pStmts env fuel body with
        | some (ss, e :: r1) =>
          if e.kw "end" then
            -- `end` or `end name`
            let r2 := match r1 with | .id _ :: x => x | x => x
            (eos r2).map fun r3 => ({ name, params, isMethod := t.kw "method", body := ss }, r3)
          else none
        | _ => none
      | none => none
    else none
  | _ => none

def pHandlers (se : ScriptEnv) : Nat → List Tok → Option (List Handler)
  | 0, _ => none
  | f + 1, ts =>
    match skipNl ts with
    | [] => some []
    | ts' =>
      match pHandler se f ts' with
      | some (h, r) =>
        match pHandlers se f r with
        | some hs => some (h :: hs)
        | none => none
      | none => none

/-- header lines: `property a, b` / `global a` / `factory name` -/
def pHeader : Nat → List Tok → Script → Option (Script × List Tok)
  | 0, _, _ => none
  | f + 1, ts, s =>
    match skipNl ts with
    | t :: r =>
      if t.kw "property" then
        match pNames r with
        | some (ns, r') => pHeader f r' { s with props := s.props ++ ns }
        | none => none
      else if t.kw "global" then
        match pNames r with
        | some (ns, r') => pHeader f r' { s with globals := s.globals ++ ns }
        | none => none
      else if t.kw "factory" then
        match r with
        | .id n :: r' => (eos r').bind fun r'' => pHeader f r'' { s with factory := n }
        | _ => none
      else some (s, t :: r)
    | [] => some (s, [])

def parseScript (ts : List Tok) : Option Script :=
  let fuel := 4 * ts.length + 16
  match pHeader fuel ts { factory := [], props := [], globals := [], handlers := [] } with
  | some (s, r) =>
    -- `instance` variables declared in any method belong to the whole factory
    let props := s.props ++ declared "instance" (.nl :: r)
    let se : ScriptEnv := { props, globals := s.globals, handlers := handlerNames (.nl :: r) }
    match pHandlers se fuel r with
    | some hs => some { s with handlers := hs, props }
    | none => none
  | none => none

def readLingo (text : List Char) : Option Script := (lex text).bind parseScript

end Drx.Spec
