/-
  Model of drxtract/fmap/fmap.py parse_fmap_data (property C16).
  Text decoding is a parameter `dec` (the driver passes `decodeText codec` = `bytes.decode(get_encoding())`).
-/
import Drx.Py
import Drx.PyI
import Drx.Json
namespace Drx.Fmap
open Drx

abbrev Text := List Char
abbrev Dec := Bytes → R Text

/-- `FontInfo(name, font_id)` -/
structure FontInfo where
  name : Text
  id : Int
  deriving Repr, DecidableEq, Inhabited

/-- the `for i in range(nfonts_cap)` loop over the 8-byte metadata records: (displacement, font_id) -/
def metaLoop (hd : Bytes) : Nat → Nat → R (List (Int × Int))
  | 0, _ => .ok []
  | n+1, idx => do
    let displacement ← getS .be 4 hd idx
    let _unknown00 ← getS .be 2 hd (idx + 4)
    let fontId ← getS .be 2 hd (idx + 6)
    let rest ← metaLoop hd n (idx + 8)
    .ok ((displacement, fontId) :: rest)

/-- the `for i in range(nfonts)` loop: `metadata[i]` (IndexError when the capacity is smaller), name length and
    name at the (signed) displacement inside the name area; `namesSize` accumulates the bytes of the names read so far and
    must not exceed the name area (fix F52: overlapping names are rejected) -/
def fontLoop (dec : Dec) (bd : Bytes) : Nat → List (Int × Int) → Nat → R (List FontInfo)
  | 0, _, _ => .ok []
  | _+1, [], _ => .error .index
  | n+1, (disp, fontId) :: ms, namesSize => do
    let nchars ← getSI .be 4 bd disp
    let nameData := pySlice bd (disp + 4) (disp + 4 + nchars)
    if namesSize + nameData.length > bd.length then .error .value else
    let name ← dec nameData
    let rest ← fontLoop dec bd n ms (namesSize + nameData.length)
    .ok (⟨name, fontId⟩ :: rest)

/-- fmap.parse_fmap_data -/
def parseFmap (dec : Dec) (d : Bytes) : R (List FontInfo) := do
  let headerSize ← getS .be 4 d 0
  let additionalSize ← getS .be 4 d 4
  if 8 + headerSize + additionalSize ≠ (d.length : Int) then .error .value else
  let hd := pySlice d 8 (8 + headerSize)
  let bd := pySlice d (8 + headerSize) (8 + headerSize + additionalSize)
  let _u1 ← getS .be 2 hd 0
  let _u2 ← getS .be 2 hd 2
  let _u3 ← getS .be 2 hd 4
  let _u4 ← getS .be 2 hd 6
  let nfonts ← getS .be 4 hd 8
  let nfontsCap ← getS .be 4 hd 12
  let _u5 ← getS .be 2 hd 16
  let _metaSize ← getS .be 2 hd 18
  let _u6 ← getS .be 2 hd 20
  let _u7 ← getS .be 2 hd 22
  let _u8 ← getS .be 2 hd 24
  let _u9 ← getS .be 2 hd 26
  let metadata ← metaLoop hd nfontsCap.toNat 28
  fontLoop dec bd nfonts.toNat metadata 0

def FontInfo.toJ (f : FontInfo) : J := .obj [("name", .str f.name), ("id", .int f.id)]

end Drx.Fmap
