/-
  Python semantics used by all models: byte strings, CPython slicing,
  `struct.unpack` of fixed-width integers, integer encoders, error kinds.
  No imports beyond core, so that the driver links natively.
-/
namespace Drx

abbrev Bytes := List UInt8

/-- One constructor per *kind* of Python exception the properties distinguish. -/
inductive Err where
  | struct | index | key | value | type | notImpl | overflow | unicode | recursion | other
  deriving Repr, DecidableEq, BEq, Inhabited

abbrev R := Except Err

instance : Inhabited (R α) := ⟨.error .other⟩

inductive Order where
  | be | le
  deriving Repr, DecidableEq, BEq, Inhabited

/-- CPython `l[a:b]` for arbitrary integer bounds (negative = from the end, clamped). -/
def pySlice (l : List α) (a b : Int) : List α :=
  let n : Int := l.length
  let a' : Int := if a < 0 then max (a + n) 0 else min a n
  let b' : Int := if b < 0 then max (b + n) 0 else min b n
  (l.drop a'.toNat).take (b'.toNat - a'.toNat)

/-- `l[a:b]` for non-negative bounds. -/
def slice (l : List α) (a b : Nat) : List α := (l.drop a).take (b - a)

theorem pySlice_nat (l : List α) (a b : Nat) : pySlice l (a : Int) (b : Int) = slice l a b := by
  unfold pySlice slice
  have ha : ¬ ((a : Int) < 0) := by omega
  have hb : ¬ ((b : Int) < 0) := by omega
  simp only [ha, hb, if_false]
  by_cases h1 : a ≤ l.length <;> by_cases h2 : b ≤ l.length
  · have e1 : min (a : Int) (l.length : Int) = a := by omega
    have e2 : min (b : Int) (l.length : Int) = b := by omega
    simp [e1, e2]
  · have e1 : min (a : Int) (l.length : Int) = a := by omega
    have e2 : min (b : Int) (l.length : Int) = l.length := by omega
    simp only [e1, e2, Int.toNat_natCast]
    rw [List.take_of_length_le (by simp only [List.length_drop]; omega), List.take_of_length_le (by simp only [List.length_drop]; omega)]
  · have e1 : min (a : Int) (l.length : Int) = l.length := by omega
    have e2 : min (b : Int) (l.length : Int) = b := by omega
    simp only [e1, e2, Int.toNat_natCast]
    rw [List.drop_of_length_le (by omega), List.drop_of_length_le (by omega)]; simp
  · have e1 : min (a : Int) (l.length : Int) = l.length := by omega
    have e2 : min (b : Int) (l.length : Int) = l.length := by omega
    simp only [e1, e2, Int.toNat_natCast]
    rw [List.drop_of_length_le (by omega), List.drop_of_length_le (by omega)]; simp

/-- big-endian value of a byte string -/
def beNat (l : Bytes) : Nat := l.foldl (fun acc b => acc * 256 + b.toNat) 0

def leNat (l : Bytes) : Nat := beNat l.reverse

def ordNat (o : Order) (l : Bytes) : Nat := match o with | .be => beNat l | .le => leNat l

/-- two's complement reading of an unsigned `bits`-bit value -/
def toSigned (bits : Nat) (n : Nat) : Int :=
  if n < 2 ^ (bits - 1) then (n : Int) else (n : Int) - (2 ^ bits : Nat)

/-- the unsigned `bits`-bit pattern of a signed value -/
def ofSigned (bits : Nat) (i : Int) : Nat := (i % ((2 ^ bits : Nat) : Int)).toNat

/-- `struct.unpack(order + fmt, s)[0]` for one unsigned field of `k` bytes: fails unless `len s = k`. -/
def unpackU (o : Order) (k : Nat) (s : Bytes) : R Nat :=
  if s.length = k then .ok (ordNat o s) else .error .struct

def unpackS (o : Order) (k : Nat) (s : Bytes) : R Int :=
  if s.length = k then .ok (toSigned (8 * k) (ordNat o s)) else .error .struct

/-- big-endian encoding of `n mod 256^k` in `k` bytes -/
def encBE : Nat → Nat → Bytes
  | 0, _ => []
  | k+1, n => encBE k (n / 256) ++ [UInt8.ofNat (n % 256)]

def encOrd (o : Order) (k n : Nat) : Bytes := match o with | .be => encBE k n | .le => (encBE k n).reverse

def encS (o : Order) (k : Nat) (i : Int) : Bytes := encOrd o k (ofSigned (8 * k) i)

/-- field readers at a non-negative offset (`d[off:off+k]`) -/
def getU (o : Order) (k : Nat) (d : Bytes) (off : Nat) : R Nat := unpackU o k (slice d off (off + k))
def getS (o : Order) (k : Nat) (d : Bytes) (off : Nat) : R Int := unpackS o k (slice d off (off + k))

/-- `d[i]` (IndexError when out of range); non-negative index -/
def byteAt (d : Bytes) (i : Nat) : R UInt8 := match d[i]? with | some b => .ok b | none => .error .index

/-! ### hex -/

def hexDigit (n : Nat) : Char := if n < 10 then Char.ofNat (48 + n) else Char.ofNat (87 + n)

def hexOfBytes (l : Bytes) : String :=
  String.ofList (l.flatMap fun b => [hexDigit (b.toNat / 16), hexDigit (b.toNat % 16)])

def hexVal (c : Char) : Option Nat :=
  if '0' ≤ c ∧ c ≤ '9' then some (c.toNat - 48)
  else if 'a' ≤ c ∧ c ≤ 'f' then some (c.toNat - 87)
  else if 'A' ≤ c ∧ c ≤ 'F' then some (c.toNat - 55)
  else none

def bytesOfHexAux : List Char → Bytes → Option Bytes
  | [], acc => some acc.reverse
  | [_], _ => none
  | a :: b :: rest, acc =>
    match hexVal a, hexVal b with
    | some x, some y => bytesOfHexAux rest (UInt8.ofNat (x * 16 + y) :: acc)
    | _, _ => none

/-- "-" denotes the empty byte string (so that every argument is a non-empty token) -/
def bytesOfHex (s : String) : Option Bytes :=
  if s = "-" then some [] else bytesOfHexAux s.toList []

end Drx
