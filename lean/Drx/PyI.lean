/-
  Python semantics used by the index/text models where a *signed* value read from the input becomes an
  offset: `d[i:i+k]` and `d[i]` for arbitrary integers `i` (negative = from the end).
  (helpers next to Drx/Py.lean; owned by the idx/text families — "core request": could move into Py.lean)
-/
import Drx.Py
namespace Drx

/-- `struct.unpack(o+fmt, d[off:off+k])[0]` for any integer `off` (signed field) -/
def getSI (o : Order) (k : Nat) (d : Bytes) (off : Int) : R Int := unpackS o k (pySlice d off (off + (k : Int)))

/-- same, unsigned field -/
def getUI (o : Order) (k : Nat) (d : Bytes) (off : Int) : R Nat := unpackU o k (pySlice d off (off + (k : Int)))

/-- `d[i]` for any integer `i`: negative counts from the end, IndexError outside `-len .. len-1` -/
def byteAtI (d : Bytes) (i : Int) : R UInt8 :=
  let j : Int := if i < 0 then i + (d.length : Int) else i
  if j < 0 then .error .index else byteAt d j.toNat

theorem getSI_nat (o : Order) (k : Nat) (d : Bytes) (off : Nat) : getSI o k d (off : Int) = getS o k d off := by
  unfold getSI getS
  have : ((off : Int) + (k : Int)) = ((off + k : Nat) : Int) := by omega
  rw [this, pySlice_nat]

theorem getUI_nat (o : Order) (k : Nat) (d : Bytes) (off : Nat) : getUI o k d (off : Int) = getU o k d off := by
  unfold getUI getU
  have : ((off : Int) + (k : Int)) = ((off + k : Nat) : Int) := by omega
  rw [this, pySlice_nat]

theorem byteAtI_nat (d : Bytes) (i : Nat) : byteAtI d (i : Int) = byteAt d i := by
  unfold byteAtI
  have h : ¬ ((i : Int) < 0) := by omega
  simp [h]

/-- value ranges of the signed 32/16-bit fields (hypotheses of the round-trip theorems) -/
def s32 (i : Int) : Prop := -2147483648 ≤ i ∧ i < 2147483648
def s16 (i : Int) : Prop := -32768 ≤ i ∧ i < 32768
instance (i : Int) : Decidable (s32 i) := by unfold s32; infer_instance
instance (i : Int) : Decidable (s16 i) := by unfold s16; infer_instance

/-- `'%02X' % n` for a byte -/
def hex2U (n : Nat) : List Char :=
  let dg (x : Nat) : Char := if x < 10 then Char.ofNat (48 + x) else Char.ofNat (55 + x)
  [dg (n / 16 % 16), dg (n % 16)]

/-- `'%d' % i` / `str(i)` -/
def intStr (i : Int) : List Char := (toString i).toList

end Drx
