/-
  Specification vocabulary of C09: what it means for a list of spans to be a lossless run-length view of a column of
  per-frame cells.  Frames are numbered from 1 in the output; cell `k` (0-based) of a column belongs to frame `k+1`.
-/
import Drx.Score
namespace Drx.Score.Spec
open Drx Drx.Vwsc Drx.Score

/-- an abstract span: frames `start..stop` (1-based, inclusive) carrying `key` -/
structure Run (κ : Type) where
  start : Nat
  stop : Nat
  key : κ
  deriving Repr, DecidableEq

/-- does the span contain frame `f`? -/
def Run.covers (r : Run κ) (f : Nat) : Bool := decide (r.start ≤ f) && decide (f ≤ r.stop)

/-- the builder both loops of `vwsc_to_score` implement: a cell carrying `k` at frame index `i` (0-based) extends the last span
    if that span ended on the previous frame (`stop == i`) and carries the same key, otherwise opens a new span -/
def stepRun [DecidableEq κ] (i : Nat) (rs : List (Run κ)) : Option κ → List (Run κ)
  | none => rs
  | some k =>
    match rs.getLast? with
    | some p => if p.stop = i ∧ p.key = k then rs.dropLast ++ [{ p with stop := i + 1 }] else rs ++ [⟨i + 1, i + 1, k⟩]
    | none => rs ++ [⟨i + 1, i + 1, k⟩]

def foldRuns [DecidableEq κ] : Nat → List (Option κ) → List (Run κ) → List (Run κ)
  | _, [], rs => rs
  | i, c :: cs, rs => foldRuns (i + 1) cs (stepRun i rs c)

/-- consecutive spans are never both adjacent and equal in key (they would have been one span) -/
def MaxAsc : List (Run κ) → Prop
  | [] => True
  | [_] => True
  | a :: b :: rest => (a.stop + 1 = b.start → a.key ≠ b.key) ∧ MaxAsc (b :: rest)

/-- **the property, for one column**: `rs` is the lossless, ordered, disjoint, maximal run-length view of `col` -/
structure IsRunView (col : List (Option κ)) (rs : List (Run κ)) : Prop where
  /-- spans are ordered and disjoint -/
  ordered : rs.Pairwise (fun a b => a.stop < b.start)
  /-- every span is a non-empty range of frames of the table -/
  bounds : ∀ r ∈ rs, 1 ≤ r.start ∧ r.start ≤ r.stop ∧ r.stop ≤ col.length
  /-- a cell carrying `k` is covered by exactly one span, whose key is `k`; an empty cell is covered by no span -/
  cover : ∀ k c, col[k]? = some c → (rs.filter (·.covers (k + 1))).map (·.key) = c.toList
  /-- spans are maximal -/
  maximal : MaxAsc rs

/-! ### the two instances -/

/-- the 12 compared attributes of a sprite cell / span -/
structure Attrs where
  castId : Int
  backColor : Int
  foreColor : Int
  width : Int
  height : Int
  ink : Int
  type : Int
  locH : Int
  locV : Int
  editable : Bool
  moveable : Bool
  trails : Int
  deriving Repr, DecidableEq

def spriteAttrs (s : Sprite) : Attrs :=
  ⟨s.castId, s.backgroundColor, s.foregroundColor, s.width, s.height, s.inkType, s.spriteType, s.x, s.y, s.editable, s.moveable, s.trails⟩

def spanAttrs (s : Span) : Attrs :=
  ⟨s.castId, s.backColor, s.foreColor, s.width, s.height, s.ink, s.type, s.locH, s.locV, s.editable, s.moveable, s.trails⟩

def spanRun (s : Span) : Run Attrs := ⟨s.startFrame, s.endFrame, spanAttrs s⟩
def sndRun (s : Snd) : Run Int := ⟨s.startFrame, s.endFrame, s.castId⟩

/-- the derived rectangle is consistent with position and size; `locZ` is the 1-based channel -/
def RectOk (j : Nat) (s : Span) : Prop :=
  s.right - s.left = s.width ∧ s.bottom - s.top = s.height ∧ s.left = s.locH - s.width / 2 ∧ s.top = s.locV - s.height / 2 ∧ s.locZ = j + 1

/-- column `j` of a frame table -/
def column (frames : List Frame) (j : Nat) : List (Option Sprite) := frames.map fun f => (f.score[j]?).join

/-- what a frame carries in its two sound channels (a value ≤ 0, or an empty main dict, carries nothing) -/
def sound1Of (f : Frame) : Option Int := f.main.bind fun m => if m.sound1 > 0 then some m.sound1 else none
def sound2Of (f : Frame) : Option Int := f.main.bind fun m => if m.sound2 > 0 then some m.sound2 else none

/-- the four point-event lists, straight from the table -/
def tempoOf (i : Nat) (f : Frame) : Option (Nat × Int) := f.main.bind fun m => if m.fps > 0 then some (i + 1, m.fps) else none
def scriptOf (i : Nat) (f : Frame) : Option (Nat × Int) := f.main.bind fun m => if m.script > 0 then some (i + 1, m.script) else none
def paletteOf (i : Nat) (f : Frame) : Option (Nat × Int) := f.palette.map fun p => (i + 1, p.paletteId)
def transitionOf (i : Nat) (f : Frame) : Option TransEv :=
  f.main.bind fun m => match m.ext with
    | .d4 tid chunk dur => if tid ≠ [] then some ⟨i + 1, tid, chunk, dur⟩ else none
    | .d5 _ => none

/-- events of frames `i, i+1, …` in frame order -/
def eventsFrom (g : Nat → Frame → Option α) : Nat → List Frame → List α
  | _, [] => []
  | i, f :: fs => (g i f).toList ++ eventsFrom g (i + 1) fs

/-- all frames have (at least) the channel count of the first: what `parse_vwsc_data` produces -/
def Rectangular (frames : List Frame) : Prop :=
  ∀ f ∈ frames, f.score.length = (match frames with | [] => 0 | f0 :: _ => f0.score.length)

/-- number of channels `vwsc_to_score` works with: the cell count of the first frame -/
def channelsOf : List Frame → Nat
  | [] => 0
  | f :: _ => f.score.length

instance (frames : List Frame) : Decidable (Rectangular frames) := by unfold Rectangular; infer_instance

end Drx.Score.Spec
