/-
  Driver-only fast twin of the bitmap decoders (Drx/Bitd.lean): the same functions over `Array UInt8`
  (constant-time `data[p] = v`, input addressed by index instead of by suffix), so that bitmaps of several
  hundred thousand pixels decode in well under a second. NOT used by any theorem; it is compared with the
  list model on every C06 case (`fast_ok` of `bitd c06`, and `bitd decodefast` lines against the real code).
-/
import Drx.Bitd
namespace Drx.Bitd.Fast
open Drx Drx.Bitd

abbrev ABuf := Array UInt8

def azeros (n : Nat) : ABuf := Array.replicate n 0

def setAt (d : ABuf) (p : Nat) (v : UInt8) : R ABuf :=
  if p < d.size then .ok (d.set! p v) else .error .index

def setAtI (d : ABuf) (p : Int) (v : UInt8) : R ABuf :=
  if 0 ≤ p then setAt d p.toNat v
  else if 0 ≤ p + (d.size : Int) then setAt d (p + (d.size : Int)).toNat v
  else .error .index

/-! ### 8 bit -/

def paintRun8 (g : G8) (y : Nat) (v : UInt8) : Nat → ABuf → Nat → R (ABuf × Nat)
  | 0, data, x => .ok (data, x)
  | n+1, data, x =>
    if x ≥ g.w then .ok (data, x) else
    match (if x < g.wImg then setAt data (y * g.stride + x + g.padW) v else .ok data) with
    | .error e => .error e
    | .ok data => paintRun8 g y v n data (x + 1)

/-- returns the number of literal bytes consumed -/
def paintLit8 (g : G8) (y : Nat) (f : ABuf) : Nat → Nat → ABuf → Nat → Nat → R (ABuf × Nat × Nat)
  | 0, _, data, x, k => .ok (data, x, k)
  | n+1, idx, data, x, k =>
    if x ≥ g.w then .ok (data, x, k) else
    match f[idx]? with
    | none => .error .index
    | some v =>
      match (if x < g.wImg then setAt data (y * g.stride + x + g.padW) v else .ok data) with
      | .error e => .error e
      | .ok data => paintLit8 g y f n (idx + 1) data (x + 1) (k + 1)

def loop8 (g : G8) (f : ABuf) (idx : Nat) (data : ABuf) (x y : Nat) : R ABuf :=
  if h : idx < f.size then
    let val := f[idx]
    if val.toNat ≥ 128 then
      if idx + 1 ≥ f.size then .ok data else
      match paintRun8 g y (f[idx + 1]!) (257 - val.toNat) data x with
      | .error e => .error e
      | .ok (data, x) =>
        if x ≥ g.w then (if y = 0 then .ok data else loop8 g f (idx + 2) data 0 (y - 1))
        else loop8 g f (idx + 2) data x y
    else
      if idx + 1 + (val.toNat + 1) > f.size then .ok data else
      match paintLit8 g y f (val.toNat + 1) (idx + 1) data x 0 with
      | .error e => .error e
      | .ok (data, x, k) =>
        if x ≥ g.w then (if y = 0 then .ok data else loop8 g f (idx + 1 + k) data 0 (y - 1))
        else loop8 g f (idx + 1 + k) data x y
  else .ok data
termination_by f.size - idx
decreasing_by all_goals simp_wf; all_goals omega

def compressed8 (f : ABuf) (W H padW padH stride : Nat) : R ABuf :=
  let g := g8 W padW stride
  let data := azeros (g.bw * H)
  if H < 1 + padH then .ok data else loop8 g f 0 data 0 (H - 1 - padH)

def copyRow8 (f : ABuf) : Nat → ABuf → Nat → Nat → R (ABuf × Nat)
  | 0, data, di, _ => .ok (data, di)
  | n+1, data, di, idx =>
    match f[idx]? with
    | none => .error .index
    | some v =>
      match setAt data di v with
      | .error e => .error e
      | .ok data => copyRow8 f n data (di + 1) (idx + 1)

def rawLoop8 (f : ABuf) (w wSize padW tail : Nat) : Nat → ABuf → Nat → R ABuf
  | 0, data, _ => .ok data
  | y+1, data, di =>
    match copyRow8 f w data (di + padW) (y * wSize) with
    | .error e => .error e
    | .ok (data, di) => rawLoop8 f w wSize padW tail y data (di + tail)

def raw8 (f : ABuf) (W H padW padH stride : Nat) (wSize : Int) : R ABuf :=
  let w : Int := (W : Int) - padW
  let tail : Int := (stride : Int) - w - padW
  rawLoop8 f w.toNat wSize.toNat padW tail.toNat (H - padH) (azeros (stride * H)) 0

/-! ### 1 bit -/

def paintBits1 (g : G1) (y : Nat) (v : UInt8) : Nat → Nat → ABuf → Nat → R (ABuf × Nat)
  | 0, _, data, x => .ok (data, x)
  | k+1, j, data, x =>
    if x ≥ g.w then .ok (data, x) else
    match (if x < g.wImg then setAt data (y * g.stride + x + g.padW) (bitOf v j) else .ok data) with
    | .error e => .error e
    | .ok data => paintBits1 g y v k (j + 1) data (x + 1)

def paintRun1 (g : G1) (y : Nat) (v : UInt8) : Nat → ABuf → Nat → R (ABuf × Nat)
  | 0, data, x => .ok (data, x)
  | n+1, data, x =>
    match paintBits1 g y v 8 0 data x with
    | .error e => .error e
    | .ok (data, x) => paintRun1 g y v n data x

def paintLit1 (g : G1) (y : Nat) (f : ABuf) : Nat → Nat → ABuf → Nat → R (ABuf × Nat)
  | 0, _, data, x => .ok (data, x)
  | n+1, idx, data, x =>
    match f[idx]? with
    | none => .error .index
    | some v =>
      match paintBits1 g y v 8 0 data x with
      | .error e => .error e
      | .ok (data, x) => paintLit1 g y f n (idx + 1) data x

def loop1 (g : G1) (f : ABuf) (idx : Nat) (data : ABuf) (x y : Nat) : R ABuf :=
  if h : idx < f.size then
    let val := f[idx]
    if val.toNat ≥ 128 then
      if idx + 1 ≥ f.size then .ok data else
      match paintRun1 g y (f[idx + 1]!) (257 - val.toNat) data x with
      | .error e => .error e
      | .ok (data, x) =>
        if x ≥ g.w then (if y = 0 then .ok data else loop1 g f (idx + 2) data 0 (y - 1))
        else loop1 g f (idx + 2) data x y
    else
      if idx + 1 + (val.toNat + 1) > f.size then .ok data else
      match paintLit1 g y f (val.toNat + 1) (idx + 1) data x with
      | .error e => .error e
      | .ok (data, x) =>
        if x ≥ g.w then (if y = 0 then .ok data else loop1 g f (idx + 1 + (val.toNat + 1)) data 0 (y - 1))
        else loop1 g f (idx + 1 + (val.toNat + 1)) data x y
  else .ok data
termination_by f.size - idx
decreasing_by all_goals simp_wf; all_goals omega

def compressed1 (f : ABuf) (W H padW padH stride : Nat) : R ABuf :=
  let g := g1 W padW stride
  let data := azeros (stride * H)
  if H < 1 + padH then .ok data else loop1 g f 0 data 0 (H - 1 - padH)

def copyBits1 (f : ABuf) : Nat → Nat → ABuf → Nat → Nat → R (ABuf × Nat)
  | 0, _, data, di, _ => .ok (data, di)
  | n+1, j, data, di, idx =>
    match f[idx]? with
    | none => .error .index
    | some v =>
      match setAt data di (bitOf v j) with
      | .error e => .error e
      | .ok data =>
        if j = 7 then copyBits1 f n 0 data (di + 1) (idx + 1)
        else copyBits1 f n (j + 1) data (di + 1) idx

def rawLoop1 (f : ABuf) (w wSize padW tail : Nat) : Nat → ABuf → Nat → R ABuf
  | 0, data, _ => .ok data
  | y+1, data, di =>
    match copyBits1 f w 0 data (di + padW) (y * wSize) with
    | .error e => .error e
    | .ok (data, di) => rawLoop1 f w wSize padW tail y data (di + tail)

def raw1 (f : ABuf) (W H padW padH stride : Nat) (wSize : Int) : R ABuf :=
  let w : Int := (W : Int) - padW
  let tail : Int := (stride : Int) - w - padW
  rawLoop1 f w.toNat wSize.toNat padW tail.toNat (H - padH) (azeros (stride * H)) 0

/-! ### 16 bit -/

def paintRun16 (width : Nat) (y : Int) (v : UInt8) : Nat → ABuf → Nat → R (ABuf × Nat)
  | 0, data, x => .ok (data, x)
  | n+1, data, x =>
    match setAtI data (y * width + x) v with
    | .error e => .error e
    | .ok data => paintRun16 width y v n data (x + 1)

def paintLit16 (width : Nat) (f : ABuf) : Nat → Nat → ABuf → Nat → Int → R (ABuf × Nat × Int)
  | 0, _, data, x, y => .ok (data, x, y)
  | n+1, idx, data, x, y =>
    match f[idx]? with
    | none => .error .index
    | some v =>
      match setAtI data (y * width + x) v with
      | .error e => .error e
      | .ok data =>
        if x + 1 ≥ width then paintLit16 width f n (idx + 1) data 0 (y - 1)
        else paintLit16 width f n (idx + 1) data (x + 1) y

def loop16 (width : Nat) (f : ABuf) (idx : Nat) (data : ABuf) (x : Nat) (y : Int) : R ABuf :=
  if y < 0 then .ok data else
  if h : idx < f.size then
    let val := f[idx]
    if val.toNat ≥ 128 then
      match f[idx + 1]? with
      | none => .error .index
      | some v =>
        let run := 257 - val.toNat
        let (x, y) := jump16 width run x y
        match paintRun16 width y v run data x with
        | .error e => .error e
        | .ok (data, x) => loop16 width f (idx + 2) data x y
    else
      let run := val.toNat + 1
      let (x, y) := jump16 width run x y
      match paintLit16 width f run (idx + 1) data x y with
      | .error e => .error e
      | .ok (data, x, y) => loop16 width f (idx + 1 + run) data x y
  else .ok data
termination_by f.size - idx
decreasing_by all_goals simp_wf; all_goals omega

def deint16 (data : ABuf) (w h cw ch padW : Nat) : ABuf := Id.run do
  let stride := 2 * cw + (2 * cw) % 4
  let mut out := azeros (stride * ch)
  for y in [0:h] do
    for x in [0:w] do
      out := out.set! (y * stride + 2 * padW + 2 * x) (data[y * (2 * w) + w + x]!)
      out := out.set! (y * stride + 2 * padW + 2 * x + 1) (data[y * (2 * w) + x]!)
  return out

def compressed16 (f : ABuf) (W H padW padH : Nat) : R ABuf :=
  let w := W - padW
  let h := H - padH
  match loop16 (2 * w) f 0 (azeros (2 * w * h)) 0 ((h : Int) - 1) with
  | .error e => .error e
  | .ok data => .ok (deint16 data w h W H padW)

/-! ### 24/32 bit -/

def put24 (width : Nat) (data : ABuf) (x : Nat) (y : Int) (v : UInt8) : R (ABuf × Nat × Int) :=
  match setAtI data (y * width + x) v with
  | .error e => .error e
  | .ok data => if x + 1 ≥ width then .ok (data, 0, y - 1) else .ok (data, x + 1, y)

def paintRun24 (width : Nat) (v : UInt8) : Nat → ABuf → Nat → Int → R (ABuf × Nat × Int)
  | 0, data, x, y => .ok (data, x, y)
  | n+1, data, x, y =>
    match put24 width data x y v with
    | .error e => .error e
    | .ok (data, x, y) => paintRun24 width v n data x y

def paintLit24 (width : Nat) (f : ABuf) : Nat → Nat → ABuf → Nat → Int → R (ABuf × Nat × Int)
  | 0, _, data, x, y => .ok (data, x, y)
  | n+1, idx, data, x, y =>
    match f[idx]? with
    | none => .error .index
    | some v =>
      match put24 width data x y v with
      | .error e => .error e
      | .ok (data, x, y) => paintLit24 width f n (idx + 1) data x y

def loop24 (width : Nat) (f : ABuf) (idx : Nat) (data : ABuf) (x : Nat) (y : Int) : R ABuf :=
  if y < 0 then .ok data else
  if h : idx < f.size then
    let val := f[idx]
    if val.toNat ≥ 128 then
      match f[idx + 1]? with
      | none => .error .index
      | some v =>
        match paintRun24 width v (257 - val.toNat) data x y with
        | .error e => .error e
        | .ok (data, x, y) => loop24 width f (idx + 2) data x y
    else
      match paintLit24 width f (val.toNat + 1) (idx + 1) data x y with
      | .error e => .error e
      | .ok (data, x, y) => loop24 width f (idx + 1 + (val.toNat + 1)) data x y
  else .ok data
termination_by f.size - idx
decreasing_by all_goals simp_wf; all_goals omega

def deint24 (data : ABuf) (w h cw ch padW : Nat) : ABuf := Id.run do
  let stride := 3 * cw + (4 - (3 * cw) % 4) % 4
  let mut out := azeros (stride * ch)
  for y in [0:h] do
    for x in [0:w] do
      out := out.set! (y * stride + 3 * padW + 3 * x) (data[y * (4 * w) + 3 * w + x]!)
      out := out.set! (y * stride + 3 * padW + 3 * x + 1) (data[y * (4 * w) + 2 * w + x]!)
      out := out.set! (y * stride + 3 * padW + 3 * x + 2) (data[y * (4 * w) + w + x]!)
  return out

def compressed24 (f : ABuf) (W H padW padH : Nat) : R ABuf :=
  let w := W - padW
  let h := H - padH
  match loop24 (4 * w) f 0 (azeros (4 * w * h)) 0 ((h : Int) - 1) with
  | .error e => .error e
  | .ok data => .ok (deint24 data w h W H padW)

/-! ### whole decodes: the model's own header/palette writers, then the fast pixel area -/

/-- bytes written by the header and palette writers of a decode on an empty buffer, or their exception -/
def prelude (m : W Unit) : R Bytes := match m [] with | (b, .ok _) => .ok b | (_, .error e) => .error e

def decodeFast (cls : String) (c : Call) : R Bytes :=
  let (H, padH) := fixPad c.height c.padH
  let W := c.width
  let f : ABuf := c.fdata.toArray
  if cls = "Decoder8b" then do
    let hdr ← prelude (do
      writeBmpHeader true ((W * H + 256 * 4 + 40 + 14 : Nat) : Int) ((256 * 4 + 40 + 14 : Nat) : Int)
      writeInfoHeader40 W H 8 256
      writeColorPalette 8 256 c.palette c.clut)
    let w : Int := (W : Int) - c.padW
    let wSize : Int := w + w % 2
    let bmp ← if (c.fdata.length : Int) = wSize * ((H : Int) - padH)
      then raw8 f W H c.padW padH (stride4 W) wSize else compressed8 f W H c.padW padH (stride4 W)
    .ok (hdr ++ bmp.toList)
  else if cls = "Decoder1b" then do
    let hdr ← prelude (do
      writeBmpHeader true ((W * H + 2 * 4 + 40 + 14 : Nat) : Int) ((2 * 4 + 40 + 14 : Nat) : Int)
      writeInfoHeader40 W H 8 2
      writeColorPalette 1 2 c.palette c.clut)
    let w : Int := (W : Int) - c.padW
    let wSize := wSize1 w
    let bmp ← if (c.fdata.length : Int) = wSize * ((H : Int) - padH)
      then raw1 f W H c.padW padH (stride4 W) wSize else compressed1 f W H c.padW padH (stride4 W)
    .ok (hdr ++ bmp.toList)
  else if cls = "Decoder16b" then do
    let hdr ← prelude (do
      writeBmpHeader true ((W * H * 2 + 124 + 14 : Nat) : Int) ((124 + 14 : Nat) : Int)
      writeInfoHeader124 W H 16)
    let wSize : Int := ((W : Int) - c.padW) * 2
    let bmp ← if (c.fdata.length : Int) = wSize * ((H : Int) - padH)
      then (.error .notImpl : R ABuf) else compressed16 f W H c.padW padH
    .ok (hdr ++ bmp.toList)
  else if cls = "Decoder24b" then do
    let hdr ← prelude (do
      writeBmpHeader true ((W * H * 3 + 40 + 14 : Nat) : Int) ((40 + 14 : Nat) : Int)
      writeInfoHeader40 W H 24 0)
    let wSize : Int := ((W : Int) - c.padW) * 4
    let bmp ← if (c.fdata.length : Int) = wSize * ((H : Int) - padH)
      then (.error .notImpl : R ABuf) else compressed24 f W H c.padW padH
    .ok (hdr ++ bmp.toList)
  else (decodeClass cls true c []).2          -- Decoder4b: no pixel loops

/-- the fast counterpart of `bitd2bmpI` -/
def bitd2bmpFast (r : Request) : R Bytes :=
  let c := r.normalise
  match lookupN c.depth Gen.BitdTables.decoders with
  | none => .error .value
  | some cls => decodeFast cls { c with palette := paletteName c }

end Drx.Bitd.Fast
