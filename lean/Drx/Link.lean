/-
  Glue between the SPEC layer (lean/Drx/Spec: source trees, compile scheme, reference printer/reader) and the MODEL of the
  decompiler (lean/Drx/Lscr): definitions only, core Lean only.  The link theorems are in lean/DrxProofs/Link*.lean and
  lean/DrxProps/C02Link.lean (property C02 with the decompiler instantiated by the model).

    binName / unName      enum value the model's AST uses for a source operator (the regenerated opcode table maps the scheme's
                          opcode to exactly this name: theorem `binop_table`)
    Emb e n               the model node `n` is the image of the source expression `e` (positions are free: every node carries
                          the byte address of the opcode that built it, which no generator reads)
    EmbS s n              the same for statements
    execI / runIs         the model's opcode step / loop on DECODED instructions (`Spec.Instr`), the form in which the stack
                          lemma is stated; `stepOpcode` / `opcodeLoop` on the encoded bytes are proved equal to them (L1m)
    mE / mS / mHandler / mText   the text the model prints for a source program (character level, with the decompiler's
                          spacing, indentation and blank lines); `dToks` the token list that text lexes to
-/
import Drx.Lscr
import Drx.Spec.LingoPrint
namespace Drx.Link
open Drx

open Drx.Lscr (S Node PState Str)

/-- `BinaryOperationNames` value of a source operator -/
def binName : Spec.BinOp → Str
  | .mul => S "mul" | .add => S "add" | .sub => S "sub" | .div => S "div" | .mod => S "mod"
  | .concat => S "concat" | .concats => S "concats" | .lt => S "lt" | .le => S "lte" | .ne => S "ne" | .eq => S "eq"
  | .gt => S "gt" | .ge => S "gte" | .and => S "and" | .or => S "or" | .contains => S "contains" | .starts => S "start"
  | .intersects => S "intersects" | .within => S "within"

def unName : Spec.UnOp → Str
  | .neg => S "minus" | .not => S "not"

/-! ### the image of a source tree in the model's AST -/

/-- built-in properties of an indexed object, read by `objProp`: the model's leaf class of the object, the spec's property
    table, the word the object is printed with (`the loop of cast 3` for a video property) -/
def theTbl : Spec.Tbl → Option (Lscr.Leaf × List (Nat × String) × String)
  | .sound => some (.soundChan, Spec.tblSound, "sound")
  | .sprite => some (.sprite, Spec.tblSprite, "sprite")
  | .cast => some (.cast, Spec.tblCast, "cast")
  | .video => some (.cast, Spec.tblVideo, "cast")
  | _ => none

/-- `the number of <chunk>s of e` (5c 01) / `the last <chunk> of e` (5c 00, k = 11 + rank): chunk kind text of a rank -/
def chunkTy (r : Nat) : Option Str := (Spec.ChunkKind.ofRank r).map (·.tag.toList)

/-- the two counting / last-chunk forms: operation name and the rank encoded in `k` -/
def strThe : Spec.Tbl → Nat → Option (Str × Nat)
  | .numChunks, k => some (S "number", k)
  | .special, k => if 12 ≤ k then some (S "last", k - 11) else none
  | _, _ => none

/-- the object index as the model keeps it: the `.name` of the popped node — faithful exactly for literals and variables (F20) -/
def idxName : Spec.Expr → Option Lscr.Name
  | .int k => some (.s (Lscr.natStr k))
  | .str v => some (.s (Lscr.escapeString v))
  | .var _ v => some (.s v)
  | _ => none

/-- `int 0`: the "no `to` part" marker of a chunk expression (the bytecode's own convention) -/
def isZero : Spec.Expr → Bool
  | .int 0 => true
  | _ => false

/-- receiver of an object method call `obj(mSel, a, …)` (opcode 58): a local, a parameter or a global; the model calls the
    function by the receiver's NAME (`findVarName`) -/
def mcallRecv : Spec.Expr → Option Spec.Name
  | .var .loc v => some v
  | .var .param v => some v
  | .var .glob v => some v
  | _ => none

/-- `CallFunction.receiver` of a method call: the node `46 n` pushed for a global receiver (a GlobalVariable, or a LocalVariable
    when the name is not yet known as a global), None for a local / parameter receiver (read by the JavaScript generator only) -/
def RecvNode (o : Spec.Expr) (nm : Spec.Name) (rc : Node) : Prop :=
  match o with
  | .var .glob _ => ∃ pr, rc = .leaf .globalVar (.s nm) pr ∨ rc = .leaf .localVar (.s nm) pr
  | _ => rc = .none

mutual
/-- `Emb e n`: `n` is the node the model builds for `e` (any positions) -/
def Emb : Spec.Expr → Node → Prop
  | .int k, n => ∃ p, n = .leaf .const (.s (Lscr.natStr k)) p
  | .str s, n => ∃ p, n = .leaf .const (.s (Lscr.escapeString s)) p
  | .sym s, n => ∃ p, n = .sym (.s s) p true
  | .var .loc v, n => ∃ p, n = .leaf .localVar (.s v) p
  | .var .param v, n => ∃ p, n = .leaf .paramName (.s v) p
  | .var .glob v, n => ∃ p, n = .leaf .globalVar (.s v) p
  | .var .prop v, n => ∃ p, n = .leaf .definedProp (.s v) p
  | .un op a, n => ∃ p x, n = .unary (unName op) p x ∧ Emb a x
  | .bin op a b, n => ∃ p x y, n = .binary (binName op) p x y ∧ Emb a x ∧ Emb b y
  | .field a, n => ∃ p x, n = .unary (S "field") p x ∧ Emb a x
  | .call f as, n => ∃ p p' wr ops, n = .callFn (.s f) p (.loadList (S "<load_list>") p' ops.reverse) true false wr .none ∧ EmbL as ops
  | .mcall o m as, n => ∃ p p' ps rc ops nm, mcallRecv o = some nm ∧
      n = .callFn (.s nm) p (.loadList (S "<load_list>") p' (ops.reverse ++ [.sym (.s m) ps false])) true false false rc ∧ EmbL as ops ∧ RecvNode o nm rc
  | .list as, n => ∃ p p' ops, n = .toList p (.loadList (S "<load_list>") p' ops.reverse) ∧ EmbL as ops
  | .plist as, n => ∃ p p' ops, n = .toDict p (.loadList (S "<load_list>") p' ops.reverse) ∧ EmbL as ops
  | .key v, n => ∃ p, n = .keyAcc p v
  | .movie v, n => (∃ p, n = .leaf .propName (.s v) p) ∨
      (∃ p q o, n = .propAcc p (.leaf .localVar (.s o) q) v false ∧ Lscr.startsWith o (S "_") = true)
  | .the .sys k [], n => ∃ p q o, n = .propAcc p (.leaf .localVar (.s o) q) (Spec.nameOrUnknown Spec.tblSys k) false ∧
      (Lscr.startsWith o (S "_") = true ∨ o = S "tell_obj")
  | .the .special k [], n => ∃ p, n = .leaf .propName (.s (Spec.nameOrUnknown Spec.tblSpecial k)) p
  | .the t k [e], n => (∃ p q cls tb w nm, theTbl t = some (cls, tb, w) ∧ idxName e = some nm ∧
      n = .propAcc p (.leaf cls nm q) (Spec.nameOrUnknown tb k) false) ∨
      (∃ p x op r ty, strThe t k = some (op, r) ∧ chunkTy r = some ty ∧ n = .unaryStr op p (some ty) x ∧ Emb e x) ∨
      (t = .field ∧ ∃ p q x, n = .propAcc p (.unary (S "field") q x) (Spec.nameOrUnknown Spec.tblCast k) false ∧ Emb e x)
  | .oprop v o, n => ∃ p x, n = .propAcc p x v true ∧ Emb o x
  | .chunk k a b d, n => ∃ p x y z, n = .strOp k.tag.toList p x y z ∧ Emb a x ∧
      ((isZero b = true ∧ y = .none) ∨ (isZero b = false ∧ Emb b y)) ∧ Emb d z
  | _, _ => False
/-- argument lists, in source order (the model stores them in pop order = reversed) -/
def EmbL : List Spec.Expr → List Node → Prop
  | [], ns => ns = []
  | e :: es, ns => ∃ x xs, ns = x :: xs ∧ Emb e x ∧ EmbL es xs
end

mutual
/-- `Emb` with `CallFunction.with_result` determined: it is set exactly for calls of handlers of the same script (opcode 56),
    `hs` = the script's handler names -/
def EmbH (hs : List Spec.Name) : Spec.Expr → Node → Prop
  | .int k, n => ∃ p, n = .leaf .const (.s (Lscr.natStr k)) p
  | .str s, n => ∃ p, n = .leaf .const (.s (Lscr.escapeString s)) p
  | .sym s, n => ∃ p, n = .sym (.s s) p true
  | .var .loc v, n => ∃ p, n = .leaf .localVar (.s v) p
  | .var .param v, n => ∃ p, n = .leaf .paramName (.s v) p
  | .var .glob v, n => ∃ p, n = .leaf .globalVar (.s v) p
  | .var .prop v, n => ∃ p, n = .leaf .definedProp (.s v) p
  | .un op a, n => ∃ p x, n = .unary (unName op) p x ∧ EmbH hs a x
  | .bin op a b, n => ∃ p x y, n = .binary (binName op) p x y ∧ EmbH hs a x ∧ EmbH hs b y
  | .field a, n => ∃ p x, n = .unary (S "field") p x ∧ EmbH hs a x
  | .call f as, n => ∃ p p' ops, n = .callFn (.s f) p (.loadList (S "<load_list>") p' ops.reverse) true false (hs.contains f) .none ∧ EmbLH hs as ops
  | .mcall o m as, n => ∃ p p' ps rc ops nm, mcallRecv o = some nm ∧
      n = .callFn (.s nm) p (.loadList (S "<load_list>") p' (ops.reverse ++ [.sym (.s m) ps false])) true false false rc ∧ EmbLH hs as ops ∧ RecvNode o nm rc
  | .list as, n => ∃ p p' ops, n = .toList p (.loadList (S "<load_list>") p' ops.reverse) ∧ EmbLH hs as ops
  | .plist as, n => ∃ p p' ops, n = .toDict p (.loadList (S "<load_list>") p' ops.reverse) ∧ EmbLH hs as ops
  | .key v, n => ∃ p, n = .keyAcc p v
  | .movie v, n => (∃ p, n = .leaf .propName (.s v) p) ∨
      (∃ p q o, n = .propAcc p (.leaf .localVar (.s o) q) v false ∧ Lscr.startsWith o (S "_") = true)
  | .the .sys k [], n => ∃ p q o, n = .propAcc p (.leaf .localVar (.s o) q) (Spec.nameOrUnknown Spec.tblSys k) false ∧
      (Lscr.startsWith o (S "_") = true ∨ o = S "tell_obj")
  | .the .special k [], n => ∃ p, n = .leaf .propName (.s (Spec.nameOrUnknown Spec.tblSpecial k)) p
  | .the t k [e], n => (∃ p q cls tb w nm, theTbl t = some (cls, tb, w) ∧ idxName e = some nm ∧
      n = .propAcc p (.leaf cls nm q) (Spec.nameOrUnknown tb k) false) ∨
      (∃ p x op r ty, strThe t k = some (op, r) ∧ chunkTy r = some ty ∧ n = .unaryStr op p (some ty) x ∧ EmbH hs e x) ∨
      (t = .field ∧ ∃ p q x, n = .propAcc p (.unary (S "field") q x) (Spec.nameOrUnknown Spec.tblCast k) false ∧ EmbH hs e x)
  | .oprop v o, n => ∃ p x, n = .propAcc p x v true ∧ EmbH hs o x
  | .chunk k a b d, n => ∃ p x y z, n = .strOp k.tag.toList p x y z ∧ EmbH hs a x ∧
      ((isZero b = true ∧ y = .none) ∨ (isZero b = false ∧ EmbH hs b y)) ∧ EmbH hs d z
  | _, _ => False
def EmbLH (hs : List Spec.Name) : List Spec.Expr → List Node → Prop
  | [], ns => ns = []
  | e :: es, ns => ∃ x xs, ns = x :: xs ∧ EmbH hs e x ∧ EmbLH hs es xs
end

/-- a node that is the image of a non-symbol expression is not a Symbol (no fragment hypothesis) -/
theorem emb_symName' (e : Spec.Expr) (n : Node) (h : Emb e n) (hs : ∀ v, e ≠ .sym v) : n.symName? = none := by
  cases e with
  | int k => obtain ⟨p, rfl⟩ := h; rfl
  | str s => obtain ⟨p, rfl⟩ := h; rfl
  | sym s => exact absurd rfl (hs s)
  | var k v => cases k <;> (obtain ⟨p, rfl⟩ := h; rfl)
  | un op a => obtain ⟨p, y, rfl, _⟩ := h; rfl
  | bin op a b => obtain ⟨p, y, z, rfl, _⟩ := h; rfl
  | field a => obtain ⟨p, y, rfl, _⟩ := h; rfl
  | call f as => obtain ⟨p, p', wr, ops, rfl, _⟩ := h; rfl
  | mcall o m as => obtain ⟨p, p', ps, rc, ops, nm, _, rfl, _⟩ := h; rfl
  | list as => obtain ⟨p, p', ops, rfl, _⟩ := h; rfl
  | plist as => obtain ⟨p, p', ops, rfl, _⟩ := h; rfl
  | key v => obtain ⟨p, rfl⟩ := h; rfl
  | movie v => rcases h with ⟨p, rfl⟩ | ⟨p, q, o, rfl, _⟩ <;> rfl
  | oprop v o => obtain ⟨p, x, rfl, _⟩ := h; rfl
  | chunk k a b d => obtain ⟨p, x, y, z, rfl, _⟩ := h; rfl
  | the t k as =>
    cases as with
    | cons y ys =>
      cases ys with
      | cons z zs => cases t <;> exact absurd h (by simp [Emb])
      | nil =>
        simp only [Emb] at h
        rcases h with ⟨p, q, cls, tb, w, nm, _, _, rfl⟩ | ⟨p, x, op, r, ty, _, _, rfl, _⟩ | ⟨_, p, q, x, rfl, _⟩ <;> rfl
    | nil =>
      cases t with
      | sys => simp only [Emb] at h; obtain ⟨p, q, o, rfl, _⟩ := h; rfl
      | special => simp only [Emb] at h; obtain ⟨p, rfl⟩ := h; rfl
      | _ => exact absurd h (by simp [Emb])
  | _ => exact absurd h (by simp [Emb])


/-- assignment target of `set v = e` -/
def EmbLv : Spec.Expr → Node → Prop
  | .var .loc v, n => ∃ p, n = .leaf .localVar (.s v) p
  | .var .param v, n => ∃ p, n = .leaf .paramName (.s v) p
  | .var .glob v, n => ∃ p, n = .leaf .globalVar (.s v) p
  | .var .prop v, n => ∃ p q, n = .propAcc p (.leaf .node (.s (S "me")) q) v false
  | .the t k as, n => Emb (.the t k as) n      -- `set the <p> [of sprite n] = v`: the node `the <p> …` reads
  | .oprop v o, n => Emb (.oprop v o) n
  | .movie v, n => Emb (.movie v) n           -- `set the <movie property> = v` (opcode 60; since the repair of F150 never the declared-property node)
  | _, _ => False

/-- the image of an expression is never the None node (no fragment hypothesis) -/
theorem emb_isNone (e : Spec.Expr) (n : Node) (h : Emb e n) : n.isNone = false := by
  cases e with
  | int k => obtain ⟨p, rfl⟩ := h; rfl
  | str s => obtain ⟨p, rfl⟩ := h; rfl
  | sym s => obtain ⟨p, rfl⟩ := h; rfl
  | var k v => cases k <;> (obtain ⟨p, rfl⟩ := h; rfl)
  | un op a => obtain ⟨p, y, rfl, _⟩ := h; rfl
  | bin op a b => obtain ⟨p, y, z, rfl, _⟩ := h; rfl
  | field a => obtain ⟨p, y, rfl, _⟩ := h; rfl
  | call f as => obtain ⟨p, p', wr, ops, rfl, _⟩ := h; rfl
  | mcall o m as => obtain ⟨p, p', ps, rc, ops, nm, _, rfl, _⟩ := h; rfl
  | list as => obtain ⟨p, p', ops, rfl, _⟩ := h; rfl
  | plist as => obtain ⟨p, p', ops, rfl, _⟩ := h; rfl
  | key v => obtain ⟨p, rfl⟩ := h; rfl
  | movie v => rcases h with ⟨p, rfl⟩ | ⟨p, q, o, rfl, _⟩ <;> rfl
  | oprop v o => obtain ⟨p, x, rfl, _⟩ := h; rfl
  | chunk k a b d => obtain ⟨p, x, y, z, rfl, _⟩ := h; rfl
  | the t k as =>
    cases as with
    | cons y ys =>
      cases ys with
      | cons z zs => cases t <;> exact absurd h (by simp [Emb])
      | nil =>
        simp only [Emb] at h
        rcases h with ⟨p, q, cls, tb, w, nm, _, _, rfl⟩ | ⟨p, x, op, r, ty, _, _, rfl, _⟩ | ⟨_, p, q, x, rfl, _⟩ <;> rfl
    | nil =>
      cases t with
      | sys => simp only [Emb] at h; obtain ⟨p, q, o, rfl, _⟩ := h; rfl
      | special => simp only [Emb] at h; obtain ⟨p, rfl⟩ := h; rfl
      | _ => exact absurd h (by simp [Emb])
  | _ => exact absurd h (by simp [Emb])

/-- the image of an expression is a constant node only for the two literal forms (no fragment hypothesis) -/
theorem emb_const_lit (e : Spec.Expr) (n : Node) (h : Emb e n) (hc : n.cls = .leaf .const) : (∃ k, e = .int k) ∨ (∃ s, e = .str s) := by
  cases e with
  | int k => exact Or.inl ⟨k, rfl⟩
  | str s => exact Or.inr ⟨s, rfl⟩
  | sym s => obtain ⟨p, rfl⟩ := h; simp [Node.cls] at hc
  | var k v => cases k <;> (obtain ⟨p, rfl⟩ := h; simp [Node.cls] at hc)
  | un op a => obtain ⟨p, y, rfl, _⟩ := h; simp [Node.cls] at hc
  | bin op a b => obtain ⟨p, y, z, rfl, _⟩ := h; simp [Node.cls] at hc
  | field a => obtain ⟨p, y, rfl, _⟩ := h; simp [Node.cls] at hc
  | call f as => obtain ⟨p, p', wr, ops, rfl, _⟩ := h; simp [Node.cls] at hc
  | mcall o m as => obtain ⟨p, p', ps, rc, ops, nm, _, rfl, _⟩ := h; simp [Node.cls] at hc
  | list as => obtain ⟨p, p', ops, rfl, _⟩ := h; simp [Node.cls] at hc
  | plist as => obtain ⟨p, p', ops, rfl, _⟩ := h; simp [Node.cls] at hc
  | key v => obtain ⟨p, rfl⟩ := h; simp [Node.cls] at hc
  | movie v => rcases h with ⟨p, rfl⟩ | ⟨p, q, o, rfl, _⟩ <;> simp [Node.cls] at hc
  | oprop v o => obtain ⟨p, x, rfl, _⟩ := h; simp [Node.cls] at hc
  | chunk k a b d => obtain ⟨p, x, y, z, rfl, _⟩ := h; simp [Node.cls] at hc
  | the t k as =>
    cases as with
    | cons y ys =>
      cases ys with
      | cons z zs => cases t <;> exact absurd h (by simp [Emb])
      | nil =>
        simp only [Emb] at h
        rcases h with ⟨p, q, cls, tb, w, nm, _, _, rfl⟩ | ⟨p, x, op, r, ty, _, _, rfl, _⟩ | ⟨_, p, q, x, rfl, _⟩ <;> simp [Node.cls] at hc
    | nil =>
      cases t with
      | sys => simp only [Emb] at h; obtain ⟨p, q, o, rfl, _⟩ := h; simp [Node.cls] at hc
      | special => simp only [Emb] at h; obtain ⟨p, rfl⟩ := h; simp [Node.cls] at hc
      | _ => exact absurd h (by simp [Emb])
  | _ => exact absurd h (by simp [Emb])

/-- the image of an expression is a binary-operation node only for a binary operation (no fragment hypothesis) -/
theorem emb_binary_inv (e : Spec.Expr) (op : Str) (p : Int) (x y : Node) (h : Emb e (.binary op p x y)) :
    ∃ o a b, e = .bin o a b ∧ op = binName o ∧ Emb a x ∧ Emb b y := by
  cases e with
  | bin o a b => obtain ⟨p', x', y', h, ha, hb⟩ := h; cases h; exact ⟨o, a, b, rfl, rfl, ha, hb⟩
  | int k => obtain ⟨p, h⟩ := h; cases h
  | str s => obtain ⟨p, h⟩ := h; cases h
  | sym s => obtain ⟨p, h⟩ := h; cases h
  | var k v => cases k <;> (obtain ⟨p, h⟩ := h; cases h)
  | un op a => obtain ⟨p, y, h, _⟩ := h; cases h
  | field a => obtain ⟨p, y, h, _⟩ := h; cases h
  | call f as => obtain ⟨p, p', wr, ops, h, _⟩ := h; cases h
  | mcall o m as => obtain ⟨p, p', ps, rc, ops, nm, _, h, _⟩ := h; cases h
  | list as => obtain ⟨p, p', ops, h, _⟩ := h; cases h
  | plist as => obtain ⟨p, p', ops, h, _⟩ := h; cases h
  | key v => obtain ⟨p, h⟩ := h; cases h
  | movie v => rcases h with ⟨p, h⟩ | ⟨p, q, o, h, _⟩ <;> cases h
  | oprop v o => obtain ⟨p, x, h, _⟩ := h; cases h
  | chunk k a b d => obtain ⟨p, x, y, z, h, _⟩ := h; cases h
  | the t k as =>
    cases as with
    | cons y ys =>
      cases ys with
      | cons z zs => cases t <;> exact absurd h (by simp [Emb])
      | nil =>
        simp only [Emb] at h
        rcases h with ⟨p, q, cls, tb, w, nm, _, _, h⟩ | ⟨p, x, op, r, ty, _, _, h, _⟩ | ⟨_, p, q, x, h, _⟩ <;> cases h
    | nil =>
      cases t with
      | sys => simp only [Emb] at h; obtain ⟨p, q, o, h, _⟩ := h; cases h
      | special => simp only [Emb] at h; obtain ⟨p, h⟩ := h; cases h
      | _ => exact absurd h (by simp [Emb])
  | _ => exact absurd h (by simp [Emb])

/-- every image of an expression has a `.name` (no fragment hypothesis) -/
theorem emb_name (e : Spec.Expr) (n : Node) (h : Emb e n) : ∃ nm, n.name = .ok nm := by
  have := emb_isNone e n h
  cases n <;> first | (simp [Node.isNone] at this; done) | exact ⟨_, rfl⟩

theorem emb_the_name (t : Spec.Tbl) (k : Nat) (as : List Spec.Expr) (n : Node) (h : Emb (.the t k as) n) : ∃ nm, n.name = .ok nm := by
  cases as with
  | nil =>
    cases t with
    | sys => simp only [Emb] at h; obtain ⟨p, q, o, rfl, _⟩ := h; exact ⟨_, rfl⟩
    | special => simp only [Emb] at h; obtain ⟨p, rfl⟩ := h; exact ⟨_, rfl⟩
    | _ => exact absurd h (by simp [Emb])
  | cons x xs =>
    cases xs with
    | nil =>
      simp only [Emb] at h
      rcases h with ⟨p, q, cls, tb, w, nm, _, _, rfl⟩ | ⟨p, x, op, r, ty, _, _, rfl, _⟩ | ⟨_, p, q, x, rfl, _⟩ <;> exact ⟨_, rfl⟩
    | cons y ys => cases t <;> exact absurd h (by simp [Emb])

/-- every assignment target has a `.name` (no fragment hypothesis; follows every extension of `EmbLv`) -/
theorem embLv_name (lv : Spec.Expr) (l : Node) (h : EmbLv lv l) : ∃ nm, l.name = .ok nm := by
  cases lv with
  | var k v => cases k <;> (simp only [EmbLv] at h; first | (obtain ⟨p, rfl⟩ := h; exact ⟨_, rfl⟩) | (obtain ⟨p, q, rfl⟩ := h; exact ⟨_, rfl⟩))
  | the t k as => simp only [EmbLv] at h; exact emb_the_name t k as l h
  | oprop v o => simp only [EmbLv, Emb] at h; obtain ⟨p, x, rfl, _⟩ := h; exact ⟨_, rfl⟩
  | movie v => simp only [EmbLv, Emb] at h; rcases h with ⟨p, rfl⟩ | ⟨p, q, o, rfl, _⟩ <;> exact ⟨_, rfl⟩
  | _ => simp [EmbLv] at h

/-- the image of a `put` / `delete` / `hilite` TARGET: the image of the target read as an expression, except that a global at the
    bottom of a chunk chain (`46 n`, VariableOpcode) may be a GlobalVariable or a LocalVariable node of that name — the model decides
    by the globals seen so far; both print the bare name -/
def EmbTg : Spec.Expr → Node → Prop
  | .chunk k a b d, n => ∃ p x y z, n = .strOp k.tag.toList p x y z ∧ Emb a x ∧
      ((isZero b = true ∧ y = .none) ∨ (isZero b = false ∧ Emb b y)) ∧ EmbTg d z
  | .var .glob v, n => ∃ p, n = .leaf .globalVar (.s v) p ∨ n = .leaf .localVar (.s v) p
  | e, n => Emb e n

/-- statements: the model's `Statement` node -/
def EmbS : Spec.Stmt → Node → Prop
  | .set lv v, n => ∃ p q l r, n = .stmt p (.binary (S "assign") q l r) ∧ EmbLv lv l ∧ Emb v r
  | .call f as, n => ∃ p q q' wr ops, n = .stmt p (.callFn (.s f) q (.loadList (S "load_list") q' ops.reverse) true false wr .none) ∧ EmbL as ops
  | .exit, n => ∃ p q, n = .stmt p (.callFn (.s (S "exit")) q .none true false false .none)
  | .put m v lv, n => ∃ p q l r, n = .stmt p (.spAssign q l r m.tag.toList) ∧ EmbTg lv l ∧ Emb v r
  | .delete t, n => ∃ p q l, n = .stmt p (.unary (S "delete") q l) ∧ EmbTg t l
  | .hilite t, n => ∃ p q l, n = .stmt p (.unary (S "hilite") q l) ∧ EmbTg t l
  | .mcall o m as, n => ∃ p q q' ps rc ops nm, mcallRecv o = some nm ∧
      n = .stmt p (.callFn (.s nm) q (.loadList (S "load_list") q' (ops.reverse ++ [.sym (.s m) ps false])) true false false rc) ∧ EmbL as ops ∧ RecvNode o nm rc
  | _, _ => False

def EmbSs : List Spec.Stmt → List Node → Prop
  | [], ns => ns = []
  | s :: ss, ns => ∃ x xs, ns = x :: xs ∧ EmbS s x ∧ EmbSs ss xs

/-- `EmbS` with `with_result` determined (see `EmbH`) -/
def EmbSH (hs : List Spec.Name) : Spec.Stmt → Node → Prop
  | .set lv v, n => ∃ p q l r, n = .stmt p (.binary (S "assign") q l r) ∧ EmbLv lv l ∧ EmbH hs v r
  | .call f as, n => ∃ p q q' ops, n = .stmt p (.callFn (.s f) q (.loadList (S "load_list") q' ops.reverse) true false (hs.contains f) .none) ∧ EmbLH hs as ops
  | .exit, n => ∃ p q, n = .stmt p (.callFn (.s (S "exit")) q .none true false false .none)
  | .put m v lv, n => ∃ p q l r, n = .stmt p (.spAssign q l r m.tag.toList) ∧ EmbTg lv l ∧ EmbH hs v r
  | .delete t, n => ∃ p q l, n = .stmt p (.unary (S "delete") q l) ∧ EmbTg t l
  | .hilite t, n => ∃ p q l, n = .stmt p (.unary (S "hilite") q l) ∧ EmbTg t l
  | .mcall o m as, n => ∃ p q q' ps rc ops nm, mcallRecv o = some nm ∧
      n = .stmt p (.callFn (.s nm) q (.loadList (S "load_list") q' (ops.reverse ++ [.sym (.s m) ps false])) true false false rc) ∧ EmbLH hs as ops ∧ RecvNode o nm rc
  | _, _ => False

def EmbSsH (hs : List Spec.Name) : List Spec.Stmt → List Node → Prop
  | [], ns => ns = []
  | s :: ss, ns => ∃ x xs, ns = x :: xs ∧ EmbSH hs s x ∧ EmbSsH hs ss xs

/-! ### the fragment -/

/-- an identifier the lexer reads back as one identifier token -/
def idOk : Spec.Name → Bool
  | [] => false
  | c :: cs => Spec.isIdStart c && cs.all Spec.isIdChar

/-- printable ASCII other than the backslash and the quote: the characters of string constants that `escape_string` and
    `replace_chars_with_lingo_constants` leave alone (the rest is property C11) -/
def plainCharB (c : Char) : Bool := 32 ≤ c.toNat && c.toNat < 127 && c != '\\' && c != '"'

/-- non-empty strings of plain characters (`""` prints as `EMPTY`) -/
def plainStrB (s : Spec.Name) : Bool := !s.isEmpty && s.all plainCharB

/-- does the printed form start with a minus sign? (`-(-x)` is the repaired form of F21; the reference printer writes `- - x`) -/
def startsMinus : Spec.Expr → Bool
  | .un .neg _ => true
  | _ => false

/-- names the model's `CallFunction.generate_lingo` prints in a special form -/
def plainCallName (f : Spec.Name) : Bool := f != "sound".toList && f != "go".toList

/-- `CallFunction.gv_as_sym`: a call of one of LIST_FUNCTIONS prints a symbol in first position as a bare (global variable) name -/
def gvClash (f : Spec.Name) : List Spec.Expr → Bool
  | .sym _ :: _ => Lscr.listHas Drx.Gen.PropTables.listFunctions (Lscr.pyLower f)
  | _ => false

/-- the object of `the <p> of <obj>` (opcodes 61 / 62; since the repair of F142 the accessor node carries `explicit_obj`, so the
    object is never taken for a synthetic owner): only a variable called `me` is excluded (an object whose text is `me` AND whose
    class is the plain Node of a declared-property assignment prints as a bare property — never the case here, but the text
    test is what the fragment states) -/
def objOk : Spec.Expr → Bool
  | .var _ v => v != S "me"
  | _ => true

/-- receivers of method calls: a local / parameter / global whose name is an identifier and not `sound` / `go` (the model prints a
    call of these names in a special form) -/
def recvOk (o : Spec.Expr) : Bool :=
  match mcallRecv o with
  | some nm => idOk nm && plainCallName nm
  | none => false

theorem recvOk_spec (o : Spec.Expr) (h : recvOk o = true) :
    ∃ nm, mcallRecv o = some nm ∧ idOk nm = true ∧ plainCallName nm = true ∧ (o = .var .loc nm ∨ o = .var .param nm ∨ o = .var .glob nm) := by
  unfold recvOk at h
  cases o with
  | var k v =>
    cases k <;> simp only [mcallRecv, Bool.and_eq_true] at h
    · exact ⟨v, rfl, h.1, h.2, Or.inl rfl⟩
    · exact ⟨v, rfl, h.1, h.2, Or.inr (Or.inl rfl)⟩
    · exact ⟨v, rfl, h.1, h.2, Or.inr (Or.inr rfl)⟩
    · cases h
  | _ => simp [mcallRecv] at h

mutual
/-- expressions of the link theorems -/
def FragE : Spec.Expr → Bool
  | .int _ => true
  | .str s => plainStrB s
  | .sym n => idOk n
  | .var _ n => idOk n
  | .un .neg a => FragE a && !startsMinus a
  | .un .not a => FragE a
  | .bin o a b => decide (o ≠ .starts) && FragE a && FragE b
  | .field a => FragE a
  | .call f as => idOk f && plainCallName f && !as.isEmpty && !gvClash f as && FragL as   -- F125: a zero-argument call prints as the bare name
  | .mcall o m as => recvOk o && idOk m && FragL as
  | .list as => FragL as
  | .plist as => FragL as && as.length % 2 == 0
  | .key v => idOk v
  | .movie v => idOk v
  | .the .sys k [] => Spec.tblSys.any (fun x => x.1 == k)
  | .the .special k [] => decide (k < 6)
  | .the t k [e] =>
    ((match theTbl t with | some (_, tb, _) => tb.any (fun x => x.1 == k) | none => false) && (idxName e).isSome
      || (match strThe t k with | some (_, r) => (chunkTy r).isSome | none => false)
      || (decide (t = .field) && Spec.tblCast.any (fun x => x.1 == k))) && FragE e
  | .oprop v o => idOk v && objOk o && FragE o
  | .chunk _ a b d => FragE a && !isZero a && FragE b && FragE d
  | _ => false
def FragL : List Spec.Expr → Bool
  | [] => true
  | e :: es => FragE e && FragL es
end

/-- assignment targets: the four variable kinds -/
def FragLv : Spec.Expr → Bool
  | .var _ n => idOk n
  | .the t k as => FragE (.the t k as) && (match as with | [_] => (theTbl t).isSome | _ => true)
  | .oprop v o => FragE (.oprop v o)
  | .movie v => idOk v
  | _ => false

/-- targets of `put … into|after|before`, `delete`, `hilite` below a chunk of rank `r`: a chain of strictly coarser chunks
    (`char 1 of word 2 of …`: the scheme compiles it to ONE set of eight slots) that bottoms out in `field e` or a local variable.
    (`FragTg 0` = all targets.  A chunk of a GLOBAL is compiled to `46 n`, which the model turns into a global or a local
    variable node depending on the globals seen so far: outside, see design.d/C02Link.md.) -/
def FragTg (r : Nat) : Spec.Expr → Bool
  | .chunk k a b d => decide (r < k.rank) && FragE a && !isZero a && FragE b && FragTg k.rank d
  | .field e => FragE e
  | .var .loc v => idOk v
  | .var .glob v => decide (0 < r) && idOk v      -- only below a chunk (`lowerTarget` refuses a bare global)
  | _ => false

/-- a target is an expression of the fragment (so the text / token layers treat it like any other expression) -/
theorem fragTg_fragE : ∀ (e : Spec.Expr) (r : Nat), FragTg r e = true → FragE e = true
  | .chunk k a b d, r, h => by
    simp only [FragTg, Bool.and_eq_true] at h
    simp only [FragE, Bool.and_eq_true]
    exact ⟨⟨⟨h.1.1.1.2, h.1.1.2⟩, h.1.2⟩, fragTg_fragE d k.rank h.2⟩
  | .field e, _, h => by simpa [FragTg, FragE] using h
  | .var .loc v, _, h => by simpa [FragTg, FragE] using h
  | .var .param _, _, h => by simp [FragTg] at h
  | .var .glob v, _, h => by simp only [FragTg, Bool.and_eq_true] at h; simpa [FragE] using h.2
  | .var .prop _, _, h => by simp [FragTg] at h
  | .int _, _, h => by simp [FragTg] at h
  | .str _, _, h => by simp [FragTg] at h
  | .float _ _, _, h => by simp [FragTg] at h
  | .sym _, _, h => by simp [FragTg] at h
  | .me, _, h => by simp [FragTg] at h
  | .bin _ _ _, _, h => by simp [FragTg] at h
  | .un _ _, _, h => by simp [FragTg] at h
  | .call _ _, _, h => by simp [FragTg] at h
  | .mcall _ _ _, _, h => by simp [FragTg] at h
  | .list _, _, h => by simp [FragTg] at h
  | .plist _, _, h => by simp [FragTg] at h
  | .the _ _ _, _, h => by simp [FragTg] at h
  | .key _, _, h => by simp [FragTg] at h
  | .movie _, _, h => by simp [FragTg] at h
  | .oprop _ _, _, h => by simp [FragTg] at h

/-- is the target a chunk? (`delete` needs one; `put … into <variable>` is written `set`) -/
def isChunkE : Spec.Expr → Bool
  | .chunk _ _ _ _ => true
  | _ => false

def isVarE : Spec.Expr → Bool
  | .var _ _ => true
  | _ => false

/-- the words of `go loop | next | previous` (the model's GO_WORDS: exact, lower case) -/
def goWordX (w : Spec.Name) : Bool := w == "loop".toList || w == "next".toList || w == "previous".toList

/-- a command call printed in the plain form `f a, b` -/
def callPlain (f : Spec.Name) (as : List Spec.Expr) : Bool := idOk f && plainCallName f && !gvClash f as && FragL as
/-- `sound <word> a, b`: the first argument is a symbol, printed bare (`sound playFile 1, "x"`, `sound stop 2`) -/
def callSound (f : Spec.Name) (as : List Spec.Expr) : Bool :=
  f == "sound".toList && (match as with | .sym m :: rest => idOk m && FragL rest | _ => false)
/-- `go loop`, `go next`, `go previous` -/
def callGo (f : Spec.Name) (as : List Spec.Expr) : Bool :=
  f == "go".toList && (match as with | [.sym w] => goWordX w | _ => false)

theorem goWordX_idOk (w : Spec.Name) (h : goWordX w = true) : idOk w = true := by
  simp only [goWordX, Bool.or_eq_true, beq_iff_eq] at h
  rcases h with (rfl | rfl) | rfl <;> decide

/-- statements of the link theorems -/
def FragS : Spec.Stmt → Bool
  | .set lv v => FragLv lv && FragE v
  | .call f as => callPlain f as || callSound f as || callGo f as
  | .exit => true
  | .put m v lv => FragE v && FragTg 0 lv && !(decide (m = .into) && isVarE lv)
  | .delete t => isChunkE t && FragTg 0 t
  | .hilite t => FragTg 0 t
  | .mcall o m as => recvOk o && idOk m && FragL as
  | _ => false

/-- the arguments of a command call of the fragment are expressions of the fragment -/
theorem fragS_call_args (f : Spec.Name) (as : List Spec.Expr) (h : FragS (.call f as) = true) : FragL as = true := by
  simp only [FragS, Bool.or_eq_true] at h
  rcases h with (h | h) | h
  · simp only [callPlain, Bool.and_eq_true] at h; exact h.2
  · simp only [callSound, Bool.and_eq_true] at h
    obtain ⟨_, h⟩ := h
    split at h
    · rename_i m rest
      simp only [Bool.and_eq_true] at h
      simp only [FragL, FragE, Bool.and_eq_true]; exact h
    · cases h
  · simp only [callGo, Bool.and_eq_true] at h
    obtain ⟨_, h⟩ := h
    split at h
    · rename_i w
      simp only [FragL, FragE, Bool.and_eq_true, and_true]; exact goWordX_idOk w h
    · cases h

def FragSs : List Spec.Stmt → Bool
  | [] => true
  | s :: ss => FragS s && FragSs ss

/-- handlers of the link theorems: `on` handlers; globals may be declared at script level or in the handler (`global g` lines),
    properties are the script's declared ones -/
def FragH (s : Spec.Script) (h : Spec.Handler) : Bool :=
  !h.isMethod && idOk h.name && h.params.all idOk && FragSs h.body
    && (Spec.Stmt.varsList .prop h.body).all (fun v => s.props.contains v)
    && (h.globalsUsed s.globals).all idOk

/-- scripts of the link theorems (explicit, decidable): plain scripts (no factory), any number of handlers -/
def FragScript (s : Spec.Script) : Bool :=
  s.factory.isEmpty && s.props.all idOk && s.globals.all idOk && s.handlers.all (FragH s)

/-- a `repeat while` condition whose text does not start with a parenthesis (the decompiler strips the outer parentheses of an
    infix operation there: other tokens than the reference printer's; see `prSW`) -/
def notInfix : Spec.Expr → Bool
  | .bin o _ _ => !o.isInfix
  | _ => true

mutual
/-- structured statements of the text chain: the simple statements of `FragS`, `if … then … [else …] end if`,
    `repeat while c` (c no infix operation), `repeat with <local> = a [down] to b`, nested without bound -/
def FragX : Spec.Stmt → Bool
  | .set lv v => FragS (.set lv v)
  | .call f as => FragS (.call f as)
  | .exit => true
  | .put m v lv => FragS (.put m v lv)
  | .delete t => FragS (.delete t)
  | .hilite t => FragS (.hilite t)
  | .mcall o m as => FragS (.mcall o m as)
  | .ifThen c t e => FragE c && FragXs t && FragXs e
  | .repeatWhile c b => FragE c && FragXs b
  | .repeatWith (.var .loc v) a b _ body => idOk v && FragE a && FragE b && FragXs body
  | .repeatIn (.var .loc v) l body => idOk v && FragE l && FragXs body
  | _ => false
def FragXs : List Spec.Stmt → Bool
  | [] => true
  | s :: ss => FragX s && FragXs ss
end

def FragHX (s : Spec.Script) (h : Spec.Handler) : Bool :=
  !h.isMethod && idOk h.name && h.params.all idOk && FragXs h.body
    && (Spec.Stmt.varsList .prop h.body).all (fun v => s.props.contains v)
    && (h.globalsUsed s.globals).all idOk

/-- scripts of the structured text chain -/
def FragScriptX (s : Spec.Script) : Bool :=
  s.factory.isEmpty && s.props.all idOk && s.globals.all idOk && s.handlers.all (FragHX s)

/-! ### the text the model prints for a source program -/

/-- operator text (`LINGO_BIN_OP`; `sprite... ` stripped for the two prefix forms) -/
def opTxt : Spec.BinOp → Str
  | .mul => S "*" | .add => S "+" | .sub => S "-" | .div => S "/" | .mod => S "mod" | .concat => S "&" | .concats => S "&&"
  | .lt => S "<" | .le => S "<=" | .ne => S "<>" | .eq => S "=" | .gt => S ">" | .ge => S ">=" | .and => S "and" | .or => S "or"
  | .contains => S "contains" | .starts => S "start" | .intersects => S "intersects" | .within => S "within"

mutual
/-- `generate_lingo` of the image of an expression -/
def mE : Spec.Expr → Str
  | .int k => Lscr.natStr k
  | .str s => '"' :: s ++ ['"']
  | .sym n => '#' :: n
  | .var _ v => v
  | .un .neg a => S "-" ++ mE a
  | .un .not a => S "not " ++ mE a
  | .bin o a b =>
    if o.isInfix then S "(" ++ mE a ++ S " " ++ opTxt o ++ S " " ++ mE b ++ S ")"
    else S "sprite " ++ mE a ++ S " " ++ opTxt o ++ S " " ++ mE b
  | .field a => S "field " ++ mE a
  | .call f as => f ++ S "(" ++ mArgs as ++ S ")"
  | .mcall o m as => mE o ++ S "(" ++ m ++ (if as.isEmpty then [] else S ", " ++ mArgs as) ++ S ")"
  | .list as => S "[" ++ mArgs as ++ S "]"
  | .plist as => if as.isEmpty then S "[:]" else S "[" ++ mPairs as ++ S "]"
  | .key v => S "the " ++ v
  | .movie v => S "the " ++ v
  | .the .sys k [] => S "the " ++ Spec.nameOrUnknown Spec.tblSys k
  | .the .special k [] => S "the " ++ Spec.nameOrUnknown Spec.tblSpecial k
  | .the t k [e] =>
    (match theTbl t with
     | some (_, tb, w) => S "the " ++ Spec.nameOrUnknown tb k ++ S " of " ++ w.toList ++ S " " ++ mE e
     | none =>
       match strThe t k with
       | some (op, r) =>
         if op = S "last" then S "the last " ++ (chunkTy r).getD [] ++ S " of " ++ mE e
         else S "the number of " ++ (chunkTy r).getD [] ++ S "s of " ++ mE e
       | none => if t = .field then S "the " ++ Spec.nameOrUnknown Spec.tblCast k ++ S " of field " ++ mE e else [])
  | .oprop v o => S "the " ++ v ++ S " of " ++ mE o
  | .chunk k a b d => k.tag.toList ++ S " " ++ mE a ++ (if isZero b then [] else S " to " ++ mE b) ++ S " of " ++ mE d
  | _ => []
/-- `", ".join(...)` -/
def mArgs : List Spec.Expr → Str
  | [] => []
  | [e] => mE e
  | e :: es => mE e ++ S ", " ++ mArgs es
/-- `k1: v1, k2: v2` -/
def mPairs : List Spec.Expr → Str
  | [] => []
  | [k] => mE k
  | [k, v] => mE k ++ S ": " ++ mE v
  | k :: v :: rest => mE k ++ S ": " ++ mE v ++ S ", " ++ mPairs rest
end

/-- the condition of `repeat while`: `if cond.startswith('('): cond = cond[1:-1]` -/
def mCond (c : Spec.Expr) : Str :=
  if Lscr.startsWith (mE c) (S "(") then Lscr.stripParens (mE c) else mE c

/-- `CallFunction.generate_lingo` of a command call (no parentheses): `sound <word> …`, `go <word>`, `f a, b` -/
def mCall (f : Spec.Name) (as : List Spec.Expr) : Str :=
  if f = "sound".toList then
    (match as with
     | .sym m :: rest => S "sound " ++ m ++ S " " ++ mArgs rest
     | _ => f ++ (if as.isEmpty then [] else S " " ++ mArgs as))
  else if f = "go".toList then
    (match as with
     | [.sym w] => if goWordX w then S "go " ++ w else f ++ (if as.isEmpty then [] else S " " ++ mArgs as)
     | _ => f ++ (if as.isEmpty then [] else S " " ++ mArgs as))
  else f ++ (if as.isEmpty then [] else S " " ++ mArgs as)

theorem mCall_plain (f : Spec.Name) (as : List Spec.Expr) (h : plainCallName f = true) :
    mCall f as = f ++ (if as.isEmpty then [] else S " " ++ mArgs as) := by
  simp only [plainCallName, Bool.and_eq_true, bne_iff_ne, ne_eq] at h
  simp only [mCall, h.1, h.2, if_false]

mutual
/-- one statement (its lines) at indentation level `ind` -/
def mS : Nat → Spec.Stmt → Str
  | ind, .set lv v => Lscr.indentOf ind ++ S "set " ++ mE lv ++ S " = " ++ mE v ++ S "\n"
  | ind, .call f as => Lscr.indentOf ind ++ mCall f as ++ S "\n"
  | ind, .exit => Lscr.indentOf ind ++ S "exit\n"
  | ind, .put m v lv => Lscr.indentOf ind ++ S "put " ++ mE v ++ S " " ++ m.tag.toList ++ S " " ++ mE lv ++ S "\n"
  | ind, .delete t => Lscr.indentOf ind ++ S "delete " ++ mE t ++ S "\n"
  | ind, .hilite t => Lscr.indentOf ind ++ S "hilite " ++ mE t ++ S "\n"
  | ind, .mcall o m as => Lscr.indentOf ind ++ mE o ++ S " " ++ m ++ (if as.isEmpty then [] else S ", " ++ mArgs as) ++ S "\n"
  | ind, .ifThen c t e =>
    Lscr.indentOf ind ++ S "if " ++ mE c ++ S " then\n" ++ mSs (ind + 1) t
      ++ (if e.isEmpty then [] else Lscr.indentOf ind ++ S "else\n" ++ mSs (ind + 1) e) ++ Lscr.indentOf ind ++ S "end if" ++ S "\n"
  | ind, .repeatWhile c b =>
    Lscr.indentOf ind ++ S "repeat while " ++ mCond c ++ S "\n" ++ mSs (ind + 1) b ++ Lscr.indentOf ind ++ S "end repeat" ++ S "\n"
  | ind, .repeatWith v a b down body =>
    Lscr.indentOf ind ++ S "repeat with " ++ mE v ++ S " = " ++ mE a ++ S " " ++ (if down then S "down to" else S "to") ++ S " " ++ mE b
      ++ S "\n" ++ mSs (ind + 1) body ++ Lscr.indentOf ind ++ S "end repeat" ++ S "\n"
  | ind, .repeatIn v l body =>
    Lscr.indentOf ind ++ S "repeat with " ++ mE v ++ S " in " ++ mE l ++ S "\n" ++ mSs (ind + 1) body ++ Lscr.indentOf ind ++ S "end repeat" ++ S "\n"
  | _, _ => []
def mSs : Nat → List Spec.Stmt → Str
  | _, [] => []
  | ind, s :: ss => mS ind s ++ mSs ind ss
end

/-- the handler's own globals (used, not declared at script level) in the order `generate_lingo_code` prints them: sorted by
    code points (= the reference printer's insertion sort) -/
def hGlobalsSorted (s : Spec.Script) (h : Spec.Handler) : List Spec.Name :=
  (h.globalsUsed s.globals).foldr Spec.insertName []

/-- the `global g` lines of a handler, followed by a blank line when there are any -/
def mGlobalLines (gl : List Spec.Name) : Str :=
  (gl.map fun g => Lscr.indentOf 1 ++ S "global " ++ g ++ S "\n").flatten ++ (if gl.isEmpty then [] else S "\n")

/-- `on name a, b` … `end` -/
def mHandler (s : Spec.Script) (h : Spec.Handler) : Str :=
  S "on " ++ h.name ++ (if h.params.isEmpty then [] else S " " ++ Lscr.joinWith (S ", ") h.params) ++ S "\n"
    ++ mGlobalLines (hGlobalsSorted s h) ++ mSs 1 h.body ++ S "end\n"

def mHandlers (s : Spec.Script) : List Spec.Handler → Bool → Str
  | [], _ => []
  | h :: hs, first => (if first then [] else S "\n") ++ mHandler s h ++ mHandlers s hs false

/-- `generate_lingo_code` for a plain (non-factory) script -/
def mText (s : Spec.Script) : Str :=
  (if s.props.length > 0 then S "property " ++ Lscr.joinWith (S ", ") s.props ++ S "\n" else [])
    ++ (if s.globals.length > 0 then (s.globals.map fun g => S "global " ++ g ++ S "\n").flatten ++ S "\n" else [])
    ++ mHandlers s s.handlers true

/-! ### the tokens of the model's text: the reference printer's tokens in the decompiler's layout (blank lines), the condition of
     `repeat while` without the outer parentheses of an infix operation (`repeat.generate_lingo` strips them) -/

/-- the condition of `repeat while` as the decompiler prints it -/
def wCond : Spec.Expr → List Spec.Tok
  | .bin op a b => if op.isInfix then Spec.prE a ++ op.tok :: Spec.prE b else Spec.prE (.bin op a b)
  | e => Spec.prE e

open Drx.Spec in
mutual
/-- `Spec.prS` with `wCond` for the condition of `repeat while` (the same tokens for every statement without such a loop) -/
def prSW : Spec.Stmt → List Spec.Tok
  | .set lv v => kw "set" :: prE lv ++ .p .eq :: prE v ++ [.nl]
  | .put m v lv => kw "put" :: prE v ++ kw m.tag :: prE lv ++ [.nl]
  | .delete t => kw "delete" :: prE t ++ [.nl]
  | .hilite t => kw "hilite" :: prE t ++ [.nl]
  | .call f as => prCallStmt f as ++ [.nl]
  | .mcall o m as => prE o ++ .id m :: prTail as ++ [.nl]
  | .exit => [kw "exit", .nl]
  | .tell o b => kw "tell" :: prE o ++ .nl :: prSsW b ++ [kw "end", kw "tell", .nl]
  | .ifThen c t e =>
    kw "if" :: prE c ++ kw "then" :: .nl :: prSsW t ++
      (if e.isEmpty then [] else kw "else" :: .nl :: prSsW e) ++ [kw "end", kw "if", .nl]
  | .repeatWhile c b => kw "repeat" :: kw "while" :: wCond c ++ .nl :: prSsW b ++ [kw "end", kw "repeat", .nl]
  | .repeatWith v a b down body =>
    kw "repeat" :: kw "with" :: prE v ++ .p .eq :: prE a ++ (if down then [kw "down", kw "to"] else [kw "to"]) ++ prE b ++ .nl :: prSsW body
      ++ [kw "end", kw "repeat", .nl]
  | .repeatIn v l body => kw "repeat" :: kw "with" :: prE v ++ kw "in" :: prE l ++ .nl :: prSsW body ++ [kw "end", kw "repeat", .nl]
  | .exitRepeat => [kw "exit", kw "repeat", .nl]
def prSsW : List Spec.Stmt → List Spec.Tok
  | [] => []
  | s :: ss => prSW s ++ prSsW ss
end

def dGlobalLines (gl : List Spec.Name) : List Spec.Tok :=
  gl.flatMap (fun g => [Spec.kw "global", .id g, .nl]) ++ (if gl.isEmpty then [] else [.nl])

def dHandler (s : Spec.Script) (h : Spec.Handler) : List Spec.Tok :=
  Spec.kw "on" :: .id h.name :: Spec.prNames h.params ++ [.nl] ++ dGlobalLines (hGlobalsSorted s h) ++ prSsW h.body ++ [Spec.kw "end", .nl]

def dHandlers (s : Spec.Script) : List Spec.Handler → Bool → List Spec.Tok
  | [], _ => []
  | h :: hs, first => (if first then [] else [.nl]) ++ dHandler s h ++ dHandlers s hs false

/-- `printLingo s` with the decompiler's blank lines: one after the script-level `global` block, one between handlers -/
def dToks (s : Spec.Script) : List Spec.Tok :=
  (if s.props.length > 0 then Spec.kw "property" :: Spec.prNames s.props ++ [.nl] else [])
    ++ (if s.globals.length > 0 then s.globals.flatMap (fun g => [Spec.kw "global", .id g, .nl]) ++ [.nl] else [])
    ++ dHandlers s s.handlers true

/-- the model as a decompiler in the sense of `DrxProps.C02.C02_full` -/
def modelDecompile (lscr lnam : Bytes) : Option (List Char) :=
  match Lscr.parseScript lscr lnam with
  | .ok t =>
    match (Lscr.genLingo t).1 with
    | .ok txt => some txt
    | .error _ => none
  | .error _ => none

/-! ### the model's opcode step on decoded instructions -/

open Drx.Gen in
/-- what one iteration of `parse_opcodes` does for the instruction `i` whose first byte is at address `a`
    (`stepOpcode` on the encoded bytes, minus the operand registers, which never matter: C12) -/
def execI (ctx : Lscr.Ctx) (i : Spec.Instr) (a : Int) (st : PState) : R PState :=
  match i with
  | .op1 b =>
    match Opcodes.opcodes.lookup b with
    | some info => Lscr.process0 ctx info a st
    | none => .error .other
  | .op2 b x =>
    match Opcodes.opcodes.lookup b with
    | some info =>
      if info.kind = "bi" ∨ info.kind = "tri" then
        match Opcodes.biOpcodes.lookup (b * 256 + x) with
        | some info2 => Lscr.process ctx info2 0 0 a st
        | none => .error .key
      else Lscr.process1 ctx info x a st
    | none => .error .other
  | .op3 b x =>
    match Opcodes.opcodes.lookup b with
    | some info => Lscr.process2 ctx info (x / 256) (x % 256) a st
    | none => .error .other

/-- the opcode loop on a decoded instruction list that starts at address `a` -/
def runIs (ctx : Lscr.Ctx) : Nat → List Spec.Instr → PState → R PState
  | _, [], st => .ok st
  | a, i :: is, st =>
    match execI ctx i (a : Int) st with
    | .ok st' => runIs ctx (a + i.size) is st'
    | .error e => .error e

end Drx.Link
