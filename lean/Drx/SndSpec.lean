/-
  Specification layer of property C07: what a sampled-sound 'snd ' resource *is* (Inside Macintosh: Sound,
  "Sound Resources"), the encoder that lays it out as bytes, and what the decoder has to report.
  Core Lean only (the driver re-encodes spec objects with exactly this encoder).

  Fields the decoder must ignore (loop points, fractional rate, AIFF rate, reserved pointers, the parameters
  of null commands, data-type records, trailing bytes) are carried as raw byte blocks of the right size, so
  the theorems quantify over *every* content of them.
-/
import Drx.Snd
namespace Drx.SndSpec
open Drx Drx.Snd

/-- the two sound header shapes the code supports -/
inductive Header where
  /-- standard sound header: mono, 8-bit, `length` = number of sample bytes -/
  | standard
  /-- extended sound header: `numChannels`, `numFrames`, `sampleSize` (bits);
      `aiff` = 10-byte AIFFSampleRate, `ptrs` = markerChunk/instrumentChunks/AESRecording (12 bytes),
      `future` = futureUse1..4 (14 bytes) -/
  | extended (channels frames bits : Nat) (aiff ptrs future : Bytes)
  deriving Repr, DecidableEq, Inhabited

inductive Format where
  /-- format 1: data-type records (6 raw bytes each: synth type + init options) -/
  | fmt1 (dataTypes : List Bytes)
  /-- format 2: reference count (2 raw bytes) -/
  | fmt2 (refCount : Bytes)
  deriving Repr, DecidableEq, Inhabited

structure Snd where
  format : Format
  /-- leading null commands: the 6 parameter bytes (param1, param2) of each -/
  nulls : List Bytes
  /-- `false` = bufferCmd (0x8051), `true` = soundCmd (0x8050) -/
  soundCmd : Bool
  /-- param1 of the sound command (2 raw bytes, ignored) -/
  param1 : Bytes
  /-- integer part of the 16.16 sample rate -/
  rateInt : Nat
  /-- fractional part (2 raw bytes) -/
  rateFrac : Bytes
  /-- loopStart, loopEnd (8 raw bytes) -/
  loops : Bytes
  header : Header
  /-- the sample area as stored (big-endian words when 16-bit) -/
  samples : Bytes
  /-- anything after the sample area -/
  trailing : Bytes
  deriving Repr, DecidableEq, Inhabited

def Header.channels : Header → Nat
  | .standard => 1
  | .extended c _ _ _ _ _ => c

def Header.bits : Header → Nat
  | .standard => 8
  | .extended _ _ b _ _ _ => b

/-- number of sample frames the header announces -/
def Snd.frames (s : Snd) : Nat :=
  match s.header with
  | .standard => s.samples.length
  | .extended _ f _ _ _ _ => f

def Format.Valid : Format → Prop
  | .fmt1 dts => dts.length < 32768 ∧ ∀ b ∈ dts, b.length = 6
  | .fmt2 rc => rc.length = 2

def Header.Valid (sampleBytes : Nat) : Header → Prop
  | .standard => sampleBytes < 2 ^ 31
  | .extended c f b aiff ptrs future =>
      c < 2 ^ 31 ∧ f < 2 ^ 31 ∧ (b = 8 ∨ b = 16) ∧ aiff.length = 10 ∧ ptrs.length = 12 ∧ future.length = 14 ∧
      sampleBytes = f * c * (b / 8)

/-- well-formedness: every field fits its slot and the sample area has frames × channels × width bytes -/
def Valid (s : Snd) : Prop :=
  s.format.Valid ∧
  s.nulls.length + 1 < 32768 ∧ (∀ b ∈ s.nulls, b.length = 6) ∧
  s.param1.length = 2 ∧ s.rateInt < 65536 ∧ s.rateFrac.length = 2 ∧ s.loops.length = 8 ∧
  s.header.Valid s.samples.length

instance (f : Format) : Decidable f.Valid := by
  cases f <;> unfold Format.Valid <;> exact inferInstance

instance (n : Nat) (h : Header) : Decidable (h.Valid n) := by
  cases h <;> unfold Header.Valid <;> exact inferInstance

instance (s : Snd) : Decidable (Valid s) := by
  unfold Valid; exact inferInstance

def be16 (n : Nat) : Bytes := encOrd .be 2 n
def be32 (n : Nat) : Bytes := encOrd .be 4 n

/-- format word, then data-type count + records (format 1) or the reference count (format 2) -/
def encPrefix : Format → Bytes
  | .fmt1 dts => be16 1 ++ be16 dts.length ++ dts.flatten
  | .fmt2 rc => be16 2 ++ rc

/-- one null command: command word 0 + 6 parameter bytes -/
def encNull (params : Bytes) : Bytes := be16 0 ++ params

def cmdNumber (soundCmd : Bool) : Nat := if soundCmd then 0x8050 else 0x8051

/-- offset of the sound header = everything before it -/
def headerOffset (s : Snd) : Nat := (encPrefix s.format).length + 2 + 8 * (s.nulls.length + 1)

def encCommands (s : Snd) : Bytes :=
  be16 (s.nulls.length + 1) ++ (s.nulls.map encNull).flatten
    ++ (be16 (cmdNumber s.soundCmd) ++ s.param1 ++ be32 (headerOffset s))

/-- the 22 bytes common to both headers: samplePtr = NIL, length | numChannels, rate, loops, encode, baseFrequency = 60 -/
def encSoundHeader (s : Snd) : Bytes :=
  match s.header with
  | .standard =>
      be32 0 ++ be32 s.samples.length ++ be16 s.rateInt ++ s.rateFrac ++ s.loops ++ [0x00, 60]
  | .extended c f b aiff ptrs future =>
      be32 0 ++ be32 c ++ be16 s.rateInt ++ s.rateFrac ++ s.loops ++ [0xFF, 60]
        ++ be32 f ++ aiff ++ ptrs ++ be16 b ++ future

/-- the resource -/
def encode (s : Snd) : Bytes :=
  encPrefix s.format ++ encCommands s ++ encSoundHeader s ++ s.samples ++ s.trailing

/-- big-endian words to little-endian words (an odd trailing byte cannot occur in a valid 16-bit area) -/
def swapPairs : Bytes → Bytes
  | a :: b :: rest => b :: a :: swapPairs rest
  | l => l

/-- what the decoder has to report for `s` -/
def expected (s : Snd) : Sampled :=
  ⟨s.header.channels, s.header.bits, s.rateInt, if s.header.bits = 16 then swapPairs s.samples else s.samples⟩

/-- what reading the WAV file has to give for `s` -/
def expectedWav (s : Snd) : WavParams × Bytes :=
  (⟨s.header.channels, s.header.bits / 8, s.rateInt⟩, (expected s).samples)

/-! ### resources with several sound commands

  Format 1 allows any sequence of commands. `snd_to_sampled` runs every bufferCmd/soundCmd in turn on ONE `SampledSound`
  and appends the frames. A `Multi` is such a resource: a command table whose sound commands point at consecutive
  (header, sample area, gap) parts laid out after the table. -/

/-- one sampled sound: exactly the sound-command part of a `Snd` -/
structure Part where
  soundCmd : Bool
  param1 : Bytes
  rateInt : Nat
  rateFrac : Bytes
  loops : Bytes
  header : Header
  samples : Bytes
  /-- bytes between this sample area and the next part -/
  gap : Bytes
  deriving Repr, DecidableEq, Inhabited

/-- the single-sound resource with the same header fields (only used to share `encSoundHeader` / `Header.Valid`) -/
def Part.asSnd (p : Part) : Snd :=
  ⟨.fmt2 [0, 0], [], p.soundCmd, p.param1, p.rateInt, p.rateFrac, p.loops, p.header, p.samples, []⟩

def Part.Valid (p : Part) : Prop :=
  p.param1.length = 2 ∧ p.rateInt < 65536 ∧ p.rateFrac.length = 2 ∧ p.loops.length = 8 ∧ p.header.Valid p.samples.length

instance (p : Part) : Decidable p.Valid := by unfold Part.Valid; exact inferInstance

/-- header + sample area + gap -/
def Part.body (p : Part) : Bytes := encSoundHeader p.asSnd ++ p.samples ++ p.gap

/-- what this part contributes to the decoded stream -/
def Part.decoded (p : Part) : Bytes := if p.header.bits = 16 then swapPairs p.samples else p.samples

inductive Item where
  /-- a null command (6 parameter bytes) -/
  | null (params : Bytes)
  /-- a bufferCmd / soundCmd with its part -/
  | sound (p : Part)
  deriving Repr, DecidableEq, Inhabited

structure Multi where
  format : Format
  items : List Item
  trailing : Bytes
  deriving Repr, DecidableEq, Inhabited

def partsOf : List Item → List Part
  | [] => []
  | .null _ :: r => partsOf r
  | .sound p :: r => p :: partsOf r

/-- the command records: a sound command carries the offset of its part; parts are laid out consecutively from `off` -/
inductive CmdRec where
  | null (params : Bytes)
  | sound (soundCmd : Bool) (param1 : Bytes) (off : Nat)
  deriving Repr, DecidableEq, Inhabited

def recsOf (off : Nat) : List Item → List CmdRec
  | [] => []
  | .null ps :: r => .null ps :: recsOf off r
  | .sound p :: r => .sound p.soundCmd p.param1 off :: recsOf (off + p.body.length) r

def encRec : CmdRec → Bytes
  | .null ps => be16 0 ++ ps
  | .sound sc p1 off => be16 (cmdNumber sc) ++ p1 ++ be32 off

def bodyOf : List Item → Bytes
  | [] => []
  | .null _ :: r => bodyOf r
  | .sound p :: r => p.body ++ bodyOf r

/-- offset of the first part = end of the command table -/
def Multi.tableEnd (m : Multi) : Nat := (encPrefix m.format).length + 2 + 8 * m.items.length

def encodeMulti (m : Multi) : Bytes :=
  encPrefix m.format ++ be16 m.items.length ++ ((recsOf m.tableEnd m.items).map encRec).flatten ++ bodyOf m.items ++ m.trailing

def Item.Valid : Item → Prop
  | .null ps => ps.length = 6
  | .sound p => p.Valid

instance (i : Item) : Decidable i.Valid := by cases i <;> unfold Item.Valid <;> exact inferInstance

def Multi.Valid (m : Multi) : Prop :=
  m.format.Valid ∧ m.items.length < 32768 ∧ (∀ i ∈ m.items, i.Valid) ∧ (encodeMulti m).length < 2 ^ 31

instance (m : Multi) : Decidable m.Valid := by unfold Multi.Valid; exact inferInstance

/-- all sounds of the resource have one sample format (a standard header means mono 8-bit) -/
def Homogeneous (m : Multi) (c b : Nat) : Prop := ∀ p ∈ partsOf m.items, p.header.channels = c ∧ p.header.bits = b

instance (m : Multi) (c b : Nat) : Decidable (Homogeneous m c b) := by unfold Homogeneous; exact inferInstance

/-- rate reported after the last sound command (`dflt` when there is none) -/
def lastRate (dflt : Int) : List Part → Int
  | [] => dflt
  | p :: r => lastRate (p.rateInt : Int) r

/-- what decoding a homogeneous resource has to give: the common format, the concatenation of the parts' sample areas -/
def expectedMulti (m : Multi) (c b : Nat) : Sampled :=
  ⟨c, b, lastRate 0 (partsOf m.items), ((partsOf m.items).map Part.decoded).flatten⟩

end Drx.SndSpec
