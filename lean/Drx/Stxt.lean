/-
  Model of drxtract/stxt/stxt.py parse_stxt_data (property C16).
  All positions derive from *signed* header fields, so every read uses integer offsets
  (`d[i:i+k]` / `d[i]` with Python's negative-index rules).
-/
import Drx.Py
import Drx.PyI
import Drx.Json
import Drx.Fmap
namespace Drx.Stxt
open Drx Drx.Fmap

/-- `TextFormat(color, start, bold, italic, underline, font_size, font_family)` -/
structure TextFormat where
  color : Text
  start : Int
  bold : Bool
  italic : Bool
  underline : Bool
  fontSize : Int
  fontFamily : Text
  deriving Repr, DecidableEq, Inhabited

/-- `TextData(text, txt_format)` -/
structure TextData where
  text : Text
  formats : List TextFormat
  deriving Repr, DecidableEq, Inhabited

/-- `font_family = 'unknown_%d' % id; for font in fontmap: if font['id'] == id: font_family = font['name']` (last match wins) -/
def fontFamily (fontmap : List FontInfo) (id : Int) : Text :=
  fontmap.foldl (fun acc f => if f.id = id then f.name else acc) ("unknown_".toList ++ intStr id)

/-- `'#%02X%02X%02X' % (r, g, b)` -/
def colorStr (r g b : UInt8) : Text := '#' :: (hex2U r.toNat ++ hex2U g.toNat ++ hex2U b.toNat)

/-- the `for _ in range(nformat_info)` loop over the 20-byte style records -/
def runLoop (fontmap : List FontInfo) (d : Bytes) : Nat → Int → R (List TextFormat)
  | 0, _ => .ok []
  | n+1, idx => do
    let _unknown2 ← getSI .be 2 d idx
    let start ← getSI .be 2 d (idx + 2)
    let _unknown4 ← getSI .be 2 d (idx + 4)
    let _unknown5 ← getSI .be 2 d (idx + 6)
    let fontFamilyId ← getSI .be 2 d (idx + 8)
    let fontFormat ← byteAtI d (idx + 10)
    let _unknown7 ← byteAtI d (idx + 11)
    let fontSize ← getSI .be 2 d (idx + 12)
    let red ← byteAtI d (idx + 14)
    let _unknown9 ← byteAtI d (idx + 15)
    let green ← byteAtI d (idx + 16)
    let _unknown10 ← byteAtI d (idx + 17)
    let blue ← byteAtI d (idx + 18)
    let _unknown11 ← byteAtI d (idx + 19)
    let rest ← runLoop fontmap d n (idx + 20)
    .ok (⟨colorStr red green blue, start, fontFormat.toNat % 2 = 1, fontFormat.toNat / 2 % 2 = 1, fontFormat.toNat / 4 % 2 = 1,
          fontSize, fontFamily fontmap fontFamilyId⟩ :: rest)

/-- stxt.parse_stxt_data -/
def parseStxt (dec : Dec) (fontmap : List FontInfo) (d : Bytes) : R TextData := do
  let idxb ← getS .be 4 d 0
  let nchars ← getS .be 4 d 4
  let _fontDataSize ← getS .be 4 d 8
  let text ← dec (pySlice d idxb (idxb + nchars))
  let idx := idxb + nchars
  let nformat ← getSI .be 2 d idx
  let formats ← runLoop fontmap d nformat.toNat (idx + 2)
  .ok ⟨text, formats⟩

def TextFormat.toJ (f : TextFormat) : J :=
  .obj [("color", .str f.color), ("start", .int f.start), ("bold", .bool f.bold), ("italic", .bool f.italic),
        ("underline", .bool f.underline), ("font_size", .int f.fontSize), ("font_family", .str f.fontFamily)]

def TextData.toJ (t : TextData) : J := .obj [("text", .str t.text), ("txt_format", .arr (t.formats.map TextFormat.toJ))]

end Drx.Stxt
