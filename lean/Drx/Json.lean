/-
  Canonical observable values: a tiny JSON tree rendered exactly like Python's
  `json.dumps(x, sort_keys=True, separators=(',',':'), ensure_ascii=True)`.
-/
import Drx.Py
namespace Drx

inductive J where
  | null
  | bool (b : Bool)
  | int (i : Int)
  | str (s : List Char)
  | arr (l : List J)
  | obj (kv : List (String × J))
  deriving Inhabited

def hex4 (n : Nat) : List Char :=
  [hexDigit (n / 4096 % 16), hexDigit (n / 256 % 16), hexDigit (n / 16 % 16), hexDigit (n % 16)]

def jsonEscChar (c : Char) : List Char :=
  if c = '"' then ['\\', '"']
  else if c = '\\' then ['\\', '\\']
  else if c = '\n' then ['\\', 'n']
  else if c = '\r' then ['\\', 'r']
  else if c = '\t' then ['\\', 't']
  else if c.toNat = 8 then ['\\', 'b']
  else if c.toNat = 12 then ['\\', 'f']
  else if c.toNat < 0x20 ∨ c.toNat > 0x7e then
    if c.toNat < 0x10000 then '\\' :: 'u' :: hex4 c.toNat
    else
      let v := c.toNat - 0x10000
      ('\\' :: 'u' :: hex4 (0xD800 + v / 1024)) ++ ('\\' :: 'u' :: hex4 (0xDC00 + v % 1024))
  else [c]

def jsonStr (s : List Char) : String := String.ofList ('"' :: (s.flatMap jsonEscChar) ++ ['"'])

def insertKV (x : String × J) : List (String × J) → List (String × J)
  | [] => [x]
  | y :: ys => if x.1 < y.1 then x :: y :: ys else y :: insertKV x ys

partial def J.render : J → String
  | .null => "null"
  | .bool true => "true"
  | .bool false => "false"
  | .int i => toString i
  | .str s => jsonStr s
  | .arr l => "[" ++ ",".intercalate (l.map J.render) ++ "]"
  | .obj kv =>
    let sorted := kv.foldr insertKV []
    "{" ++ ",".intercalate (sorted.map fun (k, v) => jsonStr k.toList ++ ":" ++ v.render) ++ "}"

def J.ofR (f : α → J) : R α → J
  | .ok a => f a
  | .error _ => .str "error".toList

def J.s (s : String) : J := .str s.toList
def J.hex (b : Bytes) : J := .str (hexOfBytes b).toList
def J.nat (n : Nat) : J := .int n

end Drx
