/-
  Counting twins of the loops of the bitmap decoders (support for property C10; the model is Drx/Bitd.lean).

  A "round" is one start of a loop body (the round in which an exception is raised included). The twins follow the
  control flow of the model exactly: they call the model's own paint/copy functions for the next state and only add the
  counting, so a twin and the model cannot drift apart. Python loops counted, per decoder class:

    ops        `while (idx < len(fdata)) and (y >= 0)`             PackBits operation loop
    run        `for _ in range(0, run_length)` of the RLE branch
    runBits    `for j in range(0, 8)` inside it                     (1 bit only)
    lit        `for _ in range(0, run_length)` of the literal branch
    litBits    `for j in range(0, 8)` inside it                     (1 bit only)
    rows       `while y >= 0` of decode_raw_data                    (1 and 8 bit)
    cols       `while x < w` of decode_raw_data
    bits       `for j in range(0, 8)` inside it                     (1 bit only)
    deRows     `for y in range(0, h)` of the plane re-ordering      (16 and 24/32 bit)
    dePix      `for x in range(0, w)` inside it

  Header and palette writers contain no Python-level loop. Allocation = the `bytearray`s created (`allocBytes`).
-/
import Drx.Bitd
namespace Drx.Bitd
open Drx

structure Steps where
  ops : Nat := 0
  run : Nat := 0
  runBits : Nat := 0
  lit : Nat := 0
  litBits : Nat := 0
  rows : Nat := 0
  cols : Nat := 0
  bits : Nat := 0
  deRows : Nat := 0
  dePix : Nat := 0
  deriving Repr, DecidableEq, Inhabited

def Steps.total (s : Steps) : Nat :=
  s.ops + s.run + s.runBits + s.lit + s.litBits + s.rows + s.cols + s.bits + s.deRows + s.dePix

def Steps.add (a b : Steps) : Steps :=
  ⟨a.ops + b.ops, a.run + b.run, a.runBits + b.runBits, a.lit + b.lit, a.litBits + b.litBits,
   a.rows + b.rows, a.cols + b.cols, a.bits + b.bits, a.deRows + b.deRows, a.dePix + b.dePix⟩

instance : Add Steps := ⟨Steps.add⟩

/-! ### 8 bit -/

/-- rounds of the RLE paint loop (the breaking round and a raising round count) -/
def paintRun8Steps (g : G8) (y : Nat) (v : UInt8) : Nat → Bytes → Nat → Nat
  | 0, _, _ => 0
  | n+1, data, x =>
    if x ≥ g.w then 1 else
    match (if x < g.wImg then setAt data (y * g.stride + x + g.padW) v else .ok data) with
    | .error _ => 1
    | .ok data => 1 + paintRun8Steps g y v n data (x + 1)

def paintLit8Steps (g : G8) (y : Nat) : Nat → Bytes → Bytes → Nat → Nat
  | 0, _, _, _ => 0
  | n+1, rest, data, x =>
    if x ≥ g.w then 1 else
    match rest with
    | [] => 1
    | v :: rest' =>
      match (if x < g.wImg then setAt data (y * g.stride + x + g.padW) v else .ok data) with
      | .error _ => 1
      | .ok data => 1 + paintLit8Steps g y n rest' data (x + 1)

def loop8Steps (g : G8) (rest : Bytes) (data : Bytes) (x y : Nat) : Steps :=
  match rest with
  | [] => {}
  | val :: r1 =>
    if val.toNat ≥ 128 then
      match r1 with
      | [] => { ops := 1 }
      | v :: r2 =>
        let k := paintRun8Steps g y v (257 - val.toNat) data x
        match paintRun8 g y v (257 - val.toNat) data x with
        | .error _ => { ops := 1, run := k }
        | .ok (data, x) =>
          if x ≥ g.w then (if y = 0 then { ops := 1, run := k } else { ops := 1, run := k } + loop8Steps g r2 data 0 (y - 1))
          else { ops := 1, run := k } + loop8Steps g r2 data x y
    else
      if val.toNat + 1 > r1.length then { ops := 1 }
      else
        let k := paintLit8Steps g y (val.toNat + 1) r1 data x
        match hp : paintLit8 g y (val.toNat + 1) r1 data x with
        | .error _ => { ops := 1, lit := k }
        | .ok (data, x, r2) =>
          if x ≥ g.w then (if y = 0 then { ops := 1, lit := k } else { ops := 1, lit := k } + loop8Steps g r2 data 0 (y - 1))
          else { ops := 1, lit := k } + loop8Steps g r2 data x y
termination_by rest.length
decreasing_by
  all_goals simp_wf
  all_goals first
    | omega
    | (have := paintLit8_len _ _ _ _ _ _ _ _ _ hp; omega)

def compressed8Steps (fdata : Bytes) (W H padW padH stride : Nat) : Steps :=
  let g := g8 W padW stride
  if H < 1 + padH then {} else loop8Steps g fdata (zeros (g.bw * H)) 0 (H - 1 - padH)

def copyRow8Steps (fdata : Bytes) : Nat → Bytes → Nat → Nat → Nat
  | 0, _, _, _ => 0
  | n+1, data, di, idx =>
    match byteAt fdata idx with
    | .error _ => 1
    | .ok v =>
      match setAt data di v with
      | .error _ => 1
      | .ok data => 1 + copyRow8Steps fdata n data (di + 1) (idx + 1)

def rawLoop8Steps (fdata : Bytes) (w wSize padW tail : Nat) : Nat → Bytes → Nat → Steps
  | 0, _, _ => {}
  | y+1, data, di =>
    let k := copyRow8Steps fdata w data (di + padW) (y * wSize)
    match copyRow8 fdata w data (di + padW) (y * wSize) with
    | .error _ => { rows := 1, cols := k }
    | .ok (data, di) => { rows := 1, cols := k } + rawLoop8Steps fdata w wSize padW tail y data (di + tail)

def raw8Steps (fdata : Bytes) (W H padW padH stride : Nat) (wSize : Int) : Steps :=
  let w : Int := (W : Int) - padW
  let tail : Int := (stride : Int) - w - padW
  rawLoop8Steps fdata w.toNat wSize.toNat padW tail.toNat (H - padH) (zeros (stride * H)) 0

/-- did the header and palette writers of a decode succeed (they contain no loops) -/
def preludeOk (m : W Unit) : Bool := match (m []).2 with | .ok _ => true | .error _ => false

def decode8Steps (c : Call) : Steps :=
  let (H, padH) := fixPad c.height c.padH
  let W := c.width
  if !preludeOk (do
      writeBmpHeader true ((W * H + 256 * 4 + 40 + 14 : Nat) : Int) ((256 * 4 + 40 + 14 : Nat) : Int)
      writeInfoHeader40 W H 8 256
      writeColorPalette 8 256 c.palette c.clut) then {} else
  let stride := stride4 W
  let w : Int := (W : Int) - c.padW
  let wSize : Int := w + w % 2
  if (c.fdata.length : Int) = wSize * ((H : Int) - padH)
    then raw8Steps c.fdata W H c.padW padH stride wSize
    else compressed8Steps c.fdata W H c.padW padH stride

/-! ### 1 bit -/

def paintBits1Steps (g : G1) (y : Nat) (v : UInt8) : Nat → Nat → Bytes → Nat → Nat
  | 0, _, _, _ => 0
  | k+1, j, data, x =>
    if x ≥ g.w then 1 else
    match (if x < g.wImg then setAt data (y * g.stride + x + g.padW) (bitOf v j) else .ok data) with
    | .error _ => 1
    | .ok data => 1 + paintBits1Steps g y v k (j + 1) data (x + 1)

/-- (outer rounds, inner rounds) of the RLE branch -/
def paintRun1Steps (g : G1) (y : Nat) (v : UInt8) : Nat → Bytes → Nat → Nat × Nat
  | 0, _, _ => (0, 0)
  | n+1, data, x =>
    let i := paintBits1Steps g y v 8 0 data x
    match paintBits1 g y v 8 0 data x with
    | .error _ => (1, i)
    | .ok (data, x) => let r := paintRun1Steps g y v n data x; (1 + r.1, i + r.2)

def paintLit1Steps (g : G1) (y : Nat) : Nat → Bytes → Bytes → Nat → Nat × Nat
  | 0, _, _, _ => (0, 0)
  | n+1, rest, data, x =>
    match rest with
    | [] => (1, 1)                       -- `fdata[idx]` is evaluated inside the inner loop: the inner round starts too
    | v :: rest' =>
      let i := paintBits1Steps g y v 8 0 data x
      match paintBits1 g y v 8 0 data x with
      | .error _ => (1, i)
      | .ok (data, x) => let r := paintLit1Steps g y n rest' data x; (1 + r.1, i + r.2)

def loop1Steps (g : G1) (rest : Bytes) (data : Bytes) (x y : Nat) : Steps :=
  match rest with
  | [] => {}
  | val :: r1 =>
    if val.toNat ≥ 128 then
      match r1 with
      | [] => { ops := 1 }
      | v :: r2 =>
        let k := paintRun1Steps g y v (257 - val.toNat) data x
        match paintRun1 g y v (257 - val.toNat) data x with
        | .error _ => { ops := 1, run := k.1, runBits := k.2 }
        | .ok (data, x) =>
          if x ≥ g.w then (if y = 0 then { ops := 1, run := k.1, runBits := k.2 }
                           else { ops := 1, run := k.1, runBits := k.2 } + loop1Steps g r2 data 0 (y - 1))
          else { ops := 1, run := k.1, runBits := k.2 } + loop1Steps g r2 data x y
    else
      if val.toNat + 1 > r1.length then { ops := 1 }
      else
        let k := paintLit1Steps g y (val.toNat + 1) r1 data x
        match hp : paintLit1 g y (val.toNat + 1) r1 data x with
        | .error _ => { ops := 1, lit := k.1, litBits := k.2 }
        | .ok (data, x, r2) =>
          if x ≥ g.w then (if y = 0 then { ops := 1, lit := k.1, litBits := k.2 }
                           else { ops := 1, lit := k.1, litBits := k.2 } + loop1Steps g r2 data 0 (y - 1))
          else { ops := 1, lit := k.1, litBits := k.2 } + loop1Steps g r2 data x y
termination_by rest.length
decreasing_by
  all_goals simp_wf
  all_goals first
    | omega
    | (have := paintLit1_len _ _ _ _ _ _ _ _ _ hp; omega)

def compressed1Steps (fdata : Bytes) (W H padW padH stride : Nat) : Steps :=
  let g := g1 W padW stride
  if H < 1 + padH then {} else loop1Steps g fdata (zeros (stride * H)) 0 (H - 1 - padH)

/-- (rounds of `while x < w`, rounds of `for j`) for `n` pixels still to copy, next bit `j` -/
def copyBits1Steps (fdata : Bytes) : Nat → Nat → Bytes → Nat → Nat → Nat × Nat
  | 0, _, _, _, _ => (0, 0)
  | n+1, j, data, di, idx =>
    let o := if j = 0 then 1 else 0
    match byteAt fdata idx with
    | .error _ => (o, 1)
    | .ok v =>
      match setAt data di (bitOf v j) with
      | .error _ => (o, 1)
      | .ok data =>
        let r := if j = 7 then copyBits1Steps fdata n 0 data (di + 1) (idx + 1)
                 else copyBits1Steps fdata n (j + 1) data (di + 1) idx
        (o + r.1, 1 + r.2)

def rawLoop1Steps (fdata : Bytes) (w wSize padW tail : Nat) : Nat → Bytes → Nat → Steps
  | 0, _, _ => {}
  | y+1, data, di =>
    let k := copyBits1Steps fdata w 0 data (di + padW) (y * wSize)
    match copyBits1 fdata w 0 data (di + padW) (y * wSize) with
    | .error _ => { rows := 1, cols := k.1, bits := k.2 }
    | .ok (data, di) => { rows := 1, cols := k.1, bits := k.2 } + rawLoop1Steps fdata w wSize padW tail y data (di + tail)

def raw1Steps (fdata : Bytes) (W H padW padH stride : Nat) (wSize : Int) : Steps :=
  let w : Int := (W : Int) - padW
  let tail : Int := (stride : Int) - w - padW
  rawLoop1Steps fdata w.toNat wSize.toNat padW tail.toNat (H - padH) (zeros (stride * H)) 0

def decode1Steps (c : Call) : Steps :=
  let (H, padH) := fixPad c.height c.padH
  let W := c.width
  if !preludeOk (do
      writeBmpHeader true ((W * H + 2 * 4 + 40 + 14 : Nat) : Int) ((2 * 4 + 40 + 14 : Nat) : Int)
      writeInfoHeader40 W H 8 2
      writeColorPalette 1 2 c.palette c.clut) then {} else
  let stride := stride4 W
  let w : Int := (W : Int) - c.padW
  let wSize := wSize1 w
  if (c.fdata.length : Int) = wSize * ((H : Int) - padH)
    then raw1Steps c.fdata W H c.padW padH stride wSize
    else compressed1Steps c.fdata W H c.padW padH stride

/-! ### 16 bit -/

def paintRun16Steps (width : Nat) (y : Int) (v : UInt8) : Nat → Bytes → Nat → Nat
  | 0, _, _ => 0
  | n+1, data, x =>
    match setAtI data (y * width + x) v with
    | .error _ => 1
    | .ok data => 1 + paintRun16Steps width y v n data (x + 1)

def paintLit16Steps (width : Nat) : Nat → Bytes → Bytes → Nat → Int → Nat
  | 0, _, _, _, _ => 0
  | n+1, rest, data, x, y =>
    match rest with
    | [] => 1
    | v :: rest' =>
      match setAtI data (y * width + x) v with
      | .error _ => 1
      | .ok data =>
        if x + 1 ≥ width then 1 + paintLit16Steps width n rest' data 0 (y - 1)
        else 1 + paintLit16Steps width n rest' data (x + 1) y

def loop16Steps (width : Nat) (rest : Bytes) (data : Bytes) (x : Nat) (y : Int) : Steps :=
  if y < 0 then {} else
  match rest with
  | [] => {}
  | val :: r1 =>
    if val.toNat ≥ 128 then
      match r1 with
      | [] => { ops := 1 }
      | v :: r2 =>
        let run := 257 - val.toNat
        let (x, y) := jump16 width run x y
        let k := paintRun16Steps width y v run data x
        match paintRun16 width y v run data x with
        | .error _ => { ops := 1, run := k }
        | .ok (data, x) => { ops := 1, run := k } + loop16Steps width r2 data x y
    else
      let run := val.toNat + 1
      let (x, y) := jump16 width run x y
      let k := paintLit16Steps width run r1 data x y
      match hp : paintLit16 width run r1 data x y with
      | .error _ => { ops := 1, lit := k }
      | .ok (data, x, y, r2) => { ops := 1, lit := k } + loop16Steps width r2 data x y
termination_by rest.length
decreasing_by
  all_goals simp_wf
  all_goals first
    | omega
    | (have := paintLit16_len _ _ _ _ _ _ _ _ _ _ hp; omega)

def compressed16Steps (fdata : Bytes) (W H padW padH : Nat) : Steps :=
  let w := W - padW
  let h := H - padH
  let s := loop16Steps (2 * w) fdata (zeros (2 * w * h)) 0 ((h : Int) - 1)
  match loop16 (2 * w) fdata (zeros (2 * w * h)) 0 ((h : Int) - 1) with
  | .error _ => s
  | .ok _ => s + { deRows := h, dePix := h * w }

def decode16Steps (c : Call) : Steps :=
  let (H, padH) := fixPad c.height c.padH
  let W := c.width
  if !preludeOk (do
      writeBmpHeader true ((W * H * 2 + 124 + 14 : Nat) : Int) ((124 + 14 : Nat) : Int)
      writeInfoHeader124 W H 16) then {} else
  let wSize : Int := ((W : Int) - c.padW) * 2
  if (c.fdata.length : Int) = wSize * ((H : Int) - padH) then {} else compressed16Steps c.fdata W H c.padW padH

/-! ### 24/32 bit -/

def paintRun24Steps (width : Nat) (v : UInt8) : Nat → Bytes → Nat → Int → Nat
  | 0, _, _, _ => 0
  | n+1, data, x, y =>
    match put24 width data x y v with
    | .error _ => 1
    | .ok (data, x, y) => 1 + paintRun24Steps width v n data x y

def paintLit24Steps (width : Nat) : Nat → Bytes → Bytes → Nat → Int → Nat
  | 0, _, _, _, _ => 0
  | n+1, rest, data, x, y =>
    match rest with
    | [] => 1
    | v :: rest' =>
      match put24 width data x y v with
      | .error _ => 1
      | .ok (data, x, y) => 1 + paintLit24Steps width n rest' data x y

/-- the `val == 0` branch of the Python paints one byte without a loop, so a literal header 0 makes no `lit` round -/
def loop24Steps (width : Nat) (rest : Bytes) (data : Bytes) (x : Nat) (y : Int) : Steps :=
  if y < 0 then {} else
  match rest with
  | [] => {}
  | val :: r1 =>
    if val.toNat ≥ 128 then
      match r1 with
      | [] => { ops := 1 }
      | v :: r2 =>
        let k := paintRun24Steps width v (257 - val.toNat) data x y
        match paintRun24 width v (257 - val.toNat) data x y with
        | .error _ => { ops := 1, run := k }
        | .ok (data, x, y) => { ops := 1, run := k } + loop24Steps width r2 data x y
    else
      let k := if val.toNat = 0 then 0 else paintLit24Steps width (val.toNat + 1) r1 data x y
      match hp : paintLit24 width (val.toNat + 1) r1 data x y with
      | .error _ => { ops := 1, lit := k }
      | .ok (data, x, y, r2) => { ops := 1, lit := k } + loop24Steps width r2 data x y
termination_by rest.length
decreasing_by
  all_goals simp_wf
  all_goals first
    | omega
    | (have := paintLit24_len _ _ _ _ _ _ _ _ _ _ hp; omega)

def compressed24Steps (fdata : Bytes) (W H padW padH : Nat) : Steps :=
  let w := W - padW
  let h := H - padH
  let s := loop24Steps (4 * w) fdata (zeros (4 * w * h)) 0 ((h : Int) - 1)
  match loop24 (4 * w) fdata (zeros (4 * w * h)) 0 ((h : Int) - 1) with
  | .error _ => s
  | .ok _ => s + { deRows := h, dePix := h * w }

def decode24Steps (c : Call) : Steps :=
  let (H, padH) := fixPad c.height c.padH
  let W := c.width
  if !preludeOk (do
      writeBmpHeader true ((W * H * 3 + 40 + 14 : Nat) : Int) ((40 + 14 : Nat) : Int)
      writeInfoHeader40 W H 24 0) then {} else
  let wSize : Int := ((W : Int) - c.padW) * 4
  if (c.fdata.length : Int) = wSize * ((H : Int) - padH) then {} else compressed24Steps c.fdata W H c.padW padH

/-! ### bitd2bmp -/

def decodeClassSteps (cls : String) (c : Call) : Steps :=
  if cls = "Decoder1b" then decode1Steps c
  else if cls = "Decoder8b" then decode8Steps c
  else if cls = "Decoder16b" then decode16Steps c
  else if cls = "Decoder24b" then decode24Steps c
  else {}

/-- loop rounds of one `bitd2bmp` call -/
def bitd2bmpSteps (c : Call) : Steps :=
  match lookupN c.depth Gen.BitdTables.decoders with
  | none => {}
  | some cls => decodeClassSteps cls { c with palette := paletteName c }

/-- bytes of the `bytearray`s a decode allocates (pixel buffers; headers and palette are ≤ 1078 bytes) -/
def allocBytes (c : Call) : Nat :=
  let (H, padH) := fixPad c.height c.padH
  let W := c.width
  match lookupN c.depth Gen.BitdTables.decoders with
  | some "Decoder8b" => (stride4 W + 4) * H
  | some "Decoder1b" => stride4 W * H
  | some "Decoder16b" => 2 * (W - c.padW) * (H - padH) + (2 * W + (2 * W) % 4) * H
  | some "Decoder24b" => 4 * (W - c.padW) * (H - padH) + (3 * W + (4 - (3 * W) % 4) % 4) * H
  | _ => 0

/-- loop rounds / allocation of `bitd2bmp` on integer offsets -/
def bitd2bmpStepsI (r : Request) : Steps := bitd2bmpSteps r.normalise
def allocBytesI (r : Request) : Nat := allocBytes r.normalise

end Drx.Bitd
