/-
  Model of drxtract/bitd/{bitd2bmp,decoder,decoder1b,decoder4b,decoder8b,decoder16b,decoder24b}.py
  (properties C06 and C13).

  * The shared `io.BytesIO` of a decoder object is an explicit buffer threaded through the
    writers (`W α = Buf → Buf × R α`): an exception leaves whatever was written so far.
  * `reset = true` is the code as it is today (commit "fix: every bitmap decode starts from an
    empty output buffer": `writeBmpHeader` replaces the buffer first); `reset = false` is the
    code before that repair and is kept only so that C13 can exhibit F11 as a theorem.
  * `bytearray` is `List UInt8`, `data[p] = v` is `setAt`/`setAtI` (IndexError when out of range,
    negative indices wrap like CPython's).
  * The `while idx < len(fdata)` PackBits loops recurse on the not yet consumed suffix
    `fdata[idx:]` (so `fdata[idx]` is the head of the list); no fuel anywhere.
-/
import Drx.Py
import Drx.Gen.BitdTables
namespace Drx.Bitd
open Drx

abbrev Buf := Bytes

def zeros (n : Nat) : Bytes := List.replicate n 0

/-- `data[p] = v` for `p ≥ 0` -/
def setAt (d : Bytes) (p : Nat) (v : UInt8) : R Bytes :=
  if p < d.length then .ok (d.set p v) else .error .index

/-- `data[p] = v` for any integer `p` (negative = from the end) -/
def setAtI (d : Bytes) (p : Int) (v : UInt8) : R Bytes :=
  if 0 ≤ p then setAt d p.toNat v
  else if 0 ≤ p + (d.length : Int) then setAt d (p + (d.length : Int)).toNat v
  else .error .index

/-! ### writers over the shared buffer -/

/-- a writer: buffer before → (buffer after, result); the buffer survives an exception -/
def W (α : Type) := Buf → Buf × R α

def W.pure (a : α) : W α := fun b => (b, .ok a)
def W.bind (x : W α) (f : α → W β) : W β := fun b =>
  match x b with
  | (b', .ok a) => f a b'
  | (b', .error e) => (b', .error e)

instance : Monad W where
  pure := W.pure
  bind := W.bind

/-- `self.bytesIo.write(data)` -/
def write (d : Bytes) : W Unit := fun b => (b ++ d, .ok ())
/-- an exception raised between two writes -/
def raise (e : Err) : W α := fun b => (b, .error e)
/-- lift a computation that does not touch the buffer -/
def liftR (r : R α) : W α := fun b => (b, r)

/-- `struct.pack('<i', v)` -/
def packI32 (v : Int) : R Bytes :=
  if -(2147483648 : Int) ≤ v ∧ v < 2147483648 then .ok (encS .le 4 v) else .error .struct

/-- `struct.pack('<h', v)` -/
def packI16 (v : Int) : R Bytes :=
  if -(32768 : Int) ≤ v ∧ v < 32768 then .ok (encS .le 2 v) else .error .struct

/-- `struct.pack('<I', v)` -/
def packU32 (v : Nat) : R Bytes :=
  if v < 4294967296 then .ok (encOrd .le 4 v) else .error .struct

def packAll (f : α → R Bytes) : List α → R Bytes
  | [] => .ok []
  | a :: as => do
    let x ← f a
    let y ← packAll f as
    .ok (x ++ y)

/-- Decoder.writeBmpHeader: (today) fresh buffer, "BM", then `struct.pack('<ihhi', size, 0, 0, offset)` -/
def writeBmpHeader (reset : Bool) (size offset : Int) : W Unit := fun b =>
  let b := if reset then [] else b
  (do write [0x42, 0x4D]
      let s ← liftR (packI32 size)
      let r1 ← liftR (packI16 0)
      let r2 ← liftR (packI16 0)
      let o ← liftR (packI32 offset)
      write (s ++ r1 ++ r2 ++ o) : W Unit) b

/-- Decoder.writeBitmapInfoHeader: `struct.pack('<iiihhiiiiii', 40, w, h, 1, bpp, 0, 0, 0, 0, nc, nc)` -/
def writeInfoHeader40 (width height : Int) (bpp ncolors : Nat) : W Unit := do
  let a ← liftR (packAll packI32 [40, width, height])
  let b ← liftR (packAll packI16 [1, (bpp : Int)])
  let c ← liftR (packAll packI32 [0, 0, 0, 0, (ncolors : Int), (ncolors : Int)])
  write (a ++ b ++ c)

/-- the 27 unsigned words that follow `124, w, h, 1, bpp` in Decoder16b.writeBitmapInfoHeader -/
def v5tail : List Nat :=
  [3, 0, 0, 0, 0, 0, 0x7C00, 0x3E0, 0x1F, 0, 0x73524742,
   0, 0, 0, 0, 0, 0, 0, 0, 0, 0, 0, 0, 2, 0, 0, 0]

/-- Decoder16b.writeBitmapInfoHeader (124-byte header, BI_BITFIELDS) -/
def writeInfoHeader124 (width height : Int) (bpp : Nat) : W Unit := do
  let a ← liftR (packAll packI32 [124, width, height])
  let b ← liftR (packAll packI16 [1, (bpp : Int)])
  let c ← liftR (packAll packU32 v5tail)
  write (a ++ b ++ c)

def lookupS (k : String) : List (String × β) → Option β
  | [] => none
  | (k', v) :: r => if k = k' then some v else lookupS k r

def lookupN (k : Nat) : List (Nat × β) → Option β
  | [] => none
  | (k', v) :: r => if k = k' then some v else lookupN k r

/-- `struct.pack('B'*length, *values)`: exactly `length` values, each a byte -/
def packPalette (length : Nat) (vals : List Nat) : R Bytes :=
  if vals.length = length ∧ vals.all (· < 256) then .ok (vals.map UInt8.ofNat) else .error .struct

/-- Decoder.writeColorPalette -/
def writeColorPalette (nbits ncolors : Nat) (name : String) (clut : Bytes) : W Unit := do
  let length := ncolors * 4
  if clut.length > 0 then
    -- custom palette: `struct.pack(fmt, *palette_data[0:length])`
    let p := clut.take length
    if p.length = length then write p else raise .struct
  else
    match lookupN nbits Gen.BitdTables.palettes with
    | none => write []
    | some tbl =>
      match lookupS name tbl with
      | some vals => do let p ← liftR (packPalette length vals); write p
      | none =>
        match lookupS "default" tbl with
        | some vals => do let p ← liftR (packPalette length vals); write p
        | none => raise .key

/-- Decoder.getBmpImage: the buffer content is returned and the buffer replaced by an empty one -/
def getBmpImage : W Bytes := fun b => ([], .ok b)

/-! ### 8 bits per pixel (decoder8b.py) -/

/-- what `decode_compressed_data` derives from its arguments (comparisons with `x ≥ 0` only, so the
    possibly negative Python values are clamped at 0) -/
structure G8 where
  stride : Nat   -- `width`
  padW : Nat
  wImg : Nat     -- `w_img`
  w : Nat        -- `w` (even)
  bw : Nat
  deriving Repr, DecidableEq

def g8 (W padW stride : Nat) : G8 :=
  let wi : Int := (W : Int) - padW
  let w : Int := wi + wi % 2
  { stride := stride, padW := padW, wImg := wi.toNat, w := w.toNat,
    bw := if w + padW > stride then stride + 4 else stride }

/-- `for _ in range(run_length)` of the RLE branch -/
def paintRun8 (g : G8) (y : Nat) (v : UInt8) : Nat → Bytes → Nat → R (Bytes × Nat)
  | 0, data, x => .ok (data, x)
  | n+1, data, x =>
    if x ≥ g.w then .ok (data, x) else
    match (if x < g.wImg then setAt data (y * g.stride + x + g.padW) v else .ok data) with
    | .error e => .error e
    | .ok data => paintRun8 g y v n data (x + 1)

/-- `for _ in range(run_length)` of the literal branch on `fdata[idx:]`;
    returns the data, `x` and the unconsumed input (a break leaves the rest of the literal unread) -/
def paintLit8 (g : G8) (y : Nat) : Nat → Bytes → Bytes → Nat → R (Bytes × Nat × Bytes)
  | 0, rest, data, x => .ok (data, x, rest)
  | n+1, rest, data, x =>
    if x ≥ g.w then .ok (data, x, rest) else
    match rest with
    | [] => .error .index
    | v :: rest' =>
      match (if x < g.wImg then setAt data (y * g.stride + x + g.padW) v else .ok data) with
      | .error e => .error e
      | .ok data => paintLit8 g y n rest' data (x + 1)

theorem paintLit8_len (g : G8) (y n : Nat) (rest data : Bytes) (x : Nat) (d' : Bytes) (x' : Nat) (r' : Bytes)
    (h : paintLit8 g y n rest data x = .ok (d', x', r')) : r'.length ≤ rest.length := by
  induction n generalizing rest data x with
  | zero => simp [paintLit8] at h; simp [h.2.2]
  | succ n ih =>
    unfold paintLit8 at h
    split at h
    · simp at h; simp [h.2.2]
    · split at h
      · simp at h
      · split at h
        · simp at h
        · have := ih _ _ _ h; simp; omega

/-- the `while (idx < len(fdata)) and (y >= 0)` loop of Decoder8b.decode_compressed_data; `rest = fdata[idx:]` -/
def loop8 (g : G8) (rest : Bytes) (data : Bytes) (x y : Nat) : R Bytes :=
  match rest with
  | [] => .ok data
  | val :: r1 =>
    if val.toNat ≥ 128 then
      match r1 with
      | [] => .ok data                      -- "Unexpected end of data": break
      | v :: r2 =>
        match paintRun8 g y v (257 - val.toNat) data x with
        | .error e => .error e
        | .ok (data, x) =>
          if x ≥ g.w then (if y = 0 then .ok data else loop8 g r2 data 0 (y - 1))
          else loop8 g r2 data x y
    else
      if val.toNat + 1 > r1.length then .ok data      -- "Bad run length": break
      else
        match hp : paintLit8 g y (val.toNat + 1) r1 data x with
        | .error e => .error e
        | .ok (data, x, r2) =>
          if x ≥ g.w then (if y = 0 then .ok data else loop8 g r2 data 0 (y - 1))
          else loop8 g r2 data x y
termination_by rest.length
decreasing_by
  all_goals simp_wf
  all_goals first
    | omega
    | (have := paintLit8_len _ _ _ _ _ _ _ _ _ hp; omega)

/-- Decoder8b.decode_compressed_data -/
def compressed8 (fdata : Bytes) (W H padW : Nat) (padH : Nat) (stride : Nat) : R Bytes :=
  let g := g8 W padW stride
  let data := zeros (g.bw * H)
  if H < 1 + padH then .ok data          -- y = h - 1 - padding_h < 0: the loop body never runs
  else loop8 g fdata data 0 (H - 1 - padH)

/-- the `while x < w` loop of Decoder8b.decode_raw_data -/
def copyRow8 (fdata : Bytes) : Nat → Bytes → Nat → Nat → R (Bytes × Nat)
  | 0, data, di, _ => .ok (data, di)
  | n+1, data, di, idx =>
    match byteAt fdata idx with
    | .error e => .error e
    | .ok v =>
      match setAt data di v with
      | .error e => .error e
      | .ok data => copyRow8 fdata n data (di + 1) (idx + 1)

/-- the `while y >= 0` loop of decode_raw_data; the first argument is `y + 1` -/
def rawLoop8 (fdata : Bytes) (w wSize padW tail : Nat) : Nat → Bytes → Nat → R Bytes
  | 0, data, _ => .ok data
  | y+1, data, di =>
    match copyRow8 fdata w data (di + padW) (y * wSize) with
    | .error e => .error e
    | .ok (data, di) => rawLoop8 fdata w wSize padW tail y data (di + tail)

/-- Decoder8b.decode_raw_data -/
def raw8 (fdata : Bytes) (W H padW padH stride : Nat) (wSize : Int) : R Bytes :=
  let w : Int := (W : Int) - padW
  let tail : Int := (stride : Int) - w - padW
  rawLoop8 fdata w.toNat wSize.toNat padW tail.toNat (H - padH) (zeros (stride * H)) 0

/-- `bmp_height`/`bmp_padding_h` after "Sometimes the padding is negative" -/
def fixPad (height : Nat) (padH : Int) : Nat × Nat :=
  if padH < 0 then (height + padH.natAbs, 0) else (height, padH.toNat)

def stride4 (W : Nat) : Nat := if W % 4 > 0 then W + 4 - W % 4 else W

/-- a decode request as `bitd2bmp` receives it -/
structure Call where
  depth : Nat
  width : Nat
  height : Nat
  padW : Nat
  padH : Int
  palette : String      -- `str(castData['palette_txt'])`
  clut : Bytes
  fdata : Bytes
  deriving Repr, DecidableEq

/-- Decoder8b.decode -/
def decode8 (reset : Bool) (c : Call) : W Bytes := do
  let (H, padH) := fixPad c.height c.padH
  let W := c.width
  writeBmpHeader reset ((W * H + 256 * 4 + 40 + 14 : Nat) : Int) ((256 * 4 + 40 + 14 : Nat) : Int)
  writeInfoHeader40 W H 8 256
  writeColorPalette 8 256 c.palette c.clut
  let stride := stride4 W
  let w : Int := (W : Int) - c.padW
  let wSize : Int := w + w % 2
  let bmp ← liftR (if (c.fdata.length : Int) = wSize * ((H : Int) - padH)
      then raw8 c.fdata W H c.padW padH stride wSize
      else compressed8 c.fdata W H c.padW padH stride)
  write bmp
  getBmpImage

/-! ### 1 bit per pixel (decoder1b.py) -/

/-- `(v >> (7-j)) & 1` -/
def bitOf (v : UInt8) (j : Nat) : UInt8 := UInt8.ofNat (v.toNat / 2 ^ (7 - j) % 2)

structure G1 where
  stride : Nat
  padW : Nat
  wImg : Nat
  w : Nat      -- `w_img` rounded up to a multiple of 16
  deriving Repr, DecidableEq

def g1 (W padW stride : Nat) : G1 :=
  let wi : Int := (W : Int) - padW
  let inc : Int := (16 - wi % 16) % 16
  { stride := stride, padW := padW, wImg := wi.toNat, w := (wi + inc).toNat }

/-- `for j in range(0, 8)` painting the bits of one byte, starting at bit `j` (8 - j iterations) -/
def paintBits1 (g : G1) (y : Nat) (v : UInt8) : Nat → Nat → Bytes → Nat → R (Bytes × Nat)
  | 0, _, data, x => .ok (data, x)
  | k+1, j, data, x =>
    if x ≥ g.w then .ok (data, x) else
    match (if x < g.wImg then setAt data (y * g.stride + x + g.padW) (bitOf v j) else .ok data) with
    | .error e => .error e
    | .ok data => paintBits1 g y v k (j + 1) data (x + 1)

/-- `for _ in range(run_length)` of the RLE branch -/
def paintRun1 (g : G1) (y : Nat) (v : UInt8) : Nat → Bytes → Nat → R (Bytes × Nat)
  | 0, data, x => .ok (data, x)
  | n+1, data, x =>
    match paintBits1 g y v 8 0 data x with
    | .error e => .error e
    | .ok (data, x) => paintRun1 g y v n data x

/-- `for _ in range(run_length)` of the literal branch (every byte of the literal is consumed) -/
def paintLit1 (g : G1) (y : Nat) : Nat → Bytes → Bytes → Nat → R (Bytes × Nat × Bytes)
  | 0, rest, data, x => .ok (data, x, rest)
  | n+1, rest, data, x =>
    match rest with
    | [] => .error .index
    | v :: rest' =>
      match paintBits1 g y v 8 0 data x with
      | .error e => .error e
      | .ok (data, x) => paintLit1 g y n rest' data x

theorem paintLit1_len (g : G1) (y n : Nat) (rest data : Bytes) (x : Nat) (d' : Bytes) (x' : Nat) (r' : Bytes)
    (h : paintLit1 g y n rest data x = .ok (d', x', r')) : r'.length ≤ rest.length := by
  induction n generalizing rest data x with
  | zero => simp [paintLit1] at h; simp [h.2.2]
  | succ n ih =>
    unfold paintLit1 at h
    split at h
    · simp at h
    · split at h
      · simp at h
      · have := ih _ _ _ h; simp; omega

/-- the PackBits loop of Decoder1b.decode_compressed_data -/
def loop1 (g : G1) (rest : Bytes) (data : Bytes) (x y : Nat) : R Bytes :=
  match rest with
  | [] => .ok data
  | val :: r1 =>
    if val.toNat ≥ 128 then
      match r1 with
      | [] => .ok data
      | v :: r2 =>
        match paintRun1 g y v (257 - val.toNat) data x with
        | .error e => .error e
        | .ok (data, x) =>
          if x ≥ g.w then (if y = 0 then .ok data else loop1 g r2 data 0 (y - 1))
          else loop1 g r2 data x y
    else
      if val.toNat + 1 > r1.length then .ok data
      else
        match hp : paintLit1 g y (val.toNat + 1) r1 data x with
        | .error e => .error e
        | .ok (data, x, r2) =>
          if x ≥ g.w then (if y = 0 then .ok data else loop1 g r2 data 0 (y - 1))
          else loop1 g r2 data x y
termination_by rest.length
decreasing_by
  all_goals simp_wf
  all_goals first
    | omega
    | (have := paintLit1_len _ _ _ _ _ _ _ _ _ hp; omega)

/-- Decoder1b.decode_compressed_data -/
def compressed1 (fdata : Bytes) (W H padW padH stride : Nat) : R Bytes :=
  let g := g1 W padW stride
  let data := zeros (stride * H)
  if H < 1 + padH then .ok data
  else loop1 g fdata data 0 (H - 1 - padH)

/-- the `while x < w` / `for j in range(8)` loops of Decoder1b.decode_raw_data, flattened:
    `n` pixels still to copy, next bit `j` of `fdata[idx]` -/
def copyBits1 (fdata : Bytes) : Nat → Nat → Bytes → Nat → Nat → R (Bytes × Nat)
  | 0, _, data, di, _ => .ok (data, di)
  | n+1, j, data, di, idx =>
    match byteAt fdata idx with
    | .error e => .error e
    | .ok v =>
      match setAt data di (bitOf v j) with
      | .error e => .error e
      | .ok data =>
        if j = 7 then copyBits1 fdata n 0 data (di + 1) (idx + 1)
        else copyBits1 fdata n (j + 1) data (di + 1) idx

def rawLoop1 (fdata : Bytes) (w wSize padW tail : Nat) : Nat → Bytes → Nat → R Bytes
  | 0, data, _ => .ok data
  | y+1, data, di =>
    match copyBits1 fdata w 0 data (di + padW) (y * wSize) with
    | .error e => .error e
    | .ok (data, di) => rawLoop1 fdata w wSize padW tail y data (di + tail)

/-- Decoder1b.decode_raw_data -/
def raw1 (fdata : Bytes) (W H padW padH stride : Nat) (wSize : Int) : R Bytes :=
  let w : Int := (W : Int) - padW
  let tail : Int := (stride : Int) - w - padW
  rawLoop1 fdata w.toNat wSize.toNat padW tail.toNat (H - padH) (zeros (stride * H)) 0

/-- `w_size`: `int(w/8)` (+1 if `w%8 > 0`), then made even -/
def wSize1 (w : Int) : Int :=
  let a : Int := Int.tdiv w 8
  let a := if w % 8 > 0 then a + 1 else a
  a + a % 2

/-- Decoder1b.decode (the BMP is written with 8 bits per pixel and a two-colour table) -/
def decode1 (reset : Bool) (c : Call) : W Bytes := do
  let (H, padH) := fixPad c.height c.padH
  let W := c.width
  writeBmpHeader reset ((W * H + 2 * 4 + 40 + 14 : Nat) : Int) ((2 * 4 + 40 + 14 : Nat) : Int)
  writeInfoHeader40 W H 8 2
  writeColorPalette 1 2 c.palette c.clut
  let stride := stride4 W
  let w : Int := (W : Int) - c.padW
  let wSize := wSize1 w
  let bmp ← liftR (if (c.fdata.length : Int) = wSize * ((H : Int) - padH)
      then raw1 c.fdata W H c.padW padH stride wSize
      else compressed1 c.fdata W H c.padW padH stride)
  write bmp
  getBmpImage

/-! ### 4 bits per pixel (decoder4b.py): headers and palette are written, then both paths raise -/

def decode4 (reset : Bool) (c : Call) : W Bytes := do
  let (H, _padH) := fixPad c.height c.padH
  let W := c.width
  writeBmpHeader reset ((W * H + 16 * 4 + 40 + 14 : Nat) : Int) ((16 * 4 + 40 + 14 : Nat) : Int)
  writeInfoHeader40 W H 4 16
  writeColorPalette 4 16 c.palette c.clut
  raise .notImpl

/-! ### 16 bits per pixel (decoder16b.py) -/

/-- "Jump to next row when necessary", the statement before a run or literal is painted (`width` = bytes per scan line) -/
def jump16 (width : Nat) (run : Nat) (x : Nat) (y : Int) : Nat × Int :=
  if x + run > width then (0, y - 1) else (x, y)

/-- RLE branch: `for _ in range(run_length): data[y*width + x] = v; x += 1` (no wrap inside the loop) -/
def paintRun16 (width : Nat) (y : Int) (v : UInt8) : Nat → Bytes → Nat → R (Bytes × Nat)
  | 0, data, x => .ok (data, x)
  | n+1, data, x =>
    match setAtI data (y * width + x) v with
    | .error e => .error e
    | .ok data => paintRun16 width y v n data (x + 1)

/-- literal branch: `data[p] = fdata[idx]; idx += 1; x += 1; if x >= width: x = 0; y -= 1` -/
def paintLit16 (width : Nat) : Nat → Bytes → Bytes → Nat → Int → R (Bytes × Nat × Int × Bytes)
  | 0, rest, data, x, y => .ok (data, x, y, rest)
  | n+1, rest, data, x, y =>
    match rest with
    | [] => .error .index
    | v :: rest' =>
      match setAtI data (y * width + x) v with
      | .error e => .error e
      | .ok data =>
        if x + 1 ≥ width then paintLit16 width n rest' data 0 (y - 1)
        else paintLit16 width n rest' data (x + 1) y

theorem paintLit16_len (width n : Nat) (rest data : Bytes) (x : Nat) (y : Int) (d' : Bytes) (x' : Nat) (y' : Int) (r' : Bytes)
    (h : paintLit16 width n rest data x y = .ok (d', x', y', r')) : r'.length + n = rest.length := by
  induction n generalizing rest data x y with
  | zero => simp [paintLit16] at h; simp [h.2.2.2]
  | succ n ih =>
    unfold paintLit16 at h
    split at h
    · simp at h
    · split at h
      · simp at h
      · split at h
        · have := ih _ _ _ _ h; simp; omega
        · have := ih _ _ _ _ h; simp; omega

/-- the PackBits loop of Decoder16b.decode_compressed_data (`width` = 2·(pixels per scan line)) -/
def loop16 (width : Nat) (rest : Bytes) (data : Bytes) (x : Nat) (y : Int) : R Bytes :=
  if y < 0 then .ok data else
  match rest with
  | [] => .ok data
  | val :: r1 =>
    if val.toNat ≥ 128 then
      match r1 with
      | [] => .error .index                       -- `fdata[idx]` past the end
      | v :: r2 =>
        let run := 257 - val.toNat
        let (x, y) := jump16 width run x y
        match paintRun16 width y v run data x with
        | .error e => .error e
        | .ok (data, x) => loop16 width r2 data x y
    else
      let run := val.toNat + 1
      let (x, y) := jump16 width run x y
      match hp : paintLit16 width run r1 data x y with
      | .error e => .error e
      | .ok (data, x, y, r2) => loop16 width r2 data x y
termination_by rest.length
decreasing_by
  all_goals simp_wf
  all_goals first
    | omega
    | (have := paintLit16_len _ _ _ _ _ _ _ _ _ _ hp; omega)

/-- one output row of the "Sort lower and upper bytes" loops: source row = `w` bytes (written second
    of each pixel) then `w` bytes (written first) -/
def interleave2 : Bytes → Bytes → Bytes
  | a :: as, b :: bs => a :: b :: interleave2 as bs
  | _, _ => []

def deint16 (data : Bytes) (w h cw ch padW : Nat) : Bytes :=
  let stride := 2 * cw + (2 * cw) % 4
  if w = 0 then zeros (stride * ch) else
  ((List.range h).flatMap fun y =>
    zeros (2 * padW) ++ interleave2 (slice data (y * (2 * w) + w) (y * (2 * w) + 2 * w)) (slice data (y * (2 * w)) (y * (2 * w) + w))
      ++ zeros (stride - 2 * padW - 2 * w))
  ++ zeros (stride * (ch - h))

/-- Decoder16b.decode_compressed_data: the image's `max(W - padW, 0)` by `max(H - padH, 0)` scan lines are unpacked into a
    planar buffer of their own and then laid out on the `W` by `H` canvas at column `padW` (rows bottom-up, so the `padH`
    empty rows are the last ones) -/
def compressed16 (fdata : Bytes) (W H padW padH : Nat) : R Bytes :=
  let w := W - padW
  let h := H - padH
  match loop16 (2 * w) fdata (zeros (2 * w * h)) 0 ((h : Int) - 1) with
  | .error e => .error e
  | .ok data => .ok (deint16 data w h W H padW)

/-- Decoder16b.decode -/
def decode16 (reset : Bool) (c : Call) : W Bytes := do
  let (H, padH) := fixPad c.height c.padH
  let W := c.width
  writeBmpHeader reset ((W * H * 2 + 124 + 14 : Nat) : Int) ((124 + 14 : Nat) : Int)
  writeInfoHeader124 W H 16
  let wSize : Int := ((W : Int) - c.padW) * 2
  let bmp ← liftR (if (c.fdata.length : Int) = wSize * ((H : Int) - padH)
      then (.error .notImpl : R Bytes)
      else compressed16 c.fdata W H c.padW padH)
  write bmp
  getBmpImage

/-! ### 24/32 bits per pixel (decoder24b.py) -/

/-- `data[y*width + x] = v; x += 1; if x >= width: x = 0; y -= 1` -/
def put24 (width : Nat) (data : Bytes) (x : Nat) (y : Int) (v : UInt8) : R (Bytes × Nat × Int) :=
  match setAtI data (y * width + x) v with
  | .error e => .error e
  | .ok data => if x + 1 ≥ width then .ok (data, 0, y - 1) else .ok (data, x + 1, y)

def paintRun24 (width : Nat) (v : UInt8) : Nat → Bytes → Nat → Int → R (Bytes × Nat × Int)
  | 0, data, x, y => .ok (data, x, y)
  | n+1, data, x, y =>
    match put24 width data x y v with
    | .error e => .error e
    | .ok (data, x, y) => paintRun24 width v n data x y

def paintLit24 (width : Nat) : Nat → Bytes → Bytes → Nat → Int → R (Bytes × Nat × Int × Bytes)
  | 0, rest, data, x, y => .ok (data, x, y, rest)
  | n+1, rest, data, x, y =>
    match rest with
    | [] => .error .index
    | v :: rest' =>
      match put24 width data x y v with
      | .error e => .error e
      | .ok (data, x, y) => paintLit24 width n rest' data x y

theorem paintLit24_len (width n : Nat) (rest data : Bytes) (x : Nat) (y : Int) (d' : Bytes) (x' : Nat) (y' : Int) (r' : Bytes)
    (h : paintLit24 width n rest data x y = .ok (d', x', y', r')) : r'.length + n = rest.length := by
  induction n generalizing rest data x y with
  | zero => simp [paintLit24] at h; simp [h.2.2.2]
  | succ n ih =>
    unfold paintLit24 at h
    split at h
    · simp at h
    · split at h
      · simp at h
      · have := ih _ _ _ _ h; simp; omega

/-- the PackBits loop of Decoder24b.decode_compressed_data (`width` = 4·w).
    The `val == 0` branch of the Python (one literal byte) is the literal branch with `run = 1`
    statement for statement, so both are modelled by the same code. -/
def loop24 (width : Nat) (rest : Bytes) (data : Bytes) (x : Nat) (y : Int) : R Bytes :=
  if y < 0 then .ok data else
  match rest with
  | [] => .ok data
  | val :: r1 =>
    if val.toNat ≥ 128 then
      match r1 with
      | [] => .error .index
      | v :: r2 =>
        match paintRun24 width v (257 - val.toNat) data x y with
        | .error e => .error e
        | .ok (data, x, y) => loop24 width r2 data x y
    else
      match hp : paintLit24 width (val.toNat + 1) r1 data x y with
      | .error e => .error e
      | .ok (data, x, y, r2) => loop24 width r2 data x y
termination_by rest.length
decreasing_by
  all_goals simp_wf
  all_goals first
    | omega
    | (have := paintLit24_len _ _ _ _ _ _ _ _ _ _ hp; omega)

def interleave3 : Bytes → Bytes → Bytes → Bytes
  | a :: as, b :: bs, c :: cs => a :: b :: c :: interleave3 as bs cs
  | _, _, _ => []

/-- "Order RGB bytes and discard Alpha channel": plane 3, plane 2, plane 1 of each source row -/
def deint24 (data : Bytes) (w h cw ch padW : Nat) : Bytes :=
  let stride := 3 * cw + (4 - (3 * cw) % 4) % 4
  if w = 0 then zeros (stride * ch) else
  ((List.range h).flatMap fun y =>
    zeros (3 * padW) ++
    interleave3 (slice data (y * (4 * w) + 3 * w) (y * (4 * w) + 4 * w))
                (slice data (y * (4 * w) + 2 * w) (y * (4 * w) + 3 * w))
                (slice data (y * (4 * w) + w) (y * (4 * w) + 2 * w))
      ++ zeros (stride - 3 * padW - 3 * w))
  ++ zeros (stride * (ch - h))

/-- Decoder24b.decode_compressed_data (offsets as in the 16-bit decoder) -/
def compressed24 (fdata : Bytes) (W H padW padH : Nat) : R Bytes :=
  let w := W - padW
  let h := H - padH
  match loop24 (4 * w) fdata (zeros (4 * w * h)) 0 ((h : Int) - 1) with
  | .error e => .error e
  | .ok data => .ok (deint24 data w h W H padW)

/-- Decoder24b.decode (used for depth 24 and 32) -/
def decode24 (reset : Bool) (c : Call) : W Bytes := do
  let (H, padH) := fixPad c.height c.padH
  let W := c.width
  writeBmpHeader reset ((W * H * 3 + 40 + 14 : Nat) : Int) ((40 + 14 : Nat) : Int)
  writeInfoHeader40 W H 24 0
  let wSize : Int := ((W : Int) - c.padW) * 4
  let bmp ← liftR (if (c.fdata.length : Int) = wSize * ((H : Int) - padH)
      then (.error .notImpl : R Bytes)
      else compressed24 c.fdata W H c.padW padH)
  write bmp
  getBmpImage

/-! ### bitd2bmp and the registry of decoder objects -/

/-- the decoder object's `decode` selected by class name (Gen.BitdTables.decoders gives key → class) -/
def decodeClass (cls : String) (reset : Bool) (c : Call) : W Bytes :=
  if cls = "Decoder1b" then decode1 reset c
  else if cls = "Decoder4b" then decode4 reset c
  else if cls = "Decoder8b" then decode8 reset c
  else if cls = "Decoder16b" then decode16 reset c
  else if cls = "Decoder24b" then decode24 reset c
  else raise .other

/-- the palette name `bitd2bmp` passes on -/
def paletteName (c : Call) : String :=
  if c.depth = 8 then c.palette else if c.depth = 1 then "black and white" else "none"

/-- one `io.BytesIO` per entry of `DECODERS`, addressed by its key -/
abbrev DecState := Nat → Buf

def DecState.init : DecState := fun _ => []

def DecState.set (s : DecState) (k : Nat) (b : Buf) : DecState := fun k' => if k' = k then b else s k'

/-- bitd2bmp.bitd2bmp as a transition of the module state -/
def decodeStep (reset : Bool) (s : DecState) (c : Call) : DecState × R Bytes :=
  match lookupN c.depth Gen.BitdTables.decoders with
  | none => (s, .error .value)                       -- "Bad BPP value"
  | some cls =>
    let x := decodeClass cls reset { c with palette := paletteName c } (s c.depth)
    (s.set c.depth x.1, x.2)

/-- a decode request as `bitd2bmp` reads it from `castData`: the left offset is any integer -/
structure Request where
  depth : Nat
  width : Nat
  height : Nat
  padW : Int
  padH : Int
  palette : String
  clut : Bytes
  fdata : Bytes
  deriving Repr, DecidableEq

/-- the first statement of `bitd2bmp` ("Sometimes the padding is negative"): a negative left offset widens the canvas by
    that amount and becomes 0. What is left is a `Call`. (A negative top offset is treated the same way inside every
    decoder: `fixPad`.) -/
def Request.normalise (r : Request) : Call :=
  if r.padW < 0 then
    { depth := r.depth, width := r.width + r.padW.natAbs, height := r.height, padW := 0, padH := r.padH,
      palette := r.palette, clut := r.clut, fdata := r.fdata }
  else
    { depth := r.depth, width := r.width, height := r.height, padW := r.padW.toNat, padH := r.padH,
      palette := r.palette, clut := r.clut, fdata := r.fdata }

/-- bitd2bmp.bitd2bmp on integer offsets, as a transition of the module state -/
def decodeStepI (reset : Bool) (s : DecState) (r : Request) : DecState × R Bytes := decodeStep reset s r.normalise

/-- the function a caller sees in a fresh process -/
def bitd2bmp (c : Call) : R Bytes := (decodeStep true DecState.init c).2

/-- bitd2bmp.bitd2bmp on integer offsets in a fresh process -/
def bitd2bmpI (r : Request) : R Bytes := bitd2bmp r.normalise

end Drx.Bitd
