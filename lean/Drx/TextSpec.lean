/-
  Specification side of property C16: styled text and font maps as abstract objects, their byte layouts
  (encoders), and what a decoder must return.  Core Lean only (linked into the driver).
-/
import Drx.Stxt
import Drx.Fmap
namespace Drx.TextSpec
open Drx Drx.Fmap Drx.Stxt


/-! ### styled text -/

/-- one 20-byte style record: every stored field, including the ones the decoder skips -/
structure RunSpec where
  u2 : Int
  start : Int
  u4 : Int
  u5 : Int
  fontId : Int
  format : UInt8
  u7 : UInt8
  size : Int
  red : UInt8
  red2 : UInt8
  green : UInt8
  green2 : UInt8
  blue : UInt8
  blue2 : UInt8
  deriving Repr, DecidableEq, Inhabited

def RunSpec.valid (r : RunSpec) : Prop := s16 r.u2 ∧ s16 r.start ∧ s16 r.u4 ∧ s16 r.u5 ∧ s16 r.fontId ∧ s16 r.size
instance (r : RunSpec) : Decidable r.valid := by unfold RunSpec.valid; infer_instance

def encRun (r : RunSpec) : Bytes :=
  encS .be 2 r.u2 ++ (encS .be 2 r.start ++ (encS .be 2 r.u4 ++ (encS .be 2 r.u5 ++ (encS .be 2 r.fontId ++
    ([r.format, r.u7] ++ (encS .be 2 r.size ++ [r.red, r.red2, r.green, r.green2, r.blue, r.blue2]))))))

def encRuns : List RunSpec → Bytes
  | [] => []
  | r :: rs => encRun r ++ encRuns rs

/-- 12-byte header (data offset, text length, style length), `gap` up to the data offset, the text bytes,
    the run count and the 20-byte records -/
def encStxt (gap text : Bytes) (fds : Int) (runs : List RunSpec) (tail : Bytes) : Bytes :=
  encS .be 4 ((12 + gap.length : Nat) : Int) ++ (encS .be 4 (text.length : Int) ++ (encS .be 4 fds ++
    (gap ++ (text ++ (encS .be 2 (runs.length : Int) ++ (encRuns runs ++ tail))))))

/-- the font-map entry with the run's id: the last one if several, the explicit unknown marker if none -/
def specFont (fontmap : List FontInfo) (id : Int) : Text :=
  match (fontmap.filter (fun f => f.id = id)).getLast? with
  | some f => f.name
  | none => "unknown_".toList ++ intStr id

def hexU (n : Nat) : Char := if n < 10 then Char.ofNat (48 + n) else Char.ofNat (55 + n)

/-- what a style record means -/
def RunSpec.meaning (fontmap : List FontInfo) (r : RunSpec) : TextFormat :=
  ⟨['#', hexU (r.red.toNat / 16), hexU (r.red.toNat % 16), hexU (r.green.toNat / 16), hexU (r.green.toNat % 16),
    hexU (r.blue.toNat / 16), hexU (r.blue.toNat % 16)],
   r.start, r.format.toNat % 2 = 1, r.format.toNat / 2 % 2 = 1, r.format.toNat / 4 % 2 = 1, r.size, specFont fontmap r.fontId⟩

/-! ### font map -/

/-- a used font slot: id, the unknown word of its metadata record, its name bytes and padding after the name -/
structure FontSpec where
  id : Int
  u : Int
  name : Bytes
  pad : Bytes
  deriving Repr, DecidableEq, Inhabited

def FontSpec.valid (f : FontSpec) : Prop := s16 f.id ∧ s16 f.u
instance (f : FontSpec) : Decidable f.valid := by unfold FontSpec.valid; infer_instance

/-- an unused capacity slot: arbitrary field values -/
structure SlotSpec where
  disp : Int
  u : Int
  id : Int
  deriving Repr, DecidableEq, Inhabited

def SlotSpec.valid (s : SlotSpec) : Prop := s32 s.disp ∧ s16 s.u ∧ s16 s.id
instance (s : SlotSpec) : Decidable s.valid := by unfold SlotSpec.valid; infer_instance

/-- the ten header words the decoder reads and ignores -/
structure FmapHdr where
  u1 : Int
  u2 : Int
  u3 : Int
  u4 : Int
  u5 : Int
  metaSize : Int
  u6 : Int
  u7 : Int
  u8 : Int
  u9 : Int
  deriving Repr, DecidableEq, Inhabited

def FmapHdr.valid (h : FmapHdr) : Prop :=
  s16 h.u1 ∧ s16 h.u2 ∧ s16 h.u3 ∧ s16 h.u4 ∧ s16 h.u5 ∧ s16 h.metaSize ∧ s16 h.u6 ∧ s16 h.u7 ∧ s16 h.u8 ∧ s16 h.u9
instance (h : FmapHdr) : Decidable h.valid := by unfold FmapHdr.valid; infer_instance

/-- metadata records of the used slots; displacements are running offsets into the name area -/
def encMeta : List FontSpec → Nat → Bytes
  | [], _ => []
  | f :: fs, off => encS .be 4 (off : Int) ++ (encS .be 2 f.u ++ (encS .be 2 f.id ++ encMeta fs (off + 4 + f.name.length + f.pad.length)))

def encSlots : List SlotSpec → Bytes
  | [] => []
  | s :: ss => encS .be 4 s.disp ++ (encS .be 2 s.u ++ (encS .be 2 s.id ++ encSlots ss))

/-- name area: 4-byte length, name bytes, padding -/
def encFontNames : List FontSpec → Bytes
  | [] => []
  | f :: fs => encS .be 4 (f.name.length : Int) ++ (f.name ++ (f.pad ++ encFontNames fs))

def encFmapHeader (h : FmapHdr) (fonts : List FontSpec) (unused : List SlotSpec) (bpre : Bytes) (htail : Bytes) : Bytes :=
  encS .be 2 h.u1 ++ (encS .be 2 h.u2 ++ (encS .be 2 h.u3 ++ (encS .be 2 h.u4 ++ (encS .be 4 (fonts.length : Int) ++
  (encS .be 4 ((fonts.length + unused.length : Nat) : Int) ++ (encS .be 2 h.u5 ++ (encS .be 2 h.metaSize ++ (encS .be 2 h.u6 ++
  (encS .be 2 h.u7 ++ (encS .be 2 h.u8 ++ (encS .be 2 h.u9 ++ (encMeta fonts bpre.length ++ (encSlots unused ++ htail)))))))))))))

/-- two size words, the header area (fixed words, capacity-many metadata records), the name area (`bpre` = its own
    leading bytes, then the names) -/
def encFmap (h : FmapHdr) (fonts : List FontSpec) (unused : List SlotSpec) (htail bpre btail : Bytes) : Bytes :=
  let hd := encFmapHeader h fonts unused bpre htail
  let bd := bpre ++ (encFontNames fonts ++ btail)
  encS .be 4 (hd.length : Int) ++ (encS .be 4 (bd.length : Int) ++ (hd ++ bd))

/-- displacements and name lengths fit their signed 32-bit fields -/
def FontsFit : List FontSpec → Nat → Prop
  | [], _ => True
  | f :: fs, off => off < 2147483648 ∧ f.name.length < 2147483648 ∧ FontsFit fs (off + 4 + f.name.length + f.pad.length)

instance FontsFit.dec : (fs : List FontSpec) → (off : Nat) → Decidable (FontsFit fs off)
  | [], _ => isTrue trivial
  | f :: fs, off =>
    have := FontsFit.dec fs (off + 4 + f.name.length + f.pad.length)
    by unfold FontsFit; infer_instance

/-- decode every used font's name, first failure wins -/
def decodeFonts (dec : Dec) : List FontSpec → R (List FontInfo)
  | [] => .ok []
  | f :: fs => do
    let t ← dec f.name
    let rest ← decodeFonts dec fs
    .ok (⟨t, f.id⟩ :: rest)

end Drx.TextSpec
