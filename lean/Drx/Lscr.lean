/-
  MODEL OF THE LINGO BYTECODE DECOMPILER (drxtract/lingosrc) — public API (kept stable; C02/C03/C04 link theorems use it)

    Drx.Lscr.parseScript : Bytes(Lscr) → Bytes(Lnam) → R Script
        parse_lnam_file_data + parse_lrcr_file_data in a fresh process (default codec mac_roman).
        `parseScriptWith codec regs lscr lnam : R (Script × Regs)` is the same with an explicit codec and the operand
        registers of the shared opcode singletons before/after (property C12).
    Drx.Lscr.genLingo : Script → R Str × Script        generate_lingo_code: text ("error" = any exception) and the tree
                                                       as the generator leaves it
    Drx.Lscr.genJs    : Script → R Str × Script        generate_js_code, likewise
        pure parts: `lingoText`, `jsText : Script → R Str`; `afterLingoScript`, `afterJsScript : Script → Script`;
        per node: `lingo noParen node indent`, `js factoryMethod putTarget node indent : R Name` (putTarget = SpAssignOperation.target_js);
        `afterLingo`, `afterJs : Node → Node`.

    Text is `Str = List Char`. `Name` = Python `str | int` (`Name.s`, `Name.i`).
    `Script`  { properties globalVars : List Str, functions : List FuncDef, scrNum contScrNum : Int, factoryName : Str }
    `FuncDef` { name : Str, pos : Int, params localVars globalVars stmts : List Node, isMethod : Bool }
    `Node` constructors (one per Python AST class; fixed class names in brackets):
      none                                          Python None in an Optional[Node] field
      leaf (c : Leaf) name pos                      Node LocalVariable GlobalVariable PropertyName DefinedPropertyName ParameterName
                                                    DateTimeFunction Menu MenuItem SoundChannel Sprite SystemObject Cast
                                                    ConstantValue ExitRepeat   (Leaf = node localVar globalVar propName definedProp
                                                    paramName dateTime menu menuItem soundChan sprite sysObj cast const exitRepeat)
      sym name pos useHash                          Symbol
      unary op pos operand                          UnaryOperation (op = minus not field hilite delete)
      binary op pos left right                      BinaryOperation (op = assign add sub … within)
      spAssign pos left right mode                  SpAssignOperation
      strOp kind pos start stop of_                 StringOperation (stop = .none when there is no range end)
      unaryStr op pos type of_                      UnaryStringOperation (op = last number name; type : Option kind)
      propAcc pos obj prop                          PropertyAccessorOperation
      keyAcc pos prop                               KeyPropertyAccessorOperation
      menuItemAcc pos menu item / menuItemsAcc pos menu
      loadList name pos operands                    LoadListOperation (operands in pop order: last argument first)
      toList pos operand / toDict pos operand       ToListOperation / ToDictionaryOperation
      stmt pos code                                 Statement
      callFn name pos params useParen inTell withResult receiver   CallFunction (receiver = node popped by opcode 0x58, else none)
      callMethod name pos obj params                CallMethod
      repeat_ pos endPos cond stmts type start varname sign loopVar   RepeatOperation (`end` is `cond.right`, not stored;
                                                    loopVar = Python `variable`)
      ifThen pos cond ifs elses                     IfThenOperation
      jump pos addr / jz pos cond addr              JumpOperation / JzOperation
      tell pos operand stmts closed                 WindowTellOperation

  Files: Lscr/PyStr (Python str semantics) · Lscr/Float (repr(float), int→float) · Lscr/Ast · Lscr/Const (constants, C11) ·
  Lscr/Tables (generated tables) · Lscr/GenLingo · Lscr/Flow (jump/tell/condition/loop reconstruction) · Lscr/Parse
  (container, opcodes) · Lscr/GenJs.

  Domain notes (also in design.d/LSCR_MODEL.md):
   * Python object sharing is copying here. The only sharing that can be observed is a node pushed twice by the peek opcode
     (0x64) whose copies are then mutated differently (Symbol.use_hash set by 0x58; a `<load_list>` consumed by 0x67 or
     rewritten by gv_as_sym). Programs doing that are outside the modelled domain.
   * Errors: every Python exception is some `Except.error`; kinds are not compared.
-/
import Drx.Lscr.Parse
import Drx.Lscr.GenJs
