/-
  C03 link (glue definitions, core Lean only): the statement-level view of a compiled structured program.

  The spec layer (Drx/Spec/Compile.lean) lays a control skeleton `CStmt` out as bytes; the model (Drx/Lscr/Parse.lean) runs its
  stack machine over those bytes and appends one `Node.stmt pos code` per statement-producing instruction (`pos` = address of
  that instruction), a `jz` / `jump` statement per forward jump, and wraps the statements of a loop at its back jump
  (`Flow.jumpBack`).  What `condDetect` / `loopDetect` see is therefore determined by
     * the SIZES of the code fragments (they fix every position and every jump address), and
     * the statement nodes themselves, which the control-flow passes never look into (except the loop-header recognisers).
  `P` records exactly that: a skeleton whose simple statements are ABSTRACT model nodes with a size and the offset of the
  instruction that emits them.  `emit` is the statement list the stack machine produces for it, `tgtC` the nesting
  `condition_detect` has to produce, and (`Src`, `lower`, `expected`) the source-level constructs with what `loop_detect` has to
  produce.  The theorems are in lean/DrxProps/C03Link.lean.
-/
import Drx.Lscr.Flow
namespace Drx.LinkFlow
open Drx Drx.Lscr

/-- a simple statement: `sz` bytes of straight-line code; the instruction at offset `off` appends the statement `code` -/
structure Smp where
  sz : Nat
  off : Nat
  code : Node
  deriving Repr, Inhabited

/-- statement-level control skeleton (the image of `Spec.CStmt` under the stack machine):
    `skip n` = `n` bytes of code that leave no statement (loop prologue / epilogue of `repeat with … in`);
    `ifThen csz cond t e` = `csz` bytes computing `cond`, `95`, then-branch, and if `e ≠ []`: `93`, else-branch;
    `loop csz cond body` = `csz` bytes computing `cond`, `95` to the address after the back jump, body, `54` back to the start -/
inductive P where
  | simple (s : Smp)
  | skip (sz : Nat)
  | ifThen (csz : Nat) (cond : Node) (t e : List P)
  | loop (csz : Nat) (cond : Node) (body : List P)
  /-- a loop whose body contains, directly, ONE `if c2 then t; exit repeat end if` (between `b1` and `b2`):
      `cond`, `95`, b1, `c2`, `95`, t, `93 → address after the back jump`, b2, `54` -/
  | loopX (csz : Nat) (cond : Node) (b1 : List P) (csz2 : Nat) (cond2 : Node) (t b2 : List P)
  deriving Repr, Inhabited

mutual
def P.size : P → Nat
  | .simple s => s.sz
  | .skip n => n
  | .ifThen csz _ t e => csz + 3 + P.sizes t + (if e.isEmpty then 0 else 3 + P.sizes e)
  | .loop csz _ body => csz + 3 + P.sizes body + 2
  | .loopX csz _ b1 csz2 _ t b2 => csz + 3 + (P.sizes b1 + (csz2 + 3 + P.sizes t + 3) + P.sizes b2) + 2
def P.sizes : List P → Nat
  | [] => 0
  | p :: ps => p.size + P.sizes ps
end

/- node count (measure of the inductions) -/
mutual
def P.weight : P → Nat
  | .simple _ => 1
  | .skip _ => 1
  | .ifThen _ _ t e => 1 + P.weights t + P.weights e
  | .loop _ _ body => 1 + P.weights body
  | .loopX _ _ b1 _ _ t b2 => 2 + P.weights b1 + P.weights t + P.weights b2
def P.weights : List P → Nat
  | [] => 0
  | p :: ps => p.weight + P.weights ps
end

/- nesting depth of loops (through ifs as well: in the raw statement list an if is flat) -/
mutual
def P.depth : P → Nat
  | .simple _ => 0
  | .skip _ => 0
  | .ifThen _ _ t e => max (P.depths t) (P.depths e)
  | .loop _ _ body => 1 + P.depths body
  | .loopX _ _ b1 _ _ t b2 => 1 + max (P.depths b1) (max (P.depths t) (P.depths b2))
def P.depths : List P → Nat
  | [] => 0
  | p :: ps => max p.depth (P.depths ps)
end

/-- the RepeatOperation `JumpOpcode.process` creates -/
def rawLoop (start idx : Int) (body : List Node) : Node :=
  .repeat_ start idx (.leaf .const (.s (S "TRUE")) start) body (S "while") .none (.s []) [] .none

/-- `if not cond then exit repeat`: what `condition_detect` makes of a loop's header jump -/
def exitIf (pj : Int) (cond : Node) : Node :=
  .stmt pj (.ifThen pj (.unary (S "not") pj cond) [exitRepeatStmt pj] [])

/-! ### the nesting `condition_detect` has to produce -/

mutual
def tgtC1 (o : Int) : P → List Node
  | .simple s => [.stmt (o + s.off) s.code]
  | .skip _ => []
  | .ifThen csz cond t e =>
    [.stmt (o + csz) (.ifThen (o + csz) cond (tgtC (o + csz + 3) t) (tgtC (o + csz + 3 + P.sizes t + 3) e))]
  | .loop csz cond body =>
    [.stmt (o + csz + 3 + P.sizes body) (rawLoop o (o + csz + 3 + P.sizes body)
      (exitIf (o + csz) cond :: tgtC (o + csz + 3) body))]
  | .loopX csz cond b1 csz2 cond2 t b2 =>
    [.stmt (o + csz + 3 + (P.sizes b1 + (csz2 + 3 + P.sizes t + 3) + P.sizes b2))
      (rawLoop o (o + csz + 3 + (P.sizes b1 + (csz2 + 3 + P.sizes t + 3) + P.sizes b2))
        (exitIf (o + csz) cond :: (tgtC (o + csz + 3) b1 ++
          .stmt (o + csz + 3 + P.sizes b1 + csz2) (.ifThen (o + csz + 3 + P.sizes b1 + csz2) cond2
            (tgtC (o + csz + 3 + P.sizes b1 + csz2 + 3) t ++ [exitRepeatStmt (o + csz + 3 + P.sizes b1 + csz2 + 3 + P.sizes t)]) []) ::
          tgtC (o + csz + 3 + P.sizes b1 + csz2 + 3 + P.sizes t + 3) b2)))]
def tgtC (o : Int) : List P → List Node
  | [] => []
  | p :: ps => tgtC1 o p ++ tgtC (o + p.size) ps
end

/-! ### the statement list the stack machine produces (`ld = false`), and the same list after the nested-repeat part of the
    first loop of `condition_detect_in_statements` has run (`ld = true`: loop bodies are already reconstructed) -/

def jzStmt (p : Int) (cond : Node) (a : Int) : Node := .stmt p (.jz p cond a)
def jumpStmt (q b : Int) : Node := .stmt q (.jump q b)

mutual
def emit1 (ld : Bool) (o : Int) : P → List Node
  | .simple s => [.stmt (o + s.off) s.code]
  | .skip _ => []
  | .ifThen csz cond t e =>
    if e.isEmpty then
      jzStmt (o + csz) cond (o + csz + 3 + P.sizes t) :: emit ld (o + csz + 3) t
    else
      jzStmt (o + csz) cond (o + csz + 3 + P.sizes t + 3) ::
        (emit ld (o + csz + 3) t ++
          jumpStmt (o + csz + 3 + P.sizes t) (o + csz + 3 + P.sizes t + 3 + P.sizes e) :: emit ld (o + csz + 3 + P.sizes t + 3) e)
  | .loop csz cond body =>
    [.stmt (o + csz + 3 + P.sizes body) (rawLoop o (o + csz + 3 + P.sizes body)
      (if ld then exitIf (o + csz) cond :: tgtC (o + csz + 3) body
       else jzStmt (o + csz) cond (o + csz + 3 + P.sizes body + 2) :: emit ld (o + csz + 3) body))]
  | .loopX csz cond b1 csz2 cond2 t b2 =>
    [.stmt (o + csz + 3 + (P.sizes b1 + (csz2 + 3 + P.sizes t + 3) + P.sizes b2))
      (rawLoop o (o + csz + 3 + (P.sizes b1 + (csz2 + 3 + P.sizes t + 3) + P.sizes b2))
        (if ld then
          exitIf (o + csz) cond :: (tgtC (o + csz + 3) b1 ++
            .stmt (o + csz + 3 + P.sizes b1 + csz2) (.ifThen (o + csz + 3 + P.sizes b1 + csz2) cond2
              (tgtC (o + csz + 3 + P.sizes b1 + csz2 + 3) t ++ [exitRepeatStmt (o + csz + 3 + P.sizes b1 + csz2 + 3 + P.sizes t)]) []) ::
            tgtC (o + csz + 3 + P.sizes b1 + csz2 + 3 + P.sizes t + 3) b2)
         else
          jzStmt (o + csz) cond (o + csz + 3 + (P.sizes b1 + (csz2 + 3 + P.sizes t + 3) + P.sizes b2) + 2) ::
            (emit ld (o + csz + 3) b1 ++
              jzStmt (o + csz + 3 + P.sizes b1 + csz2) cond2 (o + csz + 3 + P.sizes b1 + csz2 + 3 + P.sizes t + 3) ::
                (emit ld (o + csz + 3 + P.sizes b1 + csz2 + 3) t ++
                  jumpStmt (o + csz + 3 + P.sizes b1 + csz2 + 3 + P.sizes t)
                      (o + csz + 3 + (P.sizes b1 + (csz2 + 3 + P.sizes t + 3) + P.sizes b2) + 2) ::
                    emit ld (o + csz + 3 + P.sizes b1 + csz2 + 3 + P.sizes t + 3) b2))))]
def emit (ld : Bool) (o : Int) : List P → List Node
  | [] => []
  | p :: ps => emit1 ld o p ++ emit ld (o + p.size) ps
end

/-- the jz operations the scan of one list level collects (one per `if` of that level, in order) -/
def jzsOf (o : Int) : List P → List Node
  | [] => []
  | .ifThen csz cond t e :: ps =>
    .jz (o + csz) cond (o + csz + 3 + P.sizes t + (if e.isEmpty then 0 else 3)) :: jzsOf (o + (P.ifThen csz cond t e).size) ps
  | p :: ps => jzsOf (o + p.size) ps

/- number of statements a list contributes to its own level in the raw statement list -/
mutual
def P.nst : P → Nat
  | .simple _ => 1
  | .skip _ => 0
  | .ifThen _ _ t e => 1 + P.nsts t + (if e.isEmpty then 0 else 1 + P.nsts e)
  | .loop _ _ _ => 1
  | .loopX .. => 1
def P.nsts : List P → Nat
  | [] => 0
  | p :: ps => p.nst + P.nsts ps
end

/-- a statement node the control-flow passes treat as opaque -/
def simpleCode (c : Node) : Bool :=
  c.cls != .jz && c.cls != .jump && c.cls != .ifThen && c.cls != .repeat_ && c.cls != .tell

/-- no `if` directly in the list (after an `if … exit repeat end if` the scan of `condition_detect` is blind up to the end of the
    loop body: an `if` there would stay a raw `jz` — finding F24) -/
def P.noIfs : List P → Bool
  | [] => true
  | .ifThen .. :: _ => false
  | _ :: ps => P.noIfs ps

/- well-formed skeleton: the emitting instruction lies inside its fragment, simple statements are opaque, an else-branch
    that exists produces at least one statement (`e = []` means "no else": the compiler then emits no `93`) -/
mutual
def P.wf : P → Bool
  | .simple s => decide (s.off < s.sz) && simpleCode s.code
  | .skip _ => true
  | .ifThen _ _ t e => P.wfs t && P.wfs e && (e.isEmpty || decide (P.nsts e ≠ 0))
  | .loop _ _ body => P.wfs body
  | .loopX _ _ b1 _ _ t b2 => P.wfs b1 && P.wfs t && P.wfs b2 && P.noIfs b2
def P.wfs : List P → Bool
  | [] => true
  | p :: ps => p.wf && P.wfs ps
end

/-! ### the stack machine's control-flow events

  While the opcode loop runs, `fn.statements` is changed by exactly three kinds of events: an instruction appends a statement
  (`PState.addStmt`: simple statements, and `93` / `95` which append a `jump` / `jz` statement whose address is the opcode's own
  address plus its operand), and the back jump `54 k` at address `i` runs `JumpOpcode.process` = `Flow.jumpBack stmts i k`. -/

inductive Ev where
  | st (n : Node)
  | back (index : Int) (op1 : Nat)
  deriving Repr, Inhabited

def runEv (stmts : List Node) : List Ev → R (List Node)
  | [] => .ok stmts
  | .st n :: es => runEv (stmts ++ [n]) es
  | .back i k :: es =>
    match jumpBack stmts i k with
    | .ok s => runEv s es
    | .error e => .error e

mutual
/-- the events of a compiled skeleton laid out from address `o`, in address order -/
def rawEv1 (o : Int) : P → List Ev
  | .simple s => [.st (.stmt (o + s.off) s.code)]
  | .skip _ => []
  | .ifThen csz cond t e =>
    if e.isEmpty then
      .st (jzStmt (o + csz) cond (o + csz + 3 + P.sizes t)) :: rawEv (o + csz + 3) t
    else
      .st (jzStmt (o + csz) cond (o + csz + 3 + P.sizes t + 3)) ::
        (rawEv (o + csz + 3) t ++
          .st (jumpStmt (o + csz + 3 + P.sizes t) (o + csz + 3 + P.sizes t + 3 + P.sizes e)) :: rawEv (o + csz + 3 + P.sizes t + 3) e)
  | .loop csz cond body =>
    .st (jzStmt (o + csz) cond (o + csz + 3 + P.sizes body + 2)) ::
      (rawEv (o + csz + 3) body ++ [.back (o + csz + 3 + P.sizes body) (csz + 3 + P.sizes body)])
  | .loopX csz cond b1 csz2 cond2 t b2 =>
    .st (jzStmt (o + csz) cond (o + csz + 3 + (P.sizes b1 + (csz2 + 3 + P.sizes t + 3) + P.sizes b2) + 2)) ::
      (rawEv (o + csz + 3) b1 ++
        .st (jzStmt (o + csz + 3 + P.sizes b1 + csz2) cond2 (o + csz + 3 + P.sizes b1 + csz2 + 3 + P.sizes t + 3)) ::
          (rawEv (o + csz + 3 + P.sizes b1 + csz2 + 3) t ++
            .st (jumpStmt (o + csz + 3 + P.sizes b1 + csz2 + 3 + P.sizes t)
                (o + csz + 3 + (P.sizes b1 + (csz2 + 3 + P.sizes t + 3) + P.sizes b2) + 2)) ::
              (rawEv (o + csz + 3 + P.sizes b1 + csz2 + 3 + P.sizes t + 3) b2 ++
                [.back (o + csz + 3 + (P.sizes b1 + (csz2 + 3 + P.sizes t + 3) + P.sizes b2))
                  (csz + 3 + (P.sizes b1 + (csz2 + 3 + P.sizes t + 3) + P.sizes b2))])))
def rawEv (o : Int) : List P → List Ev
  | [] => []
  | p :: ps => rawEv1 o p ++ rawEv (o + p.size) ps
end

/-! ### source-level constructs: what `loop_detect` has to make of the three loop headers -/

/-- `previous_st` after a list of statements -/
def lastOr : List Node → Option Node → Option Node
  | [], d => d
  | x :: l, _ => lastOr l (some x)

/-- `repeat with v = a to b` / `down to b`: the statement before the loop `pre = (set v = a)`, the loop condition
    `cond = (v <= b)` / `(v >= b)` and the last statement of the body `incr = (set v = 1 + v)` / `(-1 + v)` as the stack machine
    builds them. Result: (loop variable node, start value, variable name, sign) exactly when `is_repeat_with` (repaired:
    F134, F135) accepts. -/
def withParts (cond pre incr : Node) : Option (Node × Node × Name × Str) :=
  match pre, cond, incr with
  | .binary pop _ pleft pright, .binary cname _ cleft _, .binary lop _ lleft (.binary iop _ step iright) =>
    match pleft.name, cleft.name, lleft.name, iright.name with
    | .ok v1, .ok v2, .ok v3, .ok rn =>
      if pop = S "assign" ∧ v1 = v2 ∧ lop = S "assign" ∧ v1 = v3 ∧ rn = v3 ∧ iop = S "add" then
        match step with
        | .leaf .const sn _ =>
          if sn = Name.s (S "1") ∧ cname = S "lte" then some (pleft, pright, v1, S "+")
          else if sn = Name.s (S "-1") ∧ cname = S "gte" then some (pleft, pright, v1, S "-")
          else none
        | _ => none
      else none
    | _, _, _, _ => none
  | _, _, _ => none

/-- `repeat with v in l`: the loop condition `1 <= count(l)` (the peeked counter and count) and the first statement of the body
    `set v = getAt(l, counter)`. Result: (list expression, variable name, loop variable node) exactly when
    `is_repeat_with_in_list` (repaired: F136) accepts. -/
def inParts (cond bpc : Node) : Option (Node × Name × Node) :=
  match cond, bpc with
  | .binary _ _ (.leaf .const index ipos) (.callFn cname _ (.loadList _ _ cops) _ _ _ _),
    .binary fop _ fleft (.callFn aname _ (.loadList _ _ aops) _ _ _ _) =>
    if index = Name.s (S "1") ∧ cname = Name.s (S "count") ∧ fop = S "assign" ∧ aname = Name.s (S "getAt") then
      match pyGet cops 0, pyGet aops 1, pyGet aops 0, fleft.name with
      | .ok c0, .ok a1, .ok a0, .ok vn =>
        if c0.pyEq a1 = true ∧ a0.pyEq (.leaf .const index ipos) = true then some (a1, vn, fleft) else none
      | _, _, _, _ => none
    else none
  | _, _ => none

/-- loop headers -/
inductive Hdr where
  /-- `repeat while cond` -/
  | while_
  /-- `repeat with v = a [down] to b`: `pre` = the fragment `a; set v`, `incr` = the fragment `±1; v; add; set v` -/
  | with_ (pre incr : Smp)
  /-- `repeat with v in l`: `presz` bytes of prologue (list, count, counter), `bp` = the fragment that sets `v`, `incrsz` bytes
      stepping the counter, `postsz` bytes of epilogue (pop 3) -/
  | in_ (presz : Nat) (bp : Smp) (incrsz postsz : Nat)
  deriving Repr, Inhabited

/-- source-level skeleton -/
inductive Src where
  | simple (s : Smp)
  | ifThen (csz : Nat) (cond : Node) (t e : List Src)
  | loop (h : Hdr) (csz : Nat) (cond : Node) (body : List Src)
  deriving Repr, Inhabited

mutual
def lower1 : Src → List P
  | .simple s => [.simple s]
  | .ifThen csz cond t e => [.ifThen csz cond (lower t) (lower e)]
  | .loop .while_ csz cond body => [.loop csz cond (lower body)]
  | .loop (.with_ pre incr) csz cond body => [.simple pre, .loop csz cond (lower body ++ [.simple incr])]
  | .loop (.in_ presz bp incrsz postsz) csz cond body =>
    [.skip presz, .loop csz cond (.simple bp :: (lower body ++ [.skip incrsz])), .skip postsz]
def lower : List Src → List P
  | [] => []
  | x :: xs => lower1 x ++ lower xs
end

def Src.size (x : Src) : Nat := P.sizes (lower1 x)

/-- a RepeatOperation as the recognisers see it (they read `cond` and `stmts` only) -/
def roOf (cond : Node) (stmts : List Node) : Ro :=
  { pos := 0, endPos := 0, cond := cond, stmts := stmts, type := [], start := .none, varname := .s [], sign := [], loopVar := .none }

mutual
/-- the final tree of one construct (after `loop_detect`) -/
def tgtL1 (o : Int) : Src → List Node
  | .simple s => [.stmt (o + s.off) s.code]
  | .ifThen csz cond t e =>
    [.stmt (o + csz) (.ifThen (o + csz) cond (tgtL (o + csz + 3) t) (tgtL (o + csz + 3 + P.sizes (lower t) + 3) e))]
  | .loop .while_ csz cond body =>
    [.stmt (o + csz + 3 + P.sizes (lower body)) (.repeat_ o (o + csz + 3 + P.sizes (lower body)) cond (tgtL (o + csz + 3) body)
      (S "while") .none (.s []) [] .none)]
  | .loop (.with_ pre incr) csz cond body =>
    match withParts cond pre.code incr.code with
    | some (pleft, pright, vn, sg) =>
      [.stmt (o + pre.sz + csz + 3 + (P.sizes (lower body) + incr.sz)) (.repeat_ (o + pre.sz) (o + pre.sz + csz + 3 + (P.sizes (lower body) + incr.sz)) cond
        (tgtL (o + pre.sz + csz + 3) body) (S "for") pright vn sg pleft)]
    | none => []
  | .loop (.in_ presz bp incrsz _) csz cond body =>
    match inParts cond bp.code with
    | some (start, vn, fleft) =>
      [.stmt (o + presz + csz + 3 + (bp.sz + (P.sizes (lower body) + incrsz))) (.repeat_ (o + presz) (o + presz + csz + 3 + (bp.sz + (P.sizes (lower body) + incrsz))) cond
        (tgtL (o + presz + csz + 3 + bp.sz) body) (S "for_in") start vn [] fleft)]
    | none => []
def tgtL (o : Int) : List Src → List Node
  | [] => []
  | x :: xs => tgtL1 o x ++ tgtL (o + x.size) xs
end

/-- `r` is `.ok false` -/
def saysNo (r : R Bool) : Bool := match r with | .ok false => true | _ => false

mutual
/-- the class of source skeletons: well-formed pieces, and every loop header is recognised as what it is and as nothing else
    (`prev` = the statement in front of the construct in its list, which `is_repeat_with` looks at):
    * `repeat while`: neither `is_repeat_with` nor `is_repeat_with_in_list` accepts it (a `repeat while v <= b` preceded by
      `set v = a` and ending in `set v = 1 + v` IS a `repeat with`: same bytecode);
    * `repeat with`: `withParts` is defined, and `is_repeat_with_in_list` does not accept it;
    * `repeat with … in`: `inParts` is defined, and `is_repeat_with` does not accept it. -/
def Src.ok (prev : Option Node) (o : Int) : Src → Bool
  | .simple s => decide (s.off < s.sz) && simpleCode s.code
  | .ifThen csz _ t e => Src.oks none (o + csz + 3) t && Src.oks none (o + csz + 3 + P.sizes (lower t) + 3) e
  | .loop .while_ csz cond body =>
    Src.oks none (o + csz + 3) body
      && saysNo (isRepeatWith (roOf cond (tgtC (o + csz + 3) (lower body))) prev)
      && saysNo (isRepeatWithIn (roOf cond (tgtC (o + csz + 3) (lower body))))
  | .loop (.with_ pre incr) csz cond body =>
    decide (pre.off < pre.sz) && decide (incr.off < incr.sz) && simpleCode pre.code && simpleCode incr.code
      && Src.oks none (o + pre.sz + csz + 3) body
      && (withParts cond pre.code incr.code).isSome
      && saysNo (isRepeatWithIn (roOf cond (tgtC (o + pre.sz + csz + 3) (lower body))))
  | .loop (.in_ presz bp _ _) csz cond body =>
    decide (bp.off < bp.sz) && simpleCode bp.code
      && Src.oks none (o + presz + csz + 3 + bp.sz) body
      && (inParts cond bp.code).isSome
      && saysNo (isRepeatWith (roOf cond (.stmt (o + presz + csz + 3 + bp.off) bp.code :: tgtC (o + presz + csz + 3 + bp.sz) (lower body))) prev)
def Src.oks (prev : Option Node) (o : Int) : List Src → Bool
  | [] => true
  | x :: xs => x.ok prev o && Src.oks (lastOr (tgtL1 o x) prev) (o + x.size) xs
end

/-! ### loops with one `if … exit repeat end if` directly in the body (layer F4, restricted class) -/

/-- the statement-level pieces a loop header puts around the loop and around its body -/
def Hdr.pre : Hdr → List P
  | .while_ => []
  | .with_ pre _ => [.simple pre]
  | .in_ presz _ _ _ => [.skip presz]
def Hdr.inn : Hdr → List P
  | .in_ _ bp _ _ => [.simple bp]
  | _ => []
def Hdr.out : Hdr → List P
  | .while_ => []
  | .with_ _ incr => [.simple incr]
  | .in_ _ _ incrsz _ => [.skip incrsz]
def Hdr.post : Hdr → List P
  | .in_ _ _ _ postsz => [.skip postsz]
  | _ => []

/-- source skeleton with exits: `loopX h csz cond b1 csz2 cond2 t b2` =
    `repeat <h> / b1 / if cond2 then t; exit repeat end if / b2 / end repeat` -/
inductive SrcX where
  | simple (s : Smp)
  | ifThen (csz : Nat) (cond : Node) (t e : List SrcX)
  | loop (h : Hdr) (csz : Nat) (cond : Node) (body : List SrcX)
  | loopX (h : Hdr) (csz : Nat) (cond : Node) (b1 : List SrcX) (csz2 : Nat) (cond2 : Node) (t b2 : List SrcX)
  deriving Repr, Inhabited

mutual
def lowerX1 : SrcX → List P
  | .simple s => [.simple s]
  | .ifThen csz cond t e => [.ifThen csz cond (lowerX t) (lowerX e)]
  | .loop h csz cond body => h.pre ++ [.loop csz cond (h.inn ++ (lowerX body ++ h.out))] ++ h.post
  | .loopX h csz cond b1 csz2 cond2 t b2 =>
    h.pre ++ [.loopX csz cond (h.inn ++ lowerX b1) csz2 cond2 (lowerX t) (lowerX b2 ++ h.out)] ++ h.post
def lowerX : List SrcX → List P
  | [] => []
  | x :: xs => lowerX1 x ++ lowerX xs
end

/-- the `exit repeat` statement `condition_detect` creates at address `q`, as a simple statement of three bytes -/
def exitSmpAt (q : Int) : Smp := ⟨3, 0, .leaf .exitRepeat (.s (S "exit repeat")) q⟩

mutual
/-- the exit-free source skeleton whose nesting the decompiler has to print: the exit jump becomes the last statement of the
    then-branch (`o` = address of the construct: the `exit repeat` node carries its own address) -/
def convX1 (o : Int) : SrcX → Src
  | .simple s => .simple s
  | .ifThen csz cond t e => .ifThen csz cond (convX (o + csz + 3) t) (convX (o + csz + 3 + P.sizes (lowerX t) + 3) e)
  | .loop h csz cond body => .loop h csz cond (convX (o + P.sizes h.pre + csz + 3 + P.sizes h.inn) body)
  | .loopX h csz cond b1 csz2 cond2 t b2 =>
    .loop h csz cond
      (convX (o + P.sizes h.pre + csz + 3 + P.sizes h.inn) b1 ++
        .ifThen csz2 cond2
          (convX (o + P.sizes h.pre + csz + 3 + P.sizes h.inn + P.sizes (lowerX b1) + csz2 + 3) t ++
            [.simple (exitSmpAt (o + P.sizes h.pre + csz + 3 + P.sizes h.inn + P.sizes (lowerX b1) + csz2 + 3 + P.sizes (lowerX t)))]) [] ::
        convX (o + P.sizes h.pre + csz + 3 + P.sizes h.inn + P.sizes (lowerX b1) + csz2 + 3 + P.sizes (lowerX t) + 3) b2)
def convX (o : Int) : List SrcX → List Src
  | [] => []
  | x :: xs => convX1 o x :: convX (o + P.sizes (lowerX1 x)) xs
end

/-- the class with exits: the lowered skeleton is well-formed (in particular: no `if` directly behind an if-exit in the same loop
    body), and the exit-free skeleton with the exit as a statement is in the class of the exit-free theorem -/
def SrcX.oks (o : Int) (ss : List SrcX) : Bool := P.wfs (lowerX ss) && Src.oks none o (convX o ss)

/-! ### observations on the result: the statements of a tree in order, and raw jump statements -/

mutual
/-- the statement codes of a reconstructed tree in text order: the branches of an if-then and the body of a repeat are entered,
    every other statement contributes its code -/
def stmtCodes : Node → List Node
  | .stmt _ c => codeStmts c
  | _ => []
def codeStmts : Node → List Node
  | .ifThen _ _ a b => stmtCodesL a ++ stmtCodesL b
  | .repeat_ _ _ _ b _ _ _ _ _ => stmtCodesL b
  | c => [c]
def stmtCodesL : List Node → List Node
  | [] => []
  | x :: xs => stmtCodes x ++ stmtCodesL xs
end

mutual
/-- the simple statements of a source skeleton in text order (loop-header statements belong to the header) -/
def Src.codes1 : Src → List Node
  | .simple s => [s.code]
  | .ifThen _ _ t e => Src.codes t ++ Src.codes e
  | .loop _ _ _ body => Src.codes body
def Src.codes : List Src → List Node
  | [] => []
  | x :: xs => x.codes1 ++ Src.codes xs
end

/-- what `parse_opcodes` does with the statement list once the opcode loop has produced its events:
    `condition_detect(fn)` then `loop_detect(fn)` -/
def decompileFlow (evs : List Ev) : R (List Node) := do
  let s ← runEv [] evs
  let s ← condDetect s
  loopDetect s

end Drx.LinkFlow
