/-
  Vocabulary of the generated score layouts (lean/Drx/Gen/ScoreLayouts.lean is written in these terms by
  harness/score_gen.py on every run): one `Fld` per read of `frameData` in the straight-line readers of
  drxtract/vwsc/dir4cparser.py and dir5cparser.py.
-/
import Drx.Py
namespace Drx.VwscLayout
open Drx

/-- how the bytes are read: `struct.unpack(fmt, frameData[a:b])[0]` or `frameData[i]` / `int(frameData[i])` -/
inductive Fmt where
  | s16 | u16 | s16le | u16le | s32 | u32 | u8 | s8
  deriving Repr, DecidableEq, Inhabited

/-- wrapper around the raw read that the translator recognises: none, `… % 64`, `self.get_transition_name(…)` -/
inductive Post where
  | raw | mod64 | transition_name
  deriving Repr, DecidableEq, Inhabited

structure Fld where
  off : Nat
  fmt : Fmt
  post : Post
  deriving Repr, DecidableEq, Inhabited

def Fmt.width : Fmt → Nat
  | .s16 | .u16 | .s16le | .u16le => 2
  | .s32 | .u32 => 4
  | .u8 | .s8 => 1

/-- the raw value of a field in a frame slice (`struct.error` on a short slice, `IndexError` for a byte index) -/
def Fld.raw (f : Fld) (d : Bytes) : R Int :=
  match f.fmt with
  | .s16 => getS .be 2 d f.off
  | .u16 => (getU .be 2 d f.off).map Int.ofNat
  | .s16le => getS .le 2 d f.off
  | .u16le => (getU .le 2 d f.off).map Int.ofNat
  | .s32 => getS .be 4 d f.off
  | .u32 => (getU .be 4 d f.off).map Int.ofNat
  | .u8 => (byteAt d f.off).map fun b => (b.toNat : Int)
  | .s8 => (byteAt d f.off).map fun b => toSigned 8 b.toNat

/-- the integer the reader binds to the field's variable (`% 64` applied where the source applies it) -/
def Fld.int (f : Fld) (d : Bytes) : R Int :=
  match f.post with
  | .mod64 => (f.raw d).map (· % 64)
  | _ => f.raw d

/-- the bytes `[off, off+width)` a field occupies -/
def Fld.stop (f : Fld) : Nat := f.off + f.fmt.width

/-- a layout reads disjoint, increasing ranges that end inside the frame -/
def wellFormed (frameSize : Nat) : List (String × Fld) → Nat → Bool
  | [], pos => pos ≤ frameSize
  | (_, f) :: rest, pos => pos ≤ f.off && wellFormed frameSize rest f.stop

/-- … and, stronger, reads *every* byte exactly once up to `stop` -/
def tiles : List (String × Fld) → Nat → Nat → Bool
  | [], pos, stop => pos == stop
  | (_, f) :: rest, pos, stop => pos == f.off && tiles rest f.stop stop

end Drx.VwscLayout
