/-
  Model of drxtract/riff/{riff_chunk,riff,imap,mmap}.py  (property C01, used by C05/C18).
  Mirrors the Python function by function; positions are Nat where the code can only
  produce non-negative values, Int where a signed field enters a slice bound.
-/
import Drx.Py
import Drx.Json
namespace Drx.Riff
open Drx

/-- `c if ' ' <= c <= 'z' else '_'` after `decode('ascii', errors='replace')` -/
def sanitize (b : UInt8) : Char :=
  if 0x20 ≤ b.toNat ∧ b.toNat ≤ 0x7a then Char.ofNat b.toNat else '_'

/-- riff_chunk.parse_chunk_id -/
def parseChunkId (d : Bytes) (pos : Nat) (o : Order) : R (List Char) :=
  let s := slice d pos (pos + 4)
  if s.length = 4 then
    let cs := s.map sanitize
    .ok (match o with | .be => cs | .le => cs.reverse)
  else .error .struct

structure Chunk where
  id : List Char
  data : Bytes
  deriving Repr, DecidableEq, Inhabited

/-- riff_chunk.parse_chunk -/
def parseChunk (d : Bytes) (pos : Nat) (o : Order) : R Chunk := do
  let bt ← parseChunkId d pos o
  let size ← getS o 4 d (pos + 4)
  .ok ⟨bt, pySlice d ((pos + 8 : Nat) : Int) (((pos + 8 : Nat) : Int) + size)⟩

/-- the `while index < len(fdata)` loop of riff.parse_riff -/
def walk (d : Bytes) (o : Order) (index : Nat) : R (List Chunk) :=
  if h : index < d.length then
    match parseChunk d index o with
    | .error e => .error e
    | .ok c =>
      match walk d o (index + 8 + c.data.length + c.data.length % 2) with
      | .error e => .error e
      | .ok cs => .ok (c :: cs)
  else .ok []
termination_by d.length - index
decreasing_by omega

/-- number of iterations of the walk loop (C10 twin) -/
def walkSteps (d : Bytes) (o : Order) (index : Nat) : Nat :=
  if h : index < d.length then
    match parseChunk d index o with
    | .error _ => 1
    | .ok c => 1 + walkSteps d o (index + 8 + c.data.length + c.data.length % 2)
  else 0
termination_by d.length - index
decreasing_by omega

def RIFX : List Char := ['R', 'I', 'F', 'X']
def MV93 : List Char := ['M', 'V', '9', '3']

/-- riff.parse_riff -/
def parseRiff (d : Bytes) (offset : Nat) (o : Order) : R (List Chunk) := do
  let ff ← parseChunkId d offset o
  if ff ≠ RIFX then .error .type else
  let _len ← getS o 4 d (offset + 4)
  let mv ← parseChunkId d (offset + 8) o
  if mv ≠ MV93 then .error .type else
  walk d o (offset + 12)

/-- iterations of the walk loop inside parse_riff (0 when the header checks raise before the loop) -/
def parseRiffSteps (d : Bytes) (offset : Nat) (o : Order) : Nat :=
  match parseChunkId d offset o with
  | .error _ => 0
  | .ok ff =>
    if ff ≠ RIFX then 0 else
    match getS o 4 d (offset + 4) with
    | .error _ => 0
    | .ok _ =>
      match parseChunkId d (offset + 8) o with
      | .error _ => 0
      | .ok mv => if mv ≠ MV93 then 0 else walkSteps d o (offset + 12)

/-- RiffData.get_by_offset (offset may be any integer: it is `entry.offset - prefix`) -/
def getByOffsetAux : List Chunk → Int → Int → R Chunk
  | [], _, _ => .error .index
  | c :: cs, index, offset =>
    if index = offset then .ok c
    else getByOffsetAux cs (index + 8 + c.data.length + (c.data.length % 2 : Nat)) offset

def getByOffset (cs : List Chunk) (offset : Int) : R Chunk := getByOffsetAux cs 12 offset

/-! ### imap / mmap -/

structure Imap where
  count : Int
  offset : Int
  fileVersion : Int
  reserved : Int
  unknown : Int
  reserved2 : Int
  deriving Repr, DecidableEq, Inhabited

/-- imap.parse_imap: `struct.unpack(o + "iiihhii", fdata)` (24 bytes exactly; the seventh
    value is unpacked and dropped) -/
def parseImap (d : Bytes) (o : Order) : R Imap :=
  if d.length ≠ 24 then .error .struct else do
  let a ← getS o 4 d 0
  let b ← getS o 4 d 4
  let c ← getS o 4 d 8
  let e ← getS o 2 d 12
  let f ← getS o 2 d 14
  let g ← getS o 4 d 16
  .ok ⟨a, b, c, e, f, g⟩

structure MmapEntry where
  chunkID : List Char
  size : Int
  offset : Int
  flags : Int
  unused : Int
  next : Int
  deriving Repr, DecidableEq, Inhabited

structure Mmap where
  propertiesSize : Int
  resourceSize : Int
  maxCount : Int
  usedCount : Int
  firstJunk : Int
  oldMap : Int
  firstFree : Int
  resources : List MmapEntry
  deriving Repr, DecidableEq, Inhabited

/-- mmap.parse_mmap_resource -/
def parseMmapEntry (d : Bytes) (off : Nat) (o : Order) : R MmapEntry := do
  let id ← parseChunkId d off o
  let size ← getS o 4 d (off + 4)
  let offs ← getS o 4 d (off + 8)
  let flag ← getS o 2 d (off + 12)
  let unus ← getS o 2 d (off + 14)
  let nxt ← getS o 4 d (off + 16)
  .ok ⟨id, size, offs, flag, unus, nxt⟩

/-- `for _ in range(0, used)` with `offset += 20` -/
def parseMmapEntries (d : Bytes) (o : Order) : Nat → Nat → R (List MmapEntry)
  | 0, _ => .ok []
  | n+1, off => do
    let e ← parseMmapEntry d off o
    let rest ← parseMmapEntries d o n (off + 20)
    .ok (e :: rest)

/-- mmap.parse_mmap -/
def parseMmap (d : Bytes) (o : Order) : R Mmap := do
  let hdr := slice d 0 24
  if hdr.length ≠ 24 then .error .struct else
  let a ← getS o 2 d 0
  let b ← getS o 2 d 2
  let c ← getS o 4 d 4
  let u ← getS o 4 d 8
  let j ← getS o 4 d 12
  let om ← getS o 4 d 16
  let ff ← getS o 4 d 20
  let rs ← parseMmapEntries d o u.toNat 24
  .ok ⟨a, b, c, u, j, om, ff, rs⟩

/-! ### locator -/

def isPrefixB : Bytes → Bytes → Bool
  | [], _ => true
  | _ :: _, [] => false
  | a :: as, b :: bs => a == b && isPrefixB as bs

/-- `bytes.find(pat)`: index of the first occurrence (none = -1) -/
def findB (pat : Bytes) : Bytes → Option Nat
  | [] => if pat.isEmpty then some 0 else none
  | b :: bs => if isPrefixB pat (b :: bs) then some 0 else (findB pat bs).map (· + 1)

def XFIR : Bytes := [0x58, 0x46, 0x49, 0x52]
def VM39 : Bytes := [0x33, 0x39, 0x56, 0x4d]

theorem findB_le (pat l : Bytes) (i : Nat) (h : findB pat l = some i) : i ≤ l.length := by
  induction l generalizing i with
  | nil => unfold findB at h; split at h <;> simp_all
  | cons b bs ih =>
    unfold findB at h
    split at h
    · simp at h; omega
    · cases hf : findB pat bs with
      | none => simp [hf] at h
      | some j => simp [hf] at h; have := ih j hf; simp; omega

/-- riff.find_riff_in_exe: the loop, on the remaining content and the accumulated offset -/
def locate (content : Bytes) (acc : Nat) : Nat :=
  match h : findB XFIR content with
  | none => acc
  | some index =>
    let c := content.drop index
    if slice c 8 12 = VM39 then acc + index
    else locate (c.drop 4) (acc + index + 4)
termination_by content.length
decreasing_by
  have hle := findB_le _ _ _ h
  simp only [List.length_drop]
  have : 0 < content.length := by
    cases content with
    | nil => simp [findB, XFIR] at h
    | cons _ _ => simp
  omega

def findRiffInExe (content : Bytes) : Nat := locate content 0

/-! ### observables -/

def Chunk.toJ (c : Chunk) : J := .obj [("id", .str c.id), ("data", J.hex c.data)]

def Imap.toJ (m : Imap) : J := .arr [.int m.count, .int m.offset, .int m.fileVersion, .int m.reserved, .int m.unknown, .int m.reserved2]

def MmapEntry.toJ (e : MmapEntry) : J := .arr [.str e.chunkID, .int e.size, .int e.offset, .int e.flags, .int e.unused, .int e.next]

def Mmap.toJ (m : Mmap) : J :=
  .obj [("hdr", .arr [.int m.propertiesSize, .int m.resourceSize, .int m.maxCount, .int m.usedCount, .int m.firstJunk, .int m.oldMap, .int m.firstFree]),
        ("res", .arr (m.resources.map MmapEntry.toJ))]

end Drx.Riff
