/-
  Text decoding as configured by util.get_encoding() (env DRX_ENCODING, default mac_roman).
  Table codecs come from the generated tables (Drx/Gen/Codecs.lean, dumped from CPython each run);
  utf_8 is a strict decoder written here (rejects overlong forms, surrogates, > U+10FFFF, truncation).
-/
import Drx.Py
import Drx.Gen.Codecs
namespace Drx

inductive Codec where
  | macRoman | latin1 | cp1252 | ascii | utf8
  deriving Repr, DecidableEq, BEq, Inhabited

def Codec.ofName (s : String) : Option Codec :=
  if s = "mac_roman" then some .macRoman
  else if s = "latin_1" then some .latin1
  else if s = "cp1252" then some .cp1252
  else if s = "ascii" then some .ascii
  else if s = "utf_8" ∨ s = "utf-8" then some .utf8
  else none

def Codec.table : Codec → Array Nat
  | .macRoman => Gen.Codecs.macRoman
  | .latin1 => Gen.Codecs.latin1
  | .cp1252 => Gen.Codecs.cp1252
  | .ascii => Gen.Codecs.ascii
  | .utf8 => #[]

def mkChar (n : Nat) : Option Char :=
  if h : n.isValidChar then some (Char.ofNatAux n h) else none

/-- one byte under a table codec; `none` where CPython raises UnicodeDecodeError -/
def decodeByte (c : Codec) (b : UInt8) : Option Char :=
  ((c.table)[b.toNat]?).bind mkChar

def isCont (b : UInt8) : Bool := b.toNat / 64 = 2

/-- strict UTF-8, as CPython's `bytes.decode('utf-8')` -/
def decodeUtf8 : Bytes → R (List Char)
  | [] => .ok []
  | b0 :: rest =>
    let n0 := b0.toNat
    if n0 < 0x80 then
      match decodeUtf8 rest with
      | .ok cs => .ok (Char.ofNat n0 :: cs)
      | .error e => .error e
    else if n0 < 0xC2 then .error .unicode
    else if n0 < 0xE0 then
      match rest with
      | b1 :: r1 =>
        if isCont b1 then
          match mkChar ((n0 % 32) * 64 + b1.toNat % 64), decodeUtf8 r1 with
          | some c, .ok cs => .ok (c :: cs)
          | _, _ => .error .unicode
        else .error .unicode
      | _ => .error .unicode
    else if n0 < 0xF0 then
      match rest with
      | b1 :: b2 :: r2 =>
        let v := (n0 % 16) * 4096 + (b1.toNat % 64) * 64 + b2.toNat % 64
        if isCont b1 ∧ isCont b2 ∧ 0x800 ≤ v ∧ ¬ (0xD800 ≤ v ∧ v ≤ 0xDFFF) then
          match mkChar v, decodeUtf8 r2 with
          | some c, .ok cs => .ok (c :: cs)
          | _, _ => .error .unicode
        else .error .unicode
      | _ => .error .unicode
    else if n0 < 0xF5 then
      match rest with
      | b1 :: b2 :: b3 :: r3 =>
        let v := (n0 % 8) * 262144 + (b1.toNat % 64) * 4096 + (b2.toNat % 64) * 64 + b3.toNat % 64
        if isCont b1 ∧ isCont b2 ∧ isCont b3 ∧ 0x10000 ≤ v ∧ v ≤ 0x10FFFF then
          match mkChar v, decodeUtf8 r3 with
          | some c, .ok cs => .ok (c :: cs)
          | _, _ => .error .unicode
        else .error .unicode
      | _ => .error .unicode
    else .error .unicode

/-- `bs.decode(codec)` -/
def decodeText (c : Codec) (bs : Bytes) : R (List Char) :=
  match c with
  | .utf8 => decodeUtf8 bs
  | _ => bs.mapM fun b => match decodeByte c b with | some ch => .ok ch | none => .error .unicode

end Drx
