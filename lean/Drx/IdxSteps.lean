/-
  Counting twins of every loop of the index-chunk and text-chunk models (C10 support; theorems in DrxProps/C10Idx.lean).
  A twin returns the number of loop ROUNDS THAT START on the same input (= executions of the first line of the loop body in
  the Python code, the round that raises included), plus — where the loop slices the input — the number of bytes sliced.
  Every twin is structural or well-founded recursion without fuel, like the loop it counts.
-/
import Drx.Idx
import Drx.Stxt
import Drx.Fmap
namespace Drx.IdxSteps
open Drx Drx.Idx

/-! ### key.py -/

/-- rounds of `for _ in range(nelements-1)` -/
def keySteps (o : Order) (d : Bytes) : Nat → Nat → Nat
  | 0, _ => 0
  | n+1, indx =>
    match getS o 4 d indx, getS o 4 d (indx + 4), Riff.parseChunkId d (indx + 8) o with
    | .ok _, .ok _, .ok _ => 1 + keySteps o d n (indx + 12)
    | _, _, _ => 1

def parseKeySteps (o : Order) (d : Bytes) : Nat :=
  match getS o 4 d 0, getS o 4 d 4, getS o 4 d 8 with
  | .ok _, .ok _, .ok nelements => keySteps o d (nelements - 1).toNat 12
  | _, _, _ => 0

/-! ### cas.py -/

def casSteps (d : Bytes) (indx : Nat) : Nat :=
  if h : d.length ≥ indx + 4 then
    match getS .be 4 d indx with
    | .error _ => 1
    | .ok _ => 1 + casSteps d (indx + 4)
  else 0
termination_by d.length - indx
decreasing_by omega

def parseCasSteps (d : Bytes) : Nat := casSteps d 0

/-! ### lctx.py -/

/-- rounds of `for _ in range(0, nscripts)`; the position is an integer (signed table offset) -/
def lctxSteps (d : Bytes) : Nat → Int → Nat
  | 0, _ => 0
  | n+1, indx =>
    match getUI .be 4 d indx, getSI .be 4 d (indx + 4), getSI .be 4 d (indx + 8) with
    | .ok _, .ok _, .ok _ => 1 + lctxSteps d n (indx + 12)
    | _, _, _ => 1

def parseLctxSteps (d : Bytes) : Nat :=
  match getS .be 4 d 0, getS .be 4 d 4, getS .be 4 d 8, getS .be 4 d 12, getS .be 2 d 16 with
  | .ok _, .ok _, .ok nscripts, .ok _, .ok scrIdx => lctxSteps d nscripts.toNat scrIdx
  | _, _, _, _, _ => 0

/-! ### lnam.py -/

/-- (rounds, name bytes sliced) of `for i in range(0, nnames)` -/
def lnamSteps (dec : Dec) (d : Bytes) : Nat → Nat → Nat × Nat
  | 0, _ => (0, 0)
  | n+1, indx =>
    match byteAt d indx with
    | .error _ => (1, 0)
    | .ok nbytes =>
      let name := slice d (indx + 1) (indx + 1 + nbytes.toNat)
      match dec name with
      | .error _ => (1, name.length)
      | .ok _ =>
        let r := lnamSteps dec d n (indx + 1 + nbytes.toNat)
        (1 + r.1, name.length + r.2)

def parseLnamSteps (dec : Dec) (d : Bytes) : Nat × Nat :=
  match getS .be 4 d 0, getS .be 4 d 4, getS .be 4 d 8, getS .be 4 d 12, getS .be 2 d 16, getS .be 2 d 18 with
  | .ok _, .ok _, .ok filesize, .ok filesizeCp, .ok _, .ok nnames =>
    if filesizeCp ≠ filesize then (0, 0) else lnamSteps dec d nnames.toNat 20
  | _, _, _, _, _, _ => (0, 0)

/-! ### vwlb.py -/

/-- (rounds, label bytes sliced) of `for _ in range(0, nmarkers)` -/
def vwlbSteps (dec : Dec) (d : Bytes) (mnidx : Nat) : Nat → Nat → Nat × Nat
  | 0, _ => (0, 0)
  | n+1, indx =>
    match getS .be 2 d indx, getU .be 2 d (indx + 2), getU .be 2 d (indx + 6) with
    | .ok _, .ok nameStart, .ok nameEnd =>
      if mnidx + nameEnd < mnidx + nameStart then (1, 0) else
      let name := slice d (mnidx + nameStart) (mnidx + nameEnd)
      match dec name with
      | .error _ => (1, name.length)
      | .ok _ =>
        let r := vwlbSteps dec d mnidx n (indx + 4)
        (1 + r.1, name.length + r.2)
    | _, _, _ => (1, 0)

def parseVwlbSteps (dec : Dec) (d : Bytes) : Nat × Nat :=
  match getS .be 2 d 0 with
  | .ok nmarkers => vwlbSteps dec d (2 + 4 * (nmarkers + 1)).toNat nmarkers.toNat 2
  | .error _ => (0, 0)

/-! ### stxt.py -/

/-- the fourteen reads of one style record succeed -/
def runReads (d : Bytes) (idx : Int) : Bool :=
  (getSI .be 2 d idx).toBool && (getSI .be 2 d (idx + 2)).toBool && (getSI .be 2 d (idx + 4)).toBool &&
  (getSI .be 2 d (idx + 6)).toBool && (getSI .be 2 d (idx + 8)).toBool && (byteAtI d (idx + 10)).toBool &&
  (byteAtI d (idx + 11)).toBool && (getSI .be 2 d (idx + 12)).toBool && (byteAtI d (idx + 14)).toBool &&
  (byteAtI d (idx + 15)).toBool && (byteAtI d (idx + 16)).toBool && (byteAtI d (idx + 17)).toBool &&
  (byteAtI d (idx + 18)).toBool && (byteAtI d (idx + 19)).toBool

/-- the first five reads (up to the font id: the font lookup loop runs after them) succeed -/
def runReadsToFont (d : Bytes) (idx : Int) : Bool :=
  (getSI .be 2 d idx).toBool && (getSI .be 2 d (idx + 2)).toBool && (getSI .be 2 d (idx + 4)).toBool &&
  (getSI .be 2 d (idx + 6)).toBool && (getSI .be 2 d (idx + 8)).toBool

/-- (rounds of the style-record loop, rounds of the nested `for font in fontmap` loop) -/
def runSteps (nfonts : Nat) (d : Bytes) : Nat → Int → Nat × Nat
  | 0, _ => (0, 0)
  | n+1, idx =>
    if runReads d idx then
      let r := runSteps nfonts d n (idx + 20)
      (1 + r.1, nfonts + r.2)
    else (1, if runReadsToFont d idx then nfonts else 0)

def parseStxtSteps (dec : Fmap.Dec) (nfonts : Nat) (d : Bytes) : Nat × Nat :=
  match getS .be 4 d 0, getS .be 4 d 4, getS .be 4 d 8 with
  | .ok idxb, .ok nchars, .ok _ =>
    match dec (pySlice d idxb (idxb + nchars)) with
    | .error _ => (0, 0)
    | .ok _ =>
      match getSI .be 2 d (idxb + nchars) with
      | .ok nformat => runSteps nfonts d nformat.toNat (idxb + nchars + 2)
      | .error _ => (0, 0)
  | _, _, _ => (0, 0)

/-! ### fmap.py -/

/-- rounds of `for i in range(nfonts_cap)` -/
def metaSteps (hd : Bytes) : Nat → Nat → Nat
  | 0, _ => 0
  | n+1, idx =>
    match getS .be 4 hd idx, getS .be 2 hd (idx + 4), getS .be 2 hd (idx + 6) with
    | .ok _, .ok _, .ok _ => 1 + metaSteps hd n (idx + 8)
    | _, _, _ => 1

/-- (rounds, name bytes sliced) of `for i in range(nfonts)` -/
def fontSteps (dec : Fmap.Dec) (bd : Bytes) : Nat → List (Int × Int) → Nat → Nat × Nat
  | 0, _, _ => (0, 0)
  | _+1, [], _ => (1, 0)
  | n+1, (disp, _) :: ms, namesSize =>
    match getSI .be 4 bd disp with
    | .error _ => (1, 0)
    | .ok nchars =>
      let nameData := pySlice bd (disp + 4) (disp + 4 + nchars)
      if namesSize + nameData.length > bd.length then (1, nameData.length) else
      match dec nameData with
      | .error _ => (1, nameData.length)
      | .ok _ =>
        let r := fontSteps dec bd n ms (namesSize + nameData.length)
        (1 + r.1, nameData.length + r.2)

/-- (rounds of both loops together, name bytes sliced) -/
def parseFmapSteps (dec : Fmap.Dec) (d : Bytes) : Nat × Nat :=
  match getS .be 4 d 0, getS .be 4 d 4 with
  | .ok headerSize, .ok additionalSize =>
    if 8 + headerSize + additionalSize ≠ (d.length : Int) then (0, 0) else
    let hd := pySlice d 8 (8 + headerSize)
    let bd := pySlice d (8 + headerSize) (8 + headerSize + additionalSize)
    match getS .be 2 hd 0, getS .be 2 hd 2, getS .be 2 hd 4, getS .be 2 hd 6, getS .be 4 hd 8, getS .be 4 hd 12,
          getS .be 2 hd 16, getS .be 2 hd 18, getS .be 2 hd 20, getS .be 2 hd 22, getS .be 2 hd 24, getS .be 2 hd 26 with
    | .ok _, .ok _, .ok _, .ok _, .ok nfonts, .ok nfontsCap, .ok _, .ok _, .ok _, .ok _, .ok _, .ok _ =>
      let ms := metaSteps hd nfontsCap.toNat 28
      match Fmap.metaLoop hd nfontsCap.toNat 28 with
      | .error _ => (ms, 0)
      | .ok metadata =>
        let r := fontSteps dec bd nfonts.toNat metadata 0
        (ms + r.1, r.2)
    | _, _, _, _, _, _, _, _, _, _, _, _ => (0, 0)
  | _, _ => (0, 0)

end Drx.IdxSteps
