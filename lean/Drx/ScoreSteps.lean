/-
  Exact loop-round twins of the score pipeline `vwsc_to_score(parse_vwsc_file_data(d))` for C10.
  A *round* is one execution of the first body line of a `for`/`while` loop (the convention of `loop_first_lines` in
  harness/c10.py), so a round that raises is counted, and nothing after the raise is.
  Loops counted: vwsc.parse_vwsc_data (record loop, delta loop, byte-copy loop), cparser.parse_vwsc_channels (sprite loop),
  vwsc.vwsc_to_score (channel-list initialisation, first pass, second pass outer and inner loop).
  Same control flow as Drx/Vwsc.lean and Drx/Score.lean; no fuel.
-/
import Drx.Vwsc
import Drx.Score
namespace Drx.Vwsc
open Drx

/-- rounds of `for i in range(delta_size)`: the round in which `deltaData[i]` or `channelDataList[p] = …` raises is counted -/
def patchRounds (buf : Bytes) (p : Nat) : Nat → Bytes → Nat
  | 0, _ => 0
  | _ + 1, [] => 1
  | n + 1, b :: bs => if p < buf.length then 1 + patchRounds (buf.set p b) (p + 1) n bs else 1

/-- rounds of the sprite loop of parse_vwsc_channels on `channelData[indx:]` -/
def spriteRounds (lay : Layout) (rest : Bytes) : Nat :=
  match _h : rest with
  | [] => 0
  | _ :: _ =>
    match readSprite lay (rest.take lay.frameSize) with
    | .error _ => 1
    | .ok _ => 1 + spriteRounds lay (rest.drop lay.frameSize)
termination_by rest.length
decreasing_by have := lay.frameSize_pos; subst _h; simp only [List.length_drop, List.length_cons]; omega

/-- sprite-loop rounds of one call of parse_vwsc_channels (none when the main or palette reader raises first) -/
def parseRounds (lay : Layout) (buf : Bytes) : Nat :=
  match readMain lay (slice buf 0 lay.frameSize) with
  | .error _ => 0
  | .ok _ =>
    match readPalette lay (slice buf lay.frameSize (lay.frameSize + lay.frameSize)) with
    | .error _ => 0
    | .ok _ => spriteRounds lay (buf.drop (lay.frameSize + lay.frameSize))

/-- (rounds of `while channelSize > 0`, rounds of the byte-copy loop) from this state on, same recursion as `deltaLoop` -/
def deltaWork (d : Bytes) (buf : Bytes) (idx : Nat) (cs : Int) : Nat × Nat :=
  if _h : cs > 0 then
    match getS .be 2 d idx with
    | .error _ => (1, 0)
    | .ok deltaSize =>
      if deltaSize > cs ∨ deltaSize ≤ 0 then (1, 0)
      else
        match getS .be 2 d (idx + 2) with
        | .error _ => (1, 0)
        | .ok off0 =>
          let deltaOffset := if off0 < 0 then off0 % 256 else off0
          let n := deltaSize.toNat
          let deltaData := slice d (idx + 4) (idx + 4 + n)
          let r := patchRounds buf deltaOffset.toNat n deltaData
          match patch buf deltaOffset.toNat n deltaData with
          | .error _ => (1, r)
          | .ok buf' =>
            let w := deltaWork d buf' (idx + 4 + n) (cs - 4 - deltaSize)
            (1 + w.1, r + w.2)
  else (0, 0)
termination_by cs.toNat
decreasing_by omega

structure Work where
  records : Nat := 0     -- rounds of `while idx < dataSize`
  deltas : Nat := 0      -- rounds of `while channelSize > 0`
  copied : Nat := 0      -- rounds of `for i in range(0, delta_size)`
  parses : Nat := 0      -- calls of parse_vwsc_channels
  sprites : Nat := 0     -- rounds of the sprite loop over all those calls
  deriving Repr, DecidableEq, Inhabited

set_option linter.unusedVariables false in
/-- exact twin of `recLoop` -/
def recWork (lay : Layout) (d : Bytes) (buf : Bytes) (idx : Nat) (prev : Bool) (acc : Work) : Work :=
  if _h : idx < d.length then
    let acc := { acc with records := acc.records + 1 }
    match getS .be 2 d idx with
    | .error _ => acc
    | .ok size =>
      if size < 2 then acc
      else if size = 2 then
        if prev then recWork lay d buf (idx + 2) true acc
        else
          let acc := { acc with parses := acc.parses + 1, sprites := acc.sprites + parseRounds lay buf }
          match parseChannels lay buf with
          | .error _ => acc
          | .ok _ => recWork lay d buf (idx + 2) true acc
      else
        let w := deltaWork d buf (idx + 2) (size - 2)
        let acc := { acc with deltas := acc.deltas + w.1, copied := acc.copied + w.2 }
        match hd : deltaLoop d buf (idx + 2) (size - 2) 0 0 with
        | .error _ => acc
        | .ok s =>
          let acc := { acc with parses := acc.parses + 1, sprites := acc.sprites + parseRounds lay s.buf }
          match parseChannels lay s.buf with
          | .error _ => acc
          | .ok _ => recWork lay d s.buf ((s.idx : Int) + s.cs).toNat true acc
  else acc
termination_by d.length - idx
decreasing_by
  · omega
  · omega
  · have := deltaLoop_inv d buf (idx + 2) (size - 2) 0 0 s hd
    omega

/-- work of parse_vwsc_data, the size of its one allocation, and the declared channel count (0s when the header is rejected) -/
def vwscWork (fdata : Bytes) : Work × Nat × Nat :=
  match parseHeader fdata with
  | .error _ => ({}, 0, 0)
  | .ok h =>
    let n := (h.channelCount * h.frameSize).toNat
    (recWork h.lay fdata (zeros n) 20 false {}, n, h.channelCount.toNat)

/-- the data block parse_vwsc_file_data hands to parse_vwsc_data -/
def locateData (fdata : Bytes) : R Bytes := do
  let dataSize0 ← getS .be 4 fdata 0
  let dataMarker0 ← getS .be 4 fdata 4
  let t ← if dataMarker0 ≠ 0x14 then skipWrapper fdata dataSize0 else pure (8, dataSize0, dataMarker0)
  if t.2.2 ≠ 0x14 then throw .value
  let indx := t.1 - 8
  pure (pySlice fdata indx (indx + t.2.1))

end Drx.Vwsc

namespace Drx.Score
open Drx Drx.Vwsc

/-- rounds of `for j in range(lastChannel)` for one frame: the round in which `score[j]` raises is counted -/
def stepFrameRounds : List (List Span) → List (Option Sprite) → Nat
  | [], _ => 0
  | _ :: _, [] => 1
  | _ :: sps, _ :: cs => 1 + stepFrameRounds sps cs

/-- (outer rounds, inner rounds) of the second pass -/
def pass2Rounds : Nat → List Frame → List (List Span) → Nat × Nat
  | _, [], _ => (0, 0)
  | i, f :: fs, sps =>
    match stepFrame i 0 sps f.score with
    | .error _ => (1, stepFrameRounds sps f.score)
    | .ok sps' => let w := pass2Rounds (i + 1) fs sps'; (1 + w.1, stepFrameRounds sps f.score + w.2)

structure ScoreWork where
  init : Nat       -- `for i in range(0, data['lastChannel'])` building the empty span lists
  pass1 : Nat      -- first `for i in range(0, data['lastFrame'])`
  pass2 : Nat      -- second one
  cells : Nat      -- `for j in range(0, data['lastChannel'])`
  deriving Repr, DecidableEq, Inhabited

def ScoreWork.total (w : ScoreWork) : Nat := w.init + w.pass1 + w.pass2 + w.cells

/-- what a line counter sees under the convention "hits of the first body line of every loop": the first body line of the
    second pass's outer loop IS the header line of the inner `for j` loop, which is hit again after every completed inner
    round; so the inner rounds are seen twice (all inner rounds complete on the rectangular tables the decoder returns) -/
def ScoreWork.lineHits (w : ScoreWork) : Nat := w.init + w.pass1 + (w.pass2 + w.cells) + w.cells

/-- exact twin of vwsc_to_score -/
def toScoreWork (frames : List Frame) : ScoreWork :=
  let lastChannel := match frames with | [] => 0 | f :: _ => f.score.length
  let w := pass2Rounds 0 frames (List.replicate lastChannel [])
  ⟨lastChannel, frames.length, w.1, w.2⟩

/-- total first-body-line hits of the loops of `vwsc_to_score(parse_vwsc_file_data(d))` (see `ScoreWork.lineHits`) -/
def pipelineRounds (fdata : Bytes) : Nat :=
  match locateData fdata with
  | .error _ => 0
  | .ok data =>
    let w := (vwscWork data).1
    let parse := w.records + w.deltas + w.copied + w.sprites
    match parseVwsc data with
    | .error _ => parse
    | .ok frames => parse + (toScoreWork frames).lineHits

/-- the channel count the (located) header declares: with the frame count this is the output size the input legitimately announces -/
def declaredChannels (fdata : Bytes) : Nat :=
  match locateData fdata with
  | .error _ => 0
  | .ok data => (vwscWork data).2.2

end Drx.Score
