/-
  Model of drxtract/vwsc/vwsc.py `parse_vwsc_data` and `parse_vwsc_file_data` (property C08; termination = C10),
  as the code stands after the repairs F36 (parser looked up before the buffer is allocated), F35 (record sizes < 2
  rejected) and F10 (a leading "same" record decodes the initial buffer).
  No fuel anywhere: the record loop is accepted by Lean only because every record advances the index by its own
  size word, which is >= 2 once F35 is repaired (`deltaLoop_inv` is the fact the termination proof needs).
-/
import Drx.VwscChannels
namespace Drx.Vwsc
open Drx

/-- `for i in range(0, delta_size): channelDataList[delta_offset + i] = deltaData[i]`
    (`IndexError` when the delta data is short or the position is outside the buffer) -/
def patch (buf : Bytes) (p : Nat) : Nat → Bytes → R Bytes
  | 0, _ => .ok buf
  | _ + 1, [] => .error .index
  | n + 1, b :: bs => if p < buf.length then patch (buf.set p b) (p + 1) n bs else .error .index

/-- state of the inner `while channelSize > 0` loop when it ends: index, what is left of the record, buffer,
    and (for the C10 twins) the number of iterations and of bytes copied -/
structure DState where
  idx : Nat
  cs : Int
  buf : Bytes
  iters : Nat := 0
  copied : Nat := 0

/-- the inner loop: delta triples (size, offset, bytes) with the two guards -/
def deltaLoop (d : Bytes) (buf : Bytes) (idx : Nat) (cs : Int) (iters copied : Nat) : R DState :=
  if _h : cs > 0 then
    match getS .be 2 d idx with
    | .error e => .error e
    | .ok deltaSize =>
      if deltaSize > cs ∨ deltaSize ≤ 0 then .ok ⟨idx, cs, buf, iters + 1, copied⟩       -- `break`
      else
        match getS .be 2 d (idx + 2) with
        | .error e => .error e
        | .ok off0 =>
          let deltaOffset := if off0 < 0 then off0 % 256 else off0                      -- `& 0xFF` on a negative int
          let n := deltaSize.toNat
          let deltaData := slice d (idx + 4) (idx + 4 + n)
          match patch buf deltaOffset.toNat n deltaData with
          | .error e => .error e
          | .ok buf' => deltaLoop d buf' (idx + 4 + n) (cs - 4 - deltaSize) (iters + 1) (copied + n)
  else .ok ⟨idx, cs, buf, iters, copied⟩
termination_by cs.toNat
decreasing_by omega

/-- the inner loop never changes `idx + channelSize`: whatever it consumes it also subtracts, so a record always ends
    exactly `size` bytes after it began -/
theorem deltaLoop_inv (d : Bytes) (buf : Bytes) (idx : Nat) (cs : Int) (it cp : Nat) (s : DState)
    (h : deltaLoop d buf idx cs it cp = .ok s) : (s.idx : Int) + s.cs = idx + cs := by
  fun_induction deltaLoop d buf idx cs it cp with
  | case1 buf idx cs it cp hcs e he => simp at h
  | case2 buf idx cs it cp hcs ds hds hbr => cases h; rfl
  | case3 buf idx cs it cp hcs ds hds hbr e he => simp at h
  | case4 buf idx cs it cp hcs ds hds hbr off0 hoff deltaOffset n deltaData e he => simp at h
  | case5 buf idx cs it cp hcs ds hds hbr off0 hoff deltaOffset n deltaData buf' hp ih =>
    have := ih h
    simp only [n] at this
    omega
  | case6 buf idx cs it cp hcs => cases h; rfl

/-- result of the record loop with the C10 counters -/
structure Steps where
  records : Nat := 0      -- iterations of `while idx < dataSize`
  deltas : Nat := 0       -- iterations of `while channelSize > 0` over all records
  copied : Nat := 0       -- executions of `channelDataList[p] = deltaData[i]`
  frames : Nat := 0       -- calls of parse_vwsc_channels
  deriving Repr, DecidableEq, Inhabited

/-- the frame a "same as previous" record appends: `vwsc_data[-1]` when there is one, otherwise (F10 repair) the decoded
    initial buffer -/
def lastOr (prev : Option Frame) (x : Unit → R Frame) : R Frame :=
  match prev with
  | some f => .ok f
  | none => x ()

set_option linter.unusedVariables false in
/-- the record loop `while idx < dataSize` (dataSize = len(fdata) was checked by the caller).
    `prev` is the last element of `vwsc_data`, if any. -/
def recLoop (lay : Layout) (d : Bytes) (buf : Bytes) (idx : Nat) (prev : Option Frame) : R (List Frame) :=
  if _h : idx < d.length then
    match getS .be 2 d idx with
    | .error e => .error e
    | .ok size =>
      if size < 2 then .error .value                                       -- F35 repair
      else if size = 2 then
        -- 'This frame is equals to the previous one!'
        match lastOr prev (fun _ => parseChannels lay buf) with
        | .error e => .error e
        | .ok f =>
          match recLoop lay d buf (idx + 2) (some f) with
          | .error e => .error e
          | .ok fs => .ok (f :: fs)
      else
        -- channelSize - 2 > 0 here, so the 'Empty channel!' branch of the source is dead after F35
        match hd : deltaLoop d buf (idx + 2) (size - 2) 0 0 with
        | .error e => .error e
        | .ok s =>
          match parseChannels lay s.buf with
          | .error e => .error e
          | .ok f =>
            match recLoop lay d s.buf ((s.idx : Int) + s.cs).toNat (some f) with       -- `idx += channelSize`
            | .error e => .error e
            | .ok fs => .ok (f :: fs)
  else .ok []
termination_by d.length - idx
decreasing_by
  · omega
  · have := deltaLoop_inv d buf (idx + 2) (size - 2) 0 0 s hd
    omega

set_option linter.unusedVariables false in
/-- counting twin of `recLoop` (C10): same control flow, returns the counters instead of the frames; an iteration that
    raises is counted -/
def recSteps (lay : Layout) (d : Bytes) (buf : Bytes) (idx : Nat) (prev : Bool) (acc : Steps) : Steps :=
  if _h : idx < d.length then
    let acc := { acc with records := acc.records + 1 }
    match getS .be 2 d idx with
    | .error _ => acc
    | .ok size =>
      if size < 2 then acc
      else if size = 2 then
        if prev then recSteps lay d buf (idx + 2) true acc
        else
          let acc := { acc with frames := acc.frames + 1 }
          match parseChannels lay buf with
          | .error _ => acc
          | .ok _ => recSteps lay d buf (idx + 2) true acc
      else
        match hd : deltaLoop d buf (idx + 2) (size - 2) 0 0 with
        | .error _ => acc      -- (the inner counters of a raising record are not observable; not counted)
        | .ok s =>
          let acc := { acc with deltas := acc.deltas + s.iters, copied := acc.copied + s.copied, frames := acc.frames + 1 }
          match parseChannels lay s.buf with
          | .error _ => acc
          | .ok _ => recSteps lay d s.buf ((s.idx : Int) + s.cs).toNat true acc
  else acc
termination_by d.length - idx
decreasing_by
  · omega
  · omega
  · have := deltaLoop_inv d buf (idx + 2) (size - 2) 0 0 s hd
    omega

/-- `CHANNEL_PARSERS[frame_size]` over the generated table (`KeyError` otherwise) -/
def lookupParser (frameSize : Int) : R Layout :=
  if frameSize < 0 then .error .key else
  match Gen.Score.channelParsers.lookup frameSize.toNat with
  | some (cls, _) =>
    if cls = "D4VwscChannelParser" then .ok .d4
    else if cls = "D5VwscChannelParser" then .ok .d5
    else .error .key
  | none => .error .key

def zeros (n : Nat) : Bytes := List.replicate n 0

structure Header where
  lay : Layout
  frameCount : Int
  frameSize : Int
  channelCount : Int
  deriving Repr

/-- the straight-line part of parse_vwsc_data up to the record loop -/
def parseHeader (fdata : Bytes) : R Header := do
  let dataSize ← getS .be 4 fdata 0
  let dataMarker ← getS .be 4 fdata 4
  if dataMarker ≠ 0x14 then throw .value
  if (fdata.length : Int) ≠ dataSize then throw .value
  let frameCount ← getS .be 4 fdata 8
  let _unknown01 ← getS .be 2 fdata 12
  let frameSize ← getS .be 2 fdata 14
  let channelCount ← getS .be 2 fdata 16
  let _unknown02 ← getS .be 2 fdata 18
  let lay ← lookupParser frameSize                                  -- F36 repair: before the allocation
  if channelCount * frameSize < 0 then throw .value                -- bytearray(negative)
  pure ⟨lay, frameCount, frameSize, channelCount⟩

/-- vwsc.parse_vwsc_data -/
def parseVwsc (fdata : Bytes) : R (List Frame) := do
  let h ← parseHeader fdata
  recLoop h.lay fdata (zeros (h.channelCount * h.frameSize).toNat) 20 none

/-- C10 twin of parse_vwsc_data: loop iteration counters (all zero when the header is rejected) and the size of the
    one allocation `bytearray(channel_count * frame_size)` -/
def parseVwscSteps (fdata : Bytes) : Steps × Nat :=
  match parseHeader fdata with
  | .error _ => ({}, 0)
  | .ok h =>
    let n := (h.channelCount * h.frameSize).toNat
    (recSteps h.lay fdata (zeros n) 20 false {}, n)

/-- `struct.unpack(">i", fdata[i:i+4])` at an index that may have gone negative -/
def getSI (d : Bytes) (k : Nat) (i : Int) : R Int := unpackS .be k (pySlice d i (i + k))

/-- the `if dataMarker != 0x14:` block of parse_vwsc_file_data: the data block is wrapped (DIR file). Returns the index
    after the inner size/marker words, and those two words. -/
def skipWrapper (fdata : Bytes) (dataSize0 : Int) : R (Int × Int × Int) := do
  if (fdata.length : Int) ≠ dataSize0 then throw .value
  let _unknown01 ← getS .be 4 fdata 8
  let _nmarkers ← getS .be 4 fdata 12
  let nmarkers1 ← getS .be 4 fdata 16
  let _lastMarker ← getS .be 4 fdata 20
  let indx : Int := 24 + nmarkers1 * 4                 -- the markers are skipped; the count may be negative
  let dataSize ← getSI fdata 4 indx
  let dataMarker ← getSI fdata 4 (indx + 4)
  pure (indx + 8, dataSize, dataMarker)

/-- vwsc.parse_vwsc_file_data -/
def parseVwscFile (fdata : Bytes) : R (List Frame) := do
  let dataSize0 ← getS .be 4 fdata 0
  let dataMarker0 ← getS .be 4 fdata 4
  let t ← if dataMarker0 ≠ 0x14 then skipWrapper fdata dataSize0 else pure (8, dataSize0, dataMarker0)
  if t.2.2 ≠ 0x14 then throw .value
  let indx := t.1 - 8
  parseVwsc (pySlice fdata indx (indx + t.2.1))

end Drx.Vwsc
