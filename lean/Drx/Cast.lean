/-
  Model of drxtract/cast/cast.py and the nine per-type readers drxtract/cast/*.py  (property C15).

    parse_cast_file_data            parseCast
    parse_cast_data_struct_dir4/5   structD4 / structD5
    parse_basic_cast_data           parseBasic
    ImageParser.parse …             parseImage, parseTextInput, parseButton, parseShape, parseText, parseTransition,
                                    parseSound, parsePalette, parseScript

  The readers are straight-line sequences of `header_data[idx]` / `struct.unpack(">h", header_data[idx:idx+2])` with a running
  index; `readFields kinds d off` is exactly such a sequence (first failing read aborts). Tables (PARSERS, PURGE_PRIORITY,
  DIRECTIONS, transition/shape/palette names) come from Drx/Gen, regenerated from /repo on every run.
-/
import Drx.Py
import Drx.Json
import Drx.Codec
import Drx.Pal
import Drx.Gen.CastTables
namespace Drx.Cast
open Drx

/-! ### sequential fixed-width reads -/

inductive FK where
  | u8 | s16 | s32 | u32
  deriving Repr, DecidableEq, Inhabited

def FK.size : FK → Nat
  | .u8 => 1 | .s16 => 2 | .s32 => 4 | .u32 => 4

/-- one read at `idx`: `int(d[idx])` (IndexError) or `struct.unpack(">h"/">i"/">I", d[idx:idx+k])[0]` (struct.error) -/
def readField (k : FK) (d : Bytes) (off : Nat) : R Int :=
  match k with
  | .u8 => match byteAt d off with | .ok b => .ok (b.toNat : Int) | .error e => .error e
  | .s16 => getS .be 2 d off
  | .s32 => getS .be 4 d off
  | .u32 => match getU .be 4 d off with | .ok n => .ok (n : Int) | .error e => .error e

/-- a run of reads with `idx += size` after each; the first failing read aborts -/
def readFields : List FK → Bytes → Nat → R (List Int)
  | [], _, _ => .ok []
  | k :: ks, d, off =>
    match readField k d off with
    | .error e => .error e
    | .ok v =>
      match readFields ks d (off + k.size) with
      | .error e => .error e
      | .ok vs => .ok (v :: vs)

/-- `for i in range(0, n): x = unpack(...); idx += size` (same kind every round; no list of kinds is materialised, so a
    hostile count costs nothing: the first read past the end aborts) -/
def readN (k : FK) : Nat → Bytes → Nat → R (List Int)
  | 0, _, _ => .ok []
  | n + 1, d, off =>
    match readField k d off with
    | .error e => .error e
    | .ok v =>
      match readN k n d (off + k.size) with
      | .error e => .error e
      | .ok vs => .ok (v :: vs)

/-! ### observable values -/

def jI (i : Int) : J := .int i
def jS (s : String) : J := J.s s
def jB (b : Bool) : J := .bool b

def hexDigitU (n : Nat) : Char := if n < 10 then Char.ofNat (48 + n) else Char.ofNat (55 + n)

/-- `'%02X' % v` for a byte value -/
def hex2U (v : Int) : List Char := [hexDigitU (v.toNat / 16), hexDigitU (v.toNat % 16)]

/-- `vsprintf('#%02X%02X%02X', r, g, b)` -/
def colorU (r g b : Int) : J := .str ('#' :: (hex2U r ++ hex2U g ++ hex2U b))

def lookupOrStr (t : List (Int × String)) (v : Int) : String :=
  match t.lookup v with
  | some s => s
  | none => Pal.pyStrInt v

/-- `boxTypeName = str(boxType)` followed by the four `if boxType == k` overrides -/
def boxTypeName (v : Int) : String :=
  if v = 3 then "limit" else if v = 2 then "fixed" else if v = 1 then "scroll" else if v = 0 then "adjust" else Pal.pyStrInt v

/-- the `if alignment == 0 … elif … else` chain: the number itself survives when unknown -/
def alignmentJ (v : Int) : J :=
  if v = 0 then jS "left" else if v = 1 then jS "center" else if v = -1 then jS "right" else jI v

def buttonTypeJ (v : Int) : J :=
  if v = 1 then jS "pushButton" else if v = 2 then jS "checkBox" else if v = 3 then jS "radioButton" else jI v

/-! ### info block -/

structure Basic where
  scriptKey : Int
  bd1 : Int
  bd2 : Int
  purge : String
  scriptIndex : Int
  deriving Repr, DecidableEq, Inhabited

/-- the `content` dict: `{}`, `{'basic': …}` (no structures) or `{'basic': …, 'extra': […], 'name': …}` -/
inductive Content where
  | empty
  | basic (b : Basic)
  | full (b : Basic) (extra : List Bytes) (name : List Char)
  deriving Repr, DecidableEq, Inhabited

def Content.name? : Content → Option (List Char)
  | .full _ _ n => some n
  | _ => none

def Content.bd2 : Content → Int
  | .empty => 0
  | .basic b => b.bd2
  | .full b _ _ => b.bd2

/-- characters `re.sub(r"[^A-Za-z0-9\-_\. ]", "_", name)` leaves alone -/
def isSafe (c : Char) : Bool :=
  ('A' ≤ c && c ≤ 'Z') || ('a' ≤ c && c ≤ 'z') || ('0' ≤ c && c ≤ '9') || c = '-' || c = '_' || c = '.' || c = ' '

def safeChar (c : Char) : Char := if isSafe c then c else '_'

/-- the second `for i in range(0, nstruct)` loop: entry `i` is `offs[i+1] - offs[i]` bytes at the running index when that is
    positive (a slice: silently shorter at the end of the data), else empty -/
def collectExtras (b : Bytes) : List Int → Nat → List Bytes
  | o0 :: o1 :: rest, idx =>
    let stlen := o1 - o0
    if stlen > 0 then slice b idx (idx + stlen.toNat) :: collectExtras b (o1 :: rest) (idx + stlen.toNat)
    else [] :: collectExtras b (o1 :: rest) idx
  | _, _ => []

/-- the member name: entry 1, when present and non-empty, is a Pascal string -/
def memberName (codec : Codec) (extras : List Bytes) : R (List Char) :=
  match extras with
  | _ :: (n :: cs) :: _ =>
    -- stdata = n :: cs; `stdata[1:nchars+1].decode(get_encoding())`, then the character-class substitution
    match decodeText codec (slice (n :: cs) 1 (n.toNat + 1)) with
    | .ok s => .ok (s.map safeChar)
    | .error e => .error e
  | _ => .ok []

def purgeName (bd2 : Int) : R String :=
  match Gen.CastTables.purgePriority[((bd2 / 4) % 4).toNat]? with
  | some s => .ok s
  | none => .error .index

/-- cast.parse_basic_cast_data -/
def parseBasic (codec : Codec) (b : Bytes) : R Content :=
  if b.length = 0 then .ok .empty else do
  let ns ← getS .be 4 b 0
  if ns < 0x14 then .error .value else
  let sk ← readField .u32 b 4
  let bd1 ← getS .be 4 b 8
  let bd2 ← getS .be 4 b 12
  let si ← getS .be 4 b 16
  let purge ← purgeName bd2
  let basic : Basic := ⟨sk, bd1, bd2, purge, si⟩
  let nelems := ((ns - 0x14) / 4).toNat
  let _ ← readN .s32 nelems b 20
  let idx := 20 + 4 * nelems
  let nstruct ← getS .be 2 b idx
  if nstruct > 0 then do
    let offs ← readN .s32 (nstruct.toNat + 1) b (idx + 2)
    let extras := collectExtras b offs (idx + 2 + 4 * (nstruct.toNat + 1))
    let name ← memberName codec extras
    .ok (.full basic extras name)
  else .ok (.basic basic)

/-! ### the two container layouts -/

structure CastStruct where
  dataType : Int
  header : Bytes
  basic : Bytes
  deriving Repr, DecidableEq, Inhabited

/-- cast.parse_cast_data_struct_dir4 -/
def structD4 (d : Bytes) : R CastStruct := do
  let hs ← getS .be 2 d 0
  let asz ← getS .be 4 d 2
  if 6 + hs + asz ≠ (d.length : Int) then .error .value else
  let dt ← byteAt d 6
  let header := pySlice d 7 (7 + hs - 1)
  let idx : Int := 7 + (hs - 1)
  let basic := if asz > 0 then pySlice d idx (idx + asz) else []
  .ok ⟨(dt.toNat : Int), header, basic⟩

/-- cast.parse_cast_data_struct_dir5 -/
def structD5 (d : Bytes) : R CastStruct := do
  let dt ← getS .be 4 d 0
  let asz ← getS .be 4 d 4
  let hs ← getS .be 4 d 8
  if 12 + hs + asz ≠ (d.length : Int) then .error .value else
  let basic := if asz > 0 then pySlice d 12 (12 + asz) else []
  let idx : Int := if asz > 0 then 12 + asz else 12
  let header := pySlice d idx (idx + hs)
  .ok ⟨dt, header, basic⟩

/-! ### per-type readers (each returns the keys it adds to `castData`, in insertion order) -/

abbrev Fields := List (String × J)

/-- image.py: the `if bmp_bpp_val == …` chain -/
def bppOfCode (v : Int) : Int :=
  if v = 0x80 then 8 else if v = 0x81 then 4 else if v = 0x82 then 8 else if v = 0x84 then 16 else if v = 0x85 then 16
  else if v = 0x8A then 24 else if v = 0x0 then 1 else 8

def imageKinds : List FK := [.u8, .u8, .u8, .s16, .s16, .s16, .s16, .s16, .s16, .s16, .s16, .s16, .s16]

/-- ImageParser.parse (after the F04 repair: `palette_txt` defaults to 'systemMac' like `palette`) -/
def parseImage (h : Bytes) : R Fields := do
  let vs ← readFields imageKinds h 0
  match vs with
  | [_flags, code, _u11, hPad, wPad, height, width, top, left, bottom, right, locV, locH] =>
    let bpp0 := bppOfCode code
    let tail : R (Int × String × String) :=
      if h.length > 24 then do
        let bitdepth ← getS .be 2 h 23
        let pid ← getS .be 2 h 25
        .ok (if bitdepth > bpp0 then bitdepth else bpp0, Pal.pyStrInt pid, Pal.paletteName pid)
      else .ok (bpp0, "systemMac", "systemMac")
    let (bpp, palette, paletteTxt) ← tail
    .ok ([("type", jS "bitmap"), ("height", jI height), ("width", jI width), ("top", jI top), ("left", jI left),
          ("bottom", jI bottom), ("right", jI right), ("h_padding", jI hPad), ("w_padding", jI wPad),
          ("locH", jI locH), ("locV", jI locV), ("depth", jI bpp)]
         ++ (if bpp = 8 then [("palette", jS palette), ("palette_txt", jS paletteTxt)] else []))
  | _ => .error .other

def textInputKinds : List FK :=
  [.u8, .u8, .u8, .u8, .u8, .s16, .u8, .u8, .u8, .u8, .u8, .u8, .s16, .s16, .s16, .s16, .s16, .s16, .u8, .u8, .s16]

/-- TextInputParser.parse -/
def parseTextInput (h : Bytes) : R Fields := do
  let vs ← readFields textInputKinds h 0
  match vs with
  | [_u0, border, margin, boxShadow, boxType, alignment, r, _u4, g, _u5, b, _u6, scrollTop, top, left, bottom, right,
     pageHeight, dropShadow, options, scrollHeight] =>
    .ok [("type", jS "field"),
         ("wordWrap", jB (options.toNat / 4 % 2 = 0)), ("boxType", jS (boxTypeName boxType)),
         ("editable", jB (options.toNat % 2 = 1)), ("autoTab", jB (options.toNat / 2 % 2 = 1)),
         ("alignment", alignmentJ alignment), ("border", jI border), ("margin", jI (margin / 2)),
         ("boxDropShadow", jI (boxShadow / 2)), ("dropShadow", jI dropShadow), ("backgroundColor", colorU r g b),
         ("height", jI (bottom - top)), ("width", jI (right - left)), ("pageHeight", jI pageHeight),
         ("scrollHeight", jI scrollHeight), ("scrollTop", jI scrollTop)]
  | _ => .error .other

def buttonKinds : List FK :=
  [.u8, .s16, .s16, .s16, .u8, .u8, .u8, .u8, .u8, .u8, .s16, .s16, .s16, .s16, .s16, .s16, .s16, .s16, .s16]

/-- ButtonParser.parse -/
def parseButton (h : Bytes) : R Fields := do
  let vs ← readFields buttonKinds h 0
  match vs with
  | [_u0, _u1, _u2, alignment, r, _u4, g, _u5, b, _u6, _u7, _u8, _u9, _u10, _u11, _u12, _u13, _u14, buttonType] =>
    .ok [("type", jS "button"), ("alignment", alignmentJ alignment), ("backgroundColor", colorU r g b),
         ("buttonType", buttonTypeJ buttonType)]
  | _ => .error .other

def shapeKinds : List FK := [.u8, .s16, .s16, .s16, .s16, .s16, .u8, .u8, .u8, .u8, .u8, .u8, .u8]

/-- ShapeParser.parse (after the F05 repair: a direction outside DIRECTIONS is reported as its number) -/
def parseShape (h : Bytes) : R Fields := do
  let vs ← readFields shapeKinds h 0
  match vs with
  | [_u0, shapeType, top, left, bottom, right, _u2, pattern, fg, bg, filled, lineWidth, dir] =>
    .ok [("type", jS "shape"), ("shapeType", jS (lookupOrStr Gen.CastTables.shapeNames shapeType)), ("top", jI top),
         ("left", jI left), ("bottom", jI bottom), ("right", jI right), ("pattern", jI pattern), ("foreColor", jI fg),
         ("backColor", jI bg), ("filled", jI filled), ("lineSize", jI (lineWidth - 1)),
         ("direction", jS (lookupOrStr Gen.CastTables.directions dir))]
  | _ => .error .other

def textKinds : List FK := [.s16, .s16, .s16, .s16, .s16, .s16, .s16, .s16, .u8, .u8, .s16, .s16]

/-- TextParser.parse (rich text) -/
def parseText (h : Bytes) : R Fields := do
  let vs ← readFields textKinds h 0
  match vs with
  | [hPad, wPad, height, width, top, left, bottom, right, antialias, boxType, _u2, threshold] =>
    .ok [("type", jS "richText"), ("boxType", jS (boxTypeName boxType)), ("antiAlias", jB (antialias ≠ 0)),
         ("antiAliasThreshold", jI (if threshold < 0 then 0 else threshold)), ("width", jI width), ("height", jI height),
         ("top", jI top), ("left", jI left), ("bottom", jI bottom), ("right", jI right), ("h_padding", jI hPad),
         ("w_padding", jI wPad)]
  | _ => .error .other

def transitionKinds : List FK := [.s16, .u8, .u8, .s16]

/-- TransitionParser.parse -/
def parseTransition (h : Bytes) : R Fields := do
  let vs ← readFields transitionKinds h 0
  match vs with
  | [smoothness, transition, stageOrArea, duration] =>
    .ok [("type", jS "transition"),
         ("transition", .obj [("type", jS (lookupOrStr Gen.CastTables.transitionNames transition)),
                              ("smoothness", jI smoothness), ("duration", jI duration),
                              ("in_changing_area", jB (stageOrArea = 2))])]
  | _ => .error .other

/-- SoundParser.parse (after the F06 repair: a missing info block reads as flags 0) -/
def parseSound (content : Content) : R Fields :=
  .ok [("type", jS "sound"), ("loop", jB (content.bd2 ≠ 0x10))]

def parsePalette : R Fields := .ok [("type", jS "palette")]
def parseScript : R Fields := .ok [("type", jS "script")]

/-! ### the remaining fixed reads of the model, as kind lists (tied to the generated layouts in DrxProps/C15.lean) -/

/-- `structD4`: `>h` at 0, `>i` at 2, `fdata[6]` -/
def structD4Kinds : List FK := [.s16, .s32, .u8]
/-- `structD5`: three `>i` at 0, 4, 8 -/
def structD5Kinds : List FK := [.s32, .s32, .s32]
/-- `parseBasic`: `>i` numbers size, `>I` script key, three `>i` (offsets 0, 4, 8, 12, 16) -/
def basicKinds : List FK := [.s32, .u32, .s32, .s32, .s32]
/-- `parseImage`: the two `>h` reads at 23 and 25 under `len(header_data) > 24` -/
def imageTailKinds : List FK := [.s16, .s16]
def imageTailOff : Nat := 23
def imageTailGuard : Nat := 24

/-! ### top level -/

structure CastData where
  fields : Fields
  content : Content
  deriving Inhabited

/-- `parser.parse(dataSt.headerData, content)` for the class registered under the type code; `{}` for an unknown code -/
def dispatch (dt : Int) (header : Bytes) (content : Content) : R Fields :=
  if dt < 0 then .ok [] else
  match Gen.CastTables.parsers.lookup dt.toNat with
  | some cls =>
    if cls = "ImageParser" then parseImage header
    else if cls = "TextInputParser" then parseTextInput header
    else if cls = "PaletteParser" then parsePalette
    else if cls = "SoundParser" then parseSound content
    else if cls = "ButtonParser" then parseButton header
    else if cls = "ShapeParser" then parseShape header
    else if cls = "ScriptParser" then parseScript
    else if cls = "TextParser" then parseText header
    else if cls = "TransitionParser" then parseTransition header
    else .error .other
  | none => .ok []

/-- cast.parse_cast_file_data. `(data_type & 0xFFFFFF00) != 0` on the signed first word is the same as
    "one of the first three bytes is non-zero", i.e. the unsigned word divided by 256 is non-zero. -/
def parseCast (codec : Codec) (d : Bytes) : R CastData := do
  let w ← getU .be 4 d 0
  let st ← if w / 256 ≠ 0 then structD4 d else structD5 d
  let content ← parseBasic codec st.basic
  let fields ← dispatch st.dataType st.header content
  .ok ⟨fields, content⟩

/-! ### rendering -/

def b64char (n : Nat) : Char :=
  if n < 26 then Char.ofNat (65 + n) else if n < 52 then Char.ofNat (71 + n) else if n < 62 then Char.ofNat (n - 4)
  else if n = 62 then '+' else '/'

/-- `base64.b64encode(stdata).decode('ascii')` -/
def b64encode : Bytes → List Char
  | a :: b :: c :: rest =>
    let n := a.toNat * 65536 + b.toNat * 256 + c.toNat
    b64char (n / 262144) :: b64char (n / 4096 % 64) :: b64char (n / 64 % 64) :: b64char (n % 64) :: b64encode rest
  | [a, b] =>
    let n := a.toNat * 65536 + b.toNat * 256
    [b64char (n / 262144), b64char (n / 4096 % 64), b64char (n / 64 % 64), '=']
  | [a] =>
    let n := a.toNat * 65536
    [b64char (n / 262144), b64char (n / 4096 % 64), '=', '=']
  | [] => []

def Basic.toJ (b : Basic) : J :=
  .obj [("script_key", jI b.scriptKey), ("basic_data1", jI b.bd1), ("basic_data2", jI b.bd2),
        ("purge_priority", jS b.purge), ("script_index", jI b.scriptIndex)]

def Content.toJ : Content → J
  | .empty => .obj []
  | .basic b => .obj [("basic", b.toJ)]
  | .full b ex n => .obj [("basic", b.toJ), ("extra", .arr (ex.map fun e => .str (b64encode e))), ("name", .str n)]

def CastData.toJ (c : CastData) : J := .obj (c.fields ++ [("content", c.content.toJ)])

end Drx.Cast
