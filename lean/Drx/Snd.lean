/-
  Model of drxtract/snd/{format,snd2sampled,sampled}.py, drxtract/snd/command/{cmd,nullCmd,bufferCmd}.py
  and of the `wave` part of drxtract/snd2wav.py   (property C07).

  Mirrors the Python function by function.  Offsets that come from the resource (`param2` of a sound
  command is the offset of the sound header, a signed 32-bit value) are `Int`, and every read through
  them uses CPython's slice / index semantics for negative values.
  The command registry, the header constants and the `SampledSound()` defaults are GENERATED from /repo
  (lean/Drx/Gen/SndCommands.lean) on every run.
-/
import Drx.Py
import Drx.Json
import Drx.Gen.SndCommands
namespace Drx.Snd
open Drx

/-! ### Python reads at an integer (possibly negative) offset -/

/-- `struct.unpack('>i' / '>h', d[off:off+k])[0]` -/
def getSI (k : Nat) (d : Bytes) (off : Int) : R Int := unpackS .be k (pySlice d off (off + k))

/-- `struct.unpack('>H', d[off:off+k])[0]` -/
def getUI (k : Nat) (d : Bytes) (off : Int) : R Nat := unpackU .be k (pySlice d off (off + k))

/-- `d[i]` for any integer `i` (negative = from the end; IndexError outside `-len .. len-1`) -/
def pyIndex (d : Bytes) (i : Int) : R UInt8 :=
  let n : Int := d.length
  if 0 ≤ i then (if i < n then byteAt d i.toNat else .error .index)
  else if 0 ≤ i + n then byteAt d (i + n).toNat else .error .index

/-! ### format.py -/

structure DataType where
  synth : Int
  initParam : Int
  deriving Repr, DecidableEq, Inhabited

structure Cmd where
  command : Int
  param1 : Int
  param2 : Int
  deriving Repr, DecidableEq, Inhabited

structure Fmt where
  format : Int
  dataTypes : List DataType     -- format 1 (`formats`)
  refCount : Int                -- format 2 (−1 = the constructor's default, format 1)
  commands : List Cmd
  deriving Repr, DecidableEq, Inhabited

/-- the `for _ in range(0, nsound_cmds)` loop of `parse_snd_commands`; the 16-bit command is unpacked
    signed and made unsigned by hand -/
def parseCmds (d : Bytes) : Nat → Nat → R (List Cmd)
  | 0, _ => .ok []
  | n+1, idx => do
    let c ← getS .be 2 d idx
    let command := if c < 0 then (0xFFFF + c) + 1 else c
    let p1 ← getS .be 2 d (idx + 2)
    let p2 ← getS .be 4 d (idx + 4)
    let rest ← parseCmds d n (idx + 8)
    .ok (⟨command, p1, p2⟩ :: rest)

/-- `parse_snd_commands` (a negative count is an empty `range`) -/
def parseSndCommands (d : Bytes) (idx : Nat) : R (List Cmd) := do
  let n ← getS .be 2 d idx
  parseCmds d n.toNat (idx + 2)

/-- the `for _ in range(0, ndata_types)` loop of `parse_snd_fmt1`; returns the records and the final index -/
def parseDataTypes (d : Bytes) : Nat → Nat → R (List DataType × Nat)
  | 0, idx => .ok ([], idx)
  | n+1, idx => do
    let t ← getS .be 2 d idx
    let o ← getS .be 4 d (idx + 2)
    let (rest, e) ← parseDataTypes d n (idx + 6)
    .ok (⟨t, o⟩ :: rest, e)

def parseSndFmt1 (d : Bytes) : R Fmt := do
  let n ← getS .be 2 d 2
  let (dts, idx) ← parseDataTypes d n.toNat 4
  let cmds ← parseSndCommands d idx
  .ok ⟨1, dts, -1, cmds⟩

def parseSndFmt2 (d : Bytes) : R Fmt := do
  let rc ← getS .be 2 d 2
  let cmds ← parseSndCommands d 4
  .ok ⟨2, [], rc, cmds⟩

/-- `parse_snd_fmt` -/
def parseSndFmt (d : Bytes) : R Fmt := do
  let ft ← getS .be 2 d 0
  if ft = 1 then parseSndFmt1 d
  else if ft = 2 then parseSndFmt2 d
  else .error .value

/-! ### sampled.py / bufferCmd.py -/

/-- the mutable part of `SampledSound` that the commands update (`samples` is assembled by the caller) -/
structure St where
  channels : Int
  bits : Int
  rate : Int
  deriving Repr, DecidableEq, Inhabited

/-- `SampledSound()` -/
def St.init : St := ⟨Gen.SndCommands.defaultChannels, Gen.SndCommands.defaultBits, Gen.SndCommands.defaultRate⟩

/-- the `for i in range(0, length*2, 2)` loop: `n` iterations left, `i` = current loop variable.
    `data[l] = fdata[index_h]; data[h] = fdata[index_l]` -/
def swapLoop (d : Bytes) (idx : Int) : Nat → Nat → R Bytes
  | 0, _ => .ok []
  | n+1, i => do
    let hi ← pyIndex d (idx + i + 1)
    let lo ← pyIndex d (idx + i)
    let rest ← swapLoop d idx n (i + 2)
    .ok (hi :: lo :: rest)

/-- the tail of `_get_frames` after the header: returns the frames -/
def sampleArea (s : St) (d : Bytes) (idx length : Int) : R Bytes :=
  if s.bits = 8 then .ok (pySlice d idx (idx + length))
  else if s.bits = 16 then
    -- (repaired, F09) the declared length is checked against the data before `bytearray(length * 2)`
    if idx + length * 2 > d.length then .error .value
    else if length < 0 then .error .value            -- bytearray(negative)
    else swapLoop d idx length.toNat 0
  else .error .value

/-- bytes requested by `bytearray(length * 2)` in the 16-bit path (C10 twin of `sampleArea`) -/
def sampleAreaAlloc (s : St) (d : Bytes) (idx length : Int) : Nat :=
  if s.bits = 8 then 0
  else if s.bits = 16 then
    if idx + length * 2 > d.length then 0 else if length < 0 then 0 else (length * 2).toNat
  else 0

/-- the common part of both branches of `_get_frames` up to the sample area: new state, index of the sample
    area, declared length -/
def soundHeader (s : St) (idx : Int) (d : Bytes) : R (St × Int × Int) := do
  let samplePtr ← getSI 4 d idx
  let tbd ← getSI 4 d (idx + 4)
  let rateInt ← getUI 2 d (idx + 8)                    -- (repaired, F07) '>H'
  let _rateDec ← getSI 2 d (idx + 10)
  let _loopStart ← getSI 4 d (idx + 12)
  let _loopEnd ← getSI 4 d (idx + 16)
  let encode ← pyIndex d (idx + 20)
  let baseFrequency ← pyIndex d (idx + 21)
  if samplePtr ≠ 0 then .error .value else
  if baseFrequency.toNat ≠ Gen.SndCommands.MIDDLE_C then .error .value else
  let s : St := { s with rate := rateInt }
  if encode.toNat = Gen.SndCommands.STANDARD then
    -- `num_frames = int(length / sound.num_channels)`: true division, ZeroDivisionError on 0 channels
    if s.channels = 0 then .error .other else
    .ok (s, idx + 22, tbd)
  else if encode.toNat = Gen.SndCommands.EXTENDED then do
    let s : St := { s with channels := tbd }
    let numFrames ← getSI 4 d (idx + 22)
    let length := numFrames * s.channels
    -- aiff_sample_rate = fdata[idx:idx+10]   (a slice: never raises)
    let _marker ← getSI 4 d (idx + 36)
    let _instr ← getSI 4 d (idx + 40)
    let _aes ← getSI 4 d (idx + 44)
    let bps ← getSI 2 d (idx + 48)
    let s : St := { s with bits := bps }
    let _f1 ← getSI 2 d (idx + 50)
    let _f2 ← getSI 4 d (idx + 52)
    let _f3 ← getSI 4 d (idx + 56)
    let _f4 ← getSI 4 d (idx + 60)
    .ok (s, idx + 64, length)
  else .error .value

/-- `BufferCmd._get_frames` -/
def getFrames (s : St) (idx : Int) (d : Bytes) : R (St × Bytes) := do
  let (s, i, length) ← soundHeader s idx d
  let fr ← sampleArea s d i length
  .ok (s, fr)

/-- C10 twin: bytes allocated by `_get_frames` for its output buffer -/
def getFramesAlloc (s : St) (idx : Int) (d : Bytes) : Nat :=
  match soundHeader s idx d with
  | .ok (s, i, length) => sampleAreaAlloc s d i length
  | .error _ => 0

/-! ### the command registry (generated) -/

inductive Kind where
  | null      -- NullCmd.get_frames: `bytes()`
  | frames    -- BufferCmd.get_frames / SampledSoundCmd.get_frames: `_get_frames(sound, param2, fdata)`
  deriving Repr, DecidableEq, Inhabited

/-- behaviour of the classes that may appear in `SOUND_COMMANDS` (hand-modelled, keyed by class name) -/
def kindOfClass (cls : List Char) : Option Kind :=
  if cls = ['N', 'u', 'l', 'l', 'C', 'm', 'd'] then some .null
  else if cls = ['B', 'u', 'f', 'f', 'e', 'r', 'C', 'm', 'd'] then some .frames
  else if cls = ['S', 'a', 'm', 'p', 'l', 'e', 'd', 'S', 'o', 'u', 'n', 'd', 'C', 'm', 'd'] then some .frames
  else none

def lookupCmd : List (Nat × List Char) → Int → Option (List Char)
  | [], _ => none
  | (k, c) :: rest, cmd => if (k : Int) = cmd then some c else lookupCmd rest cmd

/-- `command in get_keys(SOUND_COMMANDS)` / `SOUND_COMMANDS[command]` -/
def dispatch (cmd : Int) : Option Kind :=
  (lookupCmd Gen.SndCommands.soundCommands cmd).bind kindOfClass

/-! ### snd2sampled.py -/

structure Sampled where
  channels : Int
  bits : Int
  rate : Int
  samples : Bytes
  deriving Repr, DecidableEq, Inhabited

/-- the `for cmd in sndData.commands` loop: state and the bytes written to the `BytesIO` so far -/
def runCmds (d : Bytes) : St → List Cmd → R (St × Bytes)
  | s, [] => .ok (s, [])
  | s, c :: cs =>
    match dispatch c.command with
    | none => .error .value
    | some .null => runCmds d s cs
    | some .frames => do
      let (s', fr) ← getFrames s c.param2 d
      let (s'', rest) ← runCmds d s' cs
      .ok (s'', fr ++ rest)

/-- `snd_to_sampled` -/
def sndToSampled (d : Bytes) : R Sampled := do
  let f ← parseSndFmt d
  let (s, out) ← runCmds d St.init f.commands
  .ok ⟨s.channels, s.bits, s.rate, out⟩

/-- C10 twin: total size of the output buffers allocated while decoding (0 once a command fails) -/
def runCmdsAlloc (d : Bytes) : St → List Cmd → Nat
  | _, [] => 0
  | s, c :: cs =>
    match dispatch c.command with
    | none => 0
    | some .null => runCmdsAlloc d s cs
    | some .frames =>
      getFramesAlloc s c.param2 d +
        (match getFrames s c.param2 d with
         | .ok (s', _) => runCmdsAlloc d s' cs
         | .error _ => 0)

def sndAlloc (d : Bytes) : Nat × Nat :=
  match parseSndFmt d with
  | .ok f => (runCmdsAlloc d St.init f.commands, f.commands.length)
  | .error _ => (0, 0)

/-! ### the `wave` module as used by snd2wav.main (canonical 44-byte header PCM) -/

structure WavParams where
  channels : Nat
  width : Nat        -- bytes per sample
  rate : Nat
  deriving Repr, DecidableEq, Inhabited

def RIFF : Bytes := [0x52, 0x49, 0x46, 0x46]
def WAVE : Bytes := [0x57, 0x41, 0x56, 0x45]
def FMT_ : Bytes := [0x66, 0x6d, 0x74, 0x20]
def DATA : Bytes := [0x64, 0x61, 0x74, 0x61]

/-- `struct.pack('<L' / '<H', n)`: struct.error when out of range -/
def packLE (k n : Nat) : R Bytes := if n < 256 ^ k then .ok (encOrd .le k n) else .error .struct

/-- `Wave_write._write_header` + data + `_patchheader`, i.e. the file after
    `setnchannels; setsampwidth; setframerate; writeframesraw(d); writeframes(b''); close` -/
def wavWrite (p : WavParams) (d : Bytes) : R Bytes := do
  if p.channels < 1 then .error .other else
  if p.width < 1 ∨ p.width > 4 then .error .other else
  if p.rate < 1 then .error .other else
  let total ← packLE 4 (36 + d.length)
  let ch ← packLE 2 p.channels
  let rate ← packLE 4 p.rate
  let byteRate ← packLE 4 (p.channels * p.rate * p.width)
  let align ← packLE 2 (p.channels * p.width)
  let bits ← packLE 2 (p.width * 8)
  let dlen ← packLE 4 d.length
  .ok (RIFF ++ total ++ WAVE ++ FMT_ ++ encOrd .le 4 16 ++ encOrd .le 2 1 ++ ch ++ rate ++ byteRate ++ align ++ bits
        ++ DATA ++ dlen ++ d)

/-- what `wave.open(f,'rb')`, `getnchannels/getsampwidth/getframerate`, `readframes(getnframes())` return on a
    canonical file (fmt chunk of 16 bytes directly followed by the data chunk); anything else is rejected -/
def wavRead (w : Bytes) : R (WavParams × Bytes) := do
  if slice w 0 4 ≠ RIFF then .error .other else
  let _total ← getU .le 4 w 4
  if slice w 8 12 ≠ WAVE then .error .other else
  if slice w 12 16 ≠ FMT_ then .error .other else
  let fl ← getU .le 4 w 16
  if fl ≠ 16 then .error .other else
  let tag ← getU .le 2 w 20
  if tag ≠ 1 then .error .other else
  let ch ← getU .le 2 w 22
  let rate ← getU .le 4 w 24
  let _byteRate ← getU .le 4 w 28
  let _align ← getU .le 2 w 32
  let bits ← getU .le 2 w 34
  let width := (bits + 7) / 8
  if width = 0 then .error .other else
  if ch = 0 then .error .other else
  if slice w 36 40 ≠ DATA then .error .other else
  let dlen ← getU .le 4 w 40
  let nframes := dlen / (ch * width)
  .ok (⟨ch, width, rate⟩, slice w 44 (44 + nframes * (ch * width)))

/-- the `wave` calls of snd2wav.main on a decoded sound: `setsampwidth(int(bits/8))` (true division, truncation) -/
def sampledToWav (s : Sampled) : R Bytes :=
  if s.channels < 1 then .error .other else
  let w := Int.tdiv s.bits 8
  if w < 1 ∨ w > 4 then .error .other else
  if s.rate ≤ 0 then .error .other else
  wavWrite ⟨s.channels.toNat, w.toNat, s.rate.toNat⟩ s.samples

/-! ### observables -/

def Sampled.toJ (s : Sampled) : J :=
  .obj [("ch", .int s.channels), ("bits", .int s.bits), ("rate", .int s.rate), ("samples", J.hex s.samples)]

end Drx.Snd
