/-
  Generic fixed-offset record layouts. The field lists themselves are GENERATED from the Python source on every run
  (harness/gen_layouts.py -> Drx/Gen/*Layouts.lean); hand-written readers are proved equal to `readLayout` over the
  generated list, so a changed offset / width / signedness in the source breaks a kernel-checked obligation.
-/
import Drx.Py
namespace Drx.Layout
open Drx

structure Field where
  name : String
  off : Nat
  width : Nat
  signed : Bool
  deriving Repr, DecidableEq, Inhabited

/-- `struct.unpack(order + fmt, d[base+off : base+off+width])[0]` -/
def readField (o : Order) (d : Bytes) (base : Nat) (f : Field) : R Int :=
  if f.signed then getS o f.width d (base + f.off)
  else match getU o f.width d (base + f.off) with | .ok n => .ok (n : Int) | .error e => .error e

def readLayout (o : Order) (d : Bytes) (base : Nat) : List Field → R (List Int)
  | [] => .ok []
  | f :: fs =>
    match readField o d base f with
    | .error e => .error e
    | .ok v =>
      match readLayout o d base fs with
      | .error e => .error e
      | .ok vs => .ok (v :: vs)

/-- total number of bytes a contiguous layout spans -/
def span (l : List Field) : Nat := (l.map (·.width)).sum

end Drx.Layout
