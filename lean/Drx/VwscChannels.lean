/-
  Model of drxtract/vwsc/cparser.py, dir4cparser.py, dir5cparser.py (property C08; the frame types are also the input
  of C09's `vwsc_to_score`).  Field offsets/formats come from the generated `Drx.Gen.Score` (stage G); the bit
  fiddling, the name lookups and the three "is this channel empty" filters are hand-modelled.
-/
import Drx.Py
import Drx.Json
import Drx.VwscLayout
import Drx.Gen.ScoreLayouts
namespace Drx.Vwsc
open Drx Drx.VwscLayout

/-! ### decoded frame table (what `parse_vwsc_data` returns, one `Frame` per score frame) -/

/-- the layout-specific part of a non-empty main-channel dict -/
inductive MainExt where
  /-- Director 4: 'transition_id' (a *name*), 'transition_chunk_size', 'transition_duration' -/
  | d4 (transitionId : List Char) (chunkSize : Int) (duration : Int)
  /-- Director 5: 'transition_cast_id' -/
  | d5 (transitionCast : Int)
  deriving Repr, DecidableEq, Inhabited

structure Main where
  fps : Int
  sound1 : Int
  sound2 : Int
  script : Int
  ext : MainExt
  deriving Repr, DecidableEq, Inhabited

structure Pal where
  fps : Int
  operation : List Char
  paletteId : Int
  cycles : Int
  deriving Repr, DecidableEq, Inhabited

structure Sprite where
  spriteType : Int
  castId : Int
  foregroundColor : Int
  backgroundColor : Int
  inkType : Int
  /-- only the 20-byte layout reports 'flags' -/
  flags : Option Int
  y : Int
  x : Int
  height : Int
  width : Int
  trails : Int
  moveable : Bool
  editable : Bool
  deriving Repr, DecidableEq, Inhabited

/-- `{'main': …, 'palette': …, 'score': […]}`; an empty dict is `none` -/
structure Frame where
  main : Option Main
  palette : Option Pal
  score : List (Option Sprite)
  deriving Repr, DecidableEq, Inhabited

/-! ### cparser.py helpers -/

def natStr (n : Nat) : List Char := (toString n).toList

/-- VwscChannelParser.get_operation_name -/
def operationName (code : Int) : List Char :=
  let operation := code / 16 % 16          -- (operation >> 4) & 0xF on a byte
  let bit3 := operation / 8 % 2
  let bit2 := operation / 4 % 2
  let bit1 := operation / 2 % 2
  let bit0 := operation % 2
  if bit3 ≠ 0 then
    (if bit0 ≠ 0 then "color_cycling_auto_reverse" else "color_cycling_loop").toList
  else if bit2 ≠ 0 then
    (if bit1 ≠ 0 then "fade_to_black" else "fade_to_white").toList
  else natStr operation.toNat

/-- VwscChannelParser.get_transition_name over the generated DIR_TRANSITION_NAMES -/
def transitionName (v : Int) : List Char :=
  match Gen.Score.transitionNames.lookup v.toNat with
  | some s => s.toList
  | none => natStr v.toNat

/-- every `struct.unpack` / `frameData[i]` of a reader is executed, so each must succeed (short slice -> error) -/
def checkAll : List (String × Fld) → Bytes → R Unit
  | [], _ => .ok ()
  | (_, f) :: rest, d => do
    let _ ← f.raw d
    checkAll rest d

inductive Layout where
  | d4 | d5
  deriving Repr, DecidableEq, Inhabited

/-- `self.frame_size` of the parser instances (`super().__init__(20)` / `(24)`); tied to the generated
    `channelParsers` table by `C08.channelParsers_spec` -/
def Layout.frameSize : Layout → Nat
  | .d4 => 20
  | .d5 => 24

theorem Layout.frameSize_pos (l : Layout) : 0 < l.frameSize := by cases l <;> decide

/-! ### dir4cparser.py -/

open Gen.Score in
/-- D4VwscChannelParser.read_main_channel_info -/
def d4ReadMain (d : Bytes) : R (Option Main) := do
  checkAll d4Main d
  let td ← d4Main_transition_duration.int d
  let transition_duration := td % 128             -- & 0x7F
  let transition_chunk_size ← d4Main_transition_chunk_size.int d
  let fps ← d4Main_fps.int d
  let tid ← d4Main_transition_id.raw d
  let transition_id := transitionName tid
  let sound1_cast ← d4Main_sound1_cast.int d
  let sound2_cast ← d4Main_sound2_cast.int d
  let script ← d4Main_script.int d
  if fps ≠ 0 ∨ sound1_cast ≠ 0 ∨ sound2_cast ≠ 0 ∨ script ≠ 0 then
    pure (some ⟨fps, sound1_cast, sound2_cast, script, .d4 transition_id transition_chunk_size transition_duration⟩)
  else pure none

open Gen.Score in
/-- D4VwscChannelParser.read_palette_channel_info -/
def d4ReadPalette (d : Bytes) : R (Option Pal) := do
  checkAll d4Palette d
  let palette_id ← d4Palette_palette_id.int d
  let operation_code ← d4Palette_operation_code.int d
  let fps ← d4Palette_fps.int d
  let cycles ← d4Palette_cycles.int d
  if palette_id ≠ 0 then pure (some ⟨fps, operationName operation_code, palette_id, cycles⟩) else pure none

open Gen.Score in
/-- D4VwscChannelParser.read_sprite_channel_info -/
def d4ReadSprite (d : Bytes) : R (Option Sprite) := do
  checkAll d4Sprite d
  let spriteType ← d4Sprite_spriteType.int d
  let foregroundColor ← d4Sprite_foregroundColor.int d
  let backgroundColor ← d4Sprite_backgroundColor.int d
  let flags ← d4Sprite_flags.int d
  let ink_byte ← d4Sprite_ink_byte.int d
  let ink_type := ink_byte % 64
  let trails := ink_byte / 64 % 2                 -- ((ink_byte >> 6) & 1)   (F80 repair: the raw byte)
  let castId ← d4Sprite_castId.int d
  let y ← d4Sprite_y.int d
  let x ← d4Sprite_x.int d
  let height ← d4Sprite_height.int d
  let width ← d4Sprite_width.int d
  let f2 ← d4Sprite_flag2.int d
  let flag2 := f2 % 65536                         -- & 0xFFFF
  if castId > 0 then
    pure (some ⟨spriteType, castId, foregroundColor, backgroundColor, ink_type, some flags, y, x, height, width, trails,
                flag2 / 32768 % 2 ≠ 0, flag2 / 16384 % 2 ≠ 0⟩)
  else pure none

/-! ### dir5cparser.py -/

open Gen.Score in
/-- D5VwscChannelParser.read_main_channel_info -/
def d5ReadMain (d : Bytes) : R (Option Main) := do
  checkAll d5Main d
  let script ← d5Main_script.int d
  let sound1_cast ← d5Main_sound1_cast.int d
  let sound2_cast ← d5Main_sound2_cast.int d
  let transition_cast_id ← d5Main_transition_cast_id.int d
  let fps ← d5Main_fps.int d
  if fps ≠ 0 ∨ sound1_cast ≠ 0 ∨ sound2_cast ≠ 0 ∨ script ≠ 0 then
    pure (some ⟨fps, sound1_cast, sound2_cast, script, .d5 transition_cast_id⟩)
  else pure none

open Gen.Score in
/-- D5VwscChannelParser.read_palette_channel_info -/
def d5ReadPalette (d : Bytes) : R (Option Pal) := do
  checkAll d5Palette d
  let palette_id ← d5Palette_palette_id.int d
  let fps ← d5Palette_fps.int d
  let operation_code ← d5Palette_operation_code.int d
  let cycles ← d5Palette_cycles.int d
  if palette_id ≠ 0 then pure (some ⟨fps, operationName operation_code, palette_id, cycles⟩) else pure none

open Gen.Score in
/-- D5VwscChannelParser.read_sprite_channel_info -/
def d5ReadSprite (d : Bytes) : R (Option Sprite) := do
  checkAll d5Sprite d
  let ink_byte ← d5Sprite_ink_byte.int d
  let ink_type := ink_byte % 64
  let trails := ink_byte / 64 % 2
  let spriteType ← d5Sprite_spriteType.int d
  let castId ← d5Sprite_castId.int d
  let foregroundColor ← d5Sprite_foregroundColor.int d
  let backgroundColor ← d5Sprite_backgroundColor.int d
  let y ← d5Sprite_y.int d
  let x ← d5Sprite_x.int d
  let height ← d5Sprite_height.int d
  let width ← d5Sprite_width.int d
  let f2 ← d5Sprite_flag2.int d
  let flag2 := f2 % 65536
  if castId > 0 then
    pure (some ⟨spriteType, castId, foregroundColor, backgroundColor, ink_type, none, y, x, height, width, trails,
                flag2 / 32768 % 2 ≠ 0, flag2 / 16384 % 2 ≠ 0⟩)
  else pure none

/-! ### cparser.py parse_vwsc_channels -/

def readMain : Layout → Bytes → R (Option Main)
  | .d4 => d4ReadMain | .d5 => d5ReadMain
def readPalette : Layout → Bytes → R (Option Pal)
  | .d4 => d4ReadPalette | .d5 => d5ReadPalette
def readSprite : Layout → Bytes → R (Option Sprite)
  | .d4 => d4ReadSprite | .d5 => d5ReadSprite

/-- the `while indx < len(channelData)` loop; `rest` is `channelData[indx:]`, so that
    `frameData = channelData[indx:indx+frame_size]` is `rest.take frame_size` and `indx += frame_size` drops it -/
def spriteLoop (lay : Layout) (rest : Bytes) : R (List (Option Sprite)) :=
  match _h : rest with
  | [] => .ok []                                       -- `indx < len(channelData)` is false
  | _ :: _ =>
    match readSprite lay (rest.take lay.frameSize) with
    | .error e => .error e
    | .ok s =>
      match spriteLoop lay (rest.drop lay.frameSize) with
      | .error e => .error e
      | .ok ss => .ok (s :: ss)
termination_by rest.length
decreasing_by have := lay.frameSize_pos; subst _h; simp only [List.length_drop, List.length_cons]; omega

/-- VwscChannelParser.parse_vwsc_channels -/
def parseChannels (lay : Layout) (buf : Bytes) : R Frame := do
  let fs := lay.frameSize
  let main ← readMain lay (slice buf 0 fs)
  let pal ← readPalette lay (slice buf fs (fs + fs))
  let score ← spriteLoop lay (buf.drop (fs + fs))
  pure ⟨main, pal, score⟩

/-! ### canonical observable (the Python dicts through `json.dumps(sort_keys=True)`) -/

def Main.toJ (m : Main) : J :=
  .obj ([("fps", .int m.fps), ("sound1_cast", .int m.sound1), ("sound2_cast", .int m.sound2), ("script", .int m.script)] ++
    match m.ext with
    | .d4 t c du => [("transition_id", .str t), ("transition_chunk_size", .int c), ("transition_duration", .int du)]
    | .d5 t => [("transition_cast_id", .int t)])

def Pal.toJ (p : Pal) : J :=
  .obj [("fps", .int p.fps), ("operation", .str p.operation), ("palette_id", .int p.paletteId), ("cycles", .int p.cycles)]

def Sprite.toJ (s : Sprite) : J :=
  .obj ([("spriteType", .int s.spriteType), ("castId", .int s.castId), ("foregroundColor", .int s.foregroundColor),
         ("backgroundColor", .int s.backgroundColor), ("ink_type", .int s.inkType), ("y", .int s.y), ("x", .int s.x),
         ("height", .int s.height), ("width", .int s.width), ("trails", .int s.trails), ("moveable", .bool s.moveable),
         ("editable", .bool s.editable)] ++
    match s.flags with | some f => [("flags", .int f)] | none => [])

def optJ (f : α → J) : Option α → J
  | some a => f a
  | none => .obj []

def Frame.toJ (f : Frame) : J :=
  .obj [("main", optJ Main.toJ f.main), ("palette", optJ Pal.toJ f.palette), ("score", .arr (f.score.map (optJ Sprite.toJ)))]

end Drx.Vwsc
