/-
  Glue for the JavaScript link (property C04 with the translator instantiated by the MODEL of drxtract/lingosrc):
  definitions only, core Lean only.  Theorems: lean/DrxProofs/LinkJs*.lean, statements: lean/DrxProps/C04Link.lean.

    txJ / txArgs        the TEXT of a JavaScript expression tree of the spec layer (`Spec.JE`) with the translator's layout:
                        the tokens are exactly `Spec.prJ` (the reference printer), the white space is the translator's
                        (`(a + b)`, `f(a, b)`, no space elsewhere)
    JsOkE / JsOkL       the expression fragment of the link theorems (decidable, a Bool)
    prS / txS           tokens / text of one statement line, prBody / txBody of a handler body
    prMethod / prTop / prProg, txFunc / txMethod / txClass / txClassProg   tokens / text of the three script wrappers
    wrapperFunc, factoryFunc   the fixed functions the class wrappers add (as `Spec.JFunc` trees)
    JsOkS, JsOkH, JsLinkScript   the statement / handler / script fragments
    EmbSJ               `Link.EmbS` plus what the JavaScript generator reads beyond it (CallFunction.with_result)
    modelGenJs          the model as a translator bytes → text (`parseScript` then `genJs`)
-/
import Drx.Link
import Drx.Spec.JsRead
namespace Drx.LinkJs
open Drx Drx.Spec
open Drx.Lscr (S Str natStr Node)

/-! ### text of a JavaScript expression tree -/

/-- body of the string literal the translator writes for the text `s`:
    `s.encode('unicode_escape')` with every `"` preceded by a backslash (ConstantValue.generate_js) -/
def escQ (s : Name) : Str := Lscr.replaceAll (Lscr.unicodeEscape s) ['"'] ['\\', '"']

mutual
/-- the characters the translator writes for the tree `e` -/
def txJ : JE → Str
  | .num d _ => natStr d
  | .lstr s => S "new LingoString(\"" ++ escQ s ++ S "\")"
  | .dstr s => S "\"" ++ escQ s ++ S "\""
  | .sstr s => S "'" ++ s ++ S "'"
  | .id n => n
  | .mem o n => (if o.needsParen then S "(" ++ txJ o ++ S ")" else txJ o) ++ S "." ++ n
  | .idx o i => (if o.needsParen then S "(" ++ txJ o ++ S ")" else txJ o) ++ S "[" ++ txJ i ++ S "]"
  | .call f as => (if f.needsParen then S "(" ++ txJ f ++ S ")" else txJ f) ++ S "(" ++ txArgs as ++ S ")"
  | .newLS e => S "new LingoString(" ++ txJ e ++ S ")"
  | .un op a => op ++ S "(" ++ txJ a ++ S ")"
  | .bin op a b => S "(" ++ txJ a ++ S " " ++ op ++ S " " ++ txJ b ++ S ")"
  | .spread n => S "..." ++ n
/-- `", ".join(...)` -/
def txArgs : List JE → Str
  | [] => []
  | [e] => txJ e
  | e :: e2 :: es => txJ e ++ S ", " ++ txArgs (e2 :: es)
end

/-! ### the expression fragment -/

/-- lexically a JavaScript identifier -/
def jsIdLex : Name → Bool
  | [] => false
  | c :: cs => isJsIdStart c && cs.all isJsIdChar

/-- … that is not a reserved word of the subset (`var`, `new`, `function`, …: the translator copies Lingo names unchanged,
    so a Lingo variable called `var` gives `var var;` — see design.d/C04Link.md, disagreement D3) -/
def jsIdOk (n : Name) : Bool := jsIdLex n && !isJsKeyword n

/-- symbol names: written between single quotes without any escaping -/
def sstrOk (s : Name) : Bool := s.all fun c => c != '\'' && c != '\\' && c != '\n'

/-- string constants: characters of the basic plane (every table codec; `\U…` escapes of `unicode_escape` are not JavaScript) -/
def strOk (s : Name) : Bool := s.all fun c => decide (c.toNat < 65536)

/-- function names the translator rewrites (`_movie.newScript`, `_movie.go…`, `member`, `resume`, the receiver form) -/
def specialCall (f : Name) : Bool :=
  f == "birth".toList || f == "go".toList || f == "cast".toList || f == "continue".toList || f == "me".toList

def headIsSym : List Expr → Bool
  | .sym _ :: _ => true
  | _ => false

/-- `name.lower() in LIST_FUNCTIONS`: the first argument of these, when a symbol, is printed as a global variable (D2) -/
def listFn (f : Name) : Bool := Lscr.listHas Gen.PropTables.listFunctions (Lscr.pyLower f)

/-- the object index of `the P of sprite|cast|sound n` for which the model's text is the translation: the model keeps only the
    popped node's `.name` (finding F20, open), which is right for an integer literal and for a local variable / parameter (other
    than `me`); a string loses its `new LingoString(...)`, a global its `_global.`, a declared property its `this.`, any other
    expression becomes its operator name — those stay outside -/
def idxJsOk : Expr → Bool
  | .int _ => true
  | .var .loc n => jsIdOk n && n != "me".toList
  | .var .param n => jsIdOk n && n != "me".toList
  | _ => false

/-- receivers of a method call `x(#m, a, b)` for which the model's text is the translation: a local variable or parameter other than
    `me` (`this.m(...)`: another generator branch) whose name is not rewritten by CallFunction (`specialCall`, `LIST_FUNCTIONS`: the
    symbol in first position would be printed as a global).  A GLOBAL receiver is printed `_global.g(…)` only when the opcode knew it
    as a global (agent-link2's `RecvNode` leaves both nodes open), so it stays outside -/
def recvJsOk : Expr → Bool
  | .var .loc n => jsIdOk n && n != "me".toList && !specialCall n && !listFn n
  | .var .param n => jsIdOk n && n != "me".toList && !specialCall n && !listFn n
  | _ => false

mutual
/-- expressions of the JavaScript link theorems: the whole domain of `Link.Emb` (integers, strings, symbols, the four variable
    kinds, unary and all 19 binary operators, `field`, plain function calls, linear lists) minus the two name clashes above (reserved words, D3 = F141; symbol arguments of
    list functions, D2 = F140); property lists, `the P of <object expression>`, chunk expressions `char|word|item|line a [to b] of d`,
    the built-in properties `the P of sprite|cast|sound n` (every entry of the four tables) for an index in `idxJsOk` (F20),
    `the number of chars|words|items|lines of e`, `the last char|… of e`, `the P of field e`, the function-like properties
    `the mouseH`, `the ticks`, … (`66 n`: owner from KNOWN_PROPERTIES, else `_key`; `the date` / `the time`), `the floatPrecision` … `the timeoutScript` -/
def JsOkE : Expr → Bool
  | .int _ => true
  | .str s => strOk s
  | .sym s => sstrOk s
  | .var .loc n => n == "me".toList || jsIdOk n
  | .var .param n => n == "me".toList || jsIdOk n
  | .var .glob n => jsIdLex n
  | .var .prop n => jsIdLex n
  | .un _ a => JsOkE a
  | .bin _ a b => JsOkE a && JsOkE b
  | .field a => JsOkE a
  | .call f as => jsIdOk f && !specialCall f && !(listFn f && headIsSym as) && JsOkL as
  | .list as => JsOkL as
  | .plist as => JsOkL as
  | .oprop v o => jsIdLex v && JsOkE o
  | .chunk _ a b d => JsOkE a && JsOkE b && JsOkE d
  | .the t k [e] =>
    ((match Link.theTbl t with | some (_, tb, _) => tb.any (fun x => x.1 == k) | none => false) && idxJsOk e)
      || ((match Link.strThe t k with | some (_, r) => (Link.chunkTy r).isSome | none => false) && JsOkE e)
      || (decide (t = .field) && JsOkE e)
  | .the .special k [] => decide (k < 6)
  | .key v => jsIdLex v
  | .mcall o m as => recvJsOk o && sstrOk m && JsOkL as
  | _ => false
def JsOkL : List Expr → Bool
  | [] => true
  | e :: es => JsOkE e && JsOkL es
end

/-- the context-free part of `toJs` on the fragment (no handler table, not inside `tell`) -/
def c0 : JCtx := { handlers := [], inTell := false }

/-! ### statements -/

/-- an infix operation: the only trees whose text is wholly parenthesised (`_is_parenthesized`, F160) -/
def isBinJ : JE → Bool
  | .bin _ _ _ => true
  | _ => false

/-- a condition WITHOUT its outer pair of parentheses: the text between `if (` and `) {`, the middle part of a `for` header -/
def txBare : JE → Str
  | .bin op a b => txJ a ++ S " " ++ op ++ S " " ++ txJ b
  | e => txJ e

def prBare : JE → List JTok
  | .bin op a b => prJ a ++ (jsOpTok op).getD (.p .plus) :: prJ b
  | e => prJ e

/-- the right-hand side of an assignment: `new LingoString(a + b)` of a `put … after / before` is written without the
    parentheses of the sum (SpAssignOperation.generate_js), everything else as an expression -/
def txRhs : JE → Str
  | .newLS e => S "new LingoString(" ++ txBare e ++ S ")"
  | e => txJ e

def prRhs : JE → List JTok
  | .newLS e => .id "new".toList :: .id "LingoString".toList :: .p .lp :: prBare e ++ [.p .rp]
  | e => prJ e

mutual
/-- tokens of one statement as the translator writes it -/
def prS : JS → List JTok
  | .expr e => prJ e ++ [.p .semi]
  | .assign l r => prJ l ++ .p .assign :: prRhs r ++ [.p .semi]
  | .ret [] => [.id "return".toList, .p .semi]
  | .ret (e :: _) => .id "return".toList :: prJ e ++ [.p .semi]
  | .var n => [.id "var".toList, .id n, .p .semi]
  | .brk => [.id "break".toList, .p .semi]
  | .ifs c t e =>
    .id "if".toList :: .p .lp :: prBare c ++ .p .rp :: .p .lc :: prBody t ++
      (if e.isEmpty then [.p .rc] else .p .rc :: .id "else".toList :: .p .lc :: prBody e ++ [.p .rc])
  | .while c b => .id "while".toList :: .p .lp :: prBare c ++ .p .rp :: .p .lc :: prBody b ++ [.p .rc]
  | .for3 v a c d b =>
    .id "for".toList :: .p .lp :: prJ v ++ .p .assign :: prJ a ++ .p .semi :: prBare c ++ .p .semi :: prJ v ++
      (if d then JTok.p .dec else JTok.p .inc) :: .p .rp :: .p .lc :: prBody b ++ [.p .rc]
  | .forOf v l b => .id "for".toList :: .p .lp :: prJ v ++ .id "of".toList :: prJ l ++ .p .rp :: .p .lc :: prBody b ++ [.p .rc]
  | _ => []
def prBody : List JS → List JTok
  | [] => []
  | s :: ss => prS s ++ prBody ss
end

/-- text of one SIMPLE statement line WITHOUT indentation and line end -/
def txS : JS → Str
  | .expr e => txJ e ++ S ";"
  | .assign l r => txJ l ++ S " = " ++ txRhs r ++ S ";"
  | .ret [] => S "return;"
  | .ret (e :: _) => S "return " ++ txJ e ++ S ";"
  | .var n => S "var " ++ n ++ S ";"
  | .brk => S "break;"
  | _ => []

mutual
/-- the lines of one statement at indentation level `ind`: a simple statement is one line; `if (c) {` … `} else {` … `}`,
    `while (c) {` … `}`, `for(v = a; c; v++) {` … `}` with the bodies one level deeper -/
def txT (ind : Nat) : JS → Str
  | .ifs c t e =>
    Lscr.indentOf ind ++ S "if (" ++ txBare c ++ S ") {\n" ++ txBody (ind + 1) t ++
      (if e.isEmpty then [] else Lscr.indentOf ind ++ S "} else {\n" ++ txBody (ind + 1) e) ++ Lscr.indentOf ind ++ S "}\n"
  | .while c b => Lscr.indentOf ind ++ S "while (" ++ txBare c ++ S ") {\n" ++ txBody (ind + 1) b ++ Lscr.indentOf ind ++ S "}\n"
  | .for3 v a c d b =>
    Lscr.indentOf ind ++ S "for(" ++ txJ v ++ S " = " ++ txJ a ++ S "; " ++ txBare c ++ S "; " ++ txJ v ++
      (if d then S "--" else S "++") ++ S ") {\n" ++ txBody (ind + 1) b ++ Lscr.indentOf ind ++ S "}\n"
  | .forOf v l b =>
    Lscr.indentOf ind ++ S "for(" ++ txJ v ++ S " of " ++ txJ l ++ S ") {\n" ++ txBody (ind + 1) b ++ Lscr.indentOf ind ++ S "}\n"
  | s => Lscr.indentOf ind ++ txS s ++ S "\n"
/-- the lines of a body at indentation level `ind` -/
def txBody (ind : Nat) : List JS → Str
  | [] => []
  | s :: ss => txT ind s ++ txBody ind ss
end

/-- assignment targets: the four variable kinds (`me` is not assignable), `the P of <variable>` (opcode 62) and the built-in
    properties `the P of sprite|cast|sound n` (5d 06 / 09 / 04 / 0d) of `JsOkE`, `the floatPrecision` … `the timeoutScript` (5d 00);
    `set the P of field n` is finding F38 -/
def JsOkLv : Expr → Bool
  | .var .loc n => jsIdOk n
  | .var .param n => jsIdOk n
  | .var .glob n => jsIdLex n
  | .var .prop n => jsIdLex n
  | .oprop v (.var .loc n) => jsIdLex v && jsIdOk n
  | .oprop v (.var .param n) => jsIdLex v && jsIdOk n
  | .oprop v (.var .glob n) => jsIdLex v && jsIdLex n
  | .oprop v (.var .prop n) => jsIdLex v && jsIdLex n
  | .the t k [e] => (Link.theTbl t).isSome && JsOkE (.the t k [e])
  | .the .special k [] => decide (k < 6)
  | _ => false

/-- targets of `delete` / `hilite`: the bottom of the chunk chain is not a global variable.  A global referenced by NAME (`46 n`) is a
    `GlobalVariable` node or a `LocalVariable` node (agent-link2's `EmbTg` leaves both open: it depends on the handler's globals
    table, F120), and the JavaScript differs (`_global.g` / `g`) -/
def tgOk : Expr → Bool
  | .chunk _ _ _ d => tgOk d
  | .var .glob _ => false
  | _ => true

/-- targets of `put … into / after / before`: a chain of chunks over a field (addressed through its `.text`) or a local variable,
    parameter or declared property (a global: see `tgOk`) -/
def JsOkTg : Expr → Bool
  | .chunk _ a b d => JsOkE a && JsOkE b && JsOkTg d
  | .field e => JsOkE e
  | .var .loc n => jsIdOk n && n != "me".toList
  | .var .param n => jsIdOk n && n != "me".toList
  | .var .prop n => jsIdLex n
  | _ => false

/-- statements of the JavaScript link theorems: `set <variable> = e`, command calls `f a, b` (incl. calls of handlers of the
    same script: `fn_call(f(a, b))`), `return` / `return e`, `exit`, `delete <chunk>` / `hilite <chunk>` (`delete(x.word[2]);`),
    `put v into|after|before <target>` (`t = v;` / `t = new LingoString(t + v);` / `t = new LingoString(v + t);`) -/
def JsOkS : Stmt → Bool
  | .set lv v => JsOkLv lv && JsOkE v
  | .call f as =>
    if f = "return".toList then (match as with | [] => true | [e] => JsOkE e | _ => false)
    else jsIdOk f && !specialCall f && !(listFn f && headIsSym as) && JsOkL as
  | .exit => true
  | .delete t => JsOkE t && tgOk t
  | .hilite t => JsOkE t && tgOk t
  | .put _ v lv => JsOkE v && JsOkTg lv
  | .mcall o m as => JsOkE (.mcall o m as)
  | _ => false

def JsOkSs : List Stmt → Bool
  | [] => true
  | s :: ss => JsOkS s && JsOkSs ss

mutual
/-- structured statements of the JavaScript link theorems: the simple statements of `JsOkS`, `if c then … [else …]`,
    `repeat while c`, `repeat with <local> = a [down] to b`, `repeat with <local> in l` (`for(x of l) {`), nested without bound -/
def JsOkT : Stmt → Bool
  | .ifThen c t e => JsOkE c && JsOkTs t && JsOkTs e
  | .repeatWhile c b => JsOkE c && JsOkTs b
  | .repeatWith (.var .loc v) a b _ body => jsIdOk v && JsOkE a && JsOkE b && JsOkTs body
  | .repeatIn (.var .loc v) l body => jsIdOk v && JsOkE l && JsOkTs body
  | .set lv v => JsOkS (.set lv v)
  | .call f as => JsOkS (.call f as)
  | .exit => true
  | .delete t => JsOkS (.delete t)
  | .hilite t => JsOkS (.hilite t)
  | .put m v lv => JsOkS (.put m v lv)
  | .mcall o m as => JsOkS (.mcall o m as)
  | _ => false
def JsOkTs : List Stmt → Bool
  | [] => true
  | s :: ss => JsOkT s && JsOkTs ss
end

mutual
/-- `Link.EmbS` / agent-link-flow's `EmbT` refined by the one field the JavaScript generator reads beyond them:
    `CallFunction.with_result`, which the model's opcode step sets for the local-call opcode `56` (a handler of the same script)
    and clears for `57`; the structured cases are those of `LinkFlow.EmbT` (if-then node with both branches, `repeat while`
    node, `repeat with` node carrying start value, bound, variable and sign) -/
def EmbSJ (handlers : List Name) : Stmt → Node → Prop
  | .set lv v, n => Link.EmbS (.set lv v) n
  | .call f as, n => ∃ p q q' ops, n = .stmt p (.callFn (.s f) q (.loadList (S "load_list") q' ops.reverse) true false
      (handlers.contains f) .none) ∧ Link.EmbL as ops
  | .exit, n => ∃ p q, n = .stmt p (.callFn (.s (S "exit")) q .none true false false .none)
  | .put m v lv, n => ∃ p q l r, n = .stmt p (.spAssign q l r m.tag.toList) ∧ Link.EmbTg lv l ∧ Link.Emb v r
  | .mcall o m as, n => ∃ p q q' ps rc ops nm, Link.mcallRecv o = some nm ∧
      n = .stmt p (.callFn (.s nm) q (.loadList (S "load_list") q' (ops.reverse ++ [.sym (.s m) ps false])) true false false rc) ∧
      Link.EmbL as ops ∧ Link.RecvNode o nm rc
  | .ifThen c t e, n => ∃ p q cn ifs els, n = .stmt p (.ifThen q cn ifs els) ∧ Link.Emb c cn ∧ EmbSsJ handlers t ifs ∧ EmbSsJ handlers e els
  | .repeatWhile c b, n => ∃ p rp re cn body,
      n = .stmt p (.repeat_ rp re cn body (S "while") .none (.s []) [] .none) ∧ Link.Emb c cn ∧ EmbSsJ handlers b body
  | .repeatWith (.var .loc v) a b down body, n => ∃ p rp re cp pv1 pv2 ra rb body',
      n = .stmt p (.repeat_ rp re (.binary (if down then S "gte" else S "lte") cp (.leaf .localVar (.s v) pv1) rb) body' (S "for") ra (.s v)
        (if down then S "-" else S "+") (.leaf .localVar (.s v) pv2)) ∧ Link.Emb a ra ∧ Link.Emb b rb ∧ EmbSsJ handlers body body'
  | .repeatIn (.var .loc v) l body, n => ∃ p rp re pb pk pc pl pv ln body',
      n = .stmt p (.repeat_ rp re (.binary (S "lte") pb (.leaf .const (.s (S "1")) pk)
          (.callFn (.s (S "count")) pc (.loadList (S "<load_list>") pl [ln]) true false false .none))
        body' (S "for_in") ln (.s v) [] (.leaf .localVar (.s v) pv)) ∧ Link.Emb l ln ∧ EmbSsJ handlers body body'
  | s, n => Link.EmbSH handlers s n

def EmbSsJ (handlers : List Name) : List Stmt → List Node → Prop
  | [], ns => ns = []
  | s :: ss, ns => ∃ x xs, ns = x :: xs ∧ EmbSJ handlers s x ∧ EmbSsJ handlers ss xs
end

/-! ### handlers and the three script wrappers -/

/-- `name(params) { body }` -/
def prMethod (f : JFunc) : List JTok :=
  .id f.name :: .p .lp :: prJArgs f.params ++ .p .rp :: .p .lc :: prBody f.body ++ [.p .rc]

def prTop : JTop → List JTok
  | .func f => .id "function".toList :: prMethod f
  | .cls n b ms => .id "class".toList :: .id n :: .id "extends".toList :: .id b :: .p .lc :: (ms.map prMethod).flatten ++ [.p .rc]

def prProg (ts : List JTop) : List JTok := (ts.map prTop).flatten

/-- number of leading `var` statements of a body -/
def varCount : List JS → Nat
  | .var _ :: ss => varCount ss + 1
  | _ => 0

/-- text of a function body: the `var` lines, a blank line if there are any, the statements -/
def txFuncBody (ind : Nat) (b : List JS) : Str :=
  txBody ind (b.take (varCount b)) ++ (if varCount b = 0 then [] else S "\n") ++ txBody ind (b.drop (varCount b))

/-- `function name(a, b) {` … `}` of a plain script -/
def txFunc (f : JFunc) : Str :=
  S "function " ++ f.name ++ S "(" ++ txArgs f.params ++ S ") {\n" ++ txFuncBody 1 f.body ++ S "}\n"

def txFuncs : List JFunc → Bool → Str
  | [], _ => []
  | f :: fs, first => (if first then [] else S "\n") ++ txFunc f ++ txFuncs fs false

/-- a method inside a class body -/
def txMethod (f : JFunc) : Str :=
  S "\n" ++ Lscr.indentOf 1 ++ f.name ++ S "(" ++ txArgs f.params ++ S ") {\n" ++ txFuncBody 2 f.body ++ Lscr.indentOf 1 ++ S "}\n"

/-- handlers of the fragment: identifier names, body in `JsOkTs` (flat or structured) -/
def JsOkH (h : Handler) : Bool :=
  jsIdOk h.name && h.params.all (fun p => jsIdOk p) && h.locals.all (fun p => jsIdOk p) && JsOkTs h.body

def JsOkHs : List Handler → Bool
  | [] => true
  | h :: hs => JsOkH h && JsOkHs hs

/-- the wrapper function of one handler of a property script: `function name(obj, ...args) { return obj.name(...args); }` -/
def wrapperFunc (name : Name) : JFunc :=
  { name := name, params := [jid "obj", .spread "args".toList],
    body := [.ret [.call (.mem (jid "obj") name) [.spread "args".toList]]] }

/-- the dispatcher function of a factory: `function F(methodName, ...args) { return factoryCall('F', methodName, args); }` -/
def factoryFunc (name : Name) : JFunc :=
  { name := name, params := [jid "methodName", .spread "args".toList],
    body := [.ret [jcall "factoryCall" [.sstr name, jid "methodName", jid "args"]]] }

/-- `class C extends B {` methods `}` and a blank line -/
def txClass (cname base : Name) (ms : List JFunc) : Str :=
  S "class " ++ cname ++ S " extends " ++ base ++ S " {" ++ (ms.map txMethod).flatten ++ S "}\n\n"

/-- a class followed by functions without separating blank lines (property scripts and factories) -/
def txClassProg (cname base : Name) (ms ws : List JFunc) : Str := txClass cname base ms ++ (ws.map txFunc).flatten

/-- the model as a JavaScript translator in the sense of `DrxProps.C04.C04_full` -/
def modelGenJs (lscr lnam : Bytes) : Option (List Char) :=
  match Lscr.parseScript lscr lnam with
  | .ok t =>
    match (Lscr.genJs t).1 with
    | .ok txt => some txt
    | .error _ => none
  | .error _ => none

/-- scripts of the composed theorem: agent-link's `FragScript` (what the compile → parse chain covers: no factory, `property` /
    `global` lines, any number of handlers) with every handler in the JavaScript fragment -/
def JsLinkScript (s : Script) : Bool := Link.FragScript s && JsOkHs s.handlers

end Drx.LinkJs
