/-
  Specification side of C06: what an image is, how Director lays its scan lines out (raw) and packs them
  (PackBits, scan line by scan line), and how a standard BMP reader reads the decoder's output.
  Trusted by definition (DESIGN section 3); core Lean only, so that the driver can run the same encoder
  and reader the theorems talk about.
-/
import Drx.Bitd
namespace Drx.Bitd.Spec
open Drx Drx.Bitd

/-- source pixels, top row first -/
inductive Pixels where
  | d1 (rows : List (List Bool))
  | d8 (rows : List (List UInt8))
  | d16 (rows : List (List (UInt8 × UInt8)))                    -- (high byte, low byte) of an RGB555 word
  | d32 (rows : List (List (UInt8 × UInt8 × UInt8 × UInt8)))    -- (alpha, red, green, blue)
  deriving Repr, DecidableEq

/-- an image of `W - ox` by `H - oy` pixels placed at (ox, oy) on a `W × H` canvas -/
structure Img where
  W : Nat
  H : Nat
  ox : Nat
  oy : Nat
  pix : Pixels
  deriving Repr, DecidableEq

def Img.w (i : Img) : Nat := i.W - i.ox
def Img.h (i : Img) : Nat := i.H - i.oy

def Pixels.depth : Pixels → Nat
  | .d1 _ => 1 | .d8 _ => 8 | .d16 _ => 16 | .d32 _ => 32

def Pixels.shapeOk (w h : Nat) : Pixels → Bool
  | .d1 rows => rows.length == h && rows.all (·.length == w)
  | .d8 rows => rows.length == h && rows.all (·.length == w)
  | .d16 rows => rows.length == h && rows.all (·.length == w)
  | .d32 rows => rows.length == h && rows.all (·.length == w)

/-- well-formed: offsets inside the canvas, the pixel matrix has the stated shape -/
def Img.wf (i : Img) : Bool := i.ox ≤ i.W && i.oy ≤ i.H && i.pix.shapeOk i.w i.h

/-! ### scan lines -/

def bit (b : Bool) : Nat := if b then 1 else 0

/-- bit `j` (0 = most significant) of a byte -/
def padBit (p : UInt8) (j : Nat) : Bool := p.toNat / 2 ^ (7 - j) % 2 = 1

/-- up to eight pixels, most significant bit first; missing positions take the bits of `p` -/
def byteOfBits (p : UInt8) (bs : List Bool) : UInt8 :=
  UInt8.ofNat ((List.range 8).foldl (fun acc j => acc * 2 + bit (bs.getD j (padBit p j))) 0)

def packRow1 (p : UInt8) : List Bool → Bytes
  | b0 :: b1 :: b2 :: b3 :: b4 :: b5 :: b6 :: b7 :: rest => byteOfBits p [b0, b1, b2, b3, b4, b5, b6, b7] :: packRow1 p rest
  | [] => []
  | bs => [byteOfBits p bs]

def evenPad (p : UInt8) (b : Bytes) : Bytes := if b.length % 2 = 1 then b ++ [p] else b

/-- one scan line as stored: 1 bit: bits packed MSB first, byte count made even; 8 bit: byte count made even;
    16 bit: the high bytes of all pixels, then the low bytes; 32 bit: the alpha, red, green, blue planes.
    `p1` fills the unused bits of a partial byte, `p2` is the alignment byte (both free for the author). -/
def rawRows (p1 p2 : UInt8) : Pixels → List Bytes
  | .d1 rows => rows.map fun r => evenPad p2 (packRow1 p1 r)
  | .d8 rows => rows.map fun r => evenPad p2 r
  | .d16 rows => rows.map fun r => r.map (·.1) ++ r.map (·.2)
  | .d32 rows => rows.map fun r => r.map (·.1) ++ r.map (·.2.1) ++ r.map (·.2.2.1) ++ r.map (·.2.2.2)

/-! ### PackBits -/

inductive Op where
  | lit (bs : Bytes)            -- 1..128 bytes copied
  | run (n : Nat) (v : UInt8)   -- 2..128 copies of one byte
  deriving Repr, DecidableEq

def Op.valid : Op → Bool
  | .lit bs => 1 ≤ bs.length && bs.length ≤ 128
  | .run n _ => 2 ≤ n && n ≤ 128

def Op.bytes : Op → Bytes
  | .lit bs => UInt8.ofNat (bs.length - 1) :: bs
  | .run n v => [UInt8.ofNat (257 - n), v]

def Op.expand : Op → Bytes
  | .lit bs => bs
  | .run n v => List.replicate n v

def unpack (ops : List Op) : Bytes := ops.flatMap Op.expand
def packed (ops : List Op) : Bytes := ops.flatMap Op.bytes

/-- how the scan lines are stored: as they are, or each line as its own list of PackBits operations -/
inductive Enc where
  | raw
  | packed (rows : List (List Op))
  deriving Repr, DecidableEq

def serialise (i : Img) (p1 p2 : UInt8) : Enc → Bytes
  | .raw => (rawRows p1 p2 i.pix).flatten
  | .packed rows => packed rows.flatten

/-- every operation is a PackBits operation and each line's operations expand to exactly that scan line -/
def validRows : List (List Op) → List Bytes → Bool
  | [], [] => true
  | ops :: os, r :: rs => ops.all Op.valid && unpack ops == r && validRows os rs
  | _, _ => false

def validEnc (i : Img) (p1 p2 : UInt8) : Enc → Bool
  | .raw => true
  | .packed rows => validRows rows (rawRows p1 p2 i.pix)

/-- the request `bitd2bmp` gets for this image (system palette) -/
def callOf (i : Img) (data : Bytes) : Call :=
  { depth := i.pix.depth, width := i.W, height := i.H, padW := i.ox, padH := (i.oy : Int),
    palette := "systemMac", clut := [], fdata := data }

/-! ### what a BMP reader sees -/

/-- the bytes of one BMP pixel: palette index; little-endian 16-bit word; blue, green, red -/
def canvasRows : Pixels → List (List Bytes)
  | .d1 rows => rows.map fun r => r.map fun b => [UInt8.ofNat (bit b)]
  | .d8 rows => rows.map fun r => r.map fun v => [v]
  | .d16 rows => rows.map fun r => r.map fun (hi, lo) => [lo, hi]
  | .d32 rows => rows.map fun r => r.map fun (_, r, g, b) => [b, g, r]

def Pixels.bytesPerPixel : Pixels → Nat
  | .d1 _ => 1 | .d8 _ => 1 | .d16 _ => 2 | .d32 _ => 3

/-- the picture the property promises: background (all-zero pixels) everywhere except the image at (ox, oy); top row first -/
def canvas (i : Img) : List (List Bytes) :=
  let bg := zeros i.pix.bytesPerPixel
  List.replicate i.oy (List.replicate i.W bg) ++ (canvasRows i.pix).map fun r => List.replicate i.ox bg ++ r

def leField (b : Bytes) (off k : Nat) : Option Nat :=
  let s := slice b off (off + k)
  if s.length = k then some (leNat s) else none

/-- `n` rows of `stride` bytes from the front of the pixel area -/
def takeRows (stride : Nat) : Nat → Bytes → Option (List Bytes)
  | 0, _ => some []
  | n+1, b =>
    if b.length < stride then none else
    match takeRows stride n (b.drop stride) with
    | none => none
    | some rs => some (b.take stride :: rs)

/-- the first `n` pixels of `k` bytes of a row -/
def pixelsOf (k : Nat) : Nat → Bytes → List Bytes
  | 0, _ => []
  | n+1, b => b.take k :: pixelsOf k n (b.drop k)

/-- a BMP reader: "BM", pixel-array offset from the file header, width/height/bit count from the info header,
    rows stored bottom-up, each row `((w·bpp + 31) / 32) · 4` bytes. Result: rows top-down, each pixel as its bytes. -/
def readBmp (b : Bytes) : Option (List (List Bytes)) :=
  if b.length < 54 ∨ slice b 0 2 ≠ [0x42, 0x4D] then none else
  match leField b 10 4, leField b 18 4, leField b 22 4, leField b 26 2, leField b 28 2 with
  | some off, some w, some h, some planes, some bpp =>
    if w ≥ 2147483648 ∨ h ≥ 2147483648 ∨ planes ≠ 1 ∨ ¬ (bpp = 8 ∨ bpp = 16 ∨ bpp = 24) then none else
    let stride := (w * bpp + 31) / 32 * 4
    match takeRows stride h (b.drop off) with
    | none => none
    | some rows => some (rows.reverse.map fun r => pixelsOf (bpp / 8) w r)
  | _, _, _, _, _ => none

/-! ### the class of inputs on which today's code satisfies the property (mirror of the open findings) -/

/-- does some operation of the line cross position `w` (the boundary between the two byte planes)? -/
def straddles (w : Nat) : Nat → List Op → Bool
  | _, [] => false
  | pos, o :: os =>
    let n := o.expand.length
    (pos < w && w < pos + n) || straddles w (pos + n) os

/-- the output must be describable by the 32-bit signed fields of the BMP headers -/
def fitsHeader (i : Img) : Bool := (i.W + 1) * (i.H + 1) * 4 + 2000 < 2147483648

def supportedB (i : Img) (e : Enc) : Bool :=
  fitsHeader i &&
  match i.pix, e with
  | .d1 _, _ => true
  | .d8 _, _ => true
  | .d16 _, .packed rows => i.ox == 0 && i.oy == 0 && rows.all (fun ops => !straddles i.w 0 ops)   -- F91, F90
  | .d32 _, .packed _ => i.ox == 0 && i.oy == 0                                                    -- F92
  | _, .raw => false                                                                                -- F34

/-! ### reading spec objects from the driver line (harness/c06.py) -/

def bitsOfByte (v : UInt8) : Bool := v.toNat % 2 = 1

def chunk (k : Nat) : Nat → List α → List (List α)
  | 0, _ => []
  | n+1, l => l.take k :: chunk k n (l.drop k)

def pairs : Bytes → List (UInt8 × UInt8)
  | a :: b :: r => (a, b) :: pairs r
  | _ => []

def quads : Bytes → List (UInt8 × UInt8 × UInt8 × UInt8)
  | a :: b :: c :: d :: r => (a, b, c, d) :: quads r
  | _ => []

/-- the pixel matrix comes as one byte string, row by row (1 bit: one byte per pixel; 16: hi lo; 32: a r g b) -/
def mkImg (depth W H ox oy : Nat) (pix : Bytes) : Option Img :=
  let w := W - ox
  let h := H - oy
  match depth with
  | 1 => some ⟨W, H, ox, oy, .d1 ((chunk w h pix).map (·.map bitsOfByte))⟩
  | 8 => some ⟨W, H, ox, oy, .d8 (chunk w h pix)⟩
  | 16 => some ⟨W, H, ox, oy, .d16 ((chunk (2 * w) h pix).map pairs)⟩
  | 32 => some ⟨W, H, ox, oy, .d32 ((chunk (4 * w) h pix).map quads)⟩
  | _ => none

def parseOp (s : String) : Option Op :=
  match s.splitOn ":" with
  | ["l", h] => (bytesOfHex h).map Op.lit
  | ["r", n, v] => do
    let n ← n.toNat?; let v ← v.toNat?
    some (Op.run n (UInt8.ofNat v))
  | _ => none

/-- `raw`, or lines separated by `/`, operations by `+` (`l:<hex>` literal, `r:<n>:<byte>` run); `.` = a line without operations -/
def parseEnc (s : String) : Option Enc :=
  if s = "raw" then some .raw else do
    let rows ← (s.splitOn "/").mapM fun r =>
      if r = "." then some [] else (r.splitOn "+").mapM parseOp
    some (.packed rows)

end Drx.Bitd.Spec
