/-
  Generic line-protocol loop shared by the per-family drivers.
  One case per line on stdin:  <family> <cmd> <args...>   (space separated; byte strings in hex, "-" = empty)
  One line per case on stdout: the canonical observable (JSON), or "bad-op" for a line the driver cannot read.
-/
namespace Drx.Drv

partial def loop (run : List String → Option String) (h : IO.FS.Stream) (out : IO.FS.Stream) : IO Unit := do
  let line ← h.getLine
  if line.isEmpty then return ()
  let toks := (line.trimAscii.toString.splitOn " ").filter (· ≠ "")
  let res := match toks with
    | _fam :: args => (run args).getD "bad-op"
    | [] => "bad-op"
  out.putStrLn res
  loop run h out

def mainLoop (run : List String → Option String) : IO Unit := do
  let stdin ← IO.getStdin
  let stdout ← IO.getStdout
  loop run stdin stdout

end Drx.Drv
