import Drx.Drv.Util
namespace Drx.Drv.Xtract
open Drx Drx.Drv

/-- commands of the `xtract` family (stub: nothing implemented yet) -/
def run : List String → Option String
  | _ => none

end Drx.Drv.Xtract
