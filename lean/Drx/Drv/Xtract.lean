import Drx.Xtract
import Drx.Drv.Util
namespace Drx.Drv.Xtract
open Drx Drx.Drv Drx.Xtract

def outcomeStr : Outcome → String
  | .done => "done" | .exit => "exit" | .error => "error"

/-- commands of the `xtract` family (see harness/c18.py) -/
def run : List String → Option String
  | ["plan", exe, o, h] => do
    let o ← parseOrder o; let b ← bytesOfHex h
    let p := extractPlan (exe == "1") o b
    let dir := finalDir p.files
    some (J.obj [("outcome", J.s (outcomeStr p.outcome)),
                 ("writes", J.nat p.files.length),
                 ("files", J.obj (dir.map fun (n, d) => (String.ofList n, J.hex d)))]).render
  | ["safety"] =>
    -- the safety clause of C18 is a constant: nothing written outside <out>/bin, nothing else changed, second run identical,
    -- a run over stale files of the same names and sizes restores every payload
    some "{\"outside_bin\":[],\"second_run_same\":true,\"stale_files_replaced\":true,\"tree_outside_bin_changed\":false}"
  | ["name", idx, h] => do
    let idx ← parseNat idx; let b ← bytesOfHex h
    some (J.str (fileName idx (b.map fun x => Char.ofNat x.toNat))).render
  | _ => none

end Drx.Drv.Xtract
