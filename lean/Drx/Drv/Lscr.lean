import Drx.Lscr
import Drx.Lscr.LitEval
import Drx.Lscr.Steps
import Drx.Lscr.LitEvalFloat
import Drx.Drv.Util
namespace Drx.Drv.Lscr
open Drx Drx.Drv Drx.Lscr

def textJ (r : R Str) : J := match r with | .ok t => J.str t | .error _ => J.s "error"

def nameJ : Name → J
  | .s v => J.str v
  | .i v => J.int v

def leafName : Leaf → String
  | .node => "Node" | .localVar => "LocalVariable" | .globalVar => "GlobalVariable" | .propName => "PropertyName"
  | .definedProp => "DefinedPropertyName" | .paramName => "ParameterName" | .dateTime => "DateTimeFunction" | .menu => "Menu"
  | .menuItem => "MenuItem" | .soundChan => "SoundChannel" | .sprite => "Sprite" | .sysObj => "SystemObject" | .cast => "Cast"
  | .const => "ConstantValue" | .exitRepeat => "ExitRepeat"

/-- deep snapshot of a node: class, name, position and the class's fields (same shape as harness/c12.py `snap_node`) -/
partial def nodeJ : Node → J
  | .none => J.null
  | .leaf c n p => J.arr [J.s (leafName c), nameJ n, J.int p]
  | .sym n p uh => J.arr [J.s "Symbol", nameJ n, J.int p, J.bool uh]
  | .unary op p x => J.arr [J.s "UnaryOperation", J.str op, J.int p, nodeJ x]
  | .binary op p l r => J.arr [J.s "BinaryOperation", J.str op, J.int p, nodeJ l, nodeJ r]
  | .spAssign p l r m => J.arr [J.s "SpAssignOperation", J.s "assign", J.int p, nodeJ l, nodeJ r, J.str m]
  | .strOp k p a b c => J.arr [J.s "StringOperation", J.str k, J.int p, nodeJ a, nodeJ b, nodeJ c]
  | .unaryStr op p t x => J.arr [J.s "UnaryStringOperation", J.str op, J.int p, (match t with | some t => J.str t | none => J.null), nodeJ x]
  | .propAcc p o pr ex => J.arr [J.s "PropertyAccessorOperation", J.s "accessor", J.int p, nodeJ o, J.str pr, J.bool ex]
  | .keyAcc p pr => J.arr [J.s "KeyPropertyAccessorOperation", J.s "accessor", J.int p, J.str pr]
  | .menuItemAcc p m i => J.arr [J.s "MenuitemAccessorOperation", J.s "menu_item", J.int p, nodeJ m, nodeJ i]
  | .menuItemsAcc p m => J.arr [J.s "MenuitemsAccessorOperation", J.s "menu_items", J.int p, nodeJ m]
  | .loadList n p ops => J.arr [J.s "LoadListOperation", J.str n, J.int p, J.arr (ops.map nodeJ)]
  | .toList p x => J.arr [J.s "ToListOperation", J.s "to_list", J.int p, nodeJ x]
  | .toDict p x => J.arr [J.s "ToDictionaryOperation", J.s "to_dict", J.int p, nodeJ x]
  | .stmt p c => J.arr [J.s "Statement", J.s "statement", J.int p, nodeJ c]
  | .callFn n p ps up it wr rc => J.arr [J.s "CallFunction", nameJ n, J.int p, nodeJ ps, J.bool up, J.bool it, J.bool wr, nodeJ rc]
  | .callMethod n p o ps => J.arr [J.s "CallMethod", nameJ n, J.int p, nodeJ o, nodeJ ps]
  | .repeat_ p e c l t st v sg vr => J.arr [J.s "RepeatOperation", J.s "repeat", J.int p, J.int e, nodeJ c, J.arr (l.map nodeJ), J.str t, nodeJ st, nameJ v, J.str sg, nodeJ vr]
  | .ifThen p c a b => J.arr [J.s "IfThenOperation", J.s "if-then", J.int p, nodeJ c, J.arr (a.map nodeJ), J.arr (b.map nodeJ)]
  | .jump p a => J.arr [J.s "JumpOperation", J.s "jump", J.int p, J.int a]
  | .jz p c a => J.arr [J.s "JzOperation", J.s "jz", J.int p, nodeJ c, J.int a]
  | .tell p o l cl => J.arr [J.s "WindowTellOperation", J.s "tell", J.int p, nodeJ o, J.arr (l.map nodeJ), J.bool cl]

def funcJ (f : FuncDef) : J :=
  J.obj [("name", J.str f.name), ("pos", J.int f.pos), ("params", J.arr (f.params.map nodeJ)), ("locals", J.arr (f.localVars.map nodeJ)),
         ("globals", J.arr (f.globalVars.map nodeJ)), ("stmts", J.arr (f.stmts.map nodeJ)), ("is_method", J.bool f.isMethod)]

def scriptJ (s : Script) : J :=
  J.obj [("properties", J.arr (s.properties.map J.str)), ("global_vars", J.arr (s.globalVars.map J.str)),
         ("functions", J.arr (s.functions.map funcJ)), ("scr_num", J.int s.scrNum), ("cont_scr_num", J.int s.contScrNum),
         ("factory_name", J.str s.factoryName)]

def insertReg (x : Nat × Nat × Nat) : List (Nat × Nat × Nat) → List (Nat × Nat × Nat)
  | [] => [x]
  | y :: ys => if x.1 < y.1 then x :: y :: ys else y :: insertReg x ys

/-- registers that are not (0, 0), sorted by opcode -/
def regsJ (r : Regs) : J :=
  J.arr (((r.filter fun e => e.2 ≠ (0, 0)).foldr insertReg []).map fun e => J.arr [J.nat e.1, J.nat e.2.1, J.nat e.2.2])

/-- state of one simulated Python process: operand registers of the opcode singletons, current tree -/
structure Proc where
  regs : Regs := []
  tree : Option Script := none

/-- one operation of a history: `p<i>` parse script i, `l` generate Lingo, `j` generate JS on the current tree -/
def histStep (scripts : Array (Bytes × Bytes)) (pr : Proc) (op : String) : Proc × J :=
  if op = "l" then
    match pr.tree with
    | some t => let (r, t') := genLingo t; ({ pr with tree := some t' }, textJ r)
    | none => (pr, J.s "error")
  else if op = "j" then
    match pr.tree with
    | some t => let (r, t') := genJs t; ({ pr with tree := some t' }, textJ r)
    | none => (pr, J.s "error")
  else if op.startsWith "p" then
    match (op.drop 1).toString.toNat? with
    | some i =>
      match scripts[i]? with
      | some (lscr, lnam) =>
        match parseScriptWith .macRoman pr.regs lscr lnam with
        | .ok (s, regs) => ({ regs := regs, tree := some s }, J.s "ok")
        | .error _ => ({ pr with tree := none }, J.s "error")   -- registers after a failed parse: see design.d/C12.md
      | none => (pr, J.s "bad-op")
    | none => (pr, J.s "bad-op")
  else (pr, J.s "bad-op")

def pairUp : List Bytes → Option (List (Bytes × Bytes))
  | [] => some []
  | [_] => none
  | a :: b :: r => (pairUp r).map ((a, b) :: ·)

/-- commands of the `lscr` family -/
def run : List String → Option String
  | ["lingo", l, n] => do
    let l ← bytesOfHex l; let n ← bytesOfHex n
    some (match parseScript l n with
      | .ok s => (textJ (genLingo s).1).render
      | .error _ => (J.s "error").render)
  | ["js", l, n] => do
    let l ← bytesOfHex l; let n ← bytesOfHex n
    some (match parseScript l n with
      | .ok s => (textJ (genJs s).1).render
      | .error _ => (J.s "error").render)
  | "hist" :: prog :: hexes => do
    let bs ← hexes.mapM bytesOfHex
    let ps ← pairUp bs
    let ops := prog.splitOn ","
    let (_, outs) := ops.foldl (fun (acc : Proc × List J) op =>
      let (pr, o) := histStep ps.toArray acc.1 op
      (pr, acc.2 ++ [o])) ({}, [])
    some (J.arr outs).render
  | "snap" :: prog :: hexes => do
    let bs ← hexes.mapM bytesOfHex
    let ps ← pairUp bs
    let ops := prog.splitOn ","
    let (pr, outs) := ops.foldl (fun (acc : Proc × List J) op =>
      let (pr, o) := histStep ps.toArray acc.1 op
      (pr, acc.2 ++ [o])) ({}, [])
    let anyErr := outs.any fun o => match o with | .str s => s == "error".toList | _ => false
    some (J.obj [("regs", regsJ pr.regs), ("tree", if anyErr then J.null else match pr.tree with | some t => scriptJ t | none => J.null)]).render
  -- C10: loop rounds of the decompiler (Drx/Lscr/Steps.lean); `-` for the name table = `names = []`
  | ["steps", l, n] => do
    let l ← bytesOfHex l
    let n ← if n = "-" then some none else (bytesOfHex n).map some
    some (toString (Steps.lscrSteps l n).sum)
  | ["stepsx", l, n] => do
    let l ← bytesOfHex l
    let n ← if n = "-" then some none else (bytesOfHex n).map some
    let t := Steps.lscrSteps l n
    some (J.obj [("sum", J.nat t.sum), ("crb", J.nat t.crb), ("prb", J.nat t.prb), ("grb", J.nat t.grb), ("fnames", J.nat t.fnames),
                 ("frb", J.nat t.frb), ("tables", J.nat t.tables), ("opcodes", J.nat t.opcodes), ("jump", J.nat t.jump),
                 ("cond", J.nat t.cond), ("condOps", J.nat t.condOps), ("condCalls", J.nat t.condCalls),
                 ("condMaxLen", J.nat t.condMaxLen), ("loop", J.nat t.loop)]).render
  -- C11: constants of a script as stored by parse_lrcr_crb, with their Lingo and JavaScript literals
  | ["consts", l] => do
    let d ← bytesOfHex l
    let r : R (List Name) := do
      let h ← parseHeader d
      let (cs, _) ← parseCrb .macRoman d h.crbOff h.conOff h.crbN
      pure cs
    some (match r with
      | .ok cs => (J.arr (cs.map fun c => J.arr [nameJ c, nameJ (constLingo c), nameJ (constJs c)])).render
      | .error _ => (J.s "error").render)
  | ["cstr", h] => do
    let b ← bytesOfHex h
    some (match decodeText .macRoman b with
      | .ok s => let c := Name.s (escapeString s); (J.arr [nameJ c, nameJ (constLingo c), nameJ (constJs c)]).render
      | .error _ => (J.s "error").render)
  | ["cint8", a] => do
    let a ← parseNat a
    let c := Name.s (intStr (int1b a))
    some (J.arr [nameJ c, nameJ (constLingo c), nameJ (constJs c)]).render
  | ["cint16", a, b] => do
    let a ← parseNat a; let b ← parseNat b
    let c := Name.s (intStr (int2b a b))
    some (J.arr [nameJ c, nameJ (constLingo c), nameJ (constJs c)]).render
  | ["cfloat", h] => do
    let b ← bytesOfHex h
    some (match unpackFloat80 b with
      | .ok s => (J.str s).render
      | .error _ => (J.s "error").render)
  | ["lingosafe", h] => do
    let b ← bytesOfHex h
    some (J.bool (decide (LingoSafe b))).render
  -- spec-side readers (texts are UTF-8 in hex)
  | ["evallingo", h] => do
    let b ← bytesOfHex h
    some (match decodeUtf8 b with
      | .ok s => (match evalLingoLit s with | some v => J.str v | none => J.null).render
      | .error _ => "bad-op")
  | ["evallingo2", h] => do
    let b ← bytesOfHex h
    some (match decodeUtf8 b with
      | .ok s => (match evalLingoLitRD s with | some v => J.str v | none => J.null).render
      | .error _ => "bad-op")
  | ["evaljs", h] => do
    let b ← bytesOfHex h
    some (match decodeUtf8 b with
      | .ok s => (match evalJsLit s with | some v => J.str v | none => J.null).render
      | .error _ => "bad-op")
  | ["evalint", h] => do
    let b ← bytesOfHex h
    some (match decodeUtf8 b with
      | .ok s => (match evalIntLit s with | some v => J.int v | none => J.null).render
      | .error _ => "bad-op")
  | ["evaldec", h] => do
    let b ← bytesOfHex h
    some (match decodeUtf8 b with
      | .ok s => (match evalDecimal s with | some (n, m, e) => J.arr [J.bool n, J.nat m, J.int e] | none => J.null).render
      | .error _ => "bad-op")
  -- C11 floats: what a decimal literal reads back as (sign, nearest double m·2^e)
  | ["readdbl", h] => do
    let b ← bytesOfHex h
    some (match decodeUtf8 b with
      | .ok s => (match readDbl s with
          | some (n, .fin m e) => J.arr [J.bool n, J.nat m, J.int e]
          | some (n, .inf) => J.arr [J.bool n, J.s "inf"]
          | none => J.null).render
      | .error _ => "bad-op")
  | _ => none

end Drx.Drv.Lscr
