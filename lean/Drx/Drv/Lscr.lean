import Drx.Drv.Util
namespace Drx.Drv.Lscr
open Drx Drx.Drv

/-- commands of the `lscr` family (stub: nothing implemented yet) -/
def run : List String → Option String
  | _ => none

end Drx.Drv.Lscr
