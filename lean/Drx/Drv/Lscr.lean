import Drx.Lscr
import Drx.Drv.Util
namespace Drx.Drv.Lscr
open Drx Drx.Drv Drx.Lscr

def textJ (r : R Str) : J := match r with | .ok t => J.str t | .error _ => J.s "error"

/-- state of one simulated Python process: operand registers of the opcode singletons, current tree -/
structure Proc where
  regs : Regs := []
  tree : Option Script := none

/-- one operation of a history: `p<i>` parse script i, `l` generate Lingo, `j` generate JS on the current tree -/
def histStep (scripts : Array (Bytes × Bytes)) (pr : Proc) (op : String) : Proc × J :=
  if op = "l" then
    match pr.tree with
    | some t => let (r, t') := genLingo t; ({ pr with tree := some t' }, textJ r)
    | none => (pr, J.s "error")
  else if op = "j" then
    match pr.tree with
    | some t => let (r, t') := genJs t; ({ pr with tree := some t' }, textJ r)
    | none => (pr, J.s "error")
  else if op.startsWith "p" then
    match (op.drop 1).toString.toNat? with
    | some i =>
      match scripts[i]? with
      | some (lscr, lnam) =>
        match parseScriptWith .macRoman pr.regs lscr lnam with
        | .ok (s, regs) => ({ regs := regs, tree := some s }, J.s "ok")
        | .error _ => ({ pr with tree := none }, J.s "error")   -- registers after a failed parse: see design.d/C12.md
      | none => (pr, J.s "bad-op")
    | none => (pr, J.s "bad-op")
  else (pr, J.s "bad-op")

def pairUp : List Bytes → Option (List (Bytes × Bytes))
  | [] => some []
  | [_] => none
  | a :: b :: r => (pairUp r).map ((a, b) :: ·)

/-- commands of the `lscr` family -/
def run : List String → Option String
  | ["lingo", l, n] => do
    let l ← bytesOfHex l; let n ← bytesOfHex n
    some (match parseScript l n with
      | .ok s => (textJ (genLingo s).1).render
      | .error _ => (J.s "error").render)
  | ["js", l, n] => do
    let l ← bytesOfHex l; let n ← bytesOfHex n
    some (match parseScript l n with
      | .ok s => (textJ (genJs s).1).render
      | .error _ => (J.s "error").render)
  | "hist" :: prog :: hexes => do
    let bs ← hexes.mapM bytesOfHex
    let ps ← pairUp bs
    let ops := prog.splitOn ","
    let (_, outs) := ops.foldl (fun (acc : Proc × List J) op =>
      let (pr, o) := histStep ps.toArray acc.1 op
      (pr, acc.2 ++ [o])) ({}, [])
    some (J.arr outs).render
  | _ => none

end Drx.Drv.Lscr
