import Drx.Drv.Util
namespace Drx.Drv.Text
open Drx Drx.Drv

/-- commands of the `text` family (stub: nothing implemented yet) -/
def run : List String → Option String
  | _ => none

end Drx.Drv.Text
