import Drx.Stxt
import Drx.Fmap
import Drx.TextSpec
import Drx.IdxSteps
import Drx.Codec
import Drx.Drv.Util
namespace Drx.Drv.Text
open Drx Drx.Drv Drx.Fmap Drx.Stxt Drx.TextSpec Drx.IdxSteps

/-- "-" = empty list, else comma separated -/
def items (s : String) : List String := if s = "-" then [] else s.splitOn ","

/-- "x<hex>" (so that the empty byte string is the non-empty token "x") -/
def xhex (s : String) : Option Bytes :=
  match s.toList with
  | 'x' :: rest => bytesOfHexAux rest []
  | _ => none

/-- "default" = DRX_ENCODING unset = util.get_encoding()'s default 'mac_roman' -/
def codecDec (name : String) : Option Dec :=
  (if name = "default" then some Codec.macRoman else Codec.ofName name).map fun c => decodeText c

def hx (b : Bytes) : String := if b.isEmpty then "-" else hexOfBytes b

/-- Drx/Json.lean used to leave U+007F raw while Python's json.dumps escapes it; harmless after the core fix -/
def fixDel (s : String) : String := s.replace (String.singleton (Char.ofNat 0x7f)) "\\u007f"

def rJ' (f : α → J) (r : R α) : String := fixDel (rJ f r)

/-- font map entry `id:x<utf-8 bytes of the name>` (names handed to parse_stxt_data are already str) -/
def fontInfo (s : String) : Option FontInfo :=
  match s.splitOn ":" with
  | [a, b] => do
    let id ← parseInt a; let nb ← xhex b
    match decodeUtf8 nb with
    | .ok t => some ⟨t, id⟩
    | .error _ => none
  | _ => none

def byteTok (s : String) : Option UInt8 := do
  let n ← parseNat s
  if n < 256 then some (UInt8.ofNat n) else none

def runSpec (s : String) : Option RunSpec :=
  match s.splitOn ":" with
  | [u2, st, u4, u5, fid, fmt, u7, sz, r, r2, g, g2, b, b2] => do
    some ⟨← parseInt u2, ← parseInt st, ← parseInt u4, ← parseInt u5, ← parseInt fid, ← byteTok fmt, ← byteTok u7, ← parseInt sz,
          ← byteTok r, ← byteTok r2, ← byteTok g, ← byteTok g2, ← byteTok b, ← byteTok b2⟩
  | _ => none

def fontSpec (s : String) : Option FontSpec :=
  match s.splitOn ":" with
  | [id, u, name, pad] => do some ⟨← parseInt id, ← parseInt u, ← xhex name, ← xhex pad⟩
  | _ => none

def slotSpec (s : String) : Option SlotSpec :=
  match s.splitOn ":" with
  | [d, u, id] => do some ⟨← parseInt d, ← parseInt u, ← parseInt id⟩
  | _ => none

def fmapHdr (s : String) : Option FmapHdr :=
  match s.splitOn ":" with
  | [a, b, c, d, e, f, g, h, i, j] => do
    some ⟨← parseInt a, ← parseInt b, ← parseInt c, ← parseInt d, ← parseInt e, ← parseInt f, ← parseInt g, ← parseInt h, ← parseInt i, ← parseInt j⟩
  | _ => none

def fontsJ (l : List FontInfo) : J := .arr (l.map FontInfo.toJ)

/-- commands of the `text` family (see harness/c16.py).  `enc…` commands apply the encoders of Drx/TextSpec.lean
    (the ones the theorems of DrxProps/C16.lean are about) to a spec object and print the bytes. -/
def run : List String → Option String
  | ["stxt", c, fm, h] => do
    let dec ← codecDec c; let fm ← (items fm).mapM fontInfo; let b ← bytesOfHex h
    some (rJ' TextData.toJ (parseStxt dec fm b))
  | ["encstxt", gap, text, fds, runs, tail] => do
    let gap ← bytesOfHex gap; let text ← xhex text; let fds ← parseInt fds
    let runs ← (items runs).mapM runSpec; let tail ← bytesOfHex tail
    some (hx (encStxt gap text fds runs tail))
  | ["fmap", c, h] => do
    let dec ← codecDec c; let b ← bytesOfHex h
    some (rJ' fontsJ (parseFmap dec b))
  | ["encfmap", hdr, fonts, unused, htail, bpre, btail] => do
    let hdr ← fmapHdr hdr; let fonts ← (items fonts).mapM fontSpec; let unused ← (items unused).mapM slotSpec
    let htail ← bytesOfHex htail; let bpre ← bytesOfHex bpre; let btail ← bytesOfHex btail
    some (hx (encFmap hdr fonts unused htail bpre btail))
  | ["pipeline", c, fh, sh] => do
    -- what stxt2json does: the font map decoded from the Fmap chunk is handed to the text decoder
    let dec ← codecDec c; let fb ← bytesOfHex fh; let sb ← bytesOfHex sh
    some (rJ' TextData.toJ ((parseFmap dec fb).bind fun fm => parseStxt dec fm sb))
  -- C10 support: rounds started by all loops of the reader (style-record loop + nested font lookup; metadata loop + font loop)
  | ["steps", "stxt", h] => do
    let dec ← codecDec "default"; let b ← bytesOfHex h
    let r := parseStxtSteps dec 0 b
    some (toString (r.1 + r.2))
  | ["steps", "stxt", h, c] => do
    let dec ← codecDec c; let b ← bytesOfHex h
    let r := parseStxtSteps dec 0 b
    some (toString (r.1 + r.2))
  | ["steps", "stxt", h, c, nf] => do
    let dec ← codecDec c; let b ← bytesOfHex h; let nf ← parseNat nf
    let r := parseStxtSteps dec nf b
    some (toString (r.1 + r.2))
  | ["steps", "fmap", h] => do
    let dec ← codecDec "default"; let b ← bytesOfHex h
    some (toString (parseFmapSteps dec b).1)
  | ["steps", "fmap", h, c] => do
    let dec ← codecDec c; let b ← bytesOfHex h
    some (toString (parseFmapSteps dec b).1)
  | ["stepsx", "fmap", h, c] => do
    let dec ← codecDec c; let b ← bytesOfHex h
    let r := parseFmapSteps dec b
    some (J.obj [("rounds", J.nat r.1), ("bytes", J.nat r.2)]).render
  | ["specfont", fm, id] => do
    let fm ← (items fm).mapM fontInfo; let id ← parseInt id
    some (fixDel (J.str (specFont fm id)).render)
  | _ => none

end Drx.Drv.Text
