import Drx.Drv.Util
namespace Drx.Drv.Dir
open Drx Drx.Drv

/-- commands of the `dir` family (stub: nothing implemented yet) -/
def run : List String → Option String
  | _ => none

end Drx.Drv.Dir
