import Drx.Dir
import Drx.Idx
import Drx.Drv.Util
namespace Drx.Drv.Dir
open Drx Drx.Drv Drx.Dir

/-! Stub decoders: every sub-decoder is replaced (identically in harness/c05.py, by monkeypatching the names
    dir.py imported) by a function that returns a token of its inputs; key/cas/lctx are the real models. -/

def tokS (tag : String) (b : Bytes) : J := J.s (tag ++ ":" ++ hexOfBytes b)

def s16 (d : Bytes) (off : Nat) : R Int := getS .be 2 d off

def stubCast (d : Bytes) : R CastData :=
  match d with
  | [] => .error .value
  | b0 :: _ =>
    if b0.toNat = 1 then do
      let p ← s16 d 1
      .ok [("tok", .tok (tokS "cast" d)), ("palette", .intStr p)]
    else .ok [("tok", .tok (tokS "cast" d))]

def stubScript (d : Bytes) (names : J) : R ScriptOut := do
  let n ← s16 d 0
  let c ← s16 d 2
  let t := "(" ++ hexOfBytes d ++ "|" ++ names.render ++ ")"
  .ok ⟨n, c, ("L" ++ t).toList, ("J" ++ t).toList⟩

def stubs : Decoders where
  key := fun o d => (Idx.parseKey o d).map fun kd => kd.map fun (k, l) => (k, l.map fun r => ⟨r.chunkID, r.index⟩)
  vwcf := fun d => .ok (.obj [("vwcf", J.hex d)])
  cas := Idx.parseCas
  lctx := fun d => (Idx.parseLctx d).map fun l => l.map (·.index)
  lnam := fun d => .ok (.arr [tokS "lnam" d])
  script := stubScript
  vwlb := fun d => .ok (.arr [tokS "vwlb" d])
  score := fun d => .ok (.obj [("score", J.hex d)])
  fmap := fun d => .ok (.arr [.obj [("fmap", J.hex d)]])
  cast := stubCast
  stxt := fun d fm => .ok (tokS "T" d, .arr [fm, J.hex d])
  snd := fun d => .ok (.obj [("snd", J.hex d)])
  clut := fun d => .ok (tokS "clut" d)
  bitd := fun cd clut d => .ok (.obj [("bmp", J.hex d), ("clut", match clut with | some v => v.toJ | none => J.s ""), ("cast", castJ cd)])

/-- commands of the `dir` family (see harness/c05.py) -/
def run : List String → Option String
  | ["stub", o, off, h] => do
    let o ← parseOrder o; let off ← parseNat off; let b ← bytesOfHex h
    some (rJ DirectorFile.toJ (parseDir stubs o off b))
  | _ => none

end Drx.Drv.Dir
