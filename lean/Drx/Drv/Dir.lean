import Drx.Dir
import Drx.Idx
import Drx.DirReal
import Drx.BitdFast
import Drx.Drv.Util
namespace Drx.Drv.Dir
open Drx Drx.Drv Drx.Dir

/-! Stub decoders: every sub-decoder is replaced (identically in harness/c05.py, by monkeypatching the names
    dir.py imported) by a function that returns a token of its inputs; key/cas/lctx are the real models. -/

def tokS (tag : String) (b : Bytes) : J := J.s (tag ++ ":" ++ hexOfBytes b)

def s16 (d : Bytes) (off : Nat) : R Int := getS .be 2 d off

def stubCast (d : Bytes) : R CastData :=
  match d with
  | [] => .error .value
  | b0 :: _ =>
    if b0.toNat = 1 then do
      let p ← s16 d 1
      .ok [("tok", .tok (tokS "cast" d)), ("palette", .intStr p)]
    else .ok [("tok", .tok (tokS "cast" d))]

def stubScript (d : Bytes) (names : J) : R ScriptOut := do
  let n ← s16 d 0
  let c ← s16 d 2
  let t := "(" ++ hexOfBytes d ++ "|" ++ names.render ++ ")"
  .ok ⟨n, c, ("L" ++ t).toList, ("J" ++ t).toList⟩

def stubs : Decoders where
  key := fun o d => (Idx.parseKey o d).map fun kd => kd.map fun (k, l) => (k, l.map fun r => ⟨r.chunkID, r.index⟩)
  vwcf := fun d => .ok (.obj [("vwcf", J.hex d)])
  cas := Idx.parseCas
  lctx := fun d => (Idx.parseLctx d).map fun l => l.map (·.index)
  lnam := fun d => .ok (.arr [tokS "lnam" d])
  script := stubScript
  vwlb := fun d => .ok (.arr [tokS "vwlb" d])
  score := fun d => .ok (.obj [("score", J.hex d)])
  fmap := fun d => .ok (.arr [.obj [("fmap", J.hex d)]])
  cast := stubCast
  stxt := fun d fm => .ok (tokS "T" d, .arr [fm, J.hex d])
  snd := fun d => .ok (.obj [("snd", J.hex d)])
  clut := fun d => .ok (tokS "clut" d)
  bitd := fun cd clut d => .ok (.obj [("bmp", J.hex d), ("clut", match clut with | some v => v.toJ | none => J.s ""), ("cast", castJ cd)])

/-- "default" = DRX_ENCODING unset = util.get_encoding()'s default 'mac_roman' -/
def codecOf (name : String) : Option Codec := if name = "default" then some Codec.macRoman else Codec.ofName name

/-- images with more pixels than this are decoded by the array-based twin in the DRIVER (the list model paints one pixel per list
    update: quadratic time, minutes from 100 000 px on) -/
def fastPixels : Nat := 4096

/-- DRIVER ONLY: `DirReal.realDecoders` with ONE field changed — the bitmap decoder behind the same adapter (`bitdRealWith`) is
    `Bitd.Fast.bitd2bmpFast` (lean/Drx/BitdFast.lean, `Array UInt8`; no theorem is about it, it is compared with the list model
    `Bitd.bitd2bmpI` on every C06 case) for canvases above `fastPixels`, and the list model itself below. The theorems of
    DrxProps/C05Real.lean are about `realDecoders` (list model everywhere). -/
def realDecodersFast (c : Codec) : Decoders :=
  { DirReal.realDecoders c with
    bitd := DirReal.bitdRealWith fun r =>
      if (r.width + r.padW.natAbs) * (r.height + r.padH.natAbs) > fastPixels then Bitd.Fast.bitd2bmpFast r else Bitd.bitd2bmpI r }

/-- the resource table `parseDir` hands to `assemble` (same steps) -/
def resources (o : Order) (P : Nat) (d : Bytes) : R (List Res) := do
  let chunks ← Riff.parseRiff d P o
  let c0 ← match chunks with | c :: _ => pure c | [] => throw Err.index
  if c0.id ≠ "imap".toList then .error .value else
  let im ← Riff.parseImap c0.data o
  let mc ← Riff.getByOffset chunks (im.offset - (P : Int))
  if mc.id ≠ "mmap".toList then .error .value else
  let mm ← Riff.parseMmap mc.data o
  .ok (resOfFile chunks P mm.resources)

def chunkOf (rs : List Res) (id : String) : R Bytes := do
  let r ← locateChunk rs id
  let c ← r.chunk
  .ok c.data

/-- the cast loop that does not stop at the first failing member (diagnosis only): a failing member is reported as "error"
    and stands as `{}` in the list later members see -/
def castLoopDiag (D : Decoders) (rs : List Res) (key : KeyData) (fm : J) : List Int → List CastData → List J → List J
  | [], _, acc => acc.reverse
  | ci :: rest, cast, acc =>
    if ci = 0 then castLoopDiag D rs key fm rest (cast ++ [[]]) (J.obj [] :: acc) else
    match memberEntry D rs key fm cast ci with
    | .error _ => castLoopDiag D rs key fm rest (cast ++ [[]]) (J.s "error" :: acc)
    | .ok cd => castLoopDiag D rs key fm rest (cast ++ [cd]) (castJ cd :: acc)

/-- every part of the assembly on its own ("error" where that part fails): localises a disagreement to a sub-model -/
def realParts (c : Codec) (o : Order) (P : Nat) (d : Bytes) : J :=
  let D := realDecodersFast c
  match resources o P d with
  | .error _ => J.s "error"
  | .ok rs =>
    let key := (chunkOf rs "KEY*").bind (D.key o)
    let cas := (chunkOf rs "CAS*").bind D.cas
    let fm := optionalChunk rs "Fmap" (.arr []) D.fmap
    let scripts := scriptsPart D rs
    J.obj [("info", J.ofR id ((chunkOf rs "VWCF").bind D.vwcf)),
           ("lingoScr", J.ofR (fun p => scrJ p.1) scripts), ("jsScr", J.ofR (fun p => scrJ p.2) scripts),
           ("markers", J.ofR id (optionalChunk rs "VWLB" (.arr []) D.vwlb)),
           ("score", J.ofR id (optionalChunk rs "VWSC" (.obj []) D.score)),
           ("fontmap", J.ofR id fm),
           ("cast", match key, cas, fm with
              | .ok k, .ok cs, .ok f => J.arr (castLoopDiag D rs k f cs [] [])
              | _, _, _ => J.s "error")]

/-- commands of the `dir` family (see harness/c05.py) -/
def run : List String → Option String
  | ["stub", o, off, h] => do
    let o ← parseOrder o; let off ← parseNat off; let b ← bytesOfHex h
    some (rJ DirectorFile.toJ (parseDir stubs o off b))
  | ["real", c, o, off, h] => do
    -- the whole pipeline of the repository: the assembly model over the real decoder models (Drx/DirReal.lean); bitmaps above
    -- `fastPixels` through the array-based twin of the bitmap model (`realDecodersFast`)
    let c ← codecOf c; let o ← parseOrder o; let off ← parseNat off; let b ← bytesOfHex h
    some (rJ DirectorFile.toJ (parseDir (realDecodersFast c) o off b))
  | ["realslow", c, o, off, h] => do
    -- exactly the model of the theorems: `parseDirReal` = the list-based bitmap model for every size
    let c ← codecOf c; let o ← parseOrder o; let off ← parseNat off; let b ← bytesOfHex h
    some (rJ DirectorFile.toJ (DirReal.parseDirReal c o off b))
  | ["realparts", c, o, off, h] => do
    let c ← codecOf c; let o ← parseOrder o; let off ← parseNat off; let b ← bytesOfHex h
    some (realParts c o off b).render
  | _ => none

end Drx.Drv.Dir
