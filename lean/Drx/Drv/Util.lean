import Drx.Py
import Drx.Json
namespace Drx.Drv
open Drx

def parseOrder (s : String) : Option Order :=
  if s = ">" ∨ s = "be" then some .be else if s = "<" ∨ s = "le" then some .le else none

def parseInt (s : String) : Option Int := s.toInt?
def parseNat (s : String) : Option Nat := s.toNat?

def rJ (f : α → J) (r : R α) : String := (J.ofR f r).render

end Drx.Drv
