import Drx.Riff
import Drx.RiffSpec
import Drx.Drv.Util
namespace Drx.Drv.Riff
open Drx Drx.Drv Drx.Riff

def ignoreIds : List (List Char) := ["free".toList, "junk".toList]

/-- the composite observable of C01(e): every designated resource fetched through imap -> mmap -> offset lookup -/
def designated (d : Bytes) (P : Nat) (o : Order) : R J := do
  let cs ← parseRiff d P o
  let c0 ← match cs with | c :: _ => pure c | [] => throw Err.index
  let im ← parseImap c0.data o
  let mc ← getByOffset cs (im.offset - P)
  let mm ← parseMmap mc.data o
  let rec go : List MmapEntry → Nat → R (List J)
    | [], _ => pure []
    | e :: es, idx => do
      if idx = 0 ∨ e.size ≤ 0 ∨ ignoreIds.contains e.chunkID then go es (idx + 1) else
      let c ← getByOffset cs (e.offset - P)
      let base := [("index", J.nat idx), ("id", J.str c.id), ("data", J.hex c.data)]
      let j := if c.id ≠ e.chunkID then J.obj (base ++ [("mismatch", J.str e.chunkID)]) else J.obj base
      let rest ← go es (idx + 1)
      pure (j :: rest)
  let l ← go mm.resources 0
  pure (J.arr l)

/-- tie between generated inputs and the encoder the theorems talk about: re-read the raw id bytes at each chunk
    start, rebuild the spec chunk list and check that `encMovie` reproduces the input bytes exactly -/
def reencodes (d : Bytes) (P : Nat) (o : Order) : Bool :=
  match parseRiff d P o, getS o 4 d (P + 4) with
  | .ok cs, .ok len =>
    let rec go : List Chunk → Nat → List SChunk
      | [], _ => []
      | c :: rest, off =>
        let raw := slice d off (off + 4)
        ⟨(match o with | .be => raw | .le => raw.reverse), c.data⟩ :: go rest (off + 8 + c.data.length + c.data.length % 2)
    let scs := go cs (P + 12)
    -- pad bytes are zero in the spec encoder; the generator writes zero pads too
    encMovie o (d.take P) len scs == d
  | _, _ => false

/-- commands of the `riff` family (see harness/c01.py) -/
def run : List String → Option String
  | ["fourcc", o, h] => do
    let o ← parseOrder o; let b ← bytesOfHex h
    some (rJ (fun s => J.str s) (parseChunkId b 0 o))
  | ["parse", o, off, h] => do
    let o ← parseOrder o; let off ← parseNat off; let b ← bytesOfHex h
    some (rJ (fun cs => J.arr (cs.map Chunk.toJ)) (parseRiff b off o))
  | ["reenc", o, off, h] => do
    let o ← parseOrder o; let off ← parseNat off; let b ← bytesOfHex h
    some (if reencodes b off o then "true" else "false")
  | ["steps", o, off, h] => do
    let o ← parseOrder o; let off ← parseNat off; let b ← bytesOfHex h
    some (toString (parseRiffSteps b off o))
  | ["byoff", o, off, h, q] => do
    let o ← parseOrder o; let off ← parseNat off; let b ← bytesOfHex h; let q ← parseInt q
    some (rJ Chunk.toJ ((parseRiff b off o).bind fun cs => getByOffset cs q))
  | ["byoffs", o, off, h, qs] => do
    let o ← parseOrder o; let off ← parseNat off; let b ← bytesOfHex h
    let qs ← (qs.splitOn ",").mapM parseInt
    some (rJ (fun cs => J.arr (qs.map fun q => J.ofR Chunk.toJ (getByOffset cs q))) (parseRiff b off o))
  | ["designated", o, off, h] => do
    let o ← parseOrder o; let off ← parseNat off; let b ← bytesOfHex h
    some (rJ id (designated b off o))
  | ["imap", o, h] => do
    let o ← parseOrder o; let b ← bytesOfHex h
    some (rJ Imap.toJ (parseImap b o))
  | ["mmap", o, h] => do
    let o ← parseOrder o; let b ← bytesOfHex h
    some (rJ Mmap.toJ (parseMmap b o))
  | ["locate", h] => do
    let b ← bytesOfHex h
    some (toString (findRiffInExe b))
  | _ => none

end Drx.Drv.Riff
