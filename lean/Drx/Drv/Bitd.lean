import Drx.Drv.Util
namespace Drx.Drv.Bitd
open Drx Drx.Drv

/-- commands of the `bitd` family (stub: nothing implemented yet) -/
def run : List String → Option String
  | _ => none

end Drx.Drv.Bitd
