import Drx.Bitd
import Drx.BitdSpec
import Drx.BitdSteps
import Drx.BitdFast
import Drx.Drv.Util
namespace Drx.Drv.Bitd
open Drx Drx.Drv Drx.Bitd

/-- a call as one token: `depth,W,H,padW,padH,palette,clut,data` (offsets may be negative; palette `-` = empty string;
    hex, `-` = empty) -/
def parseCall (s : String) : Option Request :=
  match s.splitOn "," with
  | [d, w, h, pw, ph, pal, clut, data] => do
    let d ← parseNat d; let w ← parseNat w; let h ← parseNat h; let pw ← parseInt pw; let ph ← parseInt ph
    let clut ← bytesOfHex clut; let data ← bytesOfHex data
    some { depth := d, width := w, height := h, padW := pw, padH := ph, palette := if pal = "-" then "" else pal, clut := clut, fdata := data }
  | _ => none

def keys : List Nat := Gen.BitdTables.decoders.map (·.1)

def stateJ (s : DecState) : J := J.obj (keys.map fun k => (toString k, J.hex (s k)))

def runSeq (reset : Bool) : DecState → List Request → List J → DecState × List J
  | s, [], acc => (s, acc.reverse)
  | s, c :: cs, acc =>
    let (s', r) := decodeStepI reset s c
    runSeq reset s' cs (J.ofR J.hex r :: acc)

/-- spec-level command: the Lean encoder applied to the spec object, the model, the Lean BMP reader -/
def c06 (depth W H ox oy : Nat) (pad : Nat) (pix : Bytes) (enc : String) (expectHex : Bytes) : Option String := do
  let img ← Spec.mkImg depth W H ox oy pix
  let e ← Spec.parseEnc enc
  let data := Spec.serialise img (UInt8.ofNat pad) (UInt8.ofNat pad) e
  let valid := Spec.validEnc img (UInt8.ofNat pad) (UInt8.ofNat pad) e
  let r := bitd2bmp (Spec.callOf img data)
  let c := Spec.callOf img data
  let fast := Fast.bitd2bmpFast { depth := c.depth, width := c.width, height := c.height, padW := (c.padW : Int), padH := c.padH,
                                  palette := c.palette, clut := c.clut, fdata := c.fdata }
  let fastOk := match r, fast with
    | .ok a, .ok b => a == b
    | .error _, .error _ => true
    | _, _ => false
  let readOk := match r with
    | .ok bmp => Spec.readBmp bmp == some (Spec.canvas img)
    | .error _ => false
  some (J.obj [("enc_ok", J.bool (data == expectHex)), ("valid", J.bool valid), ("read_ok", J.bool readOk),
               ("supported", J.bool (Spec.supportedB img e)), ("fast_ok", J.bool fastOk), ("bmp", J.ofR J.hex r)]).render

/-- commands of the `bitd` family (see harness/c06.py, harness/c13.py) -/
def run : List String → Option String
  | ["decode", c] => do
    let c ← parseCall c
    some (rJ J.hex (bitd2bmpI c))
  | ["decodefast", c] => do
    let c ← parseCall c
    some (rJ J.hex (Fast.bitd2bmpFast c))
  | "seq" :: reset :: calls => do
    let cs ← calls.mapM parseCall
    let (s, rs) := runSeq (reset = "1") DecState.init cs []
    some (J.obj [("results", J.arr rs), ("state", stateJ s)]).render
  | ["steps", c] => do
    let c ← parseCall c
    let s := bitd2bmpStepsI c
    some (J.obj [("total", J.nat s.total), ("ops", J.nat s.ops), ("run", J.nat s.run), ("runBits", J.nat s.runBits),
                 ("lit", J.nat s.lit), ("litBits", J.nat s.litBits), ("rows", J.nat s.rows), ("cols", J.nat s.cols),
                 ("bits", J.nat s.bits), ("deRows", J.nat s.deRows), ("dePix", J.nat s.dePix)]).render
  | ["alloc", c] => do
    let c ← parseCall c
    some (toString (allocBytesI c))
  | ["readbmp", h] => do
    let b ← bytesOfHex h
    some (match Spec.readBmp b with
      | some rows => (J.arr (rows.map fun r => J.arr (r.map J.hex))).render
      | none => "\"error\"")
  | ["c06", depth, w, h, ox, oy, pad, pix, enc, expect] => do
    let depth ← parseNat depth; let w ← parseNat w; let h ← parseNat h; let ox ← parseNat ox; let oy ← parseNat oy
    let pad ← parseNat pad; let pix ← bytesOfHex pix; let expect ← bytesOfHex expect
    c06 depth w h ox oy pad pix enc expect
  | _ => none

end Drx.Drv.Bitd
