import Drx.Drv.Util
namespace Drx.Drv.Snd
open Drx Drx.Drv

/-- commands of the `snd` family (stub: nothing implemented yet) -/
def run : List String → Option String
  | _ => none

end Drx.Drv.Snd
