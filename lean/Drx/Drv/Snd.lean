import Drx.Drv.Util
import Drx.Snd
import Drx.SndSpec
import Drx.SndSteps
namespace Drx.Drv.Snd
open Drx Drx.Drv Drx.Snd Drx.SndSpec

/-- split into blocks of `k` bytes (a short last block makes the spec invalid, on purpose) -/
def chunksOf (k : Nat) (l : Bytes) : List Bytes :=
  if h : k = 0 ∨ l = [] then [] else
  l.take k :: chunksOf k (l.drop k)
termination_by l.length
decreasing_by
  have : l ≠ [] := fun e => h (Or.inr e)
  have : 0 < l.length := List.length_pos_iff.mpr this
  simp only [List.length_drop]; omega

def parseHeader (s : String) : Option Header :=
  match s.splitOn ":" with
  | ["s"] => some .standard
  | ["e", c, f, b, aiff, ptrs, fut] => do
    let c ← parseNat c; let f ← parseNat f; let b ← parseNat b
    let aiff ← bytesOfHex aiff; let ptrs ← bytesOfHex ptrs; let fut ← bytesOfHex fut
    some (.extended c f b aiff ptrs fut)
  | _ => none

/-- `<fmt> <dtsHex|refHex> <nullsHex> <soundCmd> <param1Hex> <rate> <fracHex> <loopsHex> <hdr> <samplesHex> <trailingHex>` -/
def parseSpec : List String → Option Snd
  | [fmt, a, nulls, sc, p1, rate, frac, loops, hdr, samples, trailing] => do
    let a ← bytesOfHex a
    let format ← if fmt = "1" then some (Format.fmt1 (chunksOf 6 a)) else if fmt = "2" then some (Format.fmt2 a) else none
    let nulls ← bytesOfHex nulls
    let p1 ← bytesOfHex p1; let rate ← parseNat rate; let frac ← bytesOfHex frac; let loops ← bytesOfHex loops
    let hdr ← parseHeader hdr
    let samples ← bytesOfHex samples; let trailing ← bytesOfHex trailing
    some ⟨format, chunksOf 6 nulls, sc = "1", p1, rate, frac, loops, hdr, samples, trailing⟩
  | _ => none

/-- `n/<params>` or `s/<soundCmd>/<p1>/<rate>/<frac>/<loops>/<hdr>/<samples>/<gap>` -/
def parseItem (s : String) : Option Item :=
  match s.splitOn "/" with
  | ["n", ps] => do let ps ← bytesOfHex ps; some (.null ps)
  | ["s", sc, p1, rate, frac, loops, hdr, samples, gap] => do
    let p1 ← bytesOfHex p1; let rate ← parseNat rate; let frac ← bytesOfHex frac; let loops ← bytesOfHex loops
    let hdr ← parseHeader hdr; let samples ← bytesOfHex samples; let gap ← bytesOfHex gap
    some (.sound ⟨sc = "1", p1, rate, frac, loops, hdr, samples, gap⟩)
  | _ => none

/-- `<fmt> <dtsHex|refHex> <trailingHex> <item>...` -/
def parseMulti : List String → Option Multi
  | fmt :: a :: trailing :: items => do
    let a ← bytesOfHex a
    let format ← if fmt = "1" then some (Format.fmt1 (chunksOf 6 a)) else if fmt = "2" then some (Format.fmt2 a) else none
    let trailing ← bytesOfHex trailing
    let items ← items.mapM parseItem
    some ⟨format, items, trailing⟩
  | _ => none

def WavRead.toJ : WavParams × Bytes → J
  | (p, d) => .obj [("ch", J.nat p.channels), ("width", J.nat p.width), ("rate", J.nat p.rate), ("frames", J.hex d)]

/-- the observable of `snd2wav.main`: data.json fields, the WAV file, and what `wave` reads back from it -/
def wavObs (b : Bytes) : J :=
  match sndToSampled b with
  | .error _ => J.s "error"
  | .ok s =>
    let js := J.arr [.int s.bits, .int s.rate, .int s.channels]
    match sampledToWav s with
    | .error _ => .obj [("json", js), ("wav", J.s "error"), ("read", J.s "error")]
    | .ok w => .obj [("json", js), ("wav", J.hex w), ("read", J.ofR WavRead.toJ (wavRead w))]

/-- commands of the `snd` family (see harness/c07.py) -/
def run : List String → Option String
  | ["decode", h] => do
    let b ← bytesOfHex h
    some (rJ Sampled.toJ (sndToSampled b))
  | "enc" :: spec => do
    let s ← parseSpec spec
    some (J.obj [("hex", J.hex (encode s)), ("valid", .bool (decide (Valid s))),
                 ("expected", (expected s).toJ)]).render
  | "menc" :: c :: b :: spec => do
    let c ← parseNat c; let b ← parseNat b
    let m ← parseMulti spec
    some (J.obj [("hex", J.hex (encodeMulti m)), ("valid", .bool (decide m.Valid)), ("homogeneous", .bool (decide (Homogeneous m c b))),
                 ("expected", (expectedMulti m c b).toJ)]).render
  | ["wav", h] => do
    let b ← bytesOfHex h
    some (wavObs b).render
  | ["alloc", h] => do
    let b ← bytesOfHex h
    let (a, n) := sndAlloc b
    some (if a ≤ 2 * b.length * n then "true" else "false")
  | ["steps", h] => do
    let b ← bytesOfHex h
    some (toString (sndSteps b).total)
  | ["stepsv", h] => do
    let b ← bytesOfHex h
    let s := sndSteps b
    some (J.obj [("dataTypes", J.nat s.dataTypes), ("commands", J.nat s.commands), ("run", J.nat s.run), ("swap", J.nat s.swap)]).render
  | ["wavwrite", ch, width, rate, h] => do
    let ch ← parseNat ch; let width ← parseNat width; let rate ← parseNat rate; let b ← bytesOfHex h
    some (rJ J.hex (wavWrite ⟨ch, width, rate⟩ b))
  | ["wavread", h] => do
    let b ← bytesOfHex h
    some (rJ WavRead.toJ (wavRead b))
  | _ => none

end Drx.Drv.Snd
