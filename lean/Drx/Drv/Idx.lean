import Drx.Drv.Util
namespace Drx.Drv.Idx
open Drx Drx.Drv

/-- commands of the `idx` family (stub: nothing implemented yet) -/
def run : List String → Option String
  | _ => none

end Drx.Drv.Idx
