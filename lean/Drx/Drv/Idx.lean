import Drx.Idx
import Drx.IdxSpec
import Drx.IdxSteps
import Drx.Codec
import Drx.Drv.Util
namespace Drx.Drv.Idx
open Drx Drx.Drv Drx.Idx Drx.IdxSpec Drx.IdxSteps

/-- "-" = empty list, else comma separated -/
def items (s : String) : List String := if s = "-" then [] else s.splitOn ","

/-- "x<hex>" (so that the empty byte string is the non-empty token "x") -/
def xhex (s : String) : Option Bytes :=
  match s.toList with
  | 'x' :: rest => bytesOfHexAux rest []
  | _ => none

/-- "default" = DRX_ENCODING unset = util.get_encoding()'s default 'mac_roman' -/
def codecDec (name : String) : Option Dec :=
  (if name = "default" then some Codec.macRoman else Codec.ofName name).map fun c => decodeText c

def keyEntry (s : String) : Option KeyEntry :=
  match s.splitOn ":" with
  | [a, b, c] => do some ⟨← parseInt a, ← parseInt b, ← bytesOfHex c⟩
  | _ => none

def lctxEntry (s : String) : Option LctxEntry :=
  match s.splitOn ":" with
  | [a, b, c] => do some ⟨← parseNat a, ← parseInt b, ← parseInt c⟩
  | _ => none

def markerSpec (s : String) : Option MarkerSpec :=
  match s.splitOn ":" with
  | [a, b] => do some ⟨← parseInt a, ← xhex b⟩
  | _ => none

def hx (b : Bytes) : String := if b.isEmpty then "-" else hexOfBytes b

/-- Drx/Json.lean leaves U+007F raw while Python's json.dumps escapes it; normalise here (core request filed) -/
def fixDel (s : String) : String := s.replace (String.singleton (Char.ofNat 0x7f)) "\\u007f"

def rJ' (f : α → J) (r : R α) : String := fixDel (rJ f r)

def textsJ (l : List Text) : J := .arr (l.map J.str)

/-- commands of the `idx` family (see harness/c17.py).  `enc…` commands apply the encoders of Drx/IdxSpec.lean
    (the ones the theorems of DrxProps/C17.lean are about) to a spec object and print the bytes. -/
def run : List String → Option String
  | ["key", o, h] => do
    let o ← parseOrder o; let b ← bytesOfHex h
    some (rJ' keyDataJ (parseKey o b))
  | ["enckey", o, u1, cap, es, tail] => do
    let o ← parseOrder o; let u1 ← parseInt u1; let cap ← parseInt cap
    let es ← (items es).mapM keyEntry; let tail ← bytesOfHex tail
    some (hx (encKey o u1 cap es tail))
  | ["group", es] => do
    let es ← (items es).mapM keyEntry
    some (keyDataJ (group es)).render
  | ["keysupported", es] => do
    -- the decidable `Supported` predicate of DrxProps/C17.lean (KeySupported), restated on the driver side
    let es ← (items es).mapM keyEntry
    some (match es.getLast? with | none => "true" | some l => if l.isLink then "false" else "true")
  | ["cas", h] => do
    let b ← bytesOfHex h
    some (rJ' (fun l => J.arr (l.map J.int)) (parseCas b))
  | ["enccas", vs, tail] => do
    let vs ← (items vs).mapM parseInt; let tail ← bytesOfHex tail
    some (hx (encCas vs tail))
  | ["lctx", h] => do
    let b ← bytesOfHex h
    some (rJ' (fun l => J.arr (l.map LctxRef.toJ)) (parseLctx b))
  | ["enclctx", u1, u2, n2, gap, es, tail] => do
    let u1 ← parseInt u1; let u2 ← parseInt u2; let n2 ← parseInt n2; let gap ← bytesOfHex gap
    let es ← (items es).mapM lctxEntry; let tail ← bytesOfHex tail
    some (hx (encLctx u1 u2 n2 gap es tail))
  | ["lnam", c, h] => do
    let dec ← codecDec c; let b ← bytesOfHex h
    some (rJ' textsJ (parseLnam dec b))
  | ["enclnam", u1, u2, fs, u3, names, tail] => do
    let u1 ← parseInt u1; let u2 ← parseInt u2; let fs ← parseInt fs; let u3 ← parseInt u3
    let names ← (items names).mapM xhex; let tail ← bytesOfHex tail
    some (hx (encLnam u1 u2 fs u3 names tail))
  | ["vwlb", c, h] => do
    let dec ← codecDec c; let b ← bytesOfHex h
    some (rJ' (fun l => J.arr (l.map Marker.toJ)) (parseVwlb dec b))
  | ["encvwlb", sf, ms, tail] => do
    let sf ← parseInt sf; let ms ← (items ms).mapM markerSpec; let tail ← bytesOfHex tail
    some (hx (encVwlb ms sf tail))
  | ["vwcf", h] => do
    let b ← bytesOfHex h
    some (rJ' Vwcf.toJ (parseVwcf b))
  | ["encvwcf", w, top, left, bottom, right, cs, ce, rate, f1, color, f2, p46, f3, p4e, tail] => do
    let w ← parseNat w; let top ← parseInt top; let left ← parseInt left; let bottom ← parseInt bottom
    let right ← parseInt right; let cs ← parseInt cs; let ce ← parseInt ce; let rate ← parseInt rate
    let f1 ← bytesOfHex f1; let color ← parseNat color; let f2 ← bytesOfHex f2; let p46 ← parseInt p46
    let f3 ← bytesOfHex f3; let p4e ← parseInt p4e; let tail ← bytesOfHex tail
    some (hx (encVwcf ⟨w, top, left, bottom, right, cs, ce, rate, f1, UInt8.ofNat color, f2, p46, f3, p4e, tail⟩))
  -- C10 support: rounds started by the loops of each reader (counting twins of Drx/IdxSteps.lean); `stepsx` adds the bytes sliced
  | ["steps", "key", o, h] => do
    let o ← parseOrder o; let b ← bytesOfHex h
    some (toString (parseKeySteps o b))
  | ["steps", "cas", h] => do
    let b ← bytesOfHex h
    some (toString (parseCasSteps b))
  | ["steps", "lctx", h] => do
    let b ← bytesOfHex h
    some (toString (parseLctxSteps b))
  | ["steps", "lnam", c, h] => do
    let dec ← codecDec c; let b ← bytesOfHex h
    some (toString (parseLnamSteps dec b).1)
  | ["steps", "vwlb", c, h] => do
    let dec ← codecDec c; let b ← bytesOfHex h
    some (toString (parseVwlbSteps dec b).1)
  | ["steps", "vwcf", _h] => some "0"
  | ["stepsx", "lnam", c, h] => do
    let dec ← codecDec c; let b ← bytesOfHex h
    let r := parseLnamSteps dec b
    some (J.obj [("rounds", J.nat r.1), ("bytes", J.nat r.2)]).render
  | ["stepsx", "vwlb", c, h] => do
    let dec ← codecDec c; let b ← bytesOfHex h
    let r := parseVwlbSteps dec b
    some (J.obj [("rounds", J.nat r.1), ("bytes", J.nat r.2)]).render
  | ["vclass", w] => do
    let w ← parseNat w
    let cls := specClass (w / 256) (w % 256)
    some (J.arr [J.s cls.name, match paletteOffset cls with | some off => J.nat off | none => J.null]).render
  | _ => none

end Drx.Drv.Idx
