import Drx.Pal
import Drx.Drv.Util
namespace Drx.Drv.Pal
open Drx Drx.Drv Drx.Pal

/-- a name argument: hex of its UTF-8 bytes ("-" = empty) -/
def parseName (h : String) : Option String := do
  let b ← bytesOfHex h
  String.fromUTF8? (ByteArray.mk b.toArray)

/-- `r:g:b,r:g:b,...` ("-" = empty palette) -/
def parsePalette (s : String) : Option (List Rgb16) :=
  if s = "-" then some [] else
  (s.splitOn ",").mapM fun e =>
    match e.splitOn ":" with
    | [r, g, b] => do some ⟨← parseNat r, ← parseNat g, ← parseNat b⟩
    | _ => none

def rgbJ (l : List (List Char)) : J := .arr (l.map J.str)

def rangeInts (lo : Int) : Nat → List Int
  | 0 => []
  | n + 1 => lo :: rangeInts (lo + 1) n

/-- commands of the `pal` family (see harness/c14.py) -/
def run : List String → Option String
  | ["rgb", h] => do
    let b ← bytesOfHex h
    some (rJ rgbJ (clut2rgb b))
  | ["clut", h] => do
    let b ← bytesOfHex h
    some (rJ J.hex (clut2palette b))
  | ["spec", p] => do
    -- the specification side: Lean encoder + expected tables, compared with the real functions on the encoded bytes
    let p ← parsePalette p
    some (J.obj [("enc", J.hex (encClut p)),
                 ("bmp", if p.length ≥ 256 then J.hex (bmpTable (p.take 256)) else J.s "error"),
                 ("rgb", rgbJ (rgbList p))]).render
  | ["write", nbits, ncolors, name, data] => do
    let nbits ← parseNat nbits; let ncolors ← parseNat ncolors; let name ← parseName name; let d ← bytesOfHex data
    some (rJ J.hex (writeColorPalette nbits ncolors name d))
  | ["bmp", depth, txt, clut] => do
    let depth ← parseNat depth; let txt ← parseName txt; let c ← bytesOfHex clut
    some (rJ (fun t => J.obj [("offset", match bmpDataOffset depth with | some o => J.nat o | none => J.null), ("table", J.hex t)])
      (bmpColorTable depth txt c))
  | ["name", v] => do
    let v ← parseInt v
    some (J.s (paletteName v)).render
  | ["names", lo, n] => do
    let lo ← parseInt lo; let n ← parseNat n
    some (J.arr ((rangeInts lo n).map fun v => J.s (paletteName v))).render
  | _ => none

end Drx.Drv.Pal
