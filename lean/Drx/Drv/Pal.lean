import Drx.Drv.Util
namespace Drx.Drv.Pal
open Drx Drx.Drv

/-- commands of the `pal` family (stub: nothing implemented yet) -/
def run : List String → Option String
  | _ => none

end Drx.Drv.Pal
