import Drx.Vwsc
import Drx.VwscSpec
import Drx.Score
import Drx.ScoreSteps
import Drx.Drv.Util
namespace Drx.Drv.Score
open Drx Drx.Drv Drx.Vwsc Drx.Vwsc.Spec

def framesJ (fs : List Frame) : J := .arr (fs.map Frame.toJ)

def parseLayout (s : String) : Option Layout :=
  if s = "d4" then some .d4 else if s = "d5" then some .d5 else none

/-- `off:hex/off:hex/…` -/
def parseDeltas (s : String) : Option (List (Nat × Bytes)) :=
  (s.splitOn "/").mapM fun t =>
    match t.splitOn ":" with
    | [o, h] => do let o ← parseNat o; let b ← bytesOfHex h; some (o, b)
    | _ => none

/-- records separated by `;`: `S` = same, `D` = deltas [], otherwise a delta list; `-` = no records -/
def parseRecs (s : String) : Option (List Rec) :=
  if s = "-" then some [] else
  (s.splitOn ";").mapM fun t =>
    if t = "S" then some Rec.same
    else if t = "D" then some (Rec.deltas [])
    else (parseDeltas t).map Rec.deltas

/-- `marker,u1,nmarkers,lastMarker,m1:m2:…|.,trailinghex` -/
def parseWrapper (s : String) : Option Wrapper :=
  match s.splitOn "," with
  | [m, u, n, l, ms, tr] => do
    let m ← parseInt m; let u ← parseInt u; let n ← parseInt n; let l ← parseInt l
    let ms ← if ms = "." then some [] else (ms.splitOn ":").mapM parseInt
    let tr ← bytesOfHex tr
    some ⟨m, u, n, l, ms, tr⟩
  | _ => none

def stepsJ (r : Steps × Nat) : J :=
  .obj [("records", .nat r.1.records), ("deltas", .nat r.1.deltas), ("copied", .nat r.1.copied), ("frames", .nat r.1.frames),
        ("alloc", .nat r.2)]

/-! ### frame tables for C09 (text form of harness/c09.py)

  frames separated by `;` (`-` = no frames); frame = `main|palette|cells`;
  main = `-` | `fps,s1,s2,script` (24-byte style) | `fps,s1,s2,script,T<hex of the transition id>,chunk,duration` (20-byte style);
  palette = `-` | palette_id; cells = `-` (no channels) | cells separated by `/`, each `_` (empty) or
  `castId,backgroundColor,foregroundColor,width,height,ink_type,spriteType,x,y,editable,moveable,trails` -/

def parseBool (s : String) : Option Bool := if s = "1" then some true else if s = "0" then some false else none

def parseCell (s : String) : Option (Option Sprite) :=
  if s = "_" then some none else
  match s.splitOn "," with
  | [c, bg, fg, w, h, ink, ty, x, y, ed, mv, tr] => do
    let c ← parseInt c; let bg ← parseInt bg; let fg ← parseInt fg; let w ← parseInt w; let h ← parseInt h
    let ink ← parseInt ink; let ty ← parseInt ty; let x ← parseInt x; let y ← parseInt y
    let ed ← parseBool ed; let mv ← parseBool mv; let tr ← parseInt tr
    some (some ⟨ty, c, fg, bg, ink, none, y, x, h, w, tr, mv, ed⟩)
  | _ => none

def parseMain (s : String) : Option (Option Main) :=
  if s = "-" then some none else
  match s.splitOn "," with
  | [fps, s1, s2, sc] => do
    let fps ← parseInt fps; let s1 ← parseInt s1; let s2 ← parseInt s2; let sc ← parseInt sc
    some (some ⟨fps, s1, s2, sc, .d5 0⟩)
  | [fps, s1, s2, sc, t, ch, du] => do
    let fps ← parseInt fps; let s1 ← parseInt s1; let s2 ← parseInt s2; let sc ← parseInt sc
    let tb ← bytesOfHex ((t.drop 1).toString)
    let ch ← parseInt ch; let du ← parseInt du
    some (some ⟨fps, s1, s2, sc, .d4 (tb.map fun b => Char.ofNat b.toNat) ch du⟩)
  | _ => none

def parseFrameT (s : String) : Option Frame :=
  match s.splitOn "|" with
  | [m, p, cs] => do
    let m ← parseMain m
    let p ← if p = "-" then some none else (parseInt p).map fun v => some (⟨0, [], v, 0⟩ : Pal)
    let cs ← if cs = "-" then some [] else (cs.splitOn "/").mapM parseCell
    some ⟨m, p, cs⟩
  | _ => none

def parseFrames (s : String) : Option (List Frame) :=
  if s = "-" then some [] else (s.splitOn ";").mapM parseFrameT

/-- commands of the `score` family (see harness/c08.py, harness/c09.py) -/
def run : List String → Option String
  | ["parse", h] => do
    let b ← bytesOfHex h
    some (rJ framesJ (parseVwscFile b))
  | ["parsedata", h] => do
    let b ← bytesOfHex h
    some (rJ framesJ (parseVwsc b))
  | ["channels", lay, h] => do
    let lay ← parseLayout lay; let b ← bytesOfHex h
    some (rJ Frame.toJ (parseChannels lay b))
  | ["steps", h] => do
    -- C10 twin of parse_vwsc_data: loop iteration counters + size of the one allocation
    let b ← bytesOfHex h
    some (stepsJ (parseVwscSteps b)).render
  | ["stepsobs", h] => do
    -- what harness/c08.py can observe of the real loops: all counters when the parse succeeds, else only the record count
    let b ← bytesOfHex h
    let s := (parseVwscSteps b).1
    match parseVwsc b with
    | .ok _ => some (J.obj [("ok", .bool true), ("records", .nat s.records), ("deltas", .nat s.deltas), ("copied", .nat s.copied),
                            ("frames", .nat s.frames)]).render
    | .error _ => some (J.obj [("ok", .bool false), ("records", .nat s.records)]).render
  | ["allocok", h] => do
    let b ← bytesOfHex h
    some (J.bool (decide ((parseVwscSteps b).2 < 4 * 1024 * 1024))).render
  | ["ser", lay, cc, fc, u1, u2, w, recs] => do
    -- the Lean encoder of the theorems applied to the harness's spec object
    let lay ← parseLayout lay; let cc ← parseNat cc; let fc ← parseInt fc; let u1 ← parseInt u1; let u2 ← parseInt u2
    let recs ← parseRecs recs
    let f : ScoreFile := ⟨lay, cc, fc, u1, u2, recs⟩
    let inner := serialise f
    if w = "-" then
      some (J.obj [("valid", .bool (decide f.Valid)), ("hex", J.hex inner)]).render
    else do
      let w ← parseWrapper w
      some (J.obj [("valid", .bool (decide f.Valid && decide (w.Valid inner))), ("hex", J.hex (wrap w inner))]).render
  | ["fold", lay, cc, recs] => do
    -- right-hand side of C08.decode_is_fold: the fields of each successive channel state
    let lay ← parseLayout lay; let cc ← parseNat cc; let recs ← parseRecs recs
    some (rJ framesJ (expectedFrames lay (zeros (cc * lay.frameSize)) recs))
  | ["stepsum", h] => do
    -- C10: total loop rounds (first body line of every for/while) of vwsc_to_score(parse_vwsc_file_data(d)), i.e. of
    -- vwsc.parse_vwsc_data + cparser.VwscChannelParser.parse_vwsc_channels + vwsc.vwsc_to_score; exact also when the call raises
    let b ← bytesOfHex h
    some (toString (Score.pipelineRounds b))
  | ["work", h] => do
    -- the same, itemised (data block located by parse_vwsc_file_data; zeros when that already fails)
    let b ← bytesOfHex h
    match locateData b with
    | .error _ => some (J.str "error".toList).render
    | .ok data =>
      let (w, alloc, cc) := vwscWork data
      let sw : Option Score.ScoreWork := match parseVwsc data with | .ok fr => some (Score.toScoreWork fr) | .error _ => none
      some (J.obj ([("records", .nat w.records), ("deltas", .nat w.deltas), ("copied", .nat w.copied), ("parses", .nat w.parses),
                    ("sprites", .nat w.sprites), ("alloc", .nat alloc), ("channels", .nat cc), ("datalen", .nat data.length)] ++
            match sw with
            | some s => [("init", .nat s.init), ("pass1", .nat s.pass1), ("pass2", .nat s.pass2), ("cells", .nat s.cells)]
            | none => [])).render
  | ["pipeline", h] => do
    -- C08 ∘ C09: vwsc_to_score(parse_vwsc_file_data(d))
    let b ← bytesOfHex h
    some (rJ Score.Score.toJ ((parseVwscFile b).bind Score.vwscToScore))
  | ["toscore", t] => do
    -- C09: vwsc_to_score on a frame table
    let fs ← parseFrames t
    some (rJ Score.Score.toJ (Score.vwscToScore fs))
  | _ => none

end Drx.Drv.Score
