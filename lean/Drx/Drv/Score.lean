import Drx.Vwsc
import Drx.VwscSpec
import Drx.Drv.Util
namespace Drx.Drv.Score
open Drx Drx.Drv Drx.Vwsc Drx.Vwsc.Spec

def framesJ (fs : List Frame) : J := .arr (fs.map Frame.toJ)

def parseLayout (s : String) : Option Layout :=
  if s = "d4" then some .d4 else if s = "d5" then some .d5 else none

/-- `off:hex/off:hex/…` -/
def parseDeltas (s : String) : Option (List (Nat × Bytes)) :=
  (s.splitOn "/").mapM fun t =>
    match t.splitOn ":" with
    | [o, h] => do let o ← parseNat o; let b ← bytesOfHex h; some (o, b)
    | _ => none

/-- records separated by `;`: `S` = same, `D` = deltas [], otherwise a delta list; `-` = no records -/
def parseRecs (s : String) : Option (List Rec) :=
  if s = "-" then some [] else
  (s.splitOn ";").mapM fun t =>
    if t = "S" then some Rec.same
    else if t = "D" then some (Rec.deltas [])
    else (parseDeltas t).map Rec.deltas

/-- `marker,u1,nmarkers,lastMarker,m1:m2:…|.,trailinghex` -/
def parseWrapper (s : String) : Option Wrapper :=
  match s.splitOn "," with
  | [m, u, n, l, ms, tr] => do
    let m ← parseInt m; let u ← parseInt u; let n ← parseInt n; let l ← parseInt l
    let ms ← if ms = "." then some [] else (ms.splitOn ":").mapM parseInt
    let tr ← bytesOfHex tr
    some ⟨m, u, n, l, ms, tr⟩
  | _ => none

def stepsJ (r : Steps × Nat) : J :=
  .obj [("records", .nat r.1.records), ("deltas", .nat r.1.deltas), ("copied", .nat r.1.copied), ("frames", .nat r.1.frames),
        ("alloc", .nat r.2)]

/-- commands of the `score` family (see harness/c08.py, harness/c09.py) -/
def run : List String → Option String
  | ["parse", h] => do
    let b ← bytesOfHex h
    some (rJ framesJ (parseVwscFile b))
  | ["parsedata", h] => do
    let b ← bytesOfHex h
    some (rJ framesJ (parseVwsc b))
  | ["channels", lay, h] => do
    let lay ← parseLayout lay; let b ← bytesOfHex h
    some (rJ Frame.toJ (parseChannels lay b))
  | ["steps", h] => do
    -- C10 twin of parse_vwsc_data: loop iteration counters + size of the one allocation
    let b ← bytesOfHex h
    some (stepsJ (parseVwscSteps b)).render
  | ["stepsobs", h] => do
    -- what harness/c08.py can observe of the real loops: all counters when the parse succeeds, else only the record count
    let b ← bytesOfHex h
    let s := (parseVwscSteps b).1
    match parseVwsc b with
    | .ok _ => some (J.obj [("ok", .bool true), ("records", .nat s.records), ("deltas", .nat s.deltas), ("copied", .nat s.copied),
                            ("frames", .nat s.frames)]).render
    | .error _ => some (J.obj [("ok", .bool false), ("records", .nat s.records)]).render
  | ["allocok", h] => do
    let b ← bytesOfHex h
    some (J.bool (decide ((parseVwscSteps b).2 < 4 * 1024 * 1024))).render
  | ["ser", lay, cc, fc, u1, u2, w, recs] => do
    -- the Lean encoder of the theorems applied to the harness's spec object
    let lay ← parseLayout lay; let cc ← parseNat cc; let fc ← parseInt fc; let u1 ← parseInt u1; let u2 ← parseInt u2
    let recs ← parseRecs recs
    let f : ScoreFile := ⟨lay, cc, fc, u1, u2, recs⟩
    let inner := serialise f
    if w = "-" then
      some (J.obj [("valid", .bool (decide f.Valid)), ("hex", J.hex inner)]).render
    else do
      let w ← parseWrapper w
      some (J.obj [("valid", .bool (decide f.Valid && decide (w.Valid inner))), ("hex", J.hex (wrap w inner))]).render
  | ["fold", lay, cc, recs] => do
    -- right-hand side of C08.decode_is_fold: the fields of each successive channel state
    let lay ← parseLayout lay; let cc ← parseNat cc; let recs ← parseRecs recs
    some (rJ framesJ (expectedFrames lay (zeros (cc * lay.frameSize)) recs))
  | _ => none

end Drx.Drv.Score
