import Drx.Drv.Util
namespace Drx.Drv.Score
open Drx Drx.Drv

/-- commands of the `score` family (stub: nothing implemented yet) -/
def run : List String → Option String
  | _ => none

end Drx.Drv.Score
