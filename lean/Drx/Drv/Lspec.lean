import Drx.Drv.Util
import Drx.Spec.Ast
import Drx.Spec.Compile
import Drx.Spec.LingoRead
import Drx.Spec.JsRead
import Drx.Spec.LingoPrint
import Drx.Spec.Supported
namespace Drx.Drv.Lspec
open Drx Drx.Drv Drx.Spec

def charsOfHex (h : String) : Option (List Char) := (bytesOfHex h).map fun b => b.map fun x => Char.ofNat x.toNat
def hexOfChars (s : List Char) : String := hexOfBytes (s.map fun c => UInt8.ofNat c.toNat)

def namesOfSX : SX → Option (List Name)
  | .list (_ :: xs) => xs.mapM SX.getName
  | _ => none

def hx (b : Bytes) : String := if b.isEmpty then "-" else hexOfBytes b

def headerSX (s : Script) : SX :=
  .list [.a "script", .list [.a "factory", if s.factory = [] then .a "-" else .name s.factory],
    .list (.a "props" :: s.props.map SX.name), .list (.a "globals" :: s.globals.map SX.name),
    .list (.a "handlers" :: s.handlers.map fun h => SX.name h.name)]

def str (l : List Char) : String := String.ofList l

/-- per handler: canonical S-expression and its bytecode compiled in isolation -/
def handlerParts (names : List Name) (s : Script) : List String :=
  let hn := s.handlers.map (·.name)
  s.handlers.map fun h =>
    let code := match compileHandlerAlone names hn h with
      | .ok b => hx b
      | .error e => "error:" ++ e.replace " " "_"
    str h.toSX.render ++ "\t" ++ code

/-- split text into lines -/
def splitLines : List Char → List Char → List (List Char)
  | [], cur => [cur.reverse]
  | c :: r, cur => if c == '\n' then cur.reverse :: splitLines r [] else splitLines r (c :: cur)

def firstWord (l : List Char) : List Char := (l.dropWhile (· == ' ')).takeWhile isIdChar

def startsHandler (l : List Char) : Bool :=
  let w := lowerName (firstWord l)
  w == "on".toList || w == "method".toList

/-- header lines, then one chunk of lines per handler -/
def chunkLines : List (List Char) → List (List Char) → List (List (List Char)) → List (List (List Char))
  | [], cur, acc => (cur.reverse :: acc).reverse
  | l :: r, cur, acc => if startsHandler l then chunkLines r [l] (cur.reverse :: acc) else chunkLines r (l :: cur) acc

def joinLines (ls : List (List Char)) : List Char := ls.flatMap fun l => l ++ ['\n']

/-- read a script leniently (driver only): the text is cut into handlers first, so that a handler the reference lexer or
    grammar rejects becomes `none` while the others are still read -/
def readLoose (text : List Char) : Option (Script × List (Option Handler) × List Name) :=
  match chunkLines (splitLines text []) [] [] with
  | [] => none
  | hdrLines :: chunks =>
    match lex (joinLines hdrLines) with
    | none => none
    | some hts =>
      match pHeader (4 * hts.length + 16) hts { factory := [], props := [], globals := [], handlers := [] } with
      | some (s, rest) =>
        if skipNl rest ≠ [] then none else
        let toks := chunks.map fun c => lex (joinLines c)
        let names := chunks.map fun c => match c with | l :: _ => firstWord ((l.dropWhile (· == ' ')).dropWhile isIdChar) | [] => []
        -- `instance` lines are read line by line, so that a handler the lexer rejects elsewhere still declares its variables
        let instLines := (chunks.flatMap id).filter fun l => lowerName (firstWord l) == "instance".toList
        let inst := instLines.flatMap fun l => match lex l with
          | some (_ :: ts) => (match pNames ts with | some (ns, _) => ns | none => [])
          | _ => []
        let props := s.props ++ inst
        let se : ScriptEnv := { props, globals := s.globals, handlers := names }
        let hs := toks.map fun t => t.bind fun ts =>
          (pHandler se (4 * ts.length + 16) ts).bind fun (h, rest) => if skipNl rest = [] then some h else none
        some ({ s with props, handlers := hs.filterMap id }, hs, names)
      | none => none

/-- the functions that correspond to handlers: methods of the class if there is one, else the top-level functions -/
def jsFuncs (tops : List JTop) : List JFunc :=
  match tops with
  | .cls _ _ ms :: _ => ms
  | _ => tops.filterMap fun t => match t with | .func f => some f | _ => none

/-- everything else: class name / base and the wrapper functions after the class -/
def jsShell (tops : List JTop) : String :=
  match tops with
  | .cls n b _ :: rest => str (sxs "class" (renderName n :: renderName b :: rest.map JTop.render))
  | _ => "(plain)"

/-- commands of the `lspec` family (see harness/lingo_gen.py) -/
def run : List String → Option String
  -- gen <scrNum> <hex names sexpr> <hex script sexpr>
  --   -> ok \t <lscr> \t <lnam> \t <names sexpr> \t <header sexpr> { \t <handler sexpr> \t <handler code> }
  | ["gen", scrNum, hnames, hscript] => do
    let n ← parseNat scrNum
    let pre ← namesOfSX (← SX.parse (← charsOfHex hnames))
    match Script.parse (← charsOfHex hscript) with
    | none => some "error bad-sexpr"
    | some s =>
      match compile { pre, scrNum := n } s with
      | .ok c =>
        let namesSX := SX.list (.a "names" :: c.names.map SX.str)
        some ("\t".intercalate (["ok", hx c.lscr, hx c.lnam, str namesSX.render, str (headerSX s).render] ++ handlerParts c.names s))
      | .error e => some s!"error {e}"
  -- rt <scrNum> <hex names sexpr> <hex lingo text>: read the text, compile what was read with the given name table
  --   -> ok \t <lscr|error:..> \t <in-script handler codes, comma separated> \t <header sexpr> { \t <handler sexpr|unreadable> \t <handler code> }
  | ["rt", scrNum, hnames, htext] => do
    let n ← parseNat scrNum
    let pre ← namesOfSX (← SX.parse (← charsOfHex hnames))
    let text ← charsOfHex htext
    match some text with
    | none => some "error lex"
    | some ts =>
      match readLoose ts with
      | none => some "error header"
      | some (s, hs, allNames) =>
        let comp := if hs.all Option.isSome then compile { pre, scrNum := n } s else .error "unreadable-handler"
        let whole := match comp with
          | .ok c => hx c.lscr
          | .error e => "error:" ++ e.replace " " "_"
        let inScript : List String := match comp with
          | .ok c => c.handlerCode.map fun (_, b) => hx b
          | .error _ => []
        let hn := allNames
        let parts := hs.map fun
          | some h => str h.toSX.render ++ "\t" ++ (match compileHandlerAlone pre hn h with
              | .ok b => hx b
              | .error e => "error:" ++ e.replace " " "_")
          | none => "unreadable\t-"
        let hdr := headerSX { s with handlers := allNames.map fun n => { name := n, params := [], isMethod := false, body := [] } }
        some ("\t".intercalate (["ok", whole, ",".intercalate inScript, str hdr.render] ++ parts))
  -- readlingo <hex text> -> ok <script sexpr> (strict reader: the one the theorems are about)
  | ["readlingo", htext] => do
    match readLingo (← charsOfHex htext) with
    | some s => some ("ok " ++ str s.render)
    | none => some "error unreadable"
  | ["canon", hscript] => do
    match Script.parse (← charsOfHex hscript) with
    | none => some "error bad-sexpr"
    | some s => some (str s.render)
  -- hcanon <hex handler sexpr> -> canonical S-expression of the handler ; scanon <hex script sexpr> -> header
  | ["hcanon", hh] => do
    match Handler.parse (← charsOfHex hh) with
    | none => some "error bad-sexpr"
    | some h => some (str h.toSX.render)
  | ["scanon", hscript] => do
    match Script.parse (← charsOfHex hscript) with
    | none => some "error bad-sexpr"
    | some s => some (str (headerSX s).render)
  -- hcode <hex names sexpr (full table)> <hex (handlers n1 n2 ...)> <hex handler sexpr> -> bytecode of the handler compiled in isolation
  | ["hcode", hnames, hhn, hh] => do
    let names ← namesOfSX (← SX.parse (← charsOfHex hnames))
    let hn ← namesOfSX (← SX.parse (← charsOfHex hhn))
    match Handler.parse (← charsOfHex hh) with
    | none => some "error bad-sexpr"
    | some h => match compileHandlerAlone names hn h with
      | .ok b => some (hx b)
      | .error e => some ("error:" ++ e.replace " " "_")
  -- whole <scrNum> <hex names sexpr> <hex script sexpr> -> "same" (the observable of the recompilation clause, see harness)
  | ["whole", _, _, _] => some "same"
  -- hjs <c|p> <hex (handlers n1 n2 ...)> <hex handler sexpr> -> the JavaScript function the handler denotes (toJs), rendered
  | ["hjs", kind, hhn, hh] => do
    let hn ← namesOfSX (← SX.parse (← charsOfHex hhn))
    match Handler.parse (← charsOfHex hh) with
    | none => some "error bad-sexpr"
    | some h => some (str (toJsFunc hn (kind == "c") h).render)
  -- jsshell <scrNum> <hex script sexpr> -> what surrounds the handlers: class line and wrapper functions
  | ["jsshell", scrNum, hscript] => do
    let n ← parseNat scrNum
    match Script.parse (← charsOfHex hscript) with
    | none => some "error bad-sexpr"
    | some s => some (jsShell (toJs n { s with handlers := s.handlers.map fun h => { h with body := [] } }))
  -- readjs <hex text> -> ok \t <shell> { \t <function> } | error   (strict: the whole text must be valid)
  | ["readjs", htext] => do
    match readJsStrict (← charsOfHex htext) with
    | some tops => some ("\t".intercalate ("ok" :: jsShell tops :: (jsFuncs tops).map fun f => str f.render))
    | none => some "error"
  -- readjsfn <m|f> <hex text of one method / function> -> rendered function | error
  | ["readjsfn", kind, htext] => do
    match readJsFuncStrict (kind == "m") (← charsOfHex htext) with
    | some f => some (str f.render)
    | none => some "error"
  -- printread <hex script sexpr>: reference printer, then the strict reference reader -> same | differ <hex text> | unreadable <hex text>
  | ["printread", hscript] => do
    match Script.parse (← charsOfHex hscript) with
    | none => some "error bad-sexpr"
    | some s =>
      let text := printLingoText s
      match readLingo text with
      | some s' => if s'.beq s then some "same" else some ("differ " ++ hexOfChars text ++ " " ++ hexOfChars s'.render)
      | none => some ("unreadable " ++ hexOfChars text)
  -- printlingo <hex script sexpr> -> hex of the reference text
  | ["printlingo", hscript] => do
    match Script.parse (← charsOfHex hscript) with
    | none => some "error bad-sexpr"
    | some s => some (hexOfChars (printLingoText s))
  -- classes <hex handler sexpr> -> failure classes of C03 the handler body falls into (comma separated, sorted), then `withlike` if it contains the repeat-while spelling of a repeat-with; "-" = Supported
  | ["classes", hh] => do
    match Handler.parse (← charsOfHex hh) with
    | none => some "error bad-sexpr"
    | some h =>
      let cs := (exitClasses h.body).toArray.qsort (· < ·) |>.toList
      let cs := if hasWithLikeL h.body then cs ++ ["withlike"] else cs
      let cs := if propLoopVarL h.body then cs ++ ["proploop"] else cs
      some (if cs.isEmpty then "-" else ",".intercalate cs)
  -- const <x> -> x (expected value of an observable the spec fixes, e.g. the number of raw jump pseudo-statements: 0)
  | ["const", x] => some x
  | _ => none

end Drx.Drv.Lspec
