import Drx.Drv.Util
namespace Drx.Drv.Lspec
open Drx Drx.Drv

/-- commands of the `lspec` family (stub: nothing implemented yet) -/
def run : List String → Option String
  | _ => none

end Drx.Drv.Lspec
