import Drx.Drv.Util
import Drx.Spec.Ast
import Drx.Spec.Compile
namespace Drx.Drv.Lspec
open Drx Drx.Drv Drx.Spec

def charsOfHex (h : String) : Option (List Char) := (bytesOfHex h).map fun b => b.map fun x => Char.ofNat x.toNat
def hexOfChars (s : List Char) : String := hexOfBytes (s.map fun c => UInt8.ofNat c.toNat)

def namesOfSX : SX → Option (List Name)
  | .list (_ :: xs) => xs.mapM SX.getName
  | _ => none

def hx (b : Bytes) : String := if b.isEmpty then "-" else hexOfBytes b

/-- commands of the `lspec` family (see harness/lingo_gen.py) -/
def run : List String → Option String
  | ["compile", scrNum, hnames, hscript] => do
    let n ← parseNat scrNum
    let pre ← namesOfSX (← SX.parse (← charsOfHex hnames))
    match Script.parse (← charsOfHex hscript) with
    | none => some "error bad-sexpr"
    | some s =>
      match compile { pre, scrNum := n } s with
      | .ok c => some s!"ok {hx c.lscr} {hx c.lnam} {" ".intercalate (c.handlerCode.map fun (_, b) => hx b)}"
      | .error e => some s!"error {e}"
  | ["canon", hscript] => do
    match Script.parse (← charsOfHex hscript) with
    | none => some "error bad-sexpr"
    | some s => some (String.ofList s.render)
  | _ => none

end Drx.Drv.Lspec
