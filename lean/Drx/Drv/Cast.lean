import Drx.Drv.Util
namespace Drx.Drv.Cast
open Drx Drx.Drv

/-- commands of the `cast` family (stub: nothing implemented yet) -/
def run : List String → Option String
  | _ => none

end Drx.Drv.Cast
