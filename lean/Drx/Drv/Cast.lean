import Drx.Cast
import Drx.CastSpec
import Drx.CastSteps
import Drx.Drv.Util
namespace Drx.Drv.Cast
open Drx Drx.Drv Drx.Cast

def parseInts (s : String) : Option (List Int) :=
  if s = "-" then some [] else (s.splitOn ",").mapM parseInt

def parseBody (kind : String) (v : List Int) (tail : List Int) : Option Body :=
  match kind, v with
  | "bitmap", [a, b, c, d, e, f, g, h, i, j, k, l, m] =>
    match tail with
    | [] => some (.bitmap ⟨a, b, c, d, e, f, g, h, i, j, k, l, m, none⟩)
    | [x, y] => some (.bitmap ⟨a, b, c, d, e, f, g, h, i, j, k, l, m, some (x, y)⟩)
    | _ => none
  | "field", [a, b, c, d, e, f, g, h, i, j, k, l, m, n, o, p, q, r, s, t, u] =>
    some (.field ⟨a, b, c, d, e, f, g, h, i, j, k, l, m, n, o, p, q, r, s, t, u⟩)
  | "palette", [] => some .palette
  | "sound", [] => some .sound
  | "button", [a, b, c, d, e, f, g, h, i, j, k, l, m, n, o, p, q, r, s] =>
    some (.button ⟨a, b, c, d, e, f, g, h, i, j, k, l, m, n, o, p, q, r, s⟩)
  | "shape", [a, b, c, d, e, f, g, h, i, j, k, l, m] => some (.shape ⟨a, b, c, d, e, f, g, h, i, j, k, l, m⟩)
  | "script", [] => some .script
  | "richText", [a, b, c, d, e, f, g, h, i, j, k, l] => some (.richText ⟨a, b, c, d, e, f, g, h, i, j, k, l⟩)
  | "transition", [a, b, c, d] => some (.transition ⟨a, b, c, d⟩)
  | _, _ => none

def parseExtras (s : String) : Option (List Bytes) :=
  if s = "." then some [] else (s.splitOn ";").mapM bytesOfHex

def parseInfo (basic unknowns extras : String) : Option (Option Info) :=
  if basic = "none" then some none else do
    let b ← parseInts basic
    let u ← parseInts unknowns
    let e ← parseExtras extras
    match b with
    | [sk, bd1, bd2, si] => some (some ⟨sk, bd1, bd2, si, u, e⟩)
    | _ => none

def castJ (r : R CastData) : J := J.ofR CastData.toJ r

/-- commands of the `cast` family (see harness/c15.py) -/
def run : List String → Option String
  | ["parse", codec, h] => do
    let c ← Codec.ofName codec; let b ← bytesOfHex h
    some (castJ (parseCast c b)).render
  | ["spec", codec, kind, fields, tail, pad, basic, unknowns, extras] => do
    -- the specification side: the Lean encoders of both layouts, the view, and whether the model maps the encodings to the view
    let c ← Codec.ofName codec
    let body ← parseBody kind (← parseInts fields) (← parseInts tail)
    let pad ← bytesOfHex pad
    let info ← parseInfo basic unknowns extras
    let m : Member := ⟨body, pad, info⟩
    let v := (castJ (view c m)).render
    some (J.obj [("d4", J.hex (encD4 m)), ("d5", J.hex (encD5 m)), ("view", castJ (view c m)),
                 ("valid", .bool (decide m.valid)),
                 ("rt4", .bool ((castJ (parseCast c (encD4 m))).render == v)),
                 ("rt5", .bool ((castJ (parseCast c (encD5 m))).render == v))]).render
  | ["steps", h] => do
    -- C10: rounds of the three Python-level loops of parse_basic_cast_data that start (the raising round included)
    let b ← bytesOfHex h
    some (toString (castSteps b).total)
  | ["stepsx", h] => do
    let b ← bytesOfHex h
    let s := castSteps b
    some (J.obj [("numbers", J.nat s.numbers), ("offsets", J.nat s.offsets), ("structures", J.nat s.structures),
                 ("extras_bytes", J.nat s.extrasBytes), ("name_bytes", J.nat s.nameBytes), ("total", J.nat s.total)]).render
  | _ => none

end Drx.Drv.Cast
