/-
  Model of the colour-table path (property C14):
    drxtract/clut/clut.py            clut2rgb, clut2palette
    drxtract/bitd/decoder.py         Decoder.writeColorPalette (+ PALETTES, generated)
    drxtract/bitd/bitd2bmp.py        the palette-name selection and decoder lookup of bitd2bmp (DECODERS generated)
    drxtract/common/__init__.py      get_palette_name (DIR_PALETTE_NAMES generated)
  Tables come from Drx/Gen/Palettes.lean, regenerated from /repo on every run.
-/
import Drx.Py
import Drx.Json
import Drx.Gen.Palettes
namespace Drx.Pal
open Drx

/-! ### clut.py -/

/-- `'%02x' % b` for a byte -/
def hex2 (b : UInt8) : List Char := [hexDigit (b.toNat / 16), hexDigit (b.toNat % 16)]

/-- `vsprintf('#%02x%02x%02x', r0, g0, b0)` -/
def colorStr (r g b : UInt8) : List Char := '#' :: (hex2 r ++ hex2 g ++ hex2 b)

/-- clut.clut2rgb: `while idx < len(fdata)` reading `fdata[idx]`, `fdata[idx+2]`, `fdata[idx+4]`, then `idx += 6`.
    The recursion is on the remaining suffix `fdata[idx:]`; the sixth byte of the last entry may be missing
    (it is never read), anything shorter is an IndexError. -/
def clut2rgb : Bytes → R (List (List Char))
  | [] => .ok []
  | [r, _, g, _, b] => .ok [colorStr r g b]
  | r :: _ :: g :: _ :: b :: _ :: rest =>
    match clut2rgb rest with
    | .ok cs => .ok (colorStr r g b :: cs)
    | .error e => .error e
  | _ => .error .index

/-- the `for _ in range(0, n)` loop of clut.clut2palette on the remaining suffix: each round reads three bytes
    at distance two and writes blue, green, red, 0. A five-byte tail serves the last round only (the sixth byte is
    never read); with rounds left the next read raises IndexError. -/
def clutLoop : Nat → Bytes → R Bytes
  | 0, _ => .ok []
  | n + 1, [r, _, g, _, b] => if n = 0 then .ok [b, g, r, 0] else .error .index
  | n + 1, r :: _ :: g :: _ :: b :: _ :: rest =>
    match clutLoop n rest with
    | .ok out => .ok (b :: g :: r :: 0 :: out)
    | .error e => .error e
  | _ + 1, _ => .error .index

/-- clut.clut2palette (256 rounds; the result is the 1024-byte `clutData`) -/
def clut2palette (fdata : Bytes) : R Bytes := clutLoop 256 fdata

/-! ### decoder.py: writeColorPalette -/

/-- `struct.pack('B' * n, *vals)`: the argument count must be `n`, every value in 0..255 -/
def packVals : List Int → R Bytes
  | [] => .ok []
  | v :: vs =>
    if 0 ≤ v ∧ v < 256 then
      match packVals vs with
      | .ok bs => .ok (UInt8.ofNat v.toNat :: bs)
      | .error e => .error e
    else .error .struct

def packB (n : Nat) (vals : List Int) : R Bytes :=
  if vals.length = n then packVals vals else .error .struct

abbrev Registry := List (Nat × List (String × List Int))

/-- Decoder.writeColorPalette for a decoder object with the given `nbits`/`ncolors`; the result is what is
    appended to the BMP buffer -/
def writeColorPaletteR (reg : Registry) (nbits ncolors : Nat) (name : String) (data : Bytes) : R Bytes :=
  let length := ncolors * 4
  if data.length > 0 then
    -- custom palette: `struct.pack(fmt, *palette_data[0:length])`
    packB length ((slice data 0 length).map fun b => (b.toNat : Int))
  else
    match reg.lookup nbits with
    | none => .ok []
    | some d =>
      match d.lookup name with
      | some t => packB length t
      | none =>
        match d.lookup "default" with
        | some t => packB length t
        | none => .error .key

def writeColorPalette := writeColorPaletteR Gen.Palettes.palettes

/-! ### bitd2bmp.py: which decoder, which palette name -/

/-- the palette name `bitd2bmp` passes to the decoder: `str(castData['palette_txt'])` for 8 bit,
    `'black and white'` for 1 bit, `'none'` otherwise -/
def bmpPaletteName (depth : Nat) (paletteTxt : String) : String :=
  if depth = 8 then paletteTxt else if depth = 1 then "black and white" else "none"

/-- bytes `54 .. 54 + 4*ncolors` of the BMP `bitd2bmp` builds. The indexed-colour decoders (1, 4, 8 bit: `ncolors > 0`) write the
    14-byte file header, the 40-byte info header and then call `writeColorPalette`; the direct-colour decoders (16/24/32 bit,
    `ncolors = 0`) never call it and have no colour table. `value` error for a depth without decoder. -/
def bmpColorTable (depth : Nat) (paletteTxt : String) (clut : Bytes) : R Bytes :=
  match Gen.Palettes.decoders.lookup depth with
  | none => .error .value
  | some (nbits, ncolors) =>
    if ncolors = 0 then .ok [] else writeColorPalette nbits ncolors (bmpPaletteName depth paletteTxt) clut

/-- the data offset the indexed-colour decoders put into the BMP file header: `ncolors*4 + 40 + 14` -/
def bmpDataOffset (depth : Nat) : Option Nat :=
  match Gen.Palettes.decoders.lookup depth with
  | some (_, ncolors) => if ncolors = 0 then none else some (ncolors * 4 + 40 + 14)
  | none => none

/-! ### common/__init__.py: get_palette_name -/

/-- `str(value)` -/
def pyStrInt (v : Int) : String := toString v

def paletteNameR (names : List (Int × String)) (value : Int) : String :=
  let value := if value ≤ 0 then value - 1 else value
  match names.lookup value with
  | some s => s
  | none => pyStrInt value

def paletteName := paletteNameR Gen.Palettes.paletteNames

/-! ### specification side (what the theorems of DrxProps/C14.lean compare the model with) -/

/-- one palette entry: three 16-bit components -/
structure Rgb16 where
  r : Nat
  g : Nat
  b : Nat
  deriving Repr, DecidableEq, Inhabited

def Rgb16.inRange (c : Rgb16) : Prop := c.r < 65536 ∧ c.g < 65536 ∧ c.b < 65536

instance (c : Rgb16) : Decidable c.inRange := by unfold Rgb16.inRange; infer_instance

/-- high byte of a 16-bit component -/
def hi (x : Nat) : UInt8 := UInt8.ofNat (x / 256)

/-- the CLUT chunk of a palette: red, green, blue as big-endian 16-bit words, six bytes per entry -/
def encClut (p : List Rgb16) : Bytes := p.flatMap fun c => encBE 2 c.r ++ encBE 2 c.g ++ encBE 2 c.b

/-- the BMP colour table of a palette: blue, green, red high bytes and a reserved zero per entry -/
def bmpTable (p : List Rgb16) : Bytes := p.flatMap fun c => [hi c.b, hi c.g, hi c.r, 0]

/-- the JSON colour list of a palette -/
def rgbList (p : List Rgb16) : List (List Char) := p.map fun c => colorStr (hi c.r) (hi c.g) (hi c.b)

end Drx.Pal
