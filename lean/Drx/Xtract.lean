/-
  Model of drxtract/riffxtract.py main() after argument checks (property C18): which files are written
  into <out>/bin, with which names and contents, and how the run ends. Filesystem effects themselves
  (os.path.join, open(...,'wb')) are outside the model; the harness observes them with an audit hook.
-/
import Drx.Riff
namespace Drx.Xtract
open Drx Drx.Riff

/-- decimal digits of a natural number, as Python's `'%s' % n` -/
def dec (n : Nat) : List Char :=
  if h : n < 10 then [Char.ofNat (48 + n)] else dec (n / 10) ++ [Char.ofNat (48 + n % 10)]
termination_by n
decreasing_by omega

/-- `re.sub(r"[^A-Za-z0-9\-_\.]", "_", s)` on one character -/
def safeChar (c : Char) : Char :=
  let n := c.toNat
  if (65 ≤ n ∧ n ≤ 90) ∨ (97 ≤ n ∧ n ≤ 122) ∨ (48 ≤ n ∧ n ≤ 57) ∨ c = '-' ∨ c = '_' ∨ c = '.' then c else '_'

/-- save_chunk's file name -/
def fileName (idx : Nat) (id : List Char) : List Char := (dec idx ++ '.' :: id).map safeChar

inductive Outcome where
  | done    -- main returned
  | exit    -- sys.exit(-1)
  | error   -- an exception escaped
  deriving Repr, DecidableEq, Inhabited

structure Plan where
  files : List (List Char × Bytes)   -- in the order they are written
  outcome : Outcome
  deriving Repr, DecidableEq, Inhabited

def ignoreIds : List (List Char) :=
  ["RIFX".toList, "imap".toList, "mmap".toList, "free".toList, "junk".toList]

/-- the `for resource in mmap.resources` loop; `idx` is the index of the head of the list -/
def saveLoop (cs : List Chunk) (off : Nat) : List MmapEntry → Nat → List (List Char × Bytes) → Plan
  | [], _, acc => ⟨acc.reverse, .done⟩
  | r :: rs, idx, acc =>
    if ignoreIds.contains r.chunkID ∨ r.size ≤ 0 then saveLoop cs off rs (idx + 1) acc
    else
      match getByOffset cs (r.offset - off) with
      | .error _ => ⟨acc.reverse, .error⟩
      | .ok c =>
        if r.chunkID ≠ c.id then ⟨acc.reverse, .exit⟩
        else saveLoop cs off rs (idx + 1) ((fileName idx c.id, c.data) :: acc)

def extractPlan (isExe : Bool) (o : Order) (d : Bytes) : Plan :=
  let off := if isExe then findRiffInExe d else 0
  match parseRiff d off o with
  | .error _ => ⟨[], .error⟩
  | .ok [] => ⟨[], .error⟩
  | .ok (c0 :: cs) =>
    if c0.id ≠ "imap".toList then ⟨[], .exit⟩ else
    match parseImap c0.data o with
    | .error _ => ⟨[], .error⟩
    | .ok im =>
      match getByOffset (c0 :: cs) (im.offset - off) with
      | .error _ => ⟨[], .error⟩
      | .ok mc =>
        if mc.id ≠ "mmap".toList then ⟨[], .exit⟩ else
        match parseMmap mc.data o with
        | .error _ => ⟨[], .error⟩
        | .ok mm => saveLoop (c0 :: cs) off mm.resources 0 []

/-- directory content after performing the writes in order (a later write to the same name replaces the earlier) -/
def finalDir (files : List (List Char × Bytes)) : List (List Char × Bytes) :=
  files.foldl (fun acc f => (acc.filter (fun g => g.1 ≠ f.1)) ++ [f]) []

end Drx.Xtract
