/-
  Models of the six index-chunk decoders (property C17):
    drxtract/key/key.py            parse_key_file_data
    drxtract/cas/cas.py            parse_cas_file_data
    drxtract/lctx/lctx.py          parse_lctx_file_data
    drxtract/lingosrc/parse/lnam.py parse_lnam_file_data
    drxtract/vwlb/vwlb.py          parse_vwlb_data        (after the fixes F03/F50/F51: configured codec, unsigned offsets, offsets must not decrease)
    drxtract/vwcf/vwcf.py          parse_vwcf_file_data   (+ common.get_palette_name)
  Function by function, loop by loop.  Text decoding is a parameter `dec : Bytes → R (List Char)`
  (the driver passes `decodeText codec`, i.e. `bytes.decode(get_encoding())`).
-/
import Drx.Py
import Drx.PyI
import Drx.Json
import Drx.Riff
import Drx.Gen.IdxNames
namespace Drx.Idx
open Drx

abbrev Text := List Char
abbrev Dec := Bytes → R Text

/-! ### key.py -/

/-- `FileReference(chunkID, index)` -/
structure KeyRef where
  chunkID : List Char
  index : Int
  deriving Repr, DecidableEq, Inhabited

/-- `Dict[int, List[FileReference]]` in insertion order -/
abbrev KeyData := List (Int × List KeyRef)

/-- `if not k in d: d[k] = []` followed by `d[k].append(r)` -/
def keyInsert : KeyData → Int → KeyRef → KeyData
  | [], k, r => [(k, [r])]
  | (k', l) :: rest, k, r => if k' = k then (k', l ++ [r]) :: rest else (k', l) :: keyInsert rest k r

/-- the `for _ in range(nelements-1)` loop; `indx` advances by 12 -/
def keyLoop (o : Order) (d : Bytes) : Nat → Nat → KeyData → R KeyData
  | 0, _, kd => .ok kd
  | n+1, indx, kd => do
    let nfile ← getS o 4 d indx
    let cas ← getS o 4 d (indx + 4)
    let chunkId ← Riff.parseChunkId d (indx + 8) o
    let kd' := if cas > 0 ∧ nfile > 0 then keyInsert kd cas ⟨chunkId, nfile⟩ else kd
    keyLoop o d n (indx + 12) kd'

/-- key.parse_key_file_data (note `range(nelements-1)`: finding F02) -/
def parseKey (o : Order) (d : Bytes) : R KeyData := do
  let _unk1 ← getS o 4 d 0
  let _unk2 ← getS o 4 d 4
  let nelements ← getS o 4 d 8
  keyLoop o d (nelements - 1).toNat 12 []

/-! ### cas.py -/

/-- the `while len(fdata) >= indx + 4` loop -/
def casLoop (d : Bytes) (indx : Nat) : R (List Int) :=
  if h : d.length ≥ indx + 4 then
    match getS .be 4 d indx with
    | .error e => .error e
    | .ok v =>
      match casLoop d (indx + 4) with
      | .error e => .error e
      | .ok vs => .ok (v :: vs)
  else .ok []
termination_by d.length - indx
decreasing_by omega

/-- cas.parse_cas_file_data -/
def parseCas (d : Bytes) : R (List Int) := casLoop d 0

/-! ### lctx.py -/

/-- `LingoScripReference(key, index)` (chunkID is the constant 'Lscr') -/
structure LctxRef where
  key : Nat
  index : Int
  deriving Repr, DecidableEq, Inhabited

/-- the `for _ in range(0, nscripts)` loop; `indx` starts at the *signed* 16-bit table offset -/
def lctxLoop (d : Bytes) : Nat → Int → R (List LctxRef)
  | 0, _ => .ok []
  | n+1, indx => do
    let key ← getUI .be 4 d indx
    let scrfile ← getSI .be 4 d (indx + 4)
    let _unk ← getSI .be 4 d (indx + 8)
    let rest ← lctxLoop d n (indx + 12)
    .ok (⟨key, scrfile⟩ :: rest)

/-- lctx.parse_lctx_file_data -/
def parseLctx (d : Bytes) : R (List LctxRef) := do
  let _unk1 ← getS .be 4 d 0
  let _unk2 ← getS .be 4 d 4
  let nscripts ← getS .be 4 d 8
  let _nscripts2 ← getS .be 4 d 12
  let scrIdx ← getS .be 2 d 16
  lctxLoop d nscripts.toNat scrIdx

/-! ### lnam.py -/

/-- the `for i in range(0, nnames)` loop: length byte (IndexError past the end), clamped slice, decode -/
def lnamLoop (dec : Dec) (d : Bytes) : Nat → Nat → R (List Text)
  | 0, _ => .ok []
  | n+1, indx => do
    let nbytes ← byteAt d indx
    let name ← dec (slice d (indx + 1) (indx + 1 + nbytes.toNat))
    let rest ← lnamLoop dec d n (indx + 1 + nbytes.toNat)
    .ok (name :: rest)

/-- lnam.parse_lnam_file_data -/
def parseLnam (dec : Dec) (d : Bytes) : R (List Text) := do
  let _unk1 ← getS .be 4 d 0
  let _unk2 ← getS .be 4 d 4
  let filesize ← getS .be 4 d 8
  let filesizeCp ← getS .be 4 d 12
  let _unk3 ← getS .be 2 d 16
  let nnames ← getS .be 2 d 18
  if filesizeCp ≠ filesize then .error .value else
  lnamLoop dec d nnames.toNat 20

/-! ### vwlb.py -/

/-- `Marker(name, frame)` -/
structure Marker where
  name : Text
  frame : Int
  deriving Repr, DecidableEq, Inhabited

/-- the `for _ in range(0, nmarkers)` loop: record = (frame, offset); the label ends where the next record's begins -/
def vwlbLoop (dec : Dec) (d : Bytes) (mnidx : Nat) : Nat → Nat → R (List Marker)
  | 0, _ => .ok []
  | n+1, indx => do
    let frame ← getS .be 2 d indx
    let nameStart ← getU .be 2 d (indx + 2)
    let nameEnd ← getU .be 2 d (indx + 6)
    if mnidx + nameEnd < mnidx + nameStart then .error .value else   -- fix F51: decreasing label offsets are rejected
    let name ← dec (slice d (mnidx + nameStart) (mnidx + nameEnd))
    let rest ← vwlbLoop dec d mnidx n (indx + 4)
    .ok (⟨name, frame⟩ :: rest)

/-- vwlb.parse_vwlb_data; `mnidx = 2 + 4 * (nmarkers + 1)` is positive whenever the loop runs -/
def parseVwlb (dec : Dec) (d : Bytes) : R (List Marker) := do
  let nmarkers ← getS .be 2 d 0
  let mnidx : Int := 2 + 4 * (nmarkers + 1)
  vwlbLoop dec d mnidx.toNat nmarkers.toNat 2

/-! ### vwcf.py -/

inductive VClass where
  | dir4 | dir5 | dir6 | dir7 | dir8 | dirMX | published | unknown
  deriving Repr, DecidableEq, Inhabited

def VClass.name : VClass → String
  | .dir4 => "dir4" | .dir5 => "dir5" | .dir6 => "dir6" | .dir7 => "dir7" | .dir8 => "dir8"
  | .dirMX => "dirMX" | .published => "published" | .unknown => "unknown"

/-- the if/elif cascade on `version_major`, `version_minor` -/
def classOf (major minor : Int) : VClass :=
  if major = 4 then
    if minor < 0xC0 then .dir4 else if minor < 0xC6 then .dir5 else .dir6
  else if major = 5 then .dir7
  else if major = 7 then
    if minor ≤ 0x3A then .dir8 else if minor ≤ 0x42 then .dirMX else .unknown
  else if major = 0x16 ∧ minor = 0x3C then .published
  else .unknown

/-- `((version >> 8) & 0xFF, version & 0xFF)` on the *signed* word: arithmetic shift, `& 0xFF` = mod 256 (non-negative) -/
def versionClass (version : Int) : VClass :=
  classOf ((version >>> 8) % 256) (version % 256)

def lookupName : List (Int × String) → Int → Option String
  | [], _ => none
  | (k, v) :: rest, x => if k = x then some v else lookupName rest x

/-- common.get_palette_name -/
def paletteName (value : Int) : String :=
  let v := if value ≤ 0 then value - 1 else value
  match lookupName Gen.IdxNames.paletteNames v with
  | some s => s
  | none => toString v

structure Vwcf where
  version : VClass
  stageTop : Int
  stageLeft : Int
  stageBottom : Int
  stageRight : Int
  castArrayStart : Int
  castArrayEnd : Int
  currentFrameRate : Int
  stageColor : Nat
  palette : String
  deriving Repr, DecidableEq, Inhabited

/-- the palette field position for a version class (none: not read, reported as 'unknonw') -/
def paletteOffset : VClass → Option Nat
  | .dir4 => some 0x46
  | .dir5 => some 0x4E
  | _ => none

/-- vwcf.parse_vwcf_file_data -/
def parseVwcf (d : Bytes) : R Vwcf := do
  let dataSize ← getS .be 2 d 0
  if (d.length : Int) ≠ dataSize then .error .value else
  let version ← getS .be 2 d 2
  let stageTop ← getS .be 2 d 4
  let stageLeft ← getS .be 2 d 6
  let stageBottom ← getS .be 2 d 8
  let stageRight ← getS .be 2 d 10
  let castArrayStart ← getS .be 2 d 12
  let castArrayEnd ← getS .be 2 d 14
  let currentFrameRate ← getS .be 2 d 16
  let stageColor ← byteAt d 27
  let cls := versionClass version
  let palette ← match paletteOffset cls with
    | some off => (getS .be 2 d off).map paletteName
    | none => pure "unknonw"
  .ok ⟨cls, stageTop, stageLeft, stageBottom, stageRight, castArrayStart, castArrayEnd, currentFrameRate, stageColor.toNat, palette⟩

/-! ### observables -/

def KeyRef.toJ (r : KeyRef) : J := .obj [("chunkID", .str r.chunkID), ("index", .int r.index)]
def keyDataJ (kd : KeyData) : J := .arr (kd.map fun (k, l) => .arr [.int k, .arr (l.map KeyRef.toJ)])
def LctxRef.toJ (r : LctxRef) : J := .obj [("chunkID", J.s "Lscr"), ("index", .int r.index), ("key", J.nat r.key)]
def Marker.toJ (m : Marker) : J := .obj [("name", .str m.name), ("frame", .int m.frame)]
def Vwcf.toJ (c : Vwcf) : J :=
  .obj [("version", J.s c.version.name), ("stageTop", .int c.stageTop), ("stageLeft", .int c.stageLeft),
        ("stageBottom", .int c.stageBottom), ("stageRight", .int c.stageRight), ("castArrayStart", .int c.castArrayStart),
        ("castArrayEnd", .int c.castArrayEnd), ("currentFrameRate", .int c.currentFrameRate),
        ("stageColor", J.nat c.stageColor), ("palette", J.s c.palette)]

end Drx.Idx
