/-
  Spec side of C01: a movie as its author sees it (chunk list, maps) and the encoders that lay it out as bytes.
  These definitions are what the theorems in DrxProps/C01.lean quantify over (trusted as the meaning of the property).
-/
import Drx.Riff
namespace Drx.Riff
open Drx

/-! ### spec objects and the encoder the theorems talk about -/

/-- a chunk as the author of a movie sees it: four id bytes (in reading order) and a payload -/
structure SChunk where
  id : Bytes
  data : Bytes
  deriving Repr, DecidableEq

def SChunk.WF (c : SChunk) : Prop := c.id.length = 4 ∧ c.data.length < 2 ^ 31

instance (c : SChunk) : Decidable c.WF := by unfold SChunk.WF; exact inferInstance

def encId (o : Order) (id : Bytes) : Bytes := match o with | .be => id | .le => id.reverse

def padBytes (n : Nat) : Bytes := if n % 2 = 1 then [0] else []

def encChunk (o : Order) (c : SChunk) : Bytes :=
  encId o c.id ++ (encS o 4 c.data.length ++ (c.data ++ padBytes c.data.length))

def encChunks (o : Order) : List SChunk → Bytes
  | [] => []
  | c :: cs => encChunk o c ++ encChunks o cs

/-- what the decoder is expected to report for a chunk -/
def SChunk.view (c : SChunk) : Chunk := ⟨c.id.map sanitize, c.data⟩

def chunkSpan (c : SChunk) : Nat := 8 + c.data.length + c.data.length % 2


def RIFXb : Bytes := [0x52, 0x49, 0x46, 0x58]
def MV93b : Bytes := [0x4d, 0x56, 0x39, 0x33]

/-- the file: any prefix (projector stub), the 12-byte header in the movie's byte order, the chunks -/
def encMovie (o : Order) (pre : Bytes) (declaredLen : Int) (cs : List SChunk) : Bytes :=
  pre ++ (encId o RIFXb ++ (encS o 4 declaredLen ++ (encId o MV93b ++ encChunks o cs)))

def In32 (i : Int) : Prop := -2147483648 ≤ i ∧ i < 2147483648
def In16 (i : Int) : Prop := -32768 ≤ i ∧ i < 32768


def Imap.WF (m : Imap) : Prop :=
  In32 m.count ∧ In32 m.offset ∧ In32 m.fileVersion ∧ In16 m.reserved ∧ In16 m.unknown ∧ In32 m.reserved2

/-- 24 bytes: `iiihhii`; the seventh word is present but not reported -/
def encImap (o : Order) (m : Imap) (last : Int) : Bytes :=
  encS o 4 m.count ++ (encS o 4 m.offset ++ (encS o 4 m.fileVersion ++ (encS o 2 m.reserved ++
    (encS o 2 m.unknown ++ (encS o 4 m.reserved2 ++ (encS o 4 last ++ []))))))


structure SEntry where
  id : Bytes
  size : Int
  offset : Int
  flags : Int
  unused : Int
  next : Int
  deriving Repr, DecidableEq

def SEntry.WF (e : SEntry) : Prop :=
  e.id.length = 4 ∧ In32 e.size ∧ In32 e.offset ∧ In16 e.flags ∧ In16 e.unused ∧ In32 e.next

def SEntry.view (e : SEntry) : MmapEntry := ⟨e.id.map sanitize, e.size, e.offset, e.flags, e.unused, e.next⟩

def encEntry (o : Order) (e : SEntry) : Bytes :=
  encId o e.id ++ (encS o 4 e.size ++ (encS o 4 e.offset ++ (encS o 2 e.flags ++ (encS o 2 e.unused ++ (encS o 4 e.next ++ [])))))

def encEntries (o : Order) : List SEntry → Bytes
  | [] => []
  | e :: es => encEntry o e ++ encEntries o es


/-- header fields of the memory map (the used count is the number of entries that follow) -/
structure SMmapHdr where
  propertiesSize : Int
  resourceSize : Int
  maxCount : Int
  firstJunk : Int
  oldMap : Int
  firstFree : Int

def SMmapHdr.WF (h : SMmapHdr) : Prop :=
  In16 h.propertiesSize ∧ In16 h.resourceSize ∧ In32 h.maxCount ∧ In32 h.firstJunk ∧ In32 h.oldMap ∧ In32 h.firstFree

def encMmap (o : Order) (h : SMmapHdr) (es : List SEntry) (unusedTail : Bytes) : Bytes :=
  encS o 2 h.propertiesSize ++ (encS o 2 h.resourceSize ++ (encS o 4 h.maxCount ++ (encS o 4 (es.length : Int) ++
    (encS o 4 h.firstJunk ++ (encS o 4 h.oldMap ++ (encS o 4 h.firstFree ++ (encEntries o es ++ unusedTail)))))))


/-- `XFIR` at position `p` and `39VM` at position `p + 8`: a genuine little-endian movie header -/
def Genuine (b : Bytes) (p : Nat) : Prop := slice b p (p + 4) = XFIR ∧ slice b (p + 8) (p + 12) = VM39


end Drx.Riff
