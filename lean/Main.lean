/-
  drxmodel: line-protocol driver for the executable models.
  One case per line on stdin:  <family> <cmd> <args...>   (space separated; byte strings in hex, "-" = empty)
  One line per case on stdout: the canonical observable (JSON), or "bad-op" for a line the driver cannot read.
-/
import Drx.Drv.Riff

open Drx

def dispatch : String → List String → Option String
  | "riff", args => Drx.Drv.Riff.run args
  | _, _ => none

partial def loop (h : IO.FS.Stream) (out : IO.FS.Stream) : IO Unit := do
  let line ← h.getLine
  if line.isEmpty then return ()
  let toks := (line.trimAscii.toString.splitOn " ").filter (· ≠ "")
  let res := match toks with
    | fam :: args => (dispatch fam args).getD "bad-op"
    | [] => "bad-op"
  out.putStrLn res
  loop h out

def main : IO Unit := do
  let stdin ← IO.getStdin
  let stdout ← IO.getStdout
  loop stdin stdout
