import Drx.Drv.Dir
import Drx.Drv.Loop
def main : IO Unit := Drx.Drv.mainLoop Drx.Drv.Dir.run
