import Drx.Drv.Xtract
import Drx.Drv.Loop
def main : IO Unit := Drx.Drv.mainLoop Drx.Drv.Xtract.run
