import Drx.Drv.Snd
import Drx.Drv.Loop
def main : IO Unit := Drx.Drv.mainLoop Drx.Drv.Snd.run
