import Drx.Drv.Score
import Drx.Drv.Loop
def main : IO Unit := Drx.Drv.mainLoop Drx.Drv.Score.run
