import Drx.Drv.Idx
import Drx.Drv.Loop
def main : IO Unit := Drx.Drv.mainLoop Drx.Drv.Idx.run
