import Drx.Drv.Lspec
import Drx.Drv.Loop
def main : IO Unit := Drx.Drv.mainLoop Drx.Drv.Lspec.run
