import Drx.Drv.Text
import Drx.Drv.Loop
def main : IO Unit := Drx.Drv.mainLoop Drx.Drv.Text.run
