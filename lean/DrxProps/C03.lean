/-
  C03 — control-flow reconstruction restores the source nesting exactly.
  Spec-layer statements: the structured layout `layoutStmts` (compileStructured) and the nesting of its jump targets.
  The reconstruction itself (`loop_detection.py`) enters as an abstract `decompile`; the model is agent-lscr's (lean/Drx/Lscr*).
-/
import Drx.Spec.Compile
import Drx.Spec.LingoRead
import DrxProofs.SpecCompile
import DrxProofs.SpecLayout
import Drx.Spec.Supported
import DrxProofs.SpecWithLike
namespace DrxProps.C03
open Drx Drx.Spec

/-- The property at full strength: every script the scheme can compile (any nesting of if / if-else / repeat while / repeat with /
    repeat with … in / exit repeat whose loop bodies fit the one-byte back jump — `compile` rejects the others) decompiles to text
    that reads back as the same tree: every statement once, in order, in the same construct, with the same condition, loop variable
    and bounds; in particular no raw `jz` / `jump` pseudo-statement is left (it would read as a call that is not in the source). -/
def C03_full (decompile : Bytes → Bytes → Option (List Char)) : Prop :=
  ∀ (o : Options) (s : Script) (c : Compiled), compile o s = .ok c →
    ∃ text, decompile c.lscr c.lnam = some text ∧ readLingo text = some s

/-- The part of the property the code is expected to satisfy: the same statement restricted to scripts all of whose handler bodies
    avoid the exit-repeat configurations of the open findings F23, F24, F25, F126, F138 and the one `repeat while` spelling that is
    byte-identical to a `repeat with` (`C03Supported`, decidable, defined on the
    SOURCE tree in lean/Drx/Spec/Supported.lean). Evaluated, not proved: harness/c03.py checks on every run that on all enumerated
    skeletons (≤ 5 compound constructs) and random programs the real decompiler fails EXACTLY on the unsupported handlers. -/
def C03_partial (decompile : Bytes → Bytes → Option (List Char)) : Prop :=
  ∀ (o : Options) (s : Script) (c : Compiled), (∀ h ∈ s.handlers, C03Supported h.body = true) → compile o s = .ok c →
    ∃ text, decompile c.lscr c.lnam = some text ∧ readLingo text = some s

private def put1 : Stmt := .call "put".toList [.int 1]
private def cnd : Expr := .bin .lt (.var .loc "c".toList) (.int 2)

/-- the minimal witnesses of the four open findings (replayed on the real code from corpus/C03/*.json) are exactly outside
    `Supported`, each in its own class … -/
theorem witnesses_unsupported :
    exitClasses [.repeatWhile cnd [put1, .exitRepeat]] = ["F23"]
    ∧ exitClasses [.repeatWhile cnd [.ifThen cnd [.exitRepeat] [], .ifThen cnd [put1] []]] = ["F24"]
    ∧ exitClasses [.repeatWhile cnd [.ifThen cnd [put1] [.exitRepeat]]] = ["F25"]
    ∧ exitClasses [.repeatWhile cnd [.ifThen cnd [.exitRepeat, put1, put1] []]] = ["F126"] := by decide +kernel

/-- … and so is the tell-block variant of F23 (a tell block is a statement list of its own; control constructs INSIDE it are
    supported since F137 was repaired) -/
theorem witness_tell :
    exitClasses [.repeatWhile cnd [.tell (.call "window".toList [.str "a".toList]) [put1, .exitRepeat]]] = ["F138"]
    ∧ C03Supported [.tell (.call "window".toList [.str "a".toList]) [.ifThen cnd [put1] [put1], .repeatWhile cnd [.ifThen cnd [.exitRepeat] []]]] = true := by
  decide +kernel

/-- … while the shapes the fixtures contain, and exit-free nestings, are supported -/
theorem supported_examples :
    C03Supported [.repeatWhile cnd [.ifThen cnd [put1, .exitRepeat] []], put1] = true
    ∧ C03Supported [.repeatWith (.var .loc "i".toList) (.int 1) (.int 9) false [put1, .ifThen cnd [.exitRepeat] [put1]]] = true
    ∧ C03Supported [.ifThen cnd [.repeatWhile cnd [.repeatIn (.var .loc "v".toList) (.list []) [.ifThen cnd [put1] [put1]]]] []] = true
    ∧ C03Supported [.ifThen cnd [.repeatWhile cnd [.ifThen cnd [.exitRepeat] [], .ifThen cnd [put1] []]] []] = true := by decide +kernel

/-- empty bodies (then-branch, loop bodies) are inside `Supported` (F133: the empty then-branch used to raise IndexError) … -/
theorem supported_empty_bodies :
    C03Supported [.ifThen cnd [] []] = true
    ∧ C03Supported [.ifThen cnd [] [put1], .repeatWhile cnd [], .repeatWith (.var .loc "i".toList) (.int 1) (.int 9) true []] = true
    ∧ C03Supported [.repeatIn (.var .loc "v".toList) (.list []) [.ifThen cnd [] []]] = true := by decide +kernel

/-- … and so are the `repeat while` loops that merely resemble a `repeat with` (step 7: F134, comparison `>`: F135, `v + 1`), but not
    the one spelling that IS a `repeat with` byte for byte -/
theorem withlike_examples :
    let i : Expr := .var .loc "i".toList
    C03Supported [.set i (.int 1), .repeatWhile (.bin .le i (.int 5)) [put1, .set i (.bin .add (.int 7) i)]] = true
    ∧ C03Supported [.set i (.int 1), .repeatWhile (.bin .gt i (.int 5)) [put1, .set i (.bin .add (.int 1) i)]] = true
    ∧ C03Supported [.set i (.int 1), .repeatWhile (.bin .le i (.int 5)) [put1, .set i (.bin .add i (.int 1))]] = true
    ∧ C03Supported [.set i (.int 1), put1, .repeatWhile (.bin .le i (.int 5)) [put1, .set i (.bin .add (.int 1) i)]] = true
    ∧ C03Supported [.set i (.int 1), .repeatWhile (.bin .le i (.int 5)) [put1, .set i (.bin .add (.int 1) i)]] = false
    ∧ C03Supported [.ifThen cnd [.set i (.int 1), .repeatWhile (.bin .le i (.int 5)) [.set i (.bin .add (.int 1) i)]] []] = false := by
  decide +kernel

/-- why that spelling is excluded: a straight-line statement followed by a loop whose body ends in a straight-line statement is
    laid out, in every context, exactly like the loop that carries them as its prologue and increment part — `set v = a` +
    `repeat while v <= b … set v = 1 + v` and `repeat with v = a to b …` are the same bytes (compile is not injective there) -/
theorem withlike_same_layout (init cond incr : List Instr) (body rest : List CStmt) (te : Option Nat) :
    layoutStmts te (.code init :: .loop [] cond [] (body ++ [.code incr]) [] [] :: rest)
      = layoutStmts te (.loop init cond [] body incr [] :: rest) :=
  withLike_same_layout init cond incr body rest te

/-- every jump offset of the layout is computed from sizes: the laid-out code of a statement list has exactly the size the
    scheme assumes (`CStmt.sizes`), for every control skeleton and every `toEnd` -/
theorem layout_size (ss : List CStmt) (te : Option Nat) : codeSize (layoutStmts te ss) = CStmt.sizes ss :=
  layoutStmts_size ss te

/-- … and encoding does not change it -/
theorem layout_encoded_size (ss : List CStmt) (te : Option Nat) : (encodeInstrs (layoutStmts te ss)).length = CStmt.sizes ss := by
  rw [encodeInstrs_length, layoutStmts_size]

/-- 7(d) properly nested jump targets, by induction over the program: in the layout of ANY control skeleton (unbounded depth and
    width) whose straight-line fragments contain no jumps, every forward jump (`93` unconditional, `95` conditional, 2-byte offset
    relative to the opcode's own address) lands either on a statement boundary of the list it belongs to — the start of a
    statement at some nesting level or the end of the list — or, when the list is (part of) a loop body and the jump is an
    `exit repeat`, on the address after that loop's back jump (`o + size + d` for `toEnd = some d`). -/
theorem jump_targets_nested (ss : List CStmt) (te : Option Nat) (o : Nat) (h : CStmt.StraightL ss) :
    ∀ p ∈ fwdJumps (layoutStmts te ss) o, p.2 ∈ bndStmts o ss ∨ ∃ d, te = some d ∧ p.2 = o + CStmt.sizes ss + d :=
  fwd_stmts ss te o h

/-- at the top level of a handler (`toEnd = none`) every forward jump lands on a statement boundary inside the handler -/
theorem jump_targets_nested_top (ss : List CStmt) (o : Nat) (h : CStmt.StraightL ss) :
    ∀ p ∈ fwdJumps (layoutStmts none ss) o, p.2 ∈ bndStmts o ss := by
  intro p hp
  rcases fwd_stmts ss none o h p hp with h1 | ⟨d, hd, _⟩
  · exact h1
  · cases hd

/-- `repeat while c / if d then exit repeat end if / s / end repeat ; s` as a control skeleton -/
def exampleProg : List CStmt :=
  [.loop [] [.op2 0x4c 0] [] [.ifThen [.op2 0x4c 6] [.exitRepeat] [], .code [.op2 0x41 1, .op2 0x42 1, .op2 0x57 0]] [] [],
   .code [.op2 0x41 1, .op2 0x42 1, .op2 0x57 0]]

/-- non-vacuity: the hypothesis holds for it … -/
example : CStmt.StraightL exampleProg := by
  simp [exampleProg, CStmt.StraightL, CStmt.Straight, NoJump, Instr.isJump]

/-- … it has three forward jumps: the loop condition (2 → 21), the inner `if` (7 → 13) and the exit repeat (10 → 21); 21 is the
    address after the back jump (19 → 0), and all targets are statement boundaries -/
example : fwdJumps (layoutStmts none exampleProg) 0 = [(2, 21), (7, 13), (10, 21)]
    ∧ backJumps (layoutStmts none exampleProg) 0 = [(19, 0)]
    ∧ bndStmts 0 exampleProg = [0, 0, 5, 10, 13, 13, 19, 21, 21, 27] := by decide +kernel

end DrxProps.C03
