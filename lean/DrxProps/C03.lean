/-
  C03 — control-flow reconstruction restores the source nesting exactly (spec-layer statements).
-/
import Drx.Spec.Compile
import DrxProofs.SpecCompile
namespace DrxProps.C03
open Drx Drx.Spec

/-- encoded length = sum of instruction sizes: what every jump offset of `layoutStmts` (compileStructured) is computed from -/
theorem encoded_length (is : List Instr) : (encodeInstrs is).length = codeSize is := encodeInstrs_length is

end DrxProps.C03
