/-
  C10, score family (vwsc.py parse_vwsc_file_data / parse_vwsc_data, cparser.py parse_vwsc_channels, vwsc.py vwsc_to_score):
  termination and bounded work on ANY byte string.  Statements only; proofs in DrxProofs/ScoreSteps.lean, VwscSteps.lean.
  The twins (Drx/ScoreSteps.lean) have the control flow of the models of C08/C09 and count *rounds* = executions of the first
  body line of each loop, also in a round that raises; harness/c08.py compares `drx_score stepsum` with the real line counts.
  None of the models or twins uses fuel: Lean accepts `recLoop`/`recWork` only with the proof that a record advances the index.
-/
import Drx.ScoreSteps
import Drx.ScoreSpec
import DrxProofs.ScoreSteps
namespace Drx.C10Score
open Drx Drx.Vwsc Drx.Score Drx.Score.Spec

/-- the record loop `while idx < dataSize` makes at most one round per two input bytes -/
theorem record_loop_bounded (d : Bytes) : (vwscWork d).1.records ≤ d.length / 2 := (vwscWork_bounds d).1

/-- hence at most |d|/2 frames are ever returned -/
theorem frames_bounded (d : Bytes) (frames : List Frame) (h : parseVwsc d = .ok frames) : frames.length ≤ d.length / 2 := by
  have e1 := parseVwscSteps_records_eq d frames h
  have e2 := parseVwscSteps_records_le d
  omega

/-- the delta loop `while channelSize > 0`, summed over all records, makes at most |d| rounds -/
theorem delta_rounds_bounded (d : Bytes) : (vwscWork d).1.deltas ≤ d.length := (vwscWork_bounds d).2.2.1

/-- the byte-copy loop, summed over all deltas of all records, makes at most |d| rounds: every copied byte is a byte of the input -/
theorem copy_work_bounded (d : Bytes) : (vwscWork d).1.copied ≤ d.length := (vwscWork_bounds d).2.1

/-- the one allocation `bytearray(channel_count * frame_size)` is bounded by the header words *after* validation (F36): at most
    24 bytes per declared channel, at most 32767 channels, for any input whatsoever -/
theorem alloc_bounded (d : Bytes) :
    (vwscWork d).2.1 ≤ 24 * (vwscWork d).2.2 ∧ (vwscWork d).2.2 ≤ 32767 ∧ (vwscWork d).2.1 ≤ 32767 * 24 := by
  obtain ⟨_, _, _, _, _, h6, h7⟩ := vwscWork_bounds d
  exact ⟨h6, h7, by omega⟩

/-- parse_vwsc_channels is called at most once per record, and each call makes at most one sprite-loop round per declared
    channel: the channel parses are bounded by frames × channel_count, the output size the input legitimately declares -/
theorem channel_parses_bounded (d : Bytes) :
    (vwscWork d).1.parses ≤ (vwscWork d).1.records ∧ (vwscWork d).1.sprites ≤ (vwscWork d).1.parses * (vwscWork d).2.2 :=
  ⟨(vwscWork_bounds d).2.2.2.1, (vwscWork_bounds d).2.2.2.2.1⟩

/-- every decoded frame has at most the declared number of channels -/
theorem decoded_channels_bounded (d : Bytes) (frames : List Frame) (h : parseVwsc d = .ok frames) :
    channelsOf frames ≤ (vwscWork d).2.2 := parseVwsc_channels_le d frames h

/-- vwsc_to_score on ANY frame table: channel-list initialisation = channels rounds, first pass = frames rounds, second pass
    ≤ frames outer rounds and ≤ frames × channels inner rounds -/
theorem to_score_rounds_bounded (frames : List Frame) :
    (toScoreWork frames).init = channelsOf frames ∧ (toScoreWork frames).pass1 = frames.length ∧
    (toScoreWork frames).pass2 ≤ frames.length ∧ (toScoreWork frames).cells ≤ frames.length * channelsOf frames :=
  toScoreWork_bounds frames

/-- the twin of the file-level entry point locates the same data block as the model of parse_vwsc_file_data -/
theorem file_parse_is_locate_then_parse (fdata : Bytes) : parseVwscFile fdata = (locateData fdata).bind parseVwsc :=
  parseVwscFile_eq_locate fdata

/-- **whole pipeline** `vwsc_to_score(parse_vwsc_file_data(d))` on any bytes: the total of all loop rounds (as counted by
    `drx_score stepsum`) is at most `4·|d| + (2·|d| + 1)·channels`, channels = the validated 16-bit header word -/
theorem pipeline_rounds_bounded (fdata : Bytes) :
    pipelineRounds fdata ≤ 4 * fdata.length + (2 * fdata.length + 1) * declaredChannels fdata :=
  pipelineRounds_le fdata

/- The theorems above have no hypotheses (they hold for every byte string), so there is nothing to instantiate; a concrete value:
   `drx_score` answers `score stepsum 000000160000001400000001000000140003000000 02` (one `same` record, 3 channels) with 7
   = 1 record round + 1 sprite round + 1 (init) + 1 (pass 1) + 1 + 1 (pass 2, see `ScoreWork.lineHits`) + 1 (cell). -/

end Drx.C10Score
