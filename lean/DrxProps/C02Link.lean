/-
  C02 with the decompiler instantiated by the MODEL (lean/Drx/Lscr*): the link between the spec layer (compile scheme,
  reference printer / reader; lean/Drx/Spec*) and the model of drxtract/lingosrc, on an explicit fragment of source programs.

  Chain (each arrow a theorem of its own, lemmas in lean/DrxProofs/Link*.lean):

     s ──compile──▶ (Lscr bytes, Lnam bytes) ──model parse (L5 container, L1m opcode decoding, L2 stack lemma, L3 statements,
     L4 flow passes)──▶ model tree ──model generate_lingo (L6m)──▶ text `mText s` ──reference lexer──▶ tokens `dToks s`
     = the reference printer's tokens in the decompiler's layout

  `FragScript s` (lean/Drx/Link.lean, decidable): plain scripts (no factory), `property` / `global` declarations at script level,
  any number of `on` handlers with any number of parameters; bodies = any number of
    * `set <local|parameter|global|property> = e`
    * command calls `f` / `f a, b, …` of handlers of the same script (opcode 56) or external commands (57), names ≠ sound / go
      (incl. the message-window command `put a, b`); `sound <word> a, b` (first argument a symbol, printed bare) and
      `go loop | next | previous`
    * `exit`
    * `put e into|after|before <target>` (59 xx for a bare `field x` / local variable — `into` a variable is written `set` —,
      5a xx with the eight chunk slots for `char 1 of word 2 of <field x | local | global>`), `delete <chunk of field x | local | global>`
      (5b xx), `hilite <field x | chunk of field x>` (18); the chunk chain of a target must be strictly coarser outwards (the scheme's
      single-slice form; anything else does not compile)
    * object method calls as command `obj mSel, a, b` and (in any expression) as function `obj(mSel, a, b)`, any number of
      arguments incl. none (`<#mSel>; args; 42|43 n+1; <receiver ref>; 58 k`: receiver a local (k = 5) / parameter (k = 4) by record
      offset, a global (k = 3) by `46 n`; receiver names ≠ sound / go)
  with `e` built, nested without bound, from: integer literals 0 … 2^31-1 (all four encodings: 03, 41 n, 81 hi lo, pool constant),
  string constants (non-empty, printable ASCII without quote / backslash — the rest is property C11), symbols `#x`, variables of
  the four kinds, unary minus / not, the binary operators except `starts` (finding F40), `field e`, function calls `f(a, …)` with
  at least one argument (F125: a zero-argument call prints as the bare name; names ≠ sound / go; a LIST_FUNCTIONS name must not
  have a symbol as first argument: gv_as_sym prints it without `#`), linear lists `[a, b, …]` incl. `[]`.
  `-` is not applied directly to another `-` (the repaired form of F21 prints `-(-x)`, which is a different token list than the
  reference printer's `- - x`).  Globals may be declared at script level or be handler-level ones (the handler's own table;
  printed as sorted `global g` lines); properties are the script's declared ones.
  Expressions also include the object-less `the` forms: `the <key name>` (43 0; 66 n), `the <movie property>` (5f n),
  `the <system property>` (k; 5c 07), `the floatPrecision … the timeoutScript` (k; 5c 00); `the <p> of sprite|cast|sound n`
  (n; k; 5c 06/09/04/0d; n a literal, plain string or variable — else F20); `the <p> of <obj>` (obj; 61 n; obj not a variable
  called `me`; F142 repaired); chunk expressions `char|word|item|line a [to b] of d` (opcode 17; chains of strictly coarser chunks
  = one slice instruction with several slots, any other nesting = several instructions); `the number of <chunk>s of e` (5c 01), `the last <chunk> of e` (5c 00, k = 11 + rank),
  `the <p> of field e` (5c 0b; reading only: the assignment 5d 0b is F38); property lists `[k: v, …]`, `[:]` (1f).  Assignment targets: the four variable kinds, `set the <p> of sprite|cast|sound n`
  (5d 06/09/04/0d), `set the <system property>` (5d 07), `set the floatPrecision …` (5d 00), `set the <p> of <obj>` (62 n),
  `set the <movie property> = v` (60 n; since the repair of F150 also when the script declares a property of that name).

  WHOLE SCRIPTS (`T_link_all`, `T_C02_all`): `FragScriptM` (DrxProofs/LinkMixed.lean) — every handler is either flat (`FragH`) or
  structured (`FragHS`).

  STRUCTURED bodies (`T_link_structured`, `T_C02_structured`): `if … then … [else …] end if`, `repeat while c`,
  `repeat with <local> = a [down] to b`, `repeat with <local> in <list expression>`, nested to any depth, over the same simple statements / expressions.  Fragment =
  `FragScriptT s` (agent-link-flow's byte-level fragment, DrxProofs/LinkFlow2Link.lean; every expression form of `FragE` anywhere
  since `FragE0 := FragE`) ∧ `FragScriptX s` (text level, Drx/Link.lean).  The decompiler strips the outer parentheses of an infix
  `repeat while` condition: `dToks` / `ReadOkB` are stated for those tokens (`prSW`), and the reader theorem for them is
  `rp_scriptW` (DrxProofs/LinkWhile.lean).
-/
import Drx.Link
import DrxProofs.LinkParse
import DrxProofs.LinkLexText
import DrxProofs.LinkRead
import DrxProofs.LinkTextT
import DrxProofs.LinkMixed
namespace DrxProps.C02Link
open Drx Drx.Spec Drx.Link Drx.LinkFlow

/-- side conditions on the compiled name table (it contains the caller's arbitrary prefix `o.pre`): the model decodes the
    chunk with mac_roman and reads a signed 16-bit count -/
def NamesOk (c : Compiled) : Prop := (∀ n ∈ c.names, asciiName n = true) ∧ c.names.length < 32768

/-- **L1m** the model's opcode walker on encoded instructions is the decoded-instruction machine -/
theorem L1m_opcode_loop (ctx : Lscr.Ctx) (d : Bytes) (bcOff bcLen : Nat) (is : List Instr) (a : Nat) (regs : Lscr.Regs)
    (st st' : Lscr.PState) (hg : ∀ i ∈ is, i.WF ∧ i.opc ≠ 153) (hc : CodeAt d a (encodeInstrs is)) (h1 : bcOff ≤ a)
    (h2 : a + codeSize is ≤ bcOff + bcLen) (hr : runIs ctx a is st = .ok st') :
    ∃ regs', Lscr.opcodeLoop ctx d bcOff bcLen (a : Int) regs st
      = Lscr.opcodeLoop ctx d bcOff bcLen ((a + codeSize is : Nat) : Int) regs' st' :=
  opcodeLoop_run ctx d bcOff bcLen is a regs st st' (fun i hi => good_of_wf i (hg i hi).1 (hg i hi).2) hc h1 h2 hr

/-- the opcode → class table facts behind L1m / L2 (regenerated table `Drx/Gen/Opcodes.lean`): every opcode except 0x99 is
    registered with the instruction length of its range and a class reading exactly the operand bytes the walker stores;
    the scheme's operator opcodes are the binary / unary operation classes with the operator's enum value -/
theorem L1m_table : (∀ b, b < 256 → b ≠ 153 → tabOk b = true) ∧
    (∀ o : BinOp, ∃ info, Drx.Gen.Opcodes.opcodes.lookup o.code = some info ∧ info.impl = "BinaryOperationOpcode" ∧
      Lscr.attr info "opname" = .ok (binName o)) ∧
    (∀ o : UnOp, ∃ info, Drx.Gen.Opcodes.opcodes.lookup o.code = some info ∧ info.impl = "UnaryOperationOpcode" ∧
      Lscr.attr info "opname" = .ok (unName o)) :=
  ⟨tabOk_all, binop_table, unop_table⟩

/-- **L2, the stack lemma** (see `Drx.Link.stack_lemma` for the statement with the lowering monad spelled out) -/
theorem L2_stack_lemma (e : Expr) (hf : FragE e = true) (c : Spec.Ctx) (s0 s1 : St) (code : List Instr)
    (h : lowerExpr c e s0 = .ok (code, s1)) (sF : St) (ctx : Lscr.Ctx) (hF : Ext s1 sF) (hrel : Rel c sF ctx)
    (G : List Spec.Name) (hG : ∀ g ∈ e.vars .glob, g ∈ G) (a : Nat) (st : Lscr.PState) (hb : st.bpc = 6) (hgv : GvOk G st.gvars) :
    ∃ n gv', EmbH c.handlers e n ∧ GvNext G st.gvars gv' ∧ runIs ctx a code st = .ok { st with stack := n :: st.stack, gvars := gv' } :=
  (stack_lemma e hf c s0 s1 code h).2.2 sF ctx hF hrel G hG a st hb hgv

/-- **L5 ∘ L1m ∘ L2 ∘ L3 ∘ L4**: bytes → tree -/
theorem L5_parse (o : Options) (s : Script) (c : Compiled) (hf : FragScript s = true) (hc : compile o s = .ok c) (hn : NamesOk c) :
    ∃ t, Lscr.parseScript c.lscr c.lnam = .ok t ∧ ScriptRel s t ∧ t.scrNum = toSigned 16 (o.scrNum % 65536) :=
  parse_link o s c hf hc hn.1 hn.2

/-- **L6m**: tree → text -/
theorem L6m_text (s : Script) (t : Lscr.Script) (hf : FragScript s = true) (hr : ScriptRel s t) : Lscr.lingoText t = .ok (mText s) := by
  obtain ⟨_, _, _, hH⟩ := fragScript_spec s hf
  exact lingoText_rel s t hr (fun h hh => ⟨(hH h hh).1, (hH h hh).2.2.1⟩)

/-- **T-link**: on the fragment, the model decompiles what the scheme compiles to the text `mText s`, and that text lexes to
    the reference printer's tokens in the decompiler's layout -/
theorem T_link (o : Options) (s : Script) (c : Compiled) (hf : FragScript s = true) (hc : compile o s = .ok c) (hn : NamesOk c) :
    modelDecompile c.lscr c.lnam = some (mText s) ∧ lex (mText s) = some (dToks s) := by
  obtain ⟨t, hp, hr, _⟩ := L5_parse o s c hf hc hn
  have ht := L6m_text s t hf hr
  refine ⟨?_, lex_mText s hf⟩
  simp only [modelDecompile, hp, Lscr.genLingo, ht]

/-- **T-C02 on the fragment**: the text the model decompiles from the compiled chunks reads back (reference lexer + reference
    reader, agent-lspec's `rp_script`) as the source script.  `ReadOkB s` is the reader-side condition (decidable): identifiers
    are not words of the grammar and the reader's environment classifies them as the tree does. -/
theorem T_C02 (o : Options) (s : Script) (c : Compiled) (hf : FragScript s = true) (hr : ReadOkB s = true)
    (hc : compile o s = .ok c) (hn : NamesOk c) :
    ∃ text, modelDecompile c.lscr c.lnam = some text ∧ readLingo text = some s := by
  obtain ⟨h1, h2⟩ := T_link o s c hf hc hn
  refine ⟨mText s, h1, ?_⟩
  simp only [readLingo, h2, Option.bind_some]
  exact read_dToks s hf hr

/-- the first two clauses of `DrxProps.C02.C02_full` for the model, restricted to the fragment -/
theorem C02_model_partial (o : Options) (s : Script) (c : Compiled) (hf : FragScript s = true) (hr : ReadOkB s = true)
    (hn : NamesOk c) (hc : compile o s = .ok c) :
    ∃ text, modelDecompile c.lscr c.lnam = some text ∧ readLingo text = some s :=
  T_C02 o s c hf hr hc hn

/-! ### structured bodies: if / repeat while / repeat with, nested -/

/-- **L6m for nested trees**: the image of a structured body (agent-link-flow's `EmbTs`) prints `mSs` -/
theorem L6m_structured (ss : List Stmt) (hf : FragXs ss = true) (ns : List Lscr.Node) (h : EmbTs ss ns) (ind : Nat) :
    Lscr.lingoStmts ns ind = .ok (mSs ind ss) :=
  lingo_trees ss hf ns h ind

/-- **T-link, structured**: bytes (agent-link-flow's `parse_structured`: container, opcode walker, stack machine, the three jump
    opcodes, `condition_detect`, `loop_detect`) → nested tree → text `mText s` → reference tokens.
    `FragScriptT` is the byte-level fragment (DrxProofs/LinkFlow2Link.lean), `FragScriptX` the text-level one (Drx/Link.lean):
    the same statement forms (the decompiler's text of a `repeat while` condition without the outer parentheses of an infix
    operation is part of `mText` / `dToks`). -/
theorem T_link_structured (o : Options) (s : Script) (c : Compiled) (hf : FragScriptT s = true) (hx : FragScriptX s = true)
    (hc : compile o s = .ok c) (hn : NamesOk c) :
    modelDecompile c.lscr c.lnam = some (mText s) ∧ lex (mText s) = some (dToks s) := by
  obtain ⟨t, hp, hr⟩ := parse_structured o s c hf hc hn.1 hn.2
  have hH : ∀ h ∈ s.handlers, FragXs h.body = true ∧ ∀ v ∈ h.params, idOk v = true := by
    intro h hh
    simp only [FragScriptX, Bool.and_eq_true, List.all_eq_true] at hx
    obtain ⟨_, _, b, c, _, _⟩ := fragHX_spec s h (hx.2 h hh)
    exact ⟨c, b⟩
  have ht := lingoText_structured s t hr hH
  refine ⟨?_, lex_mText_structured s hx⟩
  simp only [modelDecompile, hp, Lscr.genLingo, ht]

/-- **T-C02, structured**: the decompiled text of a compiled structured program reads back as the source -/
theorem T_C02_structured (o : Options) (s : Script) (c : Compiled) (hf : FragScriptT s = true) (hx : FragScriptX s = true)
    (hr : ReadOkB s = true) (hc : compile o s = .ok c) (hn : NamesOk c) :
    ∃ text, modelDecompile c.lscr c.lnam = some text ∧ readLingo text = some s := by
  obtain ⟨h1, h2⟩ := T_link_structured o s c hf hx hc hn
  refine ⟨mText s, h1, ?_⟩
  simp only [readLingo, h2, Option.bind_some]
  exact read_dToks_structured s hx hr

/-! ### one theorem for whole scripts: every handler flat (`FragH`) or structured (`FragHS`) -/

/-- **T-link, all**: `FragScriptM s` (DrxProofs/LinkMixed.lean, decidable) = plain script whose handlers are each either a flat
    handler of `FragScript` (every expression form of `FragE` anywhere) or a structured handler (`FragTs`, `okAmbs`, `FragHX`) -/
theorem T_link_all (o : Options) (s : Script) (c : Compiled) (hf : FragScriptM s = true) (hc : compile o s = .ok c) (hn : NamesOk c) :
    modelDecompile c.lscr c.lnam = some (mText s) ∧ lex (mText s) = some (dToks s) := by
  obtain ⟨t, hp, hr⟩ := parse_mixed o s c hf hc hn.1 hn.2
  obtain ⟨_, _, _, hH⟩ := fragScriptM_spec s hf
  have hHX : ∀ h ∈ s.handlers, FragXs h.body = true ∧ ∀ v ∈ h.params, idOk v = true := by
    intro h hh
    obtain ⟨_, _, b, c, _, _, _⟩ := fragHM_spec s h (hH h hh)
    exact ⟨c, b⟩
  have ht := lingoText_structured s t hr hHX
  refine ⟨?_, lex_mText_mixed s hf⟩
  simp only [modelDecompile, hp, Lscr.genLingo, ht]

/-- **T-C02, all** (subsumes `T_C02` and `T_C02_structured`) -/
theorem T_C02_all (o : Options) (s : Script) (c : Compiled) (hf : FragScriptM s = true) (hr : ReadOkB s = true)
    (hc : compile o s = .ok c) (hn : NamesOk c) :
    ∃ text, modelDecompile c.lscr c.lnam = some text ∧ readLingo text = some s := by
  obtain ⟨h1, h2⟩ := T_link_all o s c hf hc hn
  refine ⟨mText s, h1, ?_⟩
  simp only [readLingo, h2, Option.bind_some]
  exact read_dToks_mixed s hf hr

/-- the flat fragment is part of the mixed one -/
theorem fragScript_mixed (s : Script) (hf : FragScript s = true) : FragScriptM s = true := by
  simp only [FragScript, Bool.and_eq_true, List.all_eq_true] at hf
  simp only [FragScriptM, Bool.and_eq_true, List.all_eq_true]
  exact ⟨hf.1, fun h hh => by simp [FragHM, hf.2 h hh]⟩

/-! ### non-vacuity: a two-handler script with nested expressions, parameters, locals, a global and a property -/

def exScript : Script :=
  { factory := [], props := ["score".toList], globals := ["gTotal".toList],
    handlers := [
      { name := "startUp".toList, params := ["a".toList, "b".toList], isMethod := false,
        body := [ .set (.var .loc "x".toList) (.bin .mul (.bin .sub (.var .param "a".toList) (.bin .sub (.var .glob "gTotal".toList) (.int 1)))
                      (.un .neg (.bin .add (.var .param "b".toList) (.int 70000)))),
                  .set (.var .prop "score".toList) (.un .not (.bin .le (.var .loc "x".toList) (.int 300))),
                  .set (.var .glob "gTotal".toList) (.bin .within (.int 1) (.bin .add (.var .loc "x".toList) (.int 2))) ] },
      { name := "finish".toList, params := [], isMethod := false,
        body := [ .set (.var .loc "y".toList) (.bin .concat (.var .prop "score".toList) (.bin .mod (.int 0) (.int 129))),
                  .set (.var .loc "z".toList) (.call "max".toList [.field (.int 3), .list [.int 1, .var .loc "y".toList, .list []]]),
                  .call "startUp".toList [.var .loc "z".toList, .call "startUp".toList [.int 1, .int 2]],
                  .call "alert".toList [.str "Hi there!".toList, .sym "warn".toList, .bin .concats (.str "a".toList) (.var .loc "z".toList)],
                  .set (.var .glob "zLast".toList) (.bin .add (.var .glob "counter".toList) (.var .glob "gTotal".toList)),
                  .set (.var .loc "w".toList) (.bin .add (.key "mouseH".toList) (.bin .add (.the .sys 0x1b [])
                      (.bin .add (.the .special 0 []) (.movie "frameLabel".toList)))),
                  .set (.var .loc "q".toList) (.list [.the .sprite 13 [.int 3], .the .cast 1 [.var .loc "z".toList], .the .sound 1 [.int 2],
                      .the .video 13 [.str "clip".toList]]),
                  .set (.the .sprite 13 [.var .loc "z".toList]) (.bin .add (.the .sprite 13 [.var .loc "z".toList]) (.int 5)),
                  .set (.the .cast 2 [.str "title".toList]) (.str "Done".toList),
                  .set (.the .sys 0x1b []) (.int 255),
                  .set (.the .special 0 []) (.int 4),
                  .set (.oprop "width".toList (.var .loc "q".toList)) (.bin .mul (.oprop "height".toList (.call "rect".toList [.var .loc "z".toList])) (.int 2)),
                  .set (.var .loc "t".toList) (.bin .concat (.chunk .char (.int 1) (.int 0) (.var .loc "y".toList))
                      (.chunk .word (.bin .add (.var .loc "z".toList) (.int 1)) (.int 3) (.chunk .char (.int 2) (.int 9) (.field (.int 3))))),
                  .set (.var .loc "t".toList) (.chunk .line (.int 2) (.int 0) (.chunk .item (.int 1) (.int 2) (.var .loc "t".toList))),
                  .set (.var .loc "t".toList) (.bin .add (.the .numChunks 2 [.var .loc "t".toList]) (.the .special 12 [.chunk .line (.int 1) (.int 0) (.var .loc "t".toList)])),
                  .set (.var .loc "t".toList) (.chunk .char (.int 1) (.int 0) (.chunk .word (.int 2) (.int 3) (.chunk .line (.var .loc "z".toList) (.int 0) (.var .loc "t".toList)))),
                  .set (.var .loc "t".toList) (.bin .concat (.the .field 2 [.str "status".toList]) (.the .field 1 [.bin .add (.var .loc "z".toList) (.int 1)])),
                  .set (.var .loc "pl".toList) (.plist [.sym "h".toList, .bin .add (.var .loc "z".toList) (.int 1), .str "w".toList, .plist [], .sym "n".toList, .plist [.int 1, .list [.int 2]]]),
                  .call "beep".toList [],
                  .exit ] } ] }

example : FragScript exScript = true := by decide +kernel

example : ReadOkB exScript = true := by decide +kernel

example : ∃ c, compile {} exScript = .ok c ∧ NamesOk c := by
  have h : (match compile {} exScript with
      | .ok c => decide ((∀ n ∈ c.names, asciiName n = true) ∧ c.names.length < 32768)
      | .error _ => false) = true := by decide +kernel
  cases hc : compile {} exScript with
  | error e => rw [hc] at h; cases h
  | ok c => rw [hc] at h; exact ⟨c, rfl, by simpa [NamesOk] using h⟩

/-- the text the theorem predicts for the example (also the output of the real decompiler on the compiled chunks) -/
example : String.ofList (mText exScript) =
    "property score\nglobal gTotal\n\non startUp a, b\n    set x = ((a - (gTotal - 1)) * -(b + 70000))\n    set score = not (x <= 300)\n    set gTotal = sprite 1 within (x + 2)\nend\n\non finish\n    global counter\n    global zLast\n\n    set y = (score & (0 mod 129))\n    set z = max(field 3, [1, y, []])\n    startUp z, startUp(1, 2)\n    alert \"Hi there!\", #warn, (\"a\" && z)\n    set zLast = (counter + gTotal)\n    set w = (the mouseH + (the stageColor + (the floatPrecision + the frameLabel)))\n    set q = [the locH of sprite 3, the name of cast z, the volume of sound 2, the duration of cast \"clip\"]\n    set the locH of sprite z = (the locH of sprite z + 5)\n    set the text of cast \"title\" = \"Done\"\n    set the stageColor = 255\n    set the floatPrecision = 4\n    set the width of q = (the height of rect(z) * 2)\n    set t = (char 1 of y & word (z + 1) to 3 of char 2 to 9 of field 3)\n    set t = line 2 of item 1 to 2 of t\n    set t = (the number of words of t + the last char of line 1 of t)\n    set t = char 1 of word 2 to 3 of line z of t\n    set t = (the text of field \"status\" & the name of field (z + 1))\n    set pl = [#h: (z + 1), \"w\": [:], #n: [1: [2]]]\n    beep\n    exit\nend\n" := by
  decide +kernel

/-! ### non-vacuity: `put` / `delete` / `hilite` with every target shape, object method calls with every receiver kind -/

/-- `on edit t, z / set y = t / put "!" after y / put (z + 1) into field 3 / … / end` and `on calls a, b / … / end` -/
def exPut : Script :=
  { factory := [], props := ["traceLoad".toList], globals := ["gTotal".toList],
    handlers := [
      { name := "edit".toList, params := ["s".toList, "z".toList], isMethod := false,
        body := [ .set (.var .loc "t".toList) (.var .param "s".toList),
                  .put .after (.str "!".toList) (.var .loc "t".toList),
                  .put .into (.bin .add (.var .param "z".toList) (.int 1)) (.field (.int 3)),
                  .put .before (.var .loc "t".toList) (.field (.str "status".toList)),
                  .put .into (.str "ab".toList) (.chunk .char (.int 1) (.int 0) (.chunk .word (.int 2) (.int 0) (.field (.str "status".toList)))),
                  .put .after (.var .param "z".toList) (.chunk .line (.int 2) (.int 3) (.var .loc "t".toList)),
                  .delete (.chunk .word (.var .param "z".toList) (.int 0) (.var .loc "t".toList)),
                  .delete (.chunk .char (.int 1) (.int 4) (.chunk .item (.int 2) (.int 0) (.chunk .line (.int 1) (.int 0) (.field (.int 3))))),
                  .hilite (.field (.str "status".toList)),
                  .hilite (.chunk .word (.int 2) (.int 0) (.field (.bin .add (.var .param "z".toList) (.int 1)))),
                  .put .into (.str "x".toList) (.chunk .char (.int 1) (.int 0) (.chunk .line (.var .param "z".toList) (.int 0) (.var .glob "gTotal".toList))),
                  .delete (.chunk .word (.int 2) (.int 0) (.var .glob "gLog".toList)),
                  .call "put".toList [.var .loc "t".toList, .bin .add (.var .param "z".toList) (.int 1)] ] },
      { name := "calls".toList, params := ["a".toList, "b".toList], isMethod := false,
        body := [ .set (.var .loc "x".toList) (.var .param "b".toList),
                  .mcall (.var .param "a".toList) "mStore".toList [.var .loc "x".toList, .int 2],
                  .set (.var .loc "r".toList) (.bin .add (.mcall (.var .glob "gTotal".toList) "mGet".toList [])
                      (.mcall (.var .loc "x".toList) "mAt".toList [.var .param "b".toList, .mcall (.var .param "a".toList) "mTop".toList [.int 1]])),
                  .mcall (.var .loc "r".toList) "mDispose".toList [],
                  .call "sound".toList [.sym "playFile".toList, .int 1, .str "beep".toList],
                  .call "sound".toList [.sym "close".toList],
                  .call "go".toList [.sym "loop".toList],
                  .set (.movie "traceLoad".toList) (.var .param "b".toList),
                  .set (.var .prop "traceLoad".toList) (.movie "traceLoad".toList),
                  .set (.movie "itemDelimiter".toList) (.str ",".toList) ] } ] }

example : FragScript exPut = true := by decide +kernel

example : ReadOkB exPut = true := by decide +kernel

example : ∃ c, compile {} exPut = .ok c ∧ NamesOk c := by
  have h : (match compile {} exPut with
      | .ok c => decide ((∀ n ∈ c.names, asciiName n = true) ∧ c.names.length < 32768)
      | .error _ => false) = true := by decide +kernel
  cases hc : compile {} exPut with
  | error e => rw [hc] at h; cases h
  | ok c => rw [hc] at h; exact ⟨c, rfl, by simpa [NamesOk] using h⟩

/-- the text the theorem predicts (also the output of the real decompiler on the compiled chunks) -/
example : String.ofList (mText exPut) =
    "property traceLoad\nglobal gTotal\n\non edit s, z\n    global gLog\n\n    set t = s\n    put \"!\" after t\n    put (z + 1) into field 3\n    put t before field \"status\"\n    put \"ab\" into char 1 of word 2 of field \"status\"\n    put z after line 2 to 3 of t\n    delete word z of t\n    delete char 1 to 4 of item 2 of line 1 of field 3\n    hilite field \"status\"\n    hilite word 2 of field (z + 1)\n    put \"x\" into char 1 of line z of gTotal\n    delete word 2 of gLog\n    put t, (z + 1)\nend\n\non calls a, b\n    set x = b\n    a mStore, x, 2\n    set r = (gTotal(mGet) + x(mAt, b, a(mTop, 1)))\n    r mDispose\n    sound playFile 1, \"beep\"\n    sound close \n    go loop\n    set the traceLoad = b\n    set traceLoad = the traceLoad\n    set the itemDelimiter = \",\"\nend\n" := by
  decide +kernel

/-! ### non-vacuity, structured -/

/-- `on go n / set x = 1 / repeat while not (x >= n) / if (x = 3) then / repeat with i = 1 to 9 / show i / end repeat / else /
    set x = (x + 2) / end if / show x / end repeat / repeat with j = (n * 2) down to 1 / if the mouseDown then / exit / end if /
    end repeat / end` -/
def exStructured : Script :=
  { factory := [], props := [], globals := [],
    handlers := [
      { name := "go".toList, params := ["n".toList], isMethod := false,
        body := [
          .set (.var .loc "x".toList) (.int 1),
          .repeatWhile (.un .not (.bin .ge (.var .loc "x".toList) (.var .param "n".toList))) [
            .ifThen (.bin .eq (.var .loc "x".toList) (.int 3))
              [ .repeatWith (.var .loc "i".toList) (.int 1) (.int 9) false [ .call "show".toList [.var .loc "i".toList] ] ]
              [ .set (.var .loc "x".toList) (.bin .add (.var .loc "x".toList) (.int 2)) ],
            .call "show".toList [.var .loc "x".toList] ],
          .repeatWith (.var .loc "j".toList) (.bin .mul (.var .param "n".toList) (.int 2)) (.int 1) true [
            .ifThen (.key "mouseDown".toList) [ .exit ] [] ],
          .repeatWhile (.key "stillDown".toList) [
            .set (.the .sprite 13 [.int 3]) (.bin .sub (.key "mouseH".toList) (.the .numChunks 1 [.the .field 2 [.str "note".toList]])),
            .set (.var .loc "x".toList) (.chunk .word (.int 1) (.int 0) (.oprop "title".toList (.var .loc "x".toList))),
            .delete (.chunk .char (.int 1) (.int 0) (.var .loc "x".toList)),
            .ifThen (.bin .eq (.var .loc "x".toList) (.str "q".toList))
              [ .put .before (.var .loc "x".toList) (.chunk .word (.int 1) (.int 0) (.chunk .line (.var .param "n".toList) (.int 0) (.field (.str "note".toList)))) ] [] ],
          .repeatWhile (.bin .and (.bin .lt (.var .loc "x".toList) (.bin .mul (.var .param "n".toList) (.int 2))) (.un .not (.key "mouseDown".toList))) [
            .set (.var .loc "x".toList) (.bin .add (.var .loc "x".toList) (.int 1)) ],
          .set (.var .loc "x".toList) (.int 0),
          .repeatIn (.var .loc "w".toList) (.list [.int 4, .var .param "n".toList, .call "max".toList [.var .loc "x".toList, .int 2]]) [
            .ifThen (.bin .gt (.var .loc "w".toList) (.int 3)) [ .call "show".toList [.var .loc "w".toList] ] [],
            .set (.var .loc "x".toList) (.bin .add (.int 1) (.var .loc "x".toList)) ] ] } ] }

example : FragScriptT exStructured = true := by decide +kernel
example : FragScriptX exStructured = true := by decide +kernel
example : ReadOkB exStructured = true := by decide +kernel

example : ∃ c, compile {} exStructured = .ok c ∧ NamesOk c := by
  have h : (match compile {} exStructured with
      | .ok c => decide ((∀ n ∈ c.names, asciiName n = true) ∧ c.names.length < 32768)
      | .error _ => false) = true := by decide +kernel
  cases hc : compile {} exStructured with
  | error e => rw [hc] at h; cases h
  | ok c => rw [hc] at h; exact ⟨c, rfl, by simpa [NamesOk] using h⟩

example : String.ofList (mText exStructured) =
    "on go n\n    set x = 1\n    repeat while not (x >= n)\n        if (x = 3) then\n            repeat with i = 1 to 9\n                show i\n            end repeat\n        else\n            set x = (x + 2)\n        end if\n        show x\n    end repeat\n    repeat with j = (n * 2) down to 1\n        if the mouseDown then\n            exit\n        end if\n    end repeat\n    repeat while the stillDown\n        set the locH of sprite 3 = (the mouseH - the number of chars of the text of field \"note\")\n        set x = word 1 of the title of x\n        delete char 1 of x\n        if (x = \"q\") then\n            put x before word 1 of line n of field \"note\"\n        end if\n    end repeat\n    repeat while (x < (n * 2)) and not the mouseDown\n        set x = (x + 1)\n    end repeat\n    set x = 0\n    repeat with w in [4, n, max(x, 2)]\n        if (w > 3) then\n            show w\n        end if\n        set x = (1 + x)\n    end repeat\nend\n" := by
  decide +kernel

/-- a flat handler with `the` forms in assignments next to a structured handler -/
def exMixed : Script :=
  { factory := [], props := [], globals := ["gScore".toList],
    handlers := [
      { name := "mouseUp".toList, params := [], isMethod := false,
        body := [ .set (.var .loc "h".toList) (.key "mouseH".toList),
                  .set (.the .sprite 13 [.int 5]) (.bin .sub (.var .loc "h".toList) (.int 16)),
                  .put .into (.var .loc "h".toList) (.field (.str "out".toList)),
                  .call "count".toList [.var .loc "h".toList] ] },
      { name := "count".toList, params := ["n".toList], isMethod := false,
        body := [ .repeatWith (.var .loc "i".toList) (.int 1) (.var .param "n".toList) false [
                    .ifThen (.bin .gt (.the .sprite 13 [.var .loc "i".toList]) (.int 300))
                      [ .set (.var .glob "gScore".toList) (.bin .add (.var .glob "gScore".toList) (.int 1)),
                        .put .after (.var .glob "gScore".toList) (.chunk .line (.var .loc "i".toList) (.int 0) (.field (.str "log".toList))) ]
                      [ .hilite (.chunk .line (.var .loc "i".toList) (.int 0) (.field (.str "log".toList))),
                        .mcall (.var .param "n".toList) "mTick".toList [.var .loc "i".toList, .mcall (.var .glob "gScore".toList) "mPeek".toList []] ] ] ] } ] }

example : FragScriptM exMixed = true := by decide +kernel
example : FragScript exMixed = false := by decide +kernel
example : ReadOkB exMixed = true := by decide +kernel

example : ∃ c, compile {} exMixed = .ok c ∧ NamesOk c := by
  have h : (match compile {} exMixed with
      | .ok c => decide ((∀ n ∈ c.names, asciiName n = true) ∧ c.names.length < 32768)
      | .error _ => false) = true := by decide +kernel
  cases hc : compile {} exMixed with
  | error e => rw [hc] at h; cases h
  | ok c => rw [hc] at h; exact ⟨c, rfl, by simpa [NamesOk] using h⟩

example : String.ofList (mText exMixed) =
    "global gScore\n\non mouseUp\n    set h = the mouseH\n    set the locH of sprite 5 = (h - 16)\n    put h into field \"out\"\n    count h\nend\n\non count n\n    repeat with i = 1 to n\n        if (the locH of sprite i > 300) then\n            set gScore = (gScore + 1)\n            put gScore after line i of field \"log\"\n        else\n            hilite line i of field \"log\"\n            n mTick, i, gScore(mPeek)\n        end if\n    end repeat\nend\n" := by
  decide +kernel

end DrxProps.C02Link
