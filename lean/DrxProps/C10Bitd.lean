/-
  C10 (termination and bounded work), bitmap decoders.

  Termination: every loop of the model (lean/Drx/Bitd.lean) is defined by structural or well-founded recursion without
  fuel — `loop8`, `loop1`, `loop16`, `loop24` recurse on the not yet consumed input, the termination lemmas
  `paintLit8_len … paintLit24_len` say every operation consumes at least its header byte.
  Bounded work: `bitd2bmpSteps c` (lean/Drx/BitdSteps.lean) counts the rounds of every Python-level loop of one
  `bitd2bmp` call; the twins call the model's own functions for the next state, and the count is compared with
  the real code's (harness/bitd_spec.py `real_loop_rounds`, driver line `bitd steps`).
-/
import Drx.BitdSteps
import DrxProofs.BitdSteps
namespace Drx.C10Bitd
open Drx Drx.Bitd

/-- rounds of all loops of a bitmap decode, for ANY byte string, geometry, depth and palette:
    at most 1162 per input byte (one operation per byte, ≤ 129 paint rounds per operation, ≤ 8 bit rounds per paint round
    in the 1-bit decoder) plus two per pixel of the declared canvas (raw copy and plane re-ordering loops; `W + 1` so that
    the per-row rounds of a zero-width canvas are covered) -/
theorem bitd_steps_linear (c : Call) :
    (bitd2bmpSteps c).total ≤ 1162 * c.fdata.length + 2 * (declaredRows c * (c.width + 1)) :=
  bitd2bmpSteps_bound c

/-- the PackBits loops alone: linear in the input, whatever the canvas (they stop at the end of the data or of the canvas) -/
theorem packbits8_steps_linear (g : G8) (fdata data : Bytes) (x y : Nat) : (loop8Steps g fdata data x y).total ≤ 1162 * fdata.length :=
  (loop8Steps_bound g fdata.length fdata data x y (Nat.le_refl _)).total

theorem packbits1_steps_linear (g : G1) (fdata data : Bytes) (x y : Nat) : (loop1Steps g fdata data x y).total ≤ 1162 * fdata.length :=
  (loop1Steps_bound g fdata.length fdata data x y (Nat.le_refl _)).total

theorem packbits16_steps_linear (width : Nat) (fdata data : Bytes) (x : Nat) (y : Int) : (loop16Steps width fdata data x y).total ≤ 1162 * fdata.length :=
  (loop16Steps_bound width fdata.length fdata data x y (Nat.le_refl _)).total

theorem packbits24_steps_linear (width : Nat) (fdata data : Bytes) (x : Nat) (y : Int) : (loop24Steps width fdata data x y).total ≤ 1162 * fdata.length :=
  (loop24Steps_bound width fdata.length fdata data x y (Nat.le_refl _)).total

/-- at most one operation per input byte and 129 paint rounds per operation (the sharper per-counter form) -/
theorem packbits8_ops (g : G8) (fdata data : Bytes) (x y : Nat) :
    (loop8Steps g fdata data x y).ops ≤ fdata.length ∧
    (loop8Steps g fdata data x y).run + (loop8Steps g fdata data x y).lit ≤ 129 * (loop8Steps g fdata data x y).ops :=
  let h := loop8Steps_bound g fdata.length fdata data x y (Nat.le_refl _)
  ⟨h.1, h.2.1⟩

/-- pixel buffers allocated by a decode: at most seven bytes per pixel of the declared canvas (planar buffer + BMP rows of the
    32-bit decoder), never a function of the input bytes -/
theorem bitd_alloc_bounded (c : Call) : allocBytes c ≤ 7 * (declaredRows c * (c.width + 1)) :=
  allocBytes_bound c

/-- the same on the integer entry point: the canvas a request declares includes the amount of a negative left offset
    (`Request.normalise`), as it includes the amount of a negative top offset (`declaredRows`) -/
theorem bitd_steps_linear_request (r : Request) :
    (bitd2bmpStepsI r).total ≤ 1162 * r.fdata.length + 2 * (declaredRows r.normalise * (r.normalise.width + 1)) := by
  have := bitd2bmpSteps_bound r.normalise
  have e : r.normalise.fdata = r.fdata := by unfold Request.normalise; split <;> rfl
  rw [e] at this
  exact this

theorem bitd_alloc_bounded_request (r : Request) : allocBytesI r ≤ 7 * (declaredRows r.normalise * (r.normalise.width + 1)) :=
  allocBytes_bound r.normalise

/-- a 128-fold run on a 1×1 canvas: the paint loop makes three rounds (the pixel, the alignment byte, the breaking round), not 128 -/
example : paintRun8Steps (g8 1 0 4) 0 7 128 (zeros 4) 0 = 3 := by decide

end Drx.C10Bitd
