/-
  C12 — Decompiler output does not depend on what was generated or parsed before.
  Model: Drx/Lscr (genLingo / genJs return the text AND the tree the generator leaves behind; parseScriptWith threads the
  operand registers of the shared opcode singletons). Helper lemmas: DrxProofs/LscrGen.lean, DrxProofs/LscrRegs.lean.
-/
import Drx.Lscr
import Drx.Gen.Mutations
import Drx.Gen.ModuleState
import DrxProofs.LscrGen
import DrxProofs.LscrRegs
import DrxProofs.LscrFlow
namespace Drx.C12
open Drx Drx.Lscr

/-! ### the inventory of writes inside generator code -/

/-- the writes to the tree inside generate_lingo / generate_js / generate_*_code which the model accounts for
    (`afterLingo`: use_parenthesis; `afterLingoFunc`: global_vars) -/
def accountedWrites : List (String × String × String × String × String) := [
  ("ast.function_op", "Statement", "generate_lingo", "assign", "cast(CallFunction, self.code).use_parenthesis"),
  ("codegen.lingo", "-", "generate_lingo_code", "assign", "f.global_vars")
]

/-- the inventory regenerated from /repo on every run is exactly that list: a new write inside a generator breaks this -/
theorem inventory_accounted : Gen.Mutations.inventory = accountedWrites := by decide

/-! ### generation histories on one parsed tree -/

inductive GOp where
  | L | J
  deriving DecidableEq, Repr

/-- one generator call: the text and the tree it leaves behind -/
def gen : GOp → Script → R Str × Script
  | .L => genLingo
  | .J => genJs

/-- the text of a generation from a tree nobody has generated from yet -/
def fresh (o : GOp) (t : Script) : R Str := (gen o t).1

/-- outputs of a history: every call sees the tree its predecessors left behind -/
def runOps : List GOp → Script → List (R Str)
  | [], _ => []
  | o :: os, t => (gen o t).1 :: runOps os (gen o t).2

/-- the four commuting lemmas (genL∘afterL, genL∘afterJ, genJ∘afterL, genJ∘afterJ) in one statement -/
theorem gen_after (o o' : GOp) (t : Script) : fresh o' (gen o t).2 = fresh o' t := by
  cases o <;> cases o' <;> simp only [fresh, gen, genLingo, genJs]
  · cases h : lingoText t <;> simp [lingoText_afterLingoScript, h]
  · cases h : lingoText t <;> simp only [jsText_afterLingoScript] <;> cases jsText t <;> rfl
  · cases h : jsText t <;> simp [afterJsScript_id]
  · cases h : jsText t <;> simp [afterJsScript_id, h]

theorem genL_afterL (t : Script) : fresh .L (gen .L t).2 = fresh .L t := gen_after .L .L t
theorem genL_afterJ (t : Script) : fresh .L (gen .J t).2 = fresh .L t := gen_after .J .L t
theorem genJ_afterL (t : Script) : fresh .J (gen .L t).2 = fresh .J t := gen_after .L .J t
theorem genJ_afterJ (t : Script) : fresh .J (gen .J t).2 = fresh .J t := gen_after .J .J t

/-- any tree that prints like `t` keeps doing so through a history -/
theorem runOps_of_equiv (ops : List GOp) : ∀ (t t' : Script), (∀ o, fresh o t' = fresh o t) → runOps ops t' = ops.map fun o => fresh o t := by
  induction ops with
  | nil => intro t t' _; rfl
  | cons o os ih =>
    intro t t' h
    simp only [runOps, List.map_cons]
    have hh : fresh o t' = fresh o t := h o
    rw [show (gen o t').1 = fresh o t' from rfl, hh]
    congr 1
    apply ih
    intro o'
    rw [gen_after o o' t', h o']

/-- C12, first half: for every sequence of generate-Lingo / generate-JS calls on one parsed tree, each output equals the
    output of the same generator on the fresh tree -/
theorem gen_history (ops : List GOp) (t : Script) : runOps ops t = ops.map fun o => fresh o t :=
  runOps_of_equiv ops t t fun _ => rfl

/-- the whole-movie path (Lingo, then JavaScript from the same tree) prints what the two command-line tools print -/
theorem movie_path_eq_cli (t : Script) : runOps [.L, .J] t = [fresh .L t, fresh .J t] := gen_history _ t

/-- generating twice in either order -/
example (t : Script) : runOps [.J, .L, .J, .L] t = [fresh .J t, fresh .L t, fresh .J t, fresh .L t] := gen_history _ t

/-- non-vacuity: a generation really changes the tree (here `use_parenthesis` of a statement-level call), and the
    statement below is about exactly such trees -/
def exFunc : FuncDef :=
  { name := S "h"
    pos := 0
    stmts := [.stmt 4 (.callFn (.s (S "put")) 4 (.loadList (S "load_list") 2 [.sym (.s (S "loop")) 0 true]) true false false .none)] }
def exScript : Script := { functions := [exFunc] }

def parenFlags (s : Script) : List Bool := s.functions.flatMap fun f => f.stmts.map fun st =>
  match st with | .stmt _ (.callFn _ _ _ up _ _ _) => up | _ => true

example : parenFlags exScript = [true] ∧ parenFlags (afterLingoScript exScript) = [false] := by
  constructor
  · simp [parenFlags, exScript, exFunc]
  · simp [parenFlags, afterLingoScript, afterLingoFunc, afterLingoBody, endsWithExit, exScript, exFunc, afterLingoList, afterLingo,
      clearParen, Node.name, S, Except.map, (by decide : (Name.s ['p','u','t'] == Name.s ['e','x','i','t']) = false)]

example : runOps [.L, .J, .L] exScript = [fresh .L exScript, fresh .J exScript, fresh .L exScript] := gen_history _ exScript

/-! ### parse histories -/

/-- C12, second half: the operand registers left in the opcode singletons by earlier parses never influence a later
    parse (every register is written before it is read): whatever the registers hold, the same script comes out -/
theorem parse_regs_irrelevant (codec : Codec) (r r' : Regs) (lscr lnam : Bytes) :
    (parseScriptWith codec r lscr lnam).map Prod.fst = (parseScriptWith codec r' lscr lnam).map Prod.fst :=
  parseScriptWith_regs_irrelevant codec r r' lscr lnam

/-- in particular a parse after any history equals the parse in a fresh process -/
theorem parse_after_history (r : Regs) (lscr lnam : Bytes) :
    (parseScriptWith .macRoman r lscr lnam).map Prod.fst = parseScript lscr lnam :=
  parse_regs_irrelevant .macRoman r [] lscr lnam

/-- the table fact behind it, on the regenerated opcode table: a class whose `process` reads an operand register is
    registered with an instruction length under which `parse_opcodes` writes that register first -/
theorem opcode_table_registers_ok : regsTableOk = true := regsTableOk_true

/-- model hygiene: the runtime guards that make the parser's loops well-founded restate facts of the computation.
    Every instruction advances the read position (so `opcodeLoop` needs no guard), and the three loop rewrites never grow
    the loop body (the guard `weightList r.stmts ≤ weightList body` of `loopWalk` is always true). -/
theorem parser_loops_progress :
    (∀ (ctx : Ctx) (d : Bytes) (idxc : Int) (regs : Regs) (st : PState) (r : Int × Regs × PState),
        stepOpcode ctx d idxc idxc regs st = .ok r → r.1 > idxc) ∧
    (∀ (r : Ro) (prev : Option Node) (r' : Ro) (rm : Bool),
        rewriteRepeat r prev = .ok (r', rm) → weightList r'.stmts ≤ weightList r.stmts) :=
  ⟨fun _ _ _ _ _ _ h => stepOpcode_advance h, fun _ _ _ _ h => rewriteRepeat_weight h⟩

/-! ### module-level state of the decompiler (regenerated from every module of drxtract/lingosrc on every run) -/

/-- C12, parse side, on the source inventory: no function or method of the decompiler contains a statement that can change state
    living longer than one decompilation — no `global` / `nonlocal`, no assignment, deletion or mutating call whose base is a
    module-level name, a class or `cls`, no `setattr` / `globals()` / `__dict__` / cache decorator. (The operand registers of the
    opcode singletons are written through `self`; they are the subject of `parse_regs_irrelevant`.) -/
theorem no_writes_to_module_state : Gen.ModuleState.writes = [] := by decide

/-- every module-level or class-level name bound to a container is bound to a list or dict display (a table written in place in
    the source), never to the result of a call (an object whose state the inventory above could not see) -/
theorem module_state_is_tables : Gen.ModuleState.holders.all (fun h => h.2.2.2 == "List" || h.2.2.2 == "Dict") = true := by decide

end Drx.C12
