import Drx.Lscr
import Drx.Gen.Mutations
namespace Drx.C12
open Drx Drx.Lscr

/-- the writes to the tree inside generator code which the model accounts for (`afterLingo`, `afterLingoFunc`) -/
def accountedWrites : List (String × String × String × String × String) := [
  ("ast.constant_val", "Symbol", "generate_lingo", "assign", "self.use_hash"),
  ("ast.function_op", "Statement", "generate_lingo", "assign", "cast(CallFunction, self.code).use_parenthesis"),
  ("codegen.lingo", "-", "generate_lingo_code", "assign", "f.global_vars")
]

/-- the inventory of writes found in the generator code of /repo (regenerated each run) is exactly what the model accounts for -/
theorem inventory_accounted : Gen.Mutations.inventory = accountedWrites := by decide

end Drx.C12
