/-
  Property C07 — "Sound decoding preserves every sample and the header's format".

  Model: lean/Drx/Snd.lean (format.py, snd2sampled.py, command/*.py, sampled.py, the `wave` calls of snd2wav.py).
  Spec + encoder: lean/Drx/SndSpec.lean.  Helper lemmas: lean/DrxProofs/Snd.lean.
  Generated from /repo on every run: lean/Drx/Gen/SndCommands.lean (command registry, header constants,
  SampledSound defaults, the struct formats of every unpack in the readers).
-/
import Drx.Snd
import Drx.SndSpec
import DrxProofs.Py
import DrxProofs.Snd
import DrxProofs.SndMulti
import DrxProofs.SndLayout
namespace Drx.C07
open Drx Drx.Snd Drx.SndSpec

/-! ## ties to the generated tables -/

/-- the generated registry sends the two sampled-sound commands to `_get_frames` and 0 to the null command -/
theorem registry_dispatch :
    dispatch 0x8051 = some .frames ∧ dispatch 0x8050 = some .frames ∧ dispatch 0 = some .null := by
  decide

/-- nothing else is registered: any other command number makes `snd_to_sampled` raise -/
theorem registry_complete (c : Int) (h : c ≠ 0 ∧ c ≠ 0x8050 ∧ c ≠ 0x8051) : dispatch c = none := by
  obtain ⟨h0, h1, h2⟩ := h
  have e0 : ¬ ((0 : Int) = c) := by omega
  have e1 : ¬ ((32849 : Int) = c) := by omega
  have e2 : ¬ ((32848 : Int) = c) := by omega
  simp [dispatch, lookupCmd, Gen.SndCommands.soundCommands, e0, e1, e2]

/-- the struct formats the model reads with (`getS` = signed, `getU` = unsigned, width in bytes), per function in
    source order, are the ones in the source: a changed sign or width (F07 was `>h` for the rate) breaks this -/
theorem unpack_formats :
    Gen.SndCommands.unpacks.map (fun (f, _, fmt, n) => (f, fmt, n)) =
      [ ("parse_snd_fmt".toList, ">h".toList, 2),
        ("parse_snd_fmt1".toList, ">h".toList, 2), ("parse_snd_fmt1".toList, ">h".toList, 2), ("parse_snd_fmt1".toList, ">i".toList, 4),
        ("parse_snd_fmt2".toList, ">h".toList, 2),
        ("parse_snd_commands".toList, ">h".toList, 2), ("parse_snd_commands".toList, ">h".toList, 2),
        ("parse_snd_commands".toList, ">h".toList, 2), ("parse_snd_commands".toList, ">i".toList, 4),
        ("_get_frames".toList, ">i".toList, 4), ("_get_frames".toList, ">i".toList, 4), ("_get_frames".toList, ">H".toList, 2),
        ("_get_frames".toList, ">h".toList, 2), ("_get_frames".toList, ">i".toList, 4), ("_get_frames".toList, ">i".toList, 4),
        ("_get_frames".toList, ">i".toList, 4),
        ("_get_frames".toList, ">i".toList, 4), ("_get_frames".toList, ">i".toList, 4), ("_get_frames".toList, ">i".toList, 4),
        ("_get_frames".toList, ">h".toList, 2), ("_get_frames".toList, ">h".toList, 2),
        ("_get_frames".toList, ">i".toList, 4), ("_get_frames".toList, ">i".toList, 4), ("_get_frames".toList, ">i".toList, 4) ] := by
  decide

/-- `SampledSound()` starts mono, 8-bit: exactly what a standard sound header means -/
theorem defaults_are_standard_header : St.init.channels = Header.standard.channels ∧ St.init.bits = Header.standard.bits := by
  decide

/-! ## the readers of the model ARE the generic reader over the field layouts regenerated from the source

  `Gen.SndLayouts` (harness/gen_snd_layouts.py, Python `ast` of format.py and bufferCmd.py, regenerated every run) lists
  offset, width and signedness of every `struct.unpack` of the format word, the two prefixes, the data-type and command
  records, the 22 common bytes of the sound header and the extended tail, plus the sizes the index advances by. A changed
  offset / width / sign in the Python source changes the generated list and breaks the corresponding equality below. -/

theorem format_word_reader_is_generated_layout (d : Bytes) :
    parseSndFmt d =
      (match Layout.readLayout .be d 0 Gen.SndLayouts.fmtWord with
       | .error e => .error e
       | .ok [ft] => if ft = 1 then parseSndFmt1 d else if ft = 2 then parseSndFmt2 d else .error .value
       | .ok _ => .error .other) := parseSndFmt_eq_layout d

theorem format1_prefix_reader_is_generated_layout (d : Bytes) :
    parseSndFmt1 d =
      (match Layout.readLayout .be d 0 Gen.SndLayouts.fmt1Prefix with
       | .error e => .error e
       | .ok [n] =>
         (match parseDataTypes d n.toNat Gen.SndLayouts.fmt1LoopStart with
          | .error e => .error e
          | .ok (dts, idx) =>
            match parseSndCommands d idx with
            | .error e => .error e
            | .ok cmds => .ok ⟨1, dts, -1, cmds⟩)
       | .ok _ => .error .other) := parseSndFmt1_eq_layout d

theorem format2_prefix_reader_is_generated_layout (d : Bytes) :
    parseSndFmt2 d =
      (match Layout.readLayout .be d 0 Gen.SndLayouts.fmt2Prefix with
       | .error e => .error e
       | .ok [rc] =>
         (match parseSndCommands d Gen.SndLayouts.fmt2CommandsAt with
          | .error e => .error e
          | .ok cmds => .ok ⟨2, [], rc, cmds⟩)
       | .ok _ => .error .other) := parseSndFmt2_eq_layout d

theorem data_type_record_reader_is_generated_layout (d : Bytes) (n idx : Nat) :
    parseDataTypes d (n + 1) idx =
      (match Layout.readLayout .be d idx Gen.SndLayouts.dataTypeRecord with
       | .error e => .error e
       | .ok [t, o] =>
         (match parseDataTypes d n (idx + Gen.SndLayouts.dataTypeRecordSize) with
          | .error e => .error e
          | .ok (rest, e) => .ok (⟨t, o⟩ :: rest, e))
       | .ok _ => .error .other) := parseDataTypes_eq_layout d n idx

theorem command_count_reader_is_generated_layout (d : Bytes) (idx : Nat) :
    parseSndCommands d idx =
      (match Layout.readLayout .be d idx Gen.SndLayouts.commandsCount with
       | .error e => .error e
       | .ok [n] => parseCmds d n.toNat (idx + Gen.SndLayouts.commandsLoopStart)
       | .ok _ => .error .other) := parseSndCommands_eq_layout d idx

theorem command_record_reader_is_generated_layout (d : Bytes) (n idx : Nat) :
    parseCmds d (n + 1) idx =
      (match Layout.readLayout .be d idx Gen.SndLayouts.commandRecord with
       | .error e => .error e
       | .ok [c, p1, p2] =>
         (match parseCmds d n (idx + Gen.SndLayouts.commandRecordSize) with
          | .error e => .error e
          | .ok rest => .ok (⟨if c < 0 then (0xFFFF + c) + 1 else c, p1, p2⟩ :: rest))
       | .ok _ => .error .other) := parseCmds_eq_layout d n idx

/-- the sound-header reader (`_get_frames` up to the sample area) at any non-negative offset = `soundHeaderL`, which reads
    the 22 common bytes and the extended tail through the generated layouts and advances by the generated sizes -/
theorem sound_header_reader_is_generated_layout (s : St) (n : Nat) (d : Bytes) :
    soundHeader s (n : Int) d = soundHeaderL s n d := soundHeader_eq_layout s n d

/-- the two single-byte reads (`fdata[idx]`) and the one raw slice of the header sit where the model reads / skips them -/
theorem sound_header_byte_fields :
    Gen.SndLayouts.soundHeaderBytes = [⟨"encode", 20, 1, false⟩, ⟨"baseFrequency", 21, 1, false⟩] ∧
    Gen.SndLayouts.extendedRaw = [(26, 10)] := by decide

/-! ## decoding -/

/-- a non-trivial spec object: format 1 with a data-type record, two null commands with junk parameters, soundCmd,
    extended header, 44100 Hz, stereo 16-bit, two frames, trailing bytes -/
def exampleSnd : Snd :=
  ⟨.fmt1 [[0, 5, 0, 0, 0, 0xC0]], [[1, 2, 3, 4, 5, 6], [0xFF, 0xFF, 0xFF, 0xFF, 0xFF, 0xFF]], true, [0xAB, 0xCD], 44100, [0x80, 0],
   [0, 0, 0, 1, 0, 0, 0, 2], .extended 2 2 16 [0x40, 0x0E, 0xAC, 0x44, 0, 0, 0, 0, 0, 0] (List.replicate 12 7) (List.replicate 14 9),
   [1, 2, 3, 4, 5, 6, 7, 8], [0xEE]⟩

example : Valid exampleSnd := by decide

example : ∃ r, soundHeaderL St.init (headerOffset exampleSnd) (encode exampleSnd) = .ok r := ⟨_, rfl⟩

/-- **decode (encode s) = what the header says**, for EVERY valid resource: either format, any number of data-type
    records and leading null commands (with any parameters), bufferCmd or soundCmd, standard or extended header,
    every rate 0..65535 (any fractional part), any channel count, 8 or 16 bits, any sample data incl. empty,
    any loop points / AIFF rate / reserved fields, any trailing bytes -/
theorem decode_encode (s : Snd) (hv : Valid s) : sndToSampled (encode s) = .ok (expected s) :=
  Drx.Snd.decode_encode s hv

example : sndToSampled (encode exampleSnd) = .ok ⟨2, 16, 44100, [2, 1, 4, 3, 6, 5, 8, 7]⟩ :=
  decode_encode exampleSnd (by decide)

/-- spelled out: reported rate = the header's integer rate, channel count and sample width are the header's, the
    samples are the sample area (pairwise swapped when 16-bit) -/
theorem decode_reports_header (s : Snd) (hv : Valid s) :
    ∃ r, sndToSampled (encode s) = .ok r ∧ r.rate = s.rateInt ∧ r.channels = s.header.channels ∧ r.bits = s.header.bits ∧
      r.samples = (if s.header.bits = 16 then swapPairs s.samples else s.samples) :=
  ⟨expected s, Drx.Snd.decode_encode s hv, rfl, rfl, rfl, rfl⟩

/-- the decoded stream has frames × channels × width bytes -/
theorem decode_sample_count (s : Snd) (hv : Valid s) :
    ∃ r, sndToSampled (encode s) = .ok r ∧ r.samples.length = s.frames * s.header.channels * (s.header.bits / 8) :=
  ⟨expected s, Drx.Snd.decode_encode s hv, by rw [expected_samples_length, samples_whole_frames s hv]⟩

/-- the swap is the big-endian → little-endian exchange of each pair: applying it twice gives the area back -/
theorem swap_involutive (l : Bytes) : swapPairs (swapPairs l) = l := swapPairs_swapPairs l

/-- what the decoder must ignore is ignored: two valid resources with the same header format, rate and sample area
    decode to the same sound, whatever else differs (format number, records, null commands, reserved fields, …) -/
theorem decode_ignores_the_rest (s s' : Snd) (hv : Valid s) (hv' : Valid s')
    (hc : s.header.channels = s'.header.channels) (hb : s.header.bits = s'.header.bits) (hr : s.rateInt = s'.rateInt)
    (hs : s.samples = s'.samples) :
    sndToSampled (encode s) = sndToSampled (encode s') := by
  rw [Drx.Snd.decode_encode s hv, Drx.Snd.decode_encode s' hv']
  simp [expected, hc, hb, hr, hs]

/-! ## resources with several sound commands

  The property speaks about a resource holding *a* sampled sound (one sound command after any number of null commands);
  that is `decode_encode`. Format 1 also allows several sound commands. `snd_to_sampled` runs them all on one
  `SampledSound`: frames are appended, each header overwrites the rate, an extended header also overwrites channel
  count and width, a standard header leaves them as they are. What C07 claims for such resources is `decode_multi`:
  when all sounds have ONE sample format the result is that format and the concatenation of the sample areas.
  For mixed formats no single (rate, channels, width) describes the stream and C07 claims nothing; what the code
  does there is pinned down by `mixed_formats_inherit` (and compared with the real code on every run). -/

/-- two null commands, a standard header (mono 8-bit), a null command, an extended mono 8-bit header: one format -/
def exampleMulti : Multi :=
  ⟨.fmt1 [[0, 5, 0, 0, 0, 0x80]],
   [.null [1, 2, 3, 4, 5, 6], .null [0, 0, 0, 0, 0, 0],
    .sound ⟨false, [0, 0], 22254, [0x80, 0], List.replicate 8 0, .standard, [0x10, 0x20, 0x30], [0xEE]⟩,
    .null [9, 9, 9, 9, 9, 9],
    .sound ⟨true, [7, 7], 11127, [0, 0], List.replicate 8 1, .extended 1 2 8 (List.replicate 10 3) (List.replicate 12 4) (List.replicate 14 5),
      [0x40, 0x50], []⟩],
   [0xAA, 0xBB]⟩

example : exampleMulti.Valid ∧ Homogeneous exampleMulti 1 8 ∧ partsOf exampleMulti.items ≠ [] := by decide +kernel

/-- **several sound commands, one sample format**: for EVERY valid resource (either format, any data-type records, any
    number of sound commands — bufferCmd or soundCmd, standard or extended headers — interleaved with any number of
    null commands, any gaps between the parts) whose sounds all have `c` channels and `b` bits, the decoder reports
    `c`, `b`, the rate of the last header, and exactly the concatenation of the sample areas (each swapped when 16-bit).
    Unbounded induction over the command table and over the parts. -/
theorem decode_multi (m : Multi) (hv : m.Valid) (c b : Nat) (hh : Homogeneous m c b) (hne : partsOf m.items ≠ []) :
    sndToSampled (encodeMulti m) = .ok (expectedMulti m c b) :=
  decode_encodeMulti m hv c b hh hne

example : sndToSampled (encodeMulti exampleMulti) = .ok ⟨1, 8, 11127, [0x10, 0x20, 0x30, 0x40, 0x50]⟩ :=
  decode_multi exampleMulti (by decide +kernel) 1 8 (by decide +kernel) (by decide +kernel)

/-- a 16-bit stereo extended header (one frame) followed by a standard header with two 8-bit samples and two more bytes -/
def mixedMulti : Multi :=
  ⟨.fmt1 [],
   [.sound ⟨false, [0, 0], 44100, [0, 0], List.replicate 8 0, .extended 2 1 16 (List.replicate 10 0) (List.replicate 12 0) (List.replicate 14 0),
      [1, 2, 3, 4], []⟩,
    .sound ⟨false, [0, 0], 11025, [0, 0], List.replicate 8 0, .standard, [0x80, 0x81], [0xAA, 0xBB]⟩],
   []⟩

set_option maxRecDepth 8000 in
/-- outside what C07 claims (mixed formats): the standard header inherits 16 bits / 2 channels from the extended one, so
    its two 8-bit samples AND the two bytes behind them are read as two little-endian-swapped words, and the result is
    reported as stereo 16-bit at the second header's rate. The real code does exactly this (harness kind `multi-mixed`). -/
theorem mixed_formats_inherit :
    mixedMulti.Valid ∧ ¬ (∃ c b, Homogeneous mixedMulti c b) ∧
    sndToSampled (encodeMulti mixedMulti) = .ok ⟨2, 16, 11025, [2, 1, 4, 3, 0x81, 0x80, 0xBB, 0xAA]⟩ := by
  refine ⟨by decide +kernel, ?_, by rfl⟩
  intro ⟨c, b, h⟩
  have h1 := h ⟨false, [0, 0], 44100, [0, 0], List.replicate 8 0, .extended 2 1 16 (List.replicate 10 0) (List.replicate 12 0) (List.replicate 14 0),
      [1, 2, 3, 4], []⟩ (by simp [mixedMulti, partsOf])
  have h2 := h ⟨false, [0, 0], 11025, [0, 0], List.replicate 8 0, .standard, [0x80, 0x81], [0xAA, 0xBB]⟩ (by simp [mixedMulti, partsOf])
  simp [Header.channels] at h1 h2
  omega

/-! ## WAV -/

/-- `wavRead (wavWrite p d) = (p, d)` for rate ≥ 1, channels ≥ 1, sample width 1..4, whole frames, sizes that fit
    the 16/32-bit header fields -/
theorem wav_roundtrip (p : WavParams) (d : Bytes)
    (hc : 1 ≤ p.channels) (hw : 1 ≤ p.width ∧ p.width ≤ 4) (hr : 1 ≤ p.rate ∧ p.rate < 2 ^ 32)
    (hal : p.channels * p.width < 2 ^ 16) (hbr : p.channels * p.rate * p.width < 2 ^ 32) (hlen : 36 + d.length < 2 ^ 32)
    (hfr : d.length % (p.channels * p.width) = 0) :
    ∃ w, wavWrite p d = .ok w ∧ wavRead w = .ok (p, d) :=
  Drx.Snd.wav_roundtrip p d hc hw hr hal hbr hlen hfr

example : ∃ w, wavWrite ⟨2, 2, 44100⟩ [2, 1, 4, 3, 6, 5, 8, 7] = .ok w ∧ wavRead w = .ok (⟨2, 2, 44100⟩, [2, 1, 4, 3, 6, 5, 8, 7]) :=
  wav_roundtrip _ _ (by decide) (by decide) (by decide) (by decide) (by decide) (by decide) (by decide)

/-- a WAV file for the sound can exist: at least one channel, block align / byte rate / size fit their header fields
    (always true for 1..4 channels and resources below 4 GiB) -/
def WavFits (s : Snd) : Prop :=
  1 ≤ s.header.channels ∧ s.header.channels * (s.header.bits / 8) < 2 ^ 16 ∧
  s.header.channels * s.rateInt * (s.header.bits / 8) < 2 ^ 32 ∧ 36 + s.samples.length < 2 ^ 32

instance (s : Snd) : Decidable (WavFits s) := by unfold WavFits; exact inferInstance

/-- the whole property at one resource: decode clause, size clause, and — when a WAV file can hold it — what snd2wav
    writes reads back as the header's parameters and the samples -/
def C07_at (s : Snd) : Prop :=
  sndToSampled (encode s) = .ok (expected s) ∧
  (expected s).samples.length = s.frames * s.header.channels * (s.header.bits / 8) ∧
  (WavFits s → ∃ w, (sndToSampled (encode s)).bind sampledToWav = .ok w ∧ wavRead w = .ok (expectedWav s))

/-- the property at full strength (every rate 0..65535) -/
def C07_full : Prop := ∀ s : Snd, Valid s → C07_at s

/-- open finding F08: `wave` cannot hold a rate of 0 -/
def Supported (s : Snd) : Prop := 1 ≤ s.rateInt

instance (s : Snd) : Decidable (Supported s) := by unfold Supported; exact inferInstance

example : Valid exampleSnd ∧ Supported exampleSnd ∧ WavFits exampleSnd := by decide

/-- the decoded sound, written by snd2wav's `wave` calls and read back, gives the header's parameters and samples -/
theorem snd_wav_roundtrip (s : Snd) (hv : Valid s) (hsup : Supported s) (hfit : WavFits s) :
    ∃ w, (sndToSampled (encode s)).bind sampledToWav = .ok w ∧ wavRead w = .ok (expectedWav s) := by
  obtain ⟨hc, hal, hbr, hlen⟩ := hfit
  rw [Drx.Snd.decode_encode s hv]
  show ∃ w, sampledToWav (expected s) = .ok w ∧ _
  rw [sampledToWav_expected s hv hc hsup]
  have hb := header_bits s hv
  have hw : 1 ≤ s.header.bits / 8 ∧ s.header.bits / 8 ≤ 4 := by rcases hb with h | h <;> rw [h] <;> decide
  have hr : s.rateInt < 2 ^ 32 := by have := hv.2.2.2.2.1; omega
  have hfr : (expected s).samples.length % (s.header.channels * (s.header.bits / 8)) = 0 := by
    rw [expected_samples_length, samples_whole_frames s hv, Nat.mul_assoc]
    exact Nat.mul_mod_left _ _
  exact Drx.Snd.wav_roundtrip ⟨s.header.channels, s.header.bits / 8, s.rateInt⟩ (expected s).samples hc hw ⟨hsup, hr⟩ hal hbr
    (by rw [expected_samples_length]; exact hlen) hfr

/-- C07 for every rate ≥ 1 -/
theorem C07_partial (s : Snd) (hv : Valid s) (hsup : Supported s) : C07_at s :=
  ⟨Drx.Snd.decode_encode s hv, by rw [expected_samples_length, samples_whole_frames s hv], snd_wav_roundtrip s hv hsup⟩

/-- the two decode clauses need no restriction: they hold for every rate 0..65535 -/
theorem C07_decode_clauses (s : Snd) (hv : Valid s) :
    sndToSampled (encode s) = .ok (expected s) ∧
    (expected s).samples.length = s.frames * s.header.channels * (s.header.bits / 8) :=
  ⟨Drx.Snd.decode_encode s hv, by rw [expected_samples_length, samples_whole_frames s hv]⟩

/-- the excluded input: a valid standard-header resource whose rate is 0 -/
def rateZeroSnd : Snd := ⟨.fmt2 [0, 0], [], false, [0, 0], 0, [0, 0], List.replicate 8 0, .standard, [0x80, 0x81, 0x7F], []⟩

/-- F08 in the model: the rate-0 resource decodes, but the `wave` writer refuses it, so the WAV clause fails -/
theorem C07_witness_rate0 : Valid rateZeroSnd ∧ ¬ Supported rateZeroSnd ∧ ¬ C07_at rateZeroSnd := by
  refine ⟨by decide, by decide, ?_⟩
  intro ⟨hdec, _, hwav⟩
  obtain ⟨w, hw, _⟩ := hwav (by decide)
  rw [hdec] at hw
  have : sampledToWav (expected rateZeroSnd) = .error .other := by rfl
  simp [Except.bind, this] at hw

theorem C07_full_fails : ¬ C07_full := fun h => C07_witness_rate0.2.2 (h rateZeroSnd C07_witness_rate0.1)

/-! ## bounded work (F09, shared with C10) -/

/-- one `_get_frames` call allocates at most twice the resource size for its 16-bit output buffer, for EVERY byte
    string, offset (negative included) and incoming state — the declared length alone can no longer drive it -/
theorem get_frames_alloc_bounded (st : St) (idx : Int) (d : Bytes) : getFramesAlloc st idx d ≤ 2 * d.length :=
  getFramesAlloc_le st idx d

/-- the F09 repair changes no successful decode: whatever the unguarded code (`getFramesOld`) returned, for any
    state, offset and byte string, the repaired code returns too — the guard only turns a late `IndexError` (after
    the allocation) into an early `ValueError` -/
theorem repair_preserves_decodes (st : St) (idx : Int) (d : Bytes) (r : St × Bytes)
    (h : getFramesOld st idx d = .ok r) : getFrames st idx d = .ok r :=
  getFrames_of_old st idx d r h

example : getFramesOld St.init (headerOffset exampleSnd) (encode exampleSnd) = .ok (⟨2, 16, 44100⟩, [2, 1, 4, 3, 6, 5, 8, 7]) := by rfl

/-- whole decode: at most 2·|d| per command -/
theorem decode_alloc_bounded (d : Bytes) : (sndAlloc d).1 ≤ 2 * d.length * (sndAlloc d).2 := by
  unfold sndAlloc
  split
  · exact runCmdsAlloc_le d St.init _
  · simp

end Drx.C07
