import Drx.Snd
import Drx.SndSpec
import DrxProofs.Py
namespace Drx.C07
open Drx Drx.Snd Drx.SndSpec

/-- the generated registry sends the two sampled-sound commands to `_get_frames` and 0 to the null command -/
theorem registry_dispatch :
    dispatch 0x8051 = some .frames ∧ dispatch 0x8050 = some .frames ∧ dispatch 0 = some .null := by
  decide

end Drx.C07
