/-
  C17 — index chunks decode to exactly the tables they store.
  Statements only; proofs call the lemmas of DrxProofs/Idx.lean.
  Models: Drx/Idx.lean.  Spec objects, encoders and the meaning of a table: Drx/IdxSpec.lean.
-/
import Drx.Idx
import Drx.IdxSpec
import Drx.Codec
import DrxProofs.Py
import DrxProofs.Idx
import DrxProofs.IdxLayouts
import Drx.Gen.IdxLayouts
namespace Drx.C17
open Drx Drx.Idx Drx.IdxSpec

/-! ## key table -/

/-- well-formed key table: header words and ids fit their 32-bit fields, FourCCs are four bytes -/
def KeyValid (u1 cap : Int) (es : List KeyEntry) : Prop :=
  s32 u1 ∧ s32 cap ∧ es.length < 2147483648 ∧ ∀ e ∈ es, e.valid
instance (u1 cap : Int) (es : List KeyEntry) : Decidable (KeyValid u1 cap es) := by unfold KeyValid; infer_instance

/-- The property at full strength: every valid key table, in either byte order, decodes to its grouping by owner.
    It does NOT hold for the code as it is (finding F02); see `key_partial`, `key_all_but_last`, `key_witness`. -/
def key_full : Prop :=
  ∀ (o : Order) (u1 cap : Int) (es : List KeyEntry) (tail : Bytes), KeyValid u1 cap es →
    parseKey o (encKey o u1 cap es tail) = .ok (group es)

/-- the tables on which the decoder is right: the last used slot is not a link (complement of matcher `c17_key_last_entry_dropped`) -/
def KeySupported (es : List KeyEntry) : Prop := ∀ l, es.getLast? = some l → ¬ l.isLink
instance (es : List KeyEntry) : Decidable (KeySupported es) := by
  unfold KeySupported
  cases h : es.getLast? with
  | none => exact isTrue (by simp)
  | some l => exact decidable_of_iff (¬ l.isLink) (by simp)

/-- what the decoder returns on EVERY valid table, any size, any ids, any unused slots: the grouping of all used slots but the last -/
theorem key_all_but_last (o : Order) (u1 cap : Int) (es : List KeyEntry) (tail : Bytes) (h : KeyValid u1 cap es) :
    parseKey o (encKey o u1 cap es tail) = .ok (group es.dropLast) := by
  rw [parseKey_encKey o u1 cap es tail h.1 h.2.1 h.2.2.1 h.2.2.2, foldl_keyStep_eq_group]

/-- the slot-by-slot dictionary construction (`if not k in d: d[k] = []; d[k].append(r)`) is the grouping by owner -/
theorem key_fold_is_group (es : List KeyEntry) : es.foldl keyStep [] = group es := foldl_keyStep_eq_group es

theorem group_dropLast_of_supported (es : List KeyEntry) (hs : KeySupported es) : group es.dropLast = group es := by
  rcases List.eq_nil_or_concat es with h | ⟨es', l, h⟩
  · subst h; rfl
  · subst h
    have hl : ¬ l.isLink := hs l (by simp)
    simp only [List.concat_eq_append, List.dropLast_concat]
    rw [← foldl_keyStep_eq_group, ← foldl_keyStep_eq_group, List.foldl_append]
    simp [keyStep, hl]

/-- C17 (key table), partial: on supported tables the decoder returns exactly the stored links, grouped by owner, in order -/
theorem key_partial (o : Order) (u1 cap : Int) (es : List KeyEntry) (tail : Bytes) (h : KeyValid u1 cap es)
    (hs : KeySupported es) : parseKey o (encKey o u1 cap es tail) = .ok (group es) := by
  rw [key_all_but_last o u1 cap es tail h, group_dropLast_of_supported es hs]

/-- the 3-slot table of finding F02 -/
def witnessTable : List KeyEntry :=
  [⟨10, 1, [0x43, 0x41, 0x53, 0x74]⟩, ⟨11, 1, [0x42, 0x49, 0x54, 0x44]⟩, ⟨12, 2, [0x53, 0x54, 0x58, 0x54]⟩]

example : KeyValid 0x000C000C 3 witnessTable ∧ ¬ KeySupported witnessTable := by decide
example : KeyValid 0x000C000C 5 (witnessTable ++ [⟨0, 7, [0x66, 0x72, 0x65, 0x65]⟩]) ∧
    KeySupported (witnessTable ++ [⟨0, 7, [0x66, 0x72, 0x65, 0x65]⟩]) := by decide

/-- F02: a concrete excluded table on which the model (like the code) loses the last link -/
theorem key_witness :
    parseKey .be (encKey .be 0x000C000C 3 witnessTable []) ≠ .ok (group witnessTable) := by
  rw [key_all_but_last .be 0x000C000C 3 witnessTable [] (by decide)]
  intro h
  have h' := Except.ok.inj h
  revert h'
  decide

theorem key_not_full : ¬ key_full := fun h => key_witness (h .be 0x000C000C 3 witnessTable [] (by decide))

/-- Mac and PC byte orders of the same table decode identically -/
theorem key_mac_pc (u1 cap : Int) (es : List KeyEntry) (tail : Bytes) (h : KeyValid u1 cap es) :
    parseKey .be (encKey .be u1 cap es tail) = parseKey .le (encKey .le u1 cap es tail) := by
  rw [key_all_but_last .be u1 cap es tail h, key_all_but_last .le u1 cap es tail h]

/-- sanity of the spec: owners appear once … -/
theorem group_owners_nodup (es : List KeyEntry) : ((group es).map (·.1)).Nodup := by
  have : (group es).map (·.1) = firsts ((links es).map (·.cas)) := by
    simp [group, List.map_map, Function.comp_def]
  rw [this]; exact firsts_nodup _

/-- … every link of the table is listed under its owner, and nothing else is -/
theorem group_mem (es : List KeyEntry) (k : Int) (l : List KeyRef) :
    (k, l) ∈ group es ↔ (∃ e ∈ es, e.isLink ∧ e.cas = k) ∧ l = ((links es).filter (fun e => e.cas = k)).map KeyEntry.ref := by
  simp only [group, List.mem_map, mem_firsts, links, List.mem_filter, Prod.mk.injEq, decide_eq_true_eq]
  constructor
  · rintro ⟨k', ⟨e, ⟨he, hl⟩, hc⟩, rfl, rfl⟩
    exact ⟨⟨e, he, hl, hc⟩, rfl⟩
  · rintro ⟨⟨e, he, hl, hc⟩, rfl⟩
    exact ⟨k, ⟨e, ⟨he, hl⟩, hc⟩, rfl, rfl⟩

example : group witnessTable = [(1, [⟨"CASt".toList, 10⟩, ⟨"BITD".toList, 11⟩]), (2, [⟨"STXT".toList, 12⟩])] := by decide

/-! ## cast table -/

/-- any number of slots with any 32-bit values (and up to three stray bytes) decode to exactly those values, in order -/
theorem cas_roundtrip (vs : List Int) (tail : Bytes) (ht : tail.length < 4) (hv : ∀ v ∈ vs, s32 v) :
    parseCas (encCas vs tail) = .ok vs := casLoop_enc vs tail ht hv

/-- the cast-table decoder never raises, whatever the bytes, and yields one slot per complete group of four bytes -/
theorem cas_total (d : Bytes) : ∃ l, parseCas d = .ok l ∧ l.length = d.length / 4 := by
  simpa [parseCas] using casLoop_total d 0

example : parseCas (encCas [0, -1, 2147483647, -2147483648, 1024] [0xAB]) = .ok [0, -1, 2147483647, -2147483648, 1024] :=
  cas_roundtrip _ _ (by decide) (by decide)

/-! ## script-context table -/

def LctxValid (u1 u2 n2 : Int) (gap : Bytes) (es : List LctxEntry) : Prop :=
  s32 u1 ∧ s32 u2 ∧ s32 n2 ∧ 18 + gap.length < 32768 ∧ es.length < 2147483648 ∧ ∀ e ∈ es, e.valid
instance (u1 u2 n2 : Int) (gap : Bytes) (es : List LctxEntry) : Decidable (LctxValid u1 u2 n2 gap es) := by
  unfold LctxValid; infer_instance

/-- entries found at the stored table offset (any gap), any count: every script reference keeps position, key and value -/
theorem lctx_roundtrip (u1 u2 n2 : Int) (gap : Bytes) (es : List LctxEntry) (tail : Bytes) (h : LctxValid u1 u2 n2 gap es) :
    parseLctx (encLctx u1 u2 n2 gap es tail) = .ok (es.map LctxEntry.ref) :=
  parseLctx_encLctx u1 u2 n2 gap es tail h.1 h.2.1 h.2.2.1 h.2.2.2.1 h.2.2.2.2.1 h.2.2.2.2.2

example : LctxValid (-1) 0 7 [1, 2, 3] [⟨4294967295, -1, 0⟩, ⟨0, 2147483647, -5⟩] := by decide

/-! ## name table -/

def LnamValid (u1 u2 fs u3 : Int) (names : List Bytes) : Prop :=
  s32 u1 ∧ s32 u2 ∧ s32 fs ∧ s16 u3 ∧ names.length < 32768 ∧ ∀ n ∈ names, n.length < 256
instance (u1 u2 fs u3 : Int) (names : List Bytes) : Decidable (LnamValid u1 u2 fs u3 names) := by
  unfold LnamValid; infer_instance

/-- any number of pascal strings over all byte values, lengths 0..255: the result is each name's bytes read by the
    configured decoder, in order (the first undecodable name raises); `dec` is ANY decoding function -/
theorem lnam_roundtrip (dec : Dec) (u1 u2 fs u3 : Int) (names : List Bytes) (tail : Bytes) (h : LnamValid u1 u2 fs u3 names) :
    parseLnam dec (encLnam u1 u2 fs u3 names tail) = decodeAll dec names :=
  parseLnam_encLnam dec u1 u2 fs u3 names tail h.1 h.2.1 h.2.2.1 h.2.2.2.1 h.2.2.2.2.1 h.2.2.2.2.2

/-- instance: the five configured codecs (tables generated from CPython; strict UTF-8) -/
theorem lnam_roundtrip_codec (c : Codec) (u1 u2 fs u3 : Int) (names : List Bytes) (tail : Bytes) (h : LnamValid u1 u2 fs u3 names) :
    parseLnam (decodeText c) (encLnam u1 u2 fs u3 names tail) = decodeAll (decodeText c) names :=
  lnam_roundtrip _ u1 u2 fs u3 names tail h

example : LnamValid 0 0 (-3) 9 [[], [0x8E], [0x61, 0x00, 0xFF]] := by decide
set_option maxRecDepth 20000 in
example : decodeAll (decodeText .macRoman) [[], [0x8E], [0x61, 0x62]] = .ok [[], ['é'], ['a', 'b']] := by rfl

/-! ## marker list -/

def VwlbValid (ms : List MarkerSpec) : Prop :=
  ms.length < 32768 ∧ (pool ms).length < 65536 ∧ ∀ m ∈ ms, s16 m.frame
instance (ms : List MarkerSpec) : Decidable (VwlbValid ms) := by unfold VwlbValid; infer_instance

/-- any number of markers, labels over all byte values and lengths (shared pool within the 16-bit offsets), sentinel
    record: every marker keeps its frame and its label is the stored bytes read by the configured decoder -/
theorem vwlb_roundtrip (dec : Dec) (ms : List MarkerSpec) (sf : Int) (tail : Bytes) (h : VwlbValid ms) :
    parseVwlb dec (encVwlb ms sf tail) = decodeMarkers dec ms :=
  parseVwlb_encVwlb dec ms sf tail h.1 h.2.1 h.2.2

theorem vwlb_roundtrip_codec (c : Codec) (ms : List MarkerSpec) (sf : Int) (tail : Bytes) (h : VwlbValid ms) :
    parseVwlb (decodeText c) (encVwlb ms sf tail) = decodeMarkers (decodeText c) ms :=
  vwlb_roundtrip _ ms sf tail h

example : VwlbValid [⟨2, [0x49, 0x8E]⟩, ⟨-7, []⟩, ⟨32767, [0x00]⟩] := by decide

/-! ## movie settings -/

/-- ALL 65 536 version words: the code's signed read + shift + mask classifies by the two stored bytes as the format table says -/
theorem vwcf_version_words (w : Nat) (h : w < 65536) :
    versionClass (toSigned 16 w) = specClass (w / 256) (w % 256) := versionClass_word w h

/-- the palette field is read at 0x46 exactly for the Director-4 class and at 0x4E exactly for the Director-5 class -/
theorem vwcf_palette_position (w : Nat) (h : w < 65536) :
    (paletteOffset (versionClass (toSigned 16 w)) = some 0x46 ↔ (w / 256 = 4 ∧ w % 256 < 0xC0)) ∧
    (paletteOffset (versionClass (toSigned 16 w)) = some 0x4E ↔ (w / 256 = 4 ∧ 0xC0 ≤ w % 256 ∧ w % 256 < 0xC6)) := by
  rw [versionClass_word w h]
  generalize w / 256 = hi
  generalize w % 256 = lo
  by_cases h4 : hi = 4
  · subst h4
    simp only [specClass, true_and]
    by_cases a : lo < 0xC0
    · simp [a, paletteOffset] <;> omega
    · by_cases b : lo < 0xC6
      · simp [a, b, paletteOffset] <;> omega
      · simp [a, b, paletteOffset] <;> omega
  · have : ∀ c, specClass hi lo = c → c ≠ .dir4 ∧ c ≠ .dir5 := by
      intro c hc
      subst hc
      unfold specClass
      split <;> first | contradiction | (repeat' split) <;> simp
    have hc := this _ rfl
    cases hcl : specClass hi lo <;> simp_all [paletteOffset]

/-- the palette naming of the code (generated DIR_PALETTE_NAMES + get_palette_name) is the spec's: stored `v ≤ 0` is built-in
    number `v - 1` of the format notes' table, anything else is reported as its number -/
theorem vwcf_palette_names (v : Int) : paletteName v = specPaletteName v := paletteName_eq_spec v

example : specPaletteName 0 = "systemMac" ∧ specPaletteName (-1) = "rainbow" ∧ specPaletteName (-100) = "systemWinDir4" ∧
    specPaletteName 17 = "17" ∧ specPaletteName (-50) = "-51" := by decide

/-- a settings chunk of any length ≥ 80 with any field values decodes to its stage rectangle, cast range, frame rate,
    stage colour, version class of the stored word, and the name of the palette stored at the class's position -/
theorem vwcf_roundtrip (s : VwcfSpec) (h : s.valid) : parseVwcf (encVwcf s) = .ok s.meaning :=
  parseVwcf_encVwcf s h

example : (⟨0x045D, 213, 256, 555, 768, 1, 102, 30, List.replicate 9 0, 255, List.replicate 42 7, -1,
    List.replicate 6 0, 5, [1, 2, 3]⟩ : VwcfSpec).valid := by decide

/-! ## (L) the readers of the model ARE the generic reader over the field layouts regenerated from the Python source on every
    run (offset, width, signedness of every `struct.unpack` / `int(fdata[i])` / `parse_chunk_id` in the six readers), and the
    control shape of each reader (byte order, loop count expression, entry position, stride, slice bounds, guards) is the one
    the model implements.  A changed offset / width / signedness / count / stride in the source breaks one of these. -/

theorem key_header_is_generated_layout (o : Order) (d : Bytes) :
    parseKey o d = Layout.readK o d 0 Gen.IdxLayouts.keyHeader fun
      | [_, _, nelements] => keyLoop o d (nelements - 1).toNat 12 []
      | _ => .error .other := parseKey_eq_layout o d

theorem key_entry_is_generated_layout (o : Order) (d : Bytes) (n indx : Nat) (kd : KeyData) :
    keyLoop o d (n + 1) indx kd = Layout.readK o d indx Gen.IdxLayouts.keyEntry fun
      | [nfile, cas] => (Riff.parseChunkId d (indx + 8) o).bind fun chunkId =>
          keyLoop o d n (indx + 12) (if cas > 0 ∧ nfile > 0 then keyInsert kd cas ⟨chunkId, nfile⟩ else kd)
      | _ => .error .other := keyLoop_succ_eq_layout o d n indx kd

/-- the FourCC of a slot is the four bytes at offset 8, in the file's byte order -/
theorem key_entry_id_is_generated : Gen.IdxLayouts.keyEntryIds.map (fun f => (f.off, f.width, f.signed)) = [(8, 4, false)] := by decide

theorem cas_slot_is_generated_layout (d : Bytes) (indx : Nat) :
    casLoop d indx =
      if d.length ≥ indx + 4 then
        Layout.readK .be d indx Gen.IdxLayouts.casSlot fun
          | [v] => (casLoop d (indx + 4)).bind fun vs => .ok (v :: vs)
          | _ => .error .other
      else .ok [] := casLoop_eq_layout d indx

theorem lctx_header_is_generated_layout (d : Bytes) :
    parseLctx d = Layout.readK .be d 0 Gen.IdxLayouts.lctxHeader fun
      | [_, _, nscripts, _, scrIdx] => lctxLoop d nscripts.toNat scrIdx
      | _ => .error .other := parseLctx_eq_layout d

theorem lctx_entry_is_generated_layout (d : Bytes) (n indx : Nat) :
    lctxLoop d (n + 1) (indx : Int) = Layout.readK .be d indx Gen.IdxLayouts.lctxEntry fun
      | [key, scrfile, _] => (lctxLoop d n ((indx + 12 : Nat) : Int)).bind fun rest => .ok (⟨key.toNat, scrfile⟩ :: rest)
      | _ => .error .other := lctxLoop_succ_eq_layout d n indx

theorem lnam_header_is_generated_layout (dec : Dec) (d : Bytes) :
    parseLnam dec d = Layout.readK .be d 0 Gen.IdxLayouts.lnamHeader fun
      | [_, _, filesize, filesizeCp, _, nnames] =>
          if filesizeCp ≠ filesize then .error .value else lnamLoop dec d nnames.toNat 20
      | _ => .error .other := parseLnam_eq_layout dec d

theorem lnam_entry_is_generated_layout (dec : Dec) (d : Bytes) (n indx : Nat) :
    lnamLoop dec d (n + 1) indx = Layout.readKB .be d indx Gen.IdxLayouts.lnamEntry fun
      | [nbytes] => (dec (slice d (indx + 1) (indx + 1 + nbytes.toNat))).bind fun name =>
          (lnamLoop dec d n (indx + 1 + nbytes.toNat)).bind fun rest => .ok (name :: rest)
      | _ => .error .other := lnamLoop_succ_eq_layout dec d n indx

theorem vwlb_header_is_generated_layout (dec : Dec) (d : Bytes) :
    parseVwlb dec d = Layout.readK .be d 0 Gen.IdxLayouts.vwlbHeader fun
      | [nmarkers] => vwlbLoop dec d (2 + 4 * (nmarkers + 1)).toNat nmarkers.toNat 2
      | _ => .error .other := parseVwlb_eq_layout dec d

theorem vwlb_entry_is_generated_layout (dec : Dec) (d : Bytes) (mnidx n indx : Nat) :
    vwlbLoop dec d mnidx (n + 1) indx = Layout.readK .be d indx Gen.IdxLayouts.vwlbEntry fun
      | [frame, nameStart, nameEnd] =>
          if mnidx + nameEnd.toNat < mnidx + nameStart.toNat then .error .value else
          (dec (slice d (mnidx + nameStart.toNat) (mnidx + nameEnd.toNat))).bind fun name =>
          (vwlbLoop dec d mnidx n (indx + 4)).bind fun rest => .ok (⟨name, frame⟩ :: rest)
      | _ => .error .other := vwlbLoop_succ_eq_layout dec d mnidx n indx

/-- the nine words, the stage-colour byte and the two palette words of vwcf.py, all at the generated positions -/
theorem vwcf_reader_is_generated_layout (d : Bytes) :
    parseVwcf d = Layout.readK .be d 0 [Gen.IdxLayouts.vwcfWords.head!] fun
      | [dataSize] =>
        if (d.length : Int) ≠ dataSize then .error .value else
        Layout.readK .be d 0 Gen.IdxLayouts.vwcfWords.tail fun
          | [version, stageTop, stageLeft, stageBottom, stageRight, castArrayStart, castArrayEnd, currentFrameRate] =>
            Layout.readKB .be d 0 Gen.IdxLayouts.vwcfBytes fun
              | [stageColor] =>
                let cls := versionClass version
                (match cls with
                  | .dir4 => Layout.readK .be d 0 Gen.IdxLayouts.vwcfPaletteDir4 fun | [p] => .ok (paletteName p) | _ => .error .other
                  | .dir5 => Layout.readK .be d 0 Gen.IdxLayouts.vwcfPaletteDir5 fun | [p] => .ok (paletteName p) | _ => .error .other
                  | _ => .ok "unknonw").bind fun palette =>
                .ok ⟨cls, stageTop, stageLeft, stageBottom, stageRight, castArrayStart, castArrayEnd, currentFrameRate,
                     stageColor.toNat, palette⟩
              | _ => .error .other
          | _ => .error .other
      | _ => .error .other := parseVwcf_eq_layout d

/-- `readK` is the coordinator's `Layout.readLayout` in continuation-passing form -/
theorem readK_is_readLayout (o : Order) (d : Bytes) (base : Nat) (fs : List Layout.Field) (k : List Int → R α) :
    Layout.readK o d base fs k = (Layout.readLayout o d base fs).bind k := Layout.readK_eq o d base fs k

/-- key.py: byte order taken from the parameter; `for _ in range(<field at 8> - 1)` (F02); entries from 12, 12 bytes apart -/
theorem key_shape_is_generated : Gen.IdxLayouts.keyShape =
    [("order", "param"), ("loop", "for"), ("count", "h8-1"), ("entry:p", "12"), ("stride:p", "12")] := by decide

/-- cas.py: big-endian; `while len(fdata) >= p + 4`, from 0, 4 bytes apart -/
theorem cas_shape_is_generated : Gen.IdxLayouts.casShape =
    [("order", ">"), ("loop", "while"), ("count", "len(fdata) >= p + 4"), ("entry:p", "0"), ("stride:p", "4")] := by decide

/-- lctx.py: big-endian; `<field at 8>` entries starting at the position stored in `<field at 16>`, 12 bytes apart -/
theorem lctx_shape_is_generated : Gen.IdxLayouts.lctxShape =
    [("order", ">"), ("loop", "for"), ("count", "h8"), ("entry:p", "h16"), ("stride:p", "12")] := by decide

/-- lnam.py: big-endian (`lnam_bit_order = '>'`); the size words at 8 and 12 must agree; `<field at 18>` names from 20; a name is `fdata[p+1 : p+1+len]` read with get_encoding(), the position moves by `len + 1` -/
theorem lnam_shape_is_generated : Gen.IdxLayouts.lnamShape =
    [("order", "param"), ("order_symbol", ">"), ("guard:0", "h12 != h8"), ("loop", "for"), ("count", "h18"), ("entry:p", "20"), ("stride:p", "e0+1"), ("slice:0", "fdata[p+1:p+e0+1].decode(get_encoding())")] := by decide

/-- vwlb.py: big-endian; `<field at 0>` records from 2, 4 bytes apart; label = `fdata[mnidx + off_i : mnidx + off_(i+1)]` with `mnidx = 4*n + 6`, read with get_encoding(); decreasing offsets are rejected (fix F51) -/
theorem vwlb_shape_is_generated : Gen.IdxLayouts.vwlbShape =
    [("order", ">"), ("loop", "for"), ("count", "h0"), ("entry:p", "2"), ("stride:p", "4"), ("slice:0", "fdata[e2:e6].decode(get_encoding())"), ("derived:e2", "4*h0+6+<e2>"), ("derived:e6", "4*h0+6+<e6>"), ("guard:0", "e6 < e2")] := by decide

/-- vwcf.py: big-endian words + one byte; the size word must equal `len(fdata)`; the palette word is read only in the dir4 / dir5 arms -/
theorem vwcf_shape_is_generated : Gen.IdxLayouts.vwcfShape =
    [("order", ">,byte"), ("branches", "h2 == 'dir4'|h2 == 'dir5'|else"), ("guard:0", "len(fdata) != h0")] := by decide

/-! ## the property -/

/-- the five chunk kinds for which the property holds in full (model level), for every decoding function -/
def others_full : Prop :=
  (∀ (vs : List Int) (tail : Bytes), tail.length < 4 → (∀ v ∈ vs, s32 v) → parseCas (encCas vs tail) = .ok vs) ∧
  (∀ (u1 u2 n2 : Int) (gap : Bytes) (es : List LctxEntry) (tail : Bytes), LctxValid u1 u2 n2 gap es →
      parseLctx (encLctx u1 u2 n2 gap es tail) = .ok (es.map LctxEntry.ref)) ∧
  (∀ (dec : Dec) (u1 u2 fs u3 : Int) (names : List Bytes) (tail : Bytes), LnamValid u1 u2 fs u3 names →
      parseLnam dec (encLnam u1 u2 fs u3 names tail) = decodeAll dec names) ∧
  (∀ (dec : Dec) (ms : List MarkerSpec) (sf : Int) (tail : Bytes), VwlbValid ms →
      parseVwlb dec (encVwlb ms sf tail) = decodeMarkers dec ms) ∧
  (∀ (s : VwcfSpec), s.valid → parseVwcf (encVwcf s) = .ok s.meaning)

/-- C17 at full strength -/
def C17_full : Prop := key_full ∧ others_full

/-- C17, partial: everything except the last slot of the key table (F02) -/
theorem C17_partial :
    (∀ (o : Order) (u1 cap : Int) (es : List KeyEntry) (tail : Bytes), KeyValid u1 cap es → KeySupported es →
        parseKey o (encKey o u1 cap es tail) = .ok (group es)) ∧
    (∀ (u1 cap : Int) (es : List KeyEntry) (tail : Bytes), KeyValid u1 cap es →
        parseKey .be (encKey .be u1 cap es tail) = parseKey .le (encKey .le u1 cap es tail)) ∧
    others_full :=
  ⟨key_partial, key_mac_pc, cas_roundtrip, lctx_roundtrip, lnam_roundtrip, vwlb_roundtrip, vwcf_roundtrip⟩

/-- the full statement fails exactly because of F02 -/
theorem C17_witness : ¬ C17_full := fun h => key_not_full h.1

end Drx.C17
