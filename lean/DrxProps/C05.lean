/-
  C05 — Whole-movie assembly links every member to exactly its own resources.
  Model: Drx/Dir.lean (`parseDir`, parametric in the individual chunk decoders `D : Decoders`, so every statement
  below holds for ANY decoders — in particular the real ones). Spec objects (chunk lists, map entries) as in C01/C18.
-/
import Drx.Dir
import DrxProofs.Dir
namespace Drx.C05
open Drx Drx.Riff Drx.Xtract Drx.Dir

/-- (1) Resource resolution, for every well-formed movie in either byte order behind any prefix: the assembly runs on a
    resource table in which map entry i has entry i's (sanitised) type and — whenever the entry designates a chunk of the
    movie by absolute offset — exactly that chunk's bytes. All id arithmetic (map index -> offset - prefix -> chunk) is in here. -/
theorem parseDir_resolves (D : Decoders) (o : Order) (pre : Bytes) (len : Int) (hlen : In32 len)
    (c0 : SChunk) (rest : List SChunk) (hwf : ∀ c ∈ c0 :: rest, c.WF)
    (im : Imap) (imLast : Int) (him : im.WF)
    (hc0id : c0.id.map sanitize = "imap".toList) (hc0 : c0.data = encImap o im imLast)
    (mBefore : List SChunk) (mc : SChunk) (mAfter : List SChunk) (hsplit : c0 :: rest = mBefore ++ mc :: mAfter)
    (himoff : im.offset = (pre.length : Int) + (offsetAfter mBefore : Int))
    (hmcid : mc.id.map sanitize = "mmap".toList)
    (hdr : SMmapHdr) (pairs : List (SEntry × Option SChunk)) (tail : Bytes) (hhdr : hdr.WF) (hn : pairs.length < 2 ^ 31)
    (hmcdata : mc.data = encMmap o hdr (pairs.map (·.1)) tail) (hewf : ∀ p ∈ pairs, p.1.WF)
    (hres : ∀ p ∈ pairs, ∀ c, p.2 = some c → Designates (c0 :: rest) pre.length p.1 c) :
    parseDir D o pre.length (encMovie o pre len (c0 :: rest)) = assemble D o (resOfPairs (c0 :: rest) pre.length pairs) := by
  unfold parseDir
  rw [parseRiff_encMovie o pre len hlen _ hwf]
  simp only [List.map_cons, bind, Except.bind, pure, Except.pure]
  have h0 : (SChunk.view c0).id = "imap".toList := hc0id
  simp only [h0, ne_eq, not_true_eq_false, if_false]
  have h0d : (SChunk.view c0).data = encImap o im imLast := hc0
  rw [h0d, parseImap_encImap o im imLast him]
  simp only []
  have hlook : getByOffset (SChunk.view c0 :: List.map SChunk.view rest) (im.offset - (pre.length : Int)) = .ok mc.view := by
    have e : SChunk.view c0 :: List.map SChunk.view rest = (c0 :: rest).map SChunk.view := rfl
    rw [e, hsplit]
    have : im.offset - (pre.length : Int) = (offsetAfter mBefore : Int) := by omega
    rw [this]
    have := getByOffsetAux_hit mBefore mc mAfter 12
    unfold getByOffset offsetAfter
    rw [← this]; congr 1
  rw [hlook]
  simp only []
  have h1 : (SChunk.view mc).id = "mmap".toList := hmcid
  simp only [h1, ne_eq, not_true_eq_false, if_false]
  have h1d : (SChunk.view mc).data = encMmap o hdr (pairs.map (·.1)) tail := hmcdata
  rw [h1d, parseMmap_encMmap o hdr _ tail hhdr (by simpa using hn) (by
    intro e he; simp only [List.mem_map] at he; obtain ⟨p, hp, rfl⟩ := he; exact hewf p hp)]
  simp only [List.map_map]
  have e : SChunk.view c0 :: List.map SChunk.view rest = (c0 :: rest).map SChunk.view := rfl
  rw [e]
  have := resOfFile_pairs (c0 :: rest) pre.length pairs hres
  simp only [Function.comp_def] at this ⊢
  rw [this]

/-- (2) one cast entry per cast-table slot, in order: the loop only appends, exactly one entry per slot -/
theorem one_entry_per_slot (D : Decoders) (rs : List Res) (key : KeyData) (fm : J) (cas : List Int) (out : List CastData)
    (h : castLoop D rs key fm cas [] = .ok out) : out.length = cas.length := by
  obtain ⟨tail, rfl, hl⟩ := castLoop_appends D rs key fm cas [] out h
  simpa using hl

/-- (2') an empty slot (table word 0) gives an empty entry at exactly that position -/
theorem empty_slot_empty (D : Decoders) (rs : List Res) (key : KeyData) (fm : J) (pre post : List Int) (out : List CastData)
    (h : castLoop D rs key fm (pre ++ 0 :: post) [] = .ok out) : out[pre.length]? = some [] := by
  have := castLoop_empty_slot D rs key fm pre post [] out h
  simpa using this

/-- (3) nothing from any other member: the entry of a member is a function of the resources its own key-table links
    name (and, for a bitmap, of the palette value of the member it refers to) — two resource tables that agree there,
    and two cast prefixes that agree on palettes, give the same linked entry, whatever else differs -/
theorem no_cross_talk (D : Decoders) (rs rs' : List Res) (fm : J) (cast cast' : List CastData) (refs : List Ref) (cd : CastData)
    (hrs : ∀ rf ∈ refs, pyIndex rs rf.index = pyIndex rs' rf.index)
    (hcast : ∀ i, (pyIndex cast i).map (·.get? "palette") = (pyIndex cast' i).map (·.get? "palette")) :
    linkLoop D rs fm cast refs cd = linkLoop D rs' fm cast' refs cd :=
  linkLoop_congr D rs rs' fm cast cast' refs cd hrs hcast

/-- (4) scripts: once fetched and decoded (`Decodes`), the two dictionaries are, for EVERY script number n, the result of
    the per-number fold `extendKey`: a base script (continuation number < 0) with number n (re)starts the text, a
    continuation of n appends "\n" + its text, in index order; scripts of other numbers do not touch it -/
theorem scripts_per_number (D : Decoders) (rs : List Res) (names : J) (refs : List Int) (outs : List ScriptOut)
    (hd : Decodes D rs names refs outs) (l j : ScrDict) (h : scriptLoop D rs names refs [] [] = .ok (l, j)) (n : Int) :
    l.lookup n = extendKey (·.lingo) n outs none ∧ j.lookup n = extendKey (·.js) n outs none := by
  rw [scriptLoop_eq_fold D rs names refs outs hd] at h
  exact foldScripts_per_key outs [] [] l j h n

/-- (5) Mac = PC. The container's byte order enters the assembly only through the key table (`KEY*` is the one chunk stored in
    container order; every other chunk is big-endian in both encodings). Two resource tables that agree everywhere except in the
    bytes of their `KEY*` entries, whose key tables decode — each under its own byte order — to the same links, assemble to the same
    movie, provided no table of the movie (cast table, key links, script context) points at the key table itself. Together with
    `parseDir_resolves` (both encodings resolve to such tables) and C17's `key_mac_pc` (the key model decodes both encodings alike)
    this is "the result is the same for the Mac and PC encodings of one movie". -/
theorem mac_equals_pc (D : Decoders) (rsB rsL : List Res) (hag : AgreeOffKey rsB rsL)
    (kB kL : Riff.Chunk) (resB resL : Res)
    (hB : locateChunk rsB "KEY*" = .ok resB) (hB' : resB.chunk = .ok kB)
    (hL : locateChunk rsL "KEY*" = .ok resL) (hL' : resL.chunk = .ok kL)
    (key : KeyData) (hkB : D.key .be kB.data = .ok key) (hkL : D.key .le kL.data = .ok key)
    (hcas : CasAvoidsKey D rsB) (hlinks : LinksAvoidKey rsB key) (hlctx : LctxAvoidsKey D rsB) :
    assemble D .be rsB = assemble D .le rsL :=
  assemble_mac_pc D rsB rsL hag kB kL resB resL hB hB' hL hL' key hkB hkL hcas hlinks hlctx

/-! ### non-vacuity -/

-- two tables that differ only in the bytes of the KEY* entry
def exResB : List Res := [⟨"KEY*".toList, .ok ⟨"KEY*".toList, [0, 1]⟩⟩, ⟨"CASt".toList, .ok ⟨"CASt".toList, [7]⟩⟩]
def exResL : List Res := [⟨"KEY*".toList, .ok ⟨"KEY*".toList, [1, 0]⟩⟩, ⟨"CASt".toList, .ok ⟨"CASt".toList, [7]⟩⟩]
example : AgreeOffKey exResB exResL := by
  refine ⟨rfl, ?_, rfl, ?_, trivial⟩
  · intro h; exact absurd rfl h
  · intro _; rfl
example : LinksAvoidKey exResB [(1, [⟨"CASt".toList, 1⟩])] := by
  intro p hp rf hrf r hr
  simp at hp; subst hp; simp at hrf; subst hrf
  have : pyIndex exResB 1 = .ok ⟨"CASt".toList, .ok ⟨"CASt".toList, [7]⟩⟩ := by rfl
  rw [this] at hr; cases hr; decide


def exOuts : List ScriptOut := [⟨3, -1, "a".toList, "A".toList⟩, ⟨9, -1, "b".toList, "B".toList⟩, ⟨100, 3, "c".toList, "C".toList⟩]
example : foldScripts exOuts [] [] = .ok ([(3, "a\nc".toList), (9, "b".toList)], [(3, "A\nC".toList), (9, "B".toList)]) := by rfl
example : extendKey (·.lingo) 3 exOuts none = some "a\nc".toList := by decide

end Drx.C05
