import Drx.Stxt
import Drx.Fmap
import Drx.TextSpec
import DrxProofs.Py
namespace Drx.C16
open Drx Drx.Fmap Drx.Stxt Drx.TextSpec

end Drx.C16
