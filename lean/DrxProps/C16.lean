/-
  C16 — text members keep their characters, styles and fonts.
  Statements only; proofs call the lemmas of DrxProofs/Text.lean.
  Models: Drx/Stxt.lean, Drx/Fmap.lean.  Spec objects, encoders, meaning: Drx/TextSpec.lean.
-/
import Drx.Stxt
import Drx.Fmap
import Drx.TextSpec
import Drx.Codec
import DrxProofs.Py
import DrxProofs.Text
import DrxProofs.TextCodec
import DrxProofs.TextLayouts
import Drx.Gen.TextLayouts
namespace Drx.C16
open Drx Drx.Fmap Drx.Stxt Drx.TextSpec

/-! ## styled text -/

/-- well-formed styled-text chunk: sizes fit their 32/16-bit fields -/
def StxtValid (gap text : Bytes) (fds : Int) (runs : List RunSpec) : Prop :=
  12 + gap.length + text.length < 2147483648 ∧ s32 fds ∧ runs.length < 32768 ∧ ∀ r ∈ runs, r.valid
instance (gap text : Bytes) (fds : Int) (runs : List RunSpec) : Decidable (StxtValid gap text fds runs) := by
  unfold StxtValid; infer_instance

/-- For ANY decoding function, ANY text bytes, ANY number of style records with ANY field values (including the skipped
    ones), ANY font map: the text is the stored bytes read by the decoder (its failure is the only failure) and run i
    reports the stored start, size, the three flag bits, `#RRGGBB` of the three high colour bytes, and the family
    the font-map lookup of the spec gives (last entry with that id, or `unknown_<id>`). -/
theorem stxt_roundtrip (dec : Dec) (fm : List FontInfo) (gap text : Bytes) (fds : Int) (runs : List RunSpec) (tail : Bytes)
    (h : StxtValid gap text fds runs) :
    parseStxt dec fm (encStxt gap text fds runs tail) = (dec text).bind fun t => .ok ⟨t, runs.map (RunSpec.meaning fm)⟩ :=
  parseStxt_encStxt dec fm gap text fds runs tail h.1 h.2.1 h.2.2.1 h.2.2.2

/-- instance: the configured codecs (tables generated from CPython; strict UTF-8) -/
theorem stxt_roundtrip_codec (c : Codec) (fm : List FontInfo) (gap text : Bytes) (fds : Int) (runs : List RunSpec) (tail : Bytes)
    (h : StxtValid gap text fds runs) :
    parseStxt (decodeText c) fm (encStxt gap text fds runs tail)
      = (decodeText c text).bind fun t => .ok ⟨t, runs.map (RunSpec.meaning fm)⟩ :=
  stxt_roundtrip _ fm gap text fds runs tail h

/-- the code's lookup loop (`for font in fontmap: if font['id'] == id: …`) is the spec lookup -/
theorem font_lookup (fm : List FontInfo) (id : Int) : fontFamily fm id = specFont fm id := fontFamily_eq_specFont fm id

/-- a run whose id is not in the map gets the explicit marker; one whose id is there exactly once gets that entry's name -/
theorem font_lookup_missing (fm : List FontInfo) (id : Int) (h : ∀ f ∈ fm, f.id ≠ id) :
    fontFamily fm id = "unknown_".toList ++ intStr id := by
  rw [fontFamily_eq_specFont]
  unfold specFont
  have : fm.filter (fun f => decide (f.id = id)) = [] := by
    rw [List.filter_eq_nil_iff]; intro f hf; simp [h f hf]
  simp [this]

theorem font_lookup_unique (pre post : List FontInfo) (f : FontInfo)
    (h1 : ∀ g ∈ pre, g.id ≠ f.id) (h2 : ∀ g ∈ post, g.id ≠ f.id) :
    fontFamily (pre ++ f :: post) f.id = f.name := by
  rw [fontFamily_eq_specFont]
  unfold specFont
  have a : pre.filter (fun g => decide (g.id = f.id)) = [] := by
    rw [List.filter_eq_nil_iff]; intro g hg; simp [h1 g hg]
  have b : post.filter (fun g => decide (g.id = f.id)) = [] := by
    rw [List.filter_eq_nil_iff]; intro g hg; simp [h2 g hg]
  simp [List.filter_append, a, b]

example : StxtValid [0xAA] [0x63, 0x61, 0x66, 0x8E]
    4 [⟨0, 0, 12, 9, 3, 5, 0, 12, 255, 1, 128, 2, 0, 3⟩, ⟨-1, 2, 0, 0, -7, 2, 9, 24, 0, 0, 0, 0, 0, 0⟩] := by decide

example : (⟨0, 0, 12, 9, 3, 5, 0, 12, 255, 1, 128, 2, 0, 3⟩ : RunSpec).meaning [⟨"Arial".toList, 3⟩]
    = ⟨"#FF8000".toList, 0, true, false, true, 12, "Arial".toList⟩ := by decide

/-! ## font map -/

def FmapValid (h : FmapHdr) (fonts : List FontSpec) (unused : List SlotSpec) (htail bpre btail : Bytes) : Prop :=
  h.valid ∧ (∀ f ∈ fonts, f.valid) ∧ FontsFit fonts bpre.length ∧ (∀ s ∈ unused, s.valid) ∧
  fonts.length + unused.length < 2147483648 ∧ (encFmapHeader h fonts unused bpre htail).length < 2147483648 ∧
  (bpre ++ (encFontNames fonts ++ btail)).length < 2147483648
instance (h : FmapHdr) (fonts : List FontSpec) (unused : List SlotSpec) (htail bpre btail : Bytes) :
    Decidable (FmapValid h fonts unused htail bpre btail) := by unfold FmapValid; infer_instance

/-- For ANY decoding function, ANY number of used fonts with ANY ids and name bytes (and padding), ANY unused capacity
    slots with ANY contents, ANY ignored header words: the font map decodes to exactly its (id, name) pairs in order. -/
theorem fmap_roundtrip (dec : Dec) (h : FmapHdr) (fonts : List FontSpec) (unused : List SlotSpec) (htail bpre btail : Bytes)
    (hv : FmapValid h fonts unused htail bpre btail) :
    parseFmap dec (encFmap h fonts unused htail bpre btail) = decodeFonts dec fonts :=
  parseFmap_encFmap dec h fonts unused htail bpre btail hv.1 hv.2.1 hv.2.2.1 hv.2.2.2.1 hv.2.2.2.2.1 hv.2.2.2.2.2.1 hv.2.2.2.2.2.2

theorem fmap_roundtrip_codec (c : Codec) (h : FmapHdr) (fonts : List FontSpec) (unused : List SlotSpec) (htail bpre btail : Bytes)
    (hv : FmapValid h fonts unused htail bpre btail) :
    parseFmap (decodeText c) (encFmap h fonts unused htail bpre btail) = decodeFonts (decodeText c) fonts :=
  fmap_roundtrip _ h fonts unused htail bpre btail hv

/-- the decoded map followed by the text decoder (what stxt2json does): the family of a run is the name stored in the
    font-map chunk under the run's id -/
theorem pipeline (dec : Dec) (h : FmapHdr) (fonts : List FontSpec) (unused : List SlotSpec) (htail bpre btail : Bytes)
    (gap text : Bytes) (fds : Int) (runs : List RunSpec) (tail : Bytes)
    (hv : FmapValid h fonts unused htail bpre btail) (hs : StxtValid gap text fds runs) :
    ((parseFmap dec (encFmap h fonts unused htail bpre btail)).bind fun fm => parseStxt dec fm (encStxt gap text fds runs tail))
      = (decodeFonts dec fonts).bind fun fm => (dec text).bind fun t => .ok ⟨t, runs.map (RunSpec.meaning fm)⟩ := by
  rw [fmap_roundtrip dec h fonts unused htail bpre btail hv]
  congr 1
  funext fm
  exact stxt_roundtrip dec fm gap text fds runs tail hs

example : FmapValid ⟨0, 0, 0, 0, 28, 8, 1, 2, 3, 4⟩ [⟨3, 0, [0x41, 0x72, 0x69, 0x61, 0x6C], [0]⟩, ⟨-2, 7, [], []⟩]
    [⟨-1, 0, 99⟩] [] (List.replicate 18 0) [1] := by decide

/-! ## the configured encodings (tables regenerated from CPython on every run) -/

/-- latin_1 reads every byte as the code point of the same number -/
theorem latin1_identity (b : UInt8) : decodeByte .latin1 b = some (Char.ofNat b.toNat) := by
  have := latin1_table b.toNat (UInt8.toNat_lt b)
  simpa using this

/-- ascii reads bytes below 0x80 as themselves and rejects every other byte -/
theorem ascii_strict (b : UInt8) :
    decodeByte .ascii b = if b.toNat < 128 then some (Char.ofNat b.toNat) else none := by
  have := ascii_table b.toNat (UInt8.toNat_lt b)
  simpa using this

/-- mac_roman (the default) and cp1252 agree with ASCII on the lower half -/
theorem low_half_ascii (b : UInt8) (h : b.toNat < 128) :
    decodeByte .macRoman b = some (Char.ofNat b.toNat) ∧ decodeByte .cp1252 b = some (Char.ofNat b.toNat) := by
  have := low_half_table b.toNat h
  simpa using this

/-- under the default encoding every byte value is a character: decoding a text never fails -/
theorem macRoman_total (b : UInt8) : (decodeByte .macRoman b).isSome = true := by
  have := macRoman_total_table b.toNat (UInt8.toNat_lt b)
  simpa using this

/-- the four table codecs give exactly one character per stored byte (so style-run start positions index the decoded text) -/
theorem table_codec_one_char_per_byte (c : Codec) (hc : c ≠ .utf8) (bs : Bytes) (t : List Char)
    (h : decodeText c bs = .ok t) : t.length = bs.length := decodeText_table_length c hc bs t h

/-! ## (L) the readers of the model ARE the generic reader over the field layouts regenerated from the Python source on every
    run, and the control shape of each reader is the one the model implements (see DrxProps/C17.lean section (L)). -/

theorem stxt_header_is_generated_layout (dec : Dec) (fm : List FontInfo) (d : Bytes) :
    parseStxt dec fm d = Layout.readK .be d 0 Gen.TextLayouts.stxtHeader fun
      | [idxb, nchars, _] => (dec (pySlice d idxb (idxb + nchars))).bind fun text =>
          (getSI .be 2 d (idxb + nchars)).bind fun nformat =>
          (runLoop fm d nformat.toNat (idxb + nchars + 2)).bind fun formats => .ok ⟨text, formats⟩
      | _ => .error .other := parseStxt_eq_layout dec fm d

theorem stxt_count_is_generated_layout (d : Bytes) (p : Nat) :
    getSI .be 2 d (p : Int) = Layout.readK .be d p Gen.TextLayouts.stxtCount fun | [n] => .ok n | _ => .error .other :=
  stxtCount_eq_layout d p

/-- the 20-byte style record: fourteen reads at the generated offsets, widths and signedness -/
theorem stxt_run_is_generated_layout (fm : List FontInfo) (d : Bytes) (n i : Nat) :
    runLoop fm d (n + 1) (i : Int) = Layout.readKB .be d i Gen.TextLayouts.stxtRun fun
      | [_, start, _, _, fontId, fmt, _, size, red, _, green, _, blue, _] =>
          (runLoop fm d n ((i + 20 : Nat) : Int)).bind fun rest =>
            .ok (⟨colorStrN red.toNat green.toNat blue.toNat, start, fmt.toNat % 2 = 1, fmt.toNat / 2 % 2 = 1, fmt.toNat / 4 % 2 = 1,
                  size, fontFamily fm fontId⟩ :: rest)
      | _ => .error .other := runLoop_succ_eq_layout fm d n i

theorem fmap_header_is_generated_layout (dec : Dec) (d : Bytes) :
    parseFmap dec d = Layout.readK .be d 0 Gen.TextLayouts.fmapSizes fun
      | [headerSize, additionalSize] =>
        if 8 + headerSize + additionalSize ≠ (d.length : Int) then .error .value else
        let hd := pySlice d 8 (8 + headerSize)
        let bd := pySlice d (8 + headerSize) (8 + headerSize + additionalSize)
        Layout.readK .be hd 0 Gen.TextLayouts.fmapHeader fun
          | [_, _, _, _, nfonts, nfontsCap, _, _, _, _, _, _] =>
            (metaLoop hd nfontsCap.toNat 28).bind fun metadata => fontLoop dec bd nfonts.toNat metadata 0
          | _ => .error .other
      | _ => .error .other := parseFmap_eq_layout dec d

theorem fmap_meta_is_generated_layout (hd : Bytes) (n idx : Nat) :
    metaLoop hd (n + 1) idx = Layout.readK .be hd idx Gen.TextLayouts.fmapMeta fun
      | [displacement, _, fontId] => (metaLoop hd n (idx + 8)).bind fun rest => .ok ((displacement, fontId) :: rest)
      | _ => .error .other := metaLoop_succ_eq_layout hd n idx

theorem fmap_font_is_generated_layout (dec : Dec) (bd : Bytes) (n disp : Nat) (fontId : Int) (ms : List (Int × Int)) (acc : Nat) :
    fontLoop dec bd (n + 1) (((disp : Int), fontId) :: ms) acc = Layout.readK .be bd disp Gen.TextLayouts.fmapFont fun
      | [nchars] =>
          let nameData := pySlice bd ((disp : Int) + 4) ((disp : Int) + 4 + nchars)
          if acc + nameData.length > bd.length then .error .value else
          (dec nameData).bind fun name =>
          (fontLoop dec bd n ms (acc + nameData.length)).bind fun rest => .ok (⟨name, fontId⟩ :: rest)
      | _ => .error .other := fontLoop_succ_eq_layout dec bd n disp fontId ms acc

/-- stxt.py: big-endian words + bytes; text = `fdata[h0 : h0+h4]` read with get_encoding(); the run count is the word right behind the text; records from there + 2, 20 bytes apart -/
theorem stxt_shape_is_generated : Gen.TextLayouts.stxtShape =
    [("order", ">,byte"), ("slice:0", "fdata[h0:h0+h4].decode(get_encoding())"), ("loop", "for"), ("count", "h(h0+h4+0)"), ("entry:p", "h0+h4+2"), ("stride:p", "20")] := by decide

/-- fmap.py: big-endian; `8 + h0 + h4` must equal `len(fdata)`; header area `fdata[8 : 8+h0]`, name area behind it; capacity-many 8-byte records from 28; per font a 4-byte length at the displacement and the name right behind it, read with get_encoding(); the names read so far may not exceed the name area (fix F52) -/
theorem fmap_shape_is_generated : Gen.TextLayouts.fmapShape =
    [("order", ">"), ("guard:0", "8 + h0 + h4 != len(fdata)"), ("slice:0", "fdata[8:h0+8]"), ("slice:1", "fdata[h0+8:h0+h4+8]"), ("meta.loop", "for"), ("meta.count", "buf1.h12"), ("meta.entry:p", "28"), ("meta.stride:p", "8"), ("font.loop", "for"), ("font.count", "buf1.h8"), ("font.stride:p", "buf2.e0+4"), ("font.slice:0", "buf2[p+4:p+buf2.e0+4]"), ("font.slice:1", "buf3[0:end].decode(get_encoding())"), ("font.acc:0", "acc1 += len(buf3)"), ("font.guard:0", "acc1 > len(buf2)")] := by decide

/-! ## the property -/

/-- C16 at full strength (model level): both round trips, for every decoding function -/
def C16_full : Prop :=
  (∀ (dec : Dec) (fm : List FontInfo) (gap text : Bytes) (fds : Int) (runs : List RunSpec) (tail : Bytes),
      StxtValid gap text fds runs →
      parseStxt dec fm (encStxt gap text fds runs tail) = (dec text).bind fun t => .ok ⟨t, runs.map (RunSpec.meaning fm)⟩) ∧
  (∀ (dec : Dec) (h : FmapHdr) (fonts : List FontSpec) (unused : List SlotSpec) (htail bpre btail : Bytes),
      FmapValid h fonts unused htail bpre btail →
      parseFmap dec (encFmap h fonts unused htail bpre btail) = decodeFonts dec fonts)

theorem C16 : C16_full := ⟨stxt_roundtrip, fmap_roundtrip⟩

end Drx.C16
