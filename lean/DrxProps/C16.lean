/-
  C16 — text members keep their characters, styles and fonts.
  Statements only; proofs call the lemmas of DrxProofs/Text.lean.
  Models: Drx/Stxt.lean, Drx/Fmap.lean.  Spec objects, encoders, meaning: Drx/TextSpec.lean.
-/
import Drx.Stxt
import Drx.Fmap
import Drx.TextSpec
import Drx.Codec
import DrxProofs.Py
import DrxProofs.Text
import DrxProofs.TextCodec
namespace Drx.C16
open Drx Drx.Fmap Drx.Stxt Drx.TextSpec

/-! ## styled text -/

/-- well-formed styled-text chunk: sizes fit their 32/16-bit fields -/
def StxtValid (gap text : Bytes) (fds : Int) (runs : List RunSpec) : Prop :=
  12 + gap.length + text.length < 2147483648 ∧ s32 fds ∧ runs.length < 32768 ∧ ∀ r ∈ runs, r.valid
instance (gap text : Bytes) (fds : Int) (runs : List RunSpec) : Decidable (StxtValid gap text fds runs) := by
  unfold StxtValid; infer_instance

/-- For ANY decoding function, ANY text bytes, ANY number of style records with ANY field values (including the skipped
    ones), ANY font map: the text is the stored bytes read by the decoder (its failure is the only failure) and run i
    reports the stored start, size, the three flag bits, `#RRGGBB` of the three high colour bytes, and the family
    the font-map lookup of the spec gives (last entry with that id, or `unknown_<id>`). -/
theorem stxt_roundtrip (dec : Dec) (fm : List FontInfo) (gap text : Bytes) (fds : Int) (runs : List RunSpec) (tail : Bytes)
    (h : StxtValid gap text fds runs) :
    parseStxt dec fm (encStxt gap text fds runs tail) = (dec text).bind fun t => .ok ⟨t, runs.map (RunSpec.meaning fm)⟩ :=
  parseStxt_encStxt dec fm gap text fds runs tail h.1 h.2.1 h.2.2.1 h.2.2.2

/-- instance: the configured codecs (tables generated from CPython; strict UTF-8) -/
theorem stxt_roundtrip_codec (c : Codec) (fm : List FontInfo) (gap text : Bytes) (fds : Int) (runs : List RunSpec) (tail : Bytes)
    (h : StxtValid gap text fds runs) :
    parseStxt (decodeText c) fm (encStxt gap text fds runs tail)
      = (decodeText c text).bind fun t => .ok ⟨t, runs.map (RunSpec.meaning fm)⟩ :=
  stxt_roundtrip _ fm gap text fds runs tail h

/-- the code's lookup loop (`for font in fontmap: if font['id'] == id: …`) is the spec lookup -/
theorem font_lookup (fm : List FontInfo) (id : Int) : fontFamily fm id = specFont fm id := fontFamily_eq_specFont fm id

/-- a run whose id is not in the map gets the explicit marker; one whose id is there exactly once gets that entry's name -/
theorem font_lookup_missing (fm : List FontInfo) (id : Int) (h : ∀ f ∈ fm, f.id ≠ id) :
    fontFamily fm id = "unknown_".toList ++ intStr id := by
  rw [fontFamily_eq_specFont]
  unfold specFont
  have : fm.filter (fun f => decide (f.id = id)) = [] := by
    rw [List.filter_eq_nil_iff]; intro f hf; simp [h f hf]
  simp [this]

theorem font_lookup_unique (pre post : List FontInfo) (f : FontInfo)
    (h1 : ∀ g ∈ pre, g.id ≠ f.id) (h2 : ∀ g ∈ post, g.id ≠ f.id) :
    fontFamily (pre ++ f :: post) f.id = f.name := by
  rw [fontFamily_eq_specFont]
  unfold specFont
  have a : pre.filter (fun g => decide (g.id = f.id)) = [] := by
    rw [List.filter_eq_nil_iff]; intro g hg; simp [h1 g hg]
  have b : post.filter (fun g => decide (g.id = f.id)) = [] := by
    rw [List.filter_eq_nil_iff]; intro g hg; simp [h2 g hg]
  simp [List.filter_append, a, b]

example : StxtValid [0xAA] [0x63, 0x61, 0x66, 0x8E]
    4 [⟨0, 0, 12, 9, 3, 5, 0, 12, 255, 1, 128, 2, 0, 3⟩, ⟨-1, 2, 0, 0, -7, 2, 9, 24, 0, 0, 0, 0, 0, 0⟩] := by decide

example : (⟨0, 0, 12, 9, 3, 5, 0, 12, 255, 1, 128, 2, 0, 3⟩ : RunSpec).meaning [⟨"Arial".toList, 3⟩]
    = ⟨"#FF8000".toList, 0, true, false, true, 12, "Arial".toList⟩ := by decide

/-! ## font map -/

def FmapValid (h : FmapHdr) (fonts : List FontSpec) (unused : List SlotSpec) (htail bpre btail : Bytes) : Prop :=
  h.valid ∧ (∀ f ∈ fonts, f.valid) ∧ FontsFit fonts bpre.length ∧ (∀ s ∈ unused, s.valid) ∧
  fonts.length + unused.length < 2147483648 ∧ (encFmapHeader h fonts unused bpre htail).length < 2147483648 ∧
  (bpre ++ (encFontNames fonts ++ btail)).length < 2147483648
instance (h : FmapHdr) (fonts : List FontSpec) (unused : List SlotSpec) (htail bpre btail : Bytes) :
    Decidable (FmapValid h fonts unused htail bpre btail) := by unfold FmapValid; infer_instance

/-- For ANY decoding function, ANY number of used fonts with ANY ids and name bytes (and padding), ANY unused capacity
    slots with ANY contents, ANY ignored header words: the font map decodes to exactly its (id, name) pairs in order. -/
theorem fmap_roundtrip (dec : Dec) (h : FmapHdr) (fonts : List FontSpec) (unused : List SlotSpec) (htail bpre btail : Bytes)
    (hv : FmapValid h fonts unused htail bpre btail) :
    parseFmap dec (encFmap h fonts unused htail bpre btail) = decodeFonts dec fonts :=
  parseFmap_encFmap dec h fonts unused htail bpre btail hv.1 hv.2.1 hv.2.2.1 hv.2.2.2.1 hv.2.2.2.2.1 hv.2.2.2.2.2.1 hv.2.2.2.2.2.2

theorem fmap_roundtrip_codec (c : Codec) (h : FmapHdr) (fonts : List FontSpec) (unused : List SlotSpec) (htail bpre btail : Bytes)
    (hv : FmapValid h fonts unused htail bpre btail) :
    parseFmap (decodeText c) (encFmap h fonts unused htail bpre btail) = decodeFonts (decodeText c) fonts :=
  fmap_roundtrip _ h fonts unused htail bpre btail hv

/-- the decoded map followed by the text decoder (what stxt2json does): the family of a run is the name stored in the
    font-map chunk under the run's id -/
theorem pipeline (dec : Dec) (h : FmapHdr) (fonts : List FontSpec) (unused : List SlotSpec) (htail bpre btail : Bytes)
    (gap text : Bytes) (fds : Int) (runs : List RunSpec) (tail : Bytes)
    (hv : FmapValid h fonts unused htail bpre btail) (hs : StxtValid gap text fds runs) :
    ((parseFmap dec (encFmap h fonts unused htail bpre btail)).bind fun fm => parseStxt dec fm (encStxt gap text fds runs tail))
      = (decodeFonts dec fonts).bind fun fm => (dec text).bind fun t => .ok ⟨t, runs.map (RunSpec.meaning fm)⟩ := by
  rw [fmap_roundtrip dec h fonts unused htail bpre btail hv]
  congr 1
  funext fm
  exact stxt_roundtrip dec fm gap text fds runs tail hs

example : FmapValid ⟨0, 0, 0, 0, 28, 8, 1, 2, 3, 4⟩ [⟨3, 0, [0x41, 0x72, 0x69, 0x61, 0x6C], [0]⟩, ⟨-2, 7, [], []⟩]
    [⟨-1, 0, 99⟩] [] (List.replicate 18 0) [1] := by decide

/-! ## the configured encodings (tables regenerated from CPython on every run) -/

/-- latin_1 reads every byte as the code point of the same number -/
theorem latin1_identity (b : UInt8) : decodeByte .latin1 b = some (Char.ofNat b.toNat) := by
  have := latin1_table b.toNat (UInt8.toNat_lt b)
  simpa using this

/-- ascii reads bytes below 0x80 as themselves and rejects every other byte -/
theorem ascii_strict (b : UInt8) :
    decodeByte .ascii b = if b.toNat < 128 then some (Char.ofNat b.toNat) else none := by
  have := ascii_table b.toNat (UInt8.toNat_lt b)
  simpa using this

/-- mac_roman (the default) and cp1252 agree with ASCII on the lower half -/
theorem low_half_ascii (b : UInt8) (h : b.toNat < 128) :
    decodeByte .macRoman b = some (Char.ofNat b.toNat) ∧ decodeByte .cp1252 b = some (Char.ofNat b.toNat) := by
  have := low_half_table b.toNat h
  simpa using this

/-- under the default encoding every byte value is a character: decoding a text never fails -/
theorem macRoman_total (b : UInt8) : (decodeByte .macRoman b).isSome = true := by
  have := macRoman_total_table b.toNat (UInt8.toNat_lt b)
  simpa using this

/-- the four table codecs give exactly one character per stored byte (so style-run start positions index the decoded text) -/
theorem table_codec_one_char_per_byte (c : Codec) (hc : c ≠ .utf8) (bs : Bytes) (t : List Char)
    (h : decodeText c bs = .ok t) : t.length = bs.length := decodeText_table_length c hc bs t h

/-! ## the property -/

/-- C16 at full strength (model level): both round trips, for every decoding function -/
def C16_full : Prop :=
  (∀ (dec : Dec) (fm : List FontInfo) (gap text : Bytes) (fds : Int) (runs : List RunSpec) (tail : Bytes),
      StxtValid gap text fds runs →
      parseStxt dec fm (encStxt gap text fds runs tail) = (dec text).bind fun t => .ok ⟨t, runs.map (RunSpec.meaning fm)⟩) ∧
  (∀ (dec : Dec) (h : FmapHdr) (fonts : List FontSpec) (unused : List SlotSpec) (htail bpre btail : Bytes),
      FmapValid h fonts unused htail bpre btail →
      parseFmap dec (encFmap h fonts unused htail bpre btail) = decodeFonts dec fonts)

theorem C16 : C16_full := ⟨stxt_roundtrip, fmap_roundtrip⟩

end Drx.C16
