/-
  C10 support for the sound family — termination and bounded work of snd_to_sampled.
  (1) every loop of the model (Drx/Snd.lean: parseDataTypes, parseCmds, runCmds, swapLoop) is structural recursion without
      fuel, so Lean's acceptance of the definitions is the termination proof on every byte string;
  (2) the counting twins of Drx/SndSteps.lean (rounds that START in each of the four Python loops; compared with the real
      code's rounds via sys.monitoring in harness/c07.py, line `snd stepsv`) have explicit bounds:
      the record loops and the command loop depend on the DATA LENGTH only, never on the declared counts; the 16-bit copy
      loop makes at most |d| rounds per sound command, and k commands occupy 8·k bytes of table;
  (3) the same for the output-buffer allocation (F09 repaired): ≤ 2·|d| per command.
  What is NOT linear: several sound commands may point at the SAME sound header, so k commands replay one sample area k
  times — output, copy-loop rounds and allocation are Θ(k·|area|) ≤ |d|²/8 (witness below; measured on the real code in
  design.d/C07.md). Each command legitimately announces its own output, so this is amplification by the format, bounded
  by the proved quadratic, not an unbounded declared count.
-/
import Drx.SndSteps
import DrxProofs.SndSteps
namespace Drx.C10Snd
open Drx Drx.Snd

/-- the data-type loop: at most one round per 6 bytes left (+ the raising round), and never more than declared -/
theorem data_type_loop_linear (d : Bytes) (declared idx : Nat) :
    parseDataTypesSteps d declared idx * 6 ≤ (d.length - idx) + 6 ∧ parseDataTypesSteps d declared idx ≤ declared :=
  ⟨parseDataTypesSteps_bound d declared idx, parseDataTypesSteps_le d declared idx⟩

/-- the command-table loop: at most one round per 8 bytes left (+ the raising round), and never more than declared -/
theorem command_loop_linear (d : Bytes) (declared idx : Nat) :
    parseCmdsSteps d declared idx * 8 ≤ (d.length - idx) + 8 ∧ parseCmdsSteps d declared idx ≤ declared :=
  ⟨parseCmdsSteps_bound d declared idx, parseCmdsSteps_le d declared idx⟩

/-- a command table that parses has consumed 8 bytes per command and made exactly one round per command -/
theorem command_loop_consumes (d : Bytes) (declared idx : Nat) (cs : List Cmd) (h : parseCmds d declared idx = .ok cs) :
    cs.length = declared ∧ (0 < declared → idx + 8 * declared ≤ d.length) ∧ parseCmdsSteps d declared idx = declared :=
  parseCmds_ok_length d declared idx cs h

/-- the 16-bit copy loop of one `_get_frames` call: at most |d| rounds for ANY state, offset (negative too) and declared
    length — the guard of the F09 repair is what makes this true -/
theorem copy_loop_bounded (st : St) (idx : Int) (d : Bytes) : getFramesSteps st idx d ≤ d.length :=
  getFramesSteps_le st idx d

/-- the dispatch loop and all copy loops of a command list -/
theorem run_loop_bounded (d : Bytes) (st : St) (cs : List Cmd) :
    (runCmdsSteps d st cs).1 ≤ cs.length ∧ (runCmdsSteps d st cs).2 ≤ cs.length * d.length :=
  runCmdsSteps_le d st cs

/-- whole decode, ANY byte string -/
theorem snd_steps_bounded (d : Bytes) :
    (sndSteps d).dataTypes * 6 ≤ d.length + 6 ∧
    (sndSteps d).commands * 8 ≤ d.length + 8 ∧
    (sndSteps d).run ≤ (sndSteps d).ncmds ∧
    (sndSteps d).swap ≤ (sndSteps d).ncmds * d.length ∧
    (sndSteps d).ncmds * 8 ≤ d.length :=
  sndSteps_bound d

/-- loops (1)–(3) together are linear in the input length, whatever the input declares -/
theorem snd_steps_linear_part (d : Bytes) :
    24 * ((sndSteps d).dataTypes + (sndSteps d).commands + (sndSteps d).run) ≤ 10 * d.length + 48 :=
  sndSteps_linear_part d

/-- all four loops: at most quadratic, explicit constants -/
theorem snd_steps_total (d : Bytes) : 24 * (sndSteps d).total ≤ 3 * (d.length * d.length) + 10 * d.length + 48 :=
  sndSteps_total_bound d

/-- output buffers of a whole decode with any number of commands: ≤ 2·|d| per command, commands ≤ |d|/8, hence ≤ |d|²/4 -/
theorem snd_alloc_bounded (d : Bytes) :
    (sndAlloc d).1 ≤ 2 * d.length * (sndAlloc d).2 ∧ (sndAlloc d).2 * 8 ≤ d.length ∧ 4 * (sndAlloc d).1 ≤ d.length * d.length :=
  sndAlloc_bound d

/-! ### hostile counts cost nothing; replayed headers cost k × area -/

/-- format 2, 0x7fff commands declared, 3 bytes of table: one round of the table loop, nothing else -/
example : sndSteps [0, 2, 0, 0, 0x7f, 0xff, 0x80, 0x51, 0] = ⟨0, 1, 0, 0, 0⟩ := by decide +kernel

/-- format 1, 0x7fff data-type records declared, one record present: two rounds (the second raises) -/
example : sndSteps [0, 1, 0x7f, 0xff, 0, 5, 0, 0, 0, 0x80] = ⟨2, 0, 0, 0, 0⟩ := by decide +kernel

/-- an extended 16-bit header announcing 0x00400000 frames over 4 bytes of samples: refused before the copy loop -/
example : (sndSteps ([0, 2, 0, 0, 0, 1, 0x80, 0x51, 0, 0, 0, 0, 0, 14] ++ [0, 0, 0, 0, 0, 0, 0, 1, 0x56, 0x22, 0, 0] ++ List.replicate 8 0
    ++ [0xFF, 60, 0, 0x40, 0, 0] ++ List.replicate 22 0 ++ [0, 16] ++ List.replicate 14 0 ++ [1, 2, 3, 4])).swap = 0 := by decide +kernel

/-- three bufferCmds pointing at ONE extended 16-bit header with 2 frames: the copy loop runs 3 × 2 rounds -/
def replayed : Bytes :=
  [0, 2, 0, 0, 0, 3] ++ [0x80, 0x51, 0, 0, 0, 0, 0, 30] ++ [0x80, 0x51, 0, 0, 0, 0, 0, 30] ++ [0x80, 0x51, 0, 0, 0, 0, 0, 30]
    ++ [0, 0, 0, 0, 0, 0, 0, 1, 0x56, 0x22, 0, 0] ++ List.replicate 8 0 ++ [0xFF, 60, 0, 0, 0, 2] ++ List.replicate 22 0 ++ [0, 16]
    ++ List.replicate 14 0 ++ [1, 2, 3, 4]

theorem replayed_header_multiplies : sndSteps replayed = ⟨0, 3, 3, 6, 3⟩ ∧ (sndAlloc replayed).1 = 12 := by decide +kernel

end Drx.C10Snd
