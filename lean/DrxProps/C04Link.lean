/-
  C04 with the translator instantiated by the MODEL of drxtract/lingosrc (lean/Drx/Lscr*): the JavaScript link between the spec
  layer (lean/Drx/Spec/JsRead.lean: `toJs`, the reader `readJs`, the reference printer `prJ`) and the model's `generate_js`
  (lean/Drx/Lscr/GenJs.lean), on an explicit, decidable fragment.  Lemmas: lean/DrxProofs/LinkJs*.lean; glue: lean/Drx/LinkJs.lean.

     e ──agent-link: compile, model parse──▶ node n with `Emb e n` ──model generate_js (J-text)──▶ text `txJ (toJs e)`
       ──spec lexer (J-lex)──▶ tokens `prJ (toJs e)` ──spec parser (J-read, tight fuel)──▶ tree `toJs e`

  Layers: J1 operator tables · J2 leaves · J3 operators (method-style, sprite tests, receiver parentheses F41/F42) · J4 calls and
  lists · J5 statements · J6 wrappers (plain functions, class for property scripts) · composition with agent-link's `parse_link`.

  Second round (agent-link-js2; the fragments `JsOkE` / `JsOkS` / `JsOkH` of lean/Drx/LinkJs.lean grew, the statements below did not
  change): `JsOkE` now also has property lists, `the P of obj`, chunk expressions, the built-in tables of sprite / cast / sound
  (index in `idxJsOk`: F20), `the number of … of`, `the last … of`, `the P of field`, `the mouseH` … (`key_owner`), `the floatPrecision` …,
  method calls on a local / parameter; statements: assignment to `the P of sprite n` / `the P of <variable>`, `put … into / after /
  before`, `delete`, `hilite`, method calls; J5t: STRUCTURED bodies (`if` / `repeat while` / `repeat with … to` / `repeat with … in`,
  nested without bound; the condition test `_is_parenthesized` of the F160 repair: `J_cond_parenthesized`); composition `C04_link_all`
  for scripts whose handlers are flat or structured (DrxProofs/LinkJsFlow.lean: the structured stack lemma with `with_result` tracked).
-/
import Drx.LinkJs
import DrxProofs.LinkJsCompose
import DrxProofs.LinkJsFlow
namespace DrxProps.C04Link
open Drx Drx.Spec Drx.Link Drx.LinkJs Drx.Lscr

/-! ### J1: operator tables (regenerated `JS_BIN_OP`, `JS_UNA_OP`) -/

/-- every source operator's enum value is a key of the regenerated `JS_BIN_OP`, and the entry is the operator `toJs` uses:
    the 13 infix operators as they are, the 4 method-style ones with the leading dot, the 2 sprite tests as a format string -/
theorem J1_binary_table (o : BinOp) : dictGet Gen.OpNames.jsBinOp (binName o) = .ok (jsOpEntry o) := (jsBinOp_table o).1

theorem J1_unary_table (o : UnOp) : dictGet Gen.OpNames.jsUnaOp (unName o) = .ok (jsUnEntry o) := jsUnaOp_table o

theorem J1_field_entry : dictGet Gen.OpNames.jsUnaOp (S "field") = .ok (S "field") := jsUnaOp_field

/-- what the entries are, spelled out (complete tables, by evaluation) -/
example : BinOp.all.map jsOpEntry = [S "*", S "+", S "-", S "/", S "%", S ".concat", S ".concats", S "<", S "<=", S "!=", S "==", S ">",
    S ">=", S "&&", S "||", S ".contains", S ".start", S "sprite(%s).intersects(sprite(%s))", S "sprite(%s).within(sprite(%s))"] := by
  decide +kernel

/-! ### J2–J4: expressions -/

/-- **J-text**: for every expression of the fragment `JsOkE` (integers, string constants of any characters below U+10000,
    symbols, the four variable kinds incl. the `this.` / `_global.` prefixes and `me`, unary minus / not, all 19 binary operators,
    `field`, plain function calls, linear lists — nested without bound) and every model node that is its image (`Link.Emb`, the
    relation agent-link's stack lemma establishes), the model's `generate_js`, as the script wrappers call it, returns the text
    of the tree `toJs` assigns to the expression -/
theorem J_text (c : JCtx) (e : Expr) (hf : JsOkE e = true) (n : Node) (h : Emb e n) (ind : Nat) :
    js true false n ind = .ok (.s (txJ (toJsE c e))) := js_emb c e hf n h ind

/-- **J-lex**: that text lexes (spec lexer) to exactly the tokens of the reference printer -/
theorem J_lex (c : JCtx) (e : Expr) (hf : JsOkE e = true) : lexJs (txJ (toJsE c e)) = some (prJ (toJsE c e)) := lex_toJsE c e hf

/-- the reader inverts the reference printer within the fuel `readJsExpr` / the statement reader pass (ten per token):
    agent-lspec's `js_read_print_expr` with a tight fuel measure -/
theorem J_read_tight (e : JE) (h : JFrag e) (lvl : Nat) (h1 : 1 ≤ lvl) (h7 : lvl ≤ 7) (R : List JTok) (hf : JFollow lvl R) (hp : NoPost R)
    (F : Nat) (hF : 10 * (prJ e).length ≤ F) : jLevel F lvl (prJ e ++ R) = some (e, R) :=
  js_read_print_expr_t e h lvl h1 h7 R hf hp F (by have := jW_le e h; omega)

/-- **J-read**: the JavaScript the model emits for the image of `e` reads (spec reader, JavaScript's grouping rules) as `toJs e` -/
theorem J_read (c : JCtx) (e : Expr) (hf : JsOkE e = true) (n : Node) (h : Emb e n) (ind : Nat) :
    ∃ text, js true false n ind = .ok (.s text) ∧ readJsExpr text = some (toJsE c e) := by
  refine ⟨_, js_emb c e hf n h ind, ?_⟩
  unfold readJsExpr
  rw [lex_toJsE c e hf]
  simp only [Option.bind_some]
  rw [jExpr_prJ (toJsE c e) (toJsE_fragJ c e hf) _ (by omega)]

/-- non-vacuity: `(a & "x\"y") contains -max(b, [1, #foo])` with `a` a parameter and `b` a global -/
def exExpr : Expr :=
  .bin .contains (.bin .concat (.var .param "a".toList) (.str "x\"y".toList))
    (.un .neg (.call "max".toList [.var .glob "b".toList, .list [.int 1, .sym "foo".toList]]))

def exNode : Node :=
  .binary (S "contains") 9 (.binary (S "concat") 4 (.leaf .paramName (.s (S "a")) 0) (.leaf .const (.s (escapeString (S "x\"y"))) 2))
    (.unary (S "minus") 8 (.callFn (.s (S "max")) 7 (.loadList (S "<load_list>") 6
      [.toList 5 (.loadList (S "<load_list>") 5 [.sym (.s (S "foo")) 4 true, .leaf .const (.s (natStr 1)) 3]),
       .leaf .globalVar (.s (S "b")) 2]) true false false .none))

example : JsOkE exExpr = true := by decide +kernel

example : Emb exExpr exNode :=
  ⟨9, _, _, rfl, ⟨4, _, _, rfl, ⟨0, rfl⟩, ⟨2, rfl⟩⟩,
    ⟨8, _, rfl, ⟨7, 6, false, [_, _], rfl, _, _, rfl, ⟨2, rfl⟩, _, _, rfl, ⟨5, 5, [_, _], rfl, _, _, rfl, ⟨3, rfl⟩, _, _, rfl, ⟨4, rfl⟩, rfl⟩, rfl⟩⟩⟩

/-- the text J-text predicts for the example (the string escape, the method-style operators, `-(…)`, `_global.`, `list`, `symbol`) -/
example : String.ofList (txJ (toJsE c0 exExpr)) =
    "a.concat(new LingoString(\"x\\\"y\")).contains(-(max(_global.b, list(1, symbol('foo')))))" := by decide +kernel

/-- F41 / F42 inside the theorem: a numeric literal and a prefix operation as receivers are parenthesised by the model exactly
    where the reference printer parenthesises them -/
example : String.ofList (txJ (toJsE c0 (.bin .concat (.int 1) (.bin .concats (.un .neg (.var .loc "x".toList)) (.int 2))))) =
    "(1).concat((-(x)).concats(2))" := by decide +kernel

/-! ### J5: statements -/

/-- **J5 (text)**: one statement line: `set <variable> = e`, command calls (wrapped in `fn_call(…)` exactly for handlers of the same
    script), `return` / `return e`, `exit`; `hs` = the script's handler names -/
theorem J5_text (hs : List Spec.Name) (hret : hs.contains "return".toList = false) (s : Stmt) (hf : JsOkS s = true) (n : Node)
    (h : EmbSJ hs s n) (ind : Nat) :
    js true false n ind = .ok (.s (indentOf ind ++ txS (toJsS { handlers := hs, inTell := false } s) ++ S "\n")) :=
  js_stmt_emb hs hret s hf n h ind

/-- **J5**: a statement list: the model's text, its lexing, and its reading as a block up to the closing brace -/
theorem J5_body (hs : List Spec.Name) (hret : hs.contains "return".toList = false) (ss : List Stmt) (hf : JsOkSs ss = true) (ns : List Node)
    (h : EmbSsJ hs ss ns) (ind : Nat) :
    let js' := toJsSs { handlers := hs, inTell := false } ss
    jsStmts true ns ind = .ok (txBody ind js') ∧
    (∀ rest, LexesTo (txBody ind js') (prBody js') rest) ∧
    (∀ rest F, ss.length + 2 ≤ F → jBlock F (prBody js' ++ .p .rc :: rest) = some (js', rest)) := by
  obtain ⟨l1, l2⟩ := toJsSs_ok hs ss hf
  have hlen : ∀ (l : List Stmt), (toJsSs { handlers := hs, inTell := false } l).length = l.length := by
    intro l; induction l with
    | nil => rfl
    | cons x xs ih => simp [toJsSs, ih]
  exact ⟨jsStmts_emb hs hret ss hf ns h ind, fun rest => lexBody ind _ l1 rest,
    fun rest F hF => jBlock_prBody _ l2 rest F (by rw [ssW_simple _ (toJsSs_simple _ ss hf), hlen]; exact hF)⟩

/-! ### J5t: structured statements (`if` / `repeat while` / `repeat with`, nested without bound) -/

/-- **F160 on trees**: the test `_is_parenthesized` of the repaired `IfThenOperation` / `RepeatOperation.generate_js` (model:
    `Lscr.isParenthesized`: the first parenthesis closes at the last character, string literals skipped) holds of the text of
    the translation of `e` exactly when that translation is an infix operation — so a condition is always written in exactly one
    pair of parentheses (before the repair the test was `startswith('(')`: `if (a + 1) & 2 then` gave `if (a + 1).concat(2) {`) -/
theorem J_cond_parenthesized (c : JCtx) (e : Expr) (hf : JsOkE e = true) :
    isParenthesized (txJ (toJsE c e)) = isBinJ (toJsE c e) := isParen_txJ _ (toJsE_lexok c e hf)

/-- **J5t (text)**: one statement of the fragment `JsOkT` — a simple statement of `JsOkS`, `if c then … [else …]`, `repeat while c`,
    `repeat with <local> = a [down] to b`, bodies again in the fragment — and every model node that is its image (`EmbSJ`: agent-link-flow's
    nested tree `EmbT` with `with_result` tracked): the model's `generate_js` returns the lines `txT ind (toJsS s)`:
    `if (c) {` … `} else {` … `}`, `while (c) {` … `}`, `for(v = a; v <= b; v++) {` … `}`, bodies one level deeper -/
theorem J5_tree_text (hs : List Spec.Name) (hret : hs.contains "return".toList = false) (s : Stmt) (hf : JsOkT s = true) (n : Node)
    (h : EmbSJ hs s n) (ind : Nat) :
    js true false n ind = .ok (.s (txT ind (toJsS { handlers := hs, inTell := false } s))) :=
  js_tree hs hret s hf n h ind

/-- **J5t**: a structured statement list: the model's text, its lexing, and its reading as a block up to the closing brace
    (fuel `ssW`: one unit per statement plus two per nested block) -/
theorem J5_trees (hs : List Spec.Name) (hret : hs.contains "return".toList = false) (ss : List Stmt) (hf : JsOkTs ss = true) (ns : List Node)
    (h : EmbSsJ hs ss ns) (ind : Nat) :
    let js' := toJsSs { handlers := hs, inTell := false } ss
    jsStmts true ns ind = .ok (txBody ind js') ∧
    (∀ rest, LexesTo (txBody ind js') (prBody js') rest) ∧
    (∀ rest F, ssW js' + 2 ≤ F → jBlock F (prBody js' ++ .p .rc :: rest) = some (js', rest)) := by
  obtain ⟨l1, l2⟩ := toJsTs_ok hs ss hf
  exact ⟨js_trees hs hret ss hf ns h ind, fun rest => lexBody ind _ l1 rest, fun rest F hF => jBlock_prBody _ l2 rest F hF⟩

/-- non-vacuity: `if (a + 1) & 2 then / repeat with i = 1 to n / set x = x * i / end repeat / else / repeat while not (x < 3) / exit` -/
def exTree : Stmt :=
  .ifThen (.bin .concat (.bin .add (.var .param "a".toList) (.int 1)) (.int 2))
    [ .repeatWith (.var .loc "i".toList) (.int 1) (.var .param "n".toList) false
        [ .set (.var .loc "x".toList) (.bin .mul (.var .loc "x".toList) (.var .loc "i".toList)) ] ]
    [ .repeatWhile (.un .not (.bin .lt (.var .loc "x".toList) (.int 3))) [ .exit ] ]

def exTreeNode : Node :=
  .stmt 9 (.ifThen 9 (.binary (S "concat") 8 (.binary (S "add") 4 (.leaf .paramName (.s (S "a")) 0) (.leaf .const (.s (natStr 1)) 2))
      (.leaf .const (.s (natStr 2)) 6))
    [ .stmt 40 (.repeat_ 40 44 (.binary (S "lte") 20 (.leaf .localVar (.s (S "i")) 16) (.leaf .paramName (.s (S "n")) 18)) 
        [ .stmt 30 (.binary (S "assign") 30 (.leaf .localVar (.s (S "x")) 30)
            (.binary (S "mul") 28 (.leaf .localVar (.s (S "x")) 24) (.leaf .localVar (.s (S "i")) 26))) ]
        (S "for") (.leaf .const (.s (natStr 1)) 12) (.s (S "i")) (S "+") (.leaf .localVar (.s (S "i")) 14)) ]
    [ .stmt 70 (.repeat_ 70 74 (.unary (S "not") 58 (.binary (S "lt") 56 (.leaf .localVar (.s (S "x")) 52) (.leaf .const (.s (natStr 3)) 54)))
        [ .stmt 64 (.callFn (.s (S "exit")) 64 .none true false false .none) ] (S "while") .none (.s []) [] .none) ])

example : JsOkT exTree = true := by decide +kernel

example : EmbSJ [] exTree exTreeNode := by
  refine ⟨9, 9, _, _, _, rfl, ⟨8, _, _, rfl, ⟨4, _, _, rfl, ⟨0, rfl⟩, ⟨2, rfl⟩⟩, ⟨6, rfl⟩⟩, ?_, ?_⟩
  · exact ⟨_, [], rfl, ⟨40, 40, 44, 20, 16, 14, _, _, _, rfl, ⟨12, rfl⟩, ⟨18, rfl⟩,
      ⟨_, [], rfl, ⟨30, 30, _, _, rfl, ⟨30, rfl⟩, ⟨28, _, _, rfl, ⟨24, rfl⟩, ⟨26, rfl⟩⟩⟩, rfl⟩⟩, rfl⟩
  · exact ⟨_, [], rfl, ⟨70, 70, 74, _, _, rfl, ⟨58, _, rfl, ⟨56, _, _, rfl, ⟨52, rfl⟩, ⟨54, rfl⟩⟩⟩, ⟨_, [], rfl, ⟨64, 64, rfl⟩, rfl⟩⟩, rfl⟩

/-- the lines J5t predicts for the example (the condition of the `if` gets its own parentheses since the repair of F160, an infix
    condition keeps its single pair, the `for` header strips it) -/
example : String.ofList (txT 1 (toJsS { handlers := [], inTell := false } exTree)) =
    "    if ((a + 1).concat(2)) {\n        for(i = 1; i <= n; i++) {\n            x = (x * i);\n        }\n    } else {\n        while (!((x < 3))) {\n            exit();\n        }\n    }\n" := by
  decide +kernel

/-- … and the model's `generate_js` prints exactly these lines for the node (evaluation, independent of the theorem) -/
example : (match js true false exTreeNode 1 with | .ok (.s t) => String.ofList t | _ => "") =
    "    if ((a + 1).concat(2)) {\n        for(i = 1; i <= n; i++) {\n            x = (x * i);\n        }\n    } else {\n        while (!((x < 3))) {\n            exit();\n        }\n    }\n" := by
  decide +kernel

/-! ### J6: the script wrappers -/

/-- **J6, plain scripts**: one `function` per handler (parameters, `var` lines, body) -/
theorem J6_plain (n : Nat) (s : Spec.Script) (t : Lscr.Script) (hr : ScriptRelJ s t) (hfac : s.factory = []) (hprops : s.props = [])
    (hok : JsOkHs s.handlers = true) : ∃ text, jsText t = .ok text ∧ readJs text = some (toJs n s) :=
  jsText_plain n s t hr hfac hprops hok

/-- **J6, property scripts**: `class Object__<n> extends ObjectBase` with one method per handler (the receiver parameter `me`
    dropped) and one wrapper function `function h(obj, ...args) { return obj.h(...args); }` per handler except `birth` (F26) -/
theorem J6_class (n : Nat) (s : Spec.Script) (t : Lscr.Script) (hr : ScriptRelJ s t) (hfac : s.factory = []) (hprops : s.props ≠ [])
    (hok : JsOkHs s.handlers = true) (hnum : t.scrNum = (n : Int)) : ∃ text, jsText t = .ok text ∧ readJs text = some (toJs n s) :=
  jsText_class n s t hr hfac hprops hok hnum

/-- **J6, factories**: `class Factory__<name> extends FactoryBase` with one method per handler and the dispatcher
    `function <name>(methodName, ...args) { return factoryCall('<name>', methodName, args); }`.  The hypothesis `ScriptRelF` is what a
    container layer for factories would have to establish (methods carry the receiver `me` as parameter 0); agent-link's chain
    does not cover factories, so this layer is not composed with `compile`. -/
theorem J6_factory_partial (n : Nat) (s : Spec.Script) (t : Lscr.Script) (hr : ScriptRelF s t) (hfac : jsIdOk s.factory = true)
    (hok : JsOkHs s.handlers = true) : ∃ text, jsText t = .ok text ∧ readJs text = some (toJs n s) :=
  jsText_factory n s t hr hfac hok

/-- non-vacuity for the factory layer: a one-method factory and a model tree related to it -/
def exFactory : Spec.Script :=
  { factory := "Counter".toList, props := ["count".toList], globals := [],
    handlers := [ { name := "mGet".toList, params := ["k".toList], isMethod := true,
                    body := [ .call "return".toList [.bin .add (.var .prop "count".toList) (.var .param "k".toList)] ] } ] }

def exFactoryTree : Lscr.Script :=
  { properties := [S "count"], factoryName := S "Counter",
    functions := [ { name := S "mGet", pos := 0, isMethod := true,
                     params := [.leaf .paramName (.s (S "me")) 0, .leaf .paramName (.s (S "k")) 2],
                     stmts := [ .stmt 5 (.callFn (.s (S "return")) 5 (.loadList (S "load_list") 4
                                  [.binary (S "add") 3 (.leaf .definedProp (.s (S "count")) 1) (.leaf .paramName (.s (S "k")) 2)]) true false false .none),
                                exitStmt 6 6 ] } ] }

example : ScriptRelF exFactory exFactoryTree ∧ jsIdOk exFactory.factory = true ∧ JsOkHs exFactory.handlers = true := by
  refine ⟨⟨rfl, Rel2.cons ⟨rfl, Leaves.cons ⟨0, rfl⟩ (Leaves.cons ⟨2, rfl⟩ Leaves.nil), Leaves.nil, ?_⟩ Rel2.nil⟩, by decide +kernel, by decide +kernel⟩
  exact ⟨[_], 6, 6, rfl, _, [], rfl, ⟨5, 5, 4, [_], rfl, _, [], rfl, ⟨3, _, _, rfl, ⟨1, rfl⟩, ⟨2, rfl⟩⟩, rfl⟩, rfl⟩

/-- the text the model prints for that tree -/
example : (match jsText exFactoryTree with | .ok t => String.ofList t | .error _ => "") =
    "class Factory__Counter extends FactoryBase {\n    mGet(k) {\n        return (this.count + k);\n    }\n}\n\nfunction Counter(methodName, ...args) {\n    return factoryCall('Counter', methodName, args);\n}\n" := by
  decide +kernel

/-! ### composition: C04 on the fragment with the model as the translator -/

/-- side conditions on the compiled name table (as in C02Link) -/
def NamesOk (c : Compiled) : Prop := (∀ n ∈ c.names, asciiName n = true) ∧ c.names.length < 32768

/-- **C04 on the fragment**: the JavaScript the model emits for the compiled chunks reads as `toJs s` -/
theorem C04_link (o : Options) (s : Spec.Script) (c : Compiled) (hf : JsLinkScript s = true) (hnum : o.scrNum < 32768)
    (hc : compile o s = .ok c) (hn : NamesOk c) :
    ∃ text, modelGenJs c.lscr c.lnam = some text ∧ readJs text = some (toJs o.scrNum s) :=
  js_link o s c hf hnum hc hn.1 hn.2

/-- `DrxProps.C04.C04_full` for the model, restricted to the fragment (the full statement quantifies over every script) -/
theorem C04_model_partial (o : Options) (s : Spec.Script) (c : Compiled) (hf : JsLinkScript s = true) (hnum : o.scrNum < 32768)
    (hn : NamesOk c) (hc : compile o s = .ok c) :
    ∃ text, modelGenJs c.lscr c.lnam = some text ∧ (readJs text).map (·.map JTop.render) = some ((toJs o.scrNum s).map JTop.render) := by
  obtain ⟨text, h1, h2⟩ := C04_link o s c hf hnum hc hn
  exact ⟨text, h1, by rw [h2]; rfl⟩

/-! ### non-vacuity: a property script with two handlers -/

def exScript : Spec.Script :=
  { factory := [], props := ["score".toList], globals := ["gTotal".toList],
    handlers := [
      { name := "startUp".toList, params := ["me".toList, "b".toList], isMethod := false,
        body := [ .set (.var .loc "x".toList) (.bin .mul (.bin .sub (.var .param "b".toList) (.bin .sub (.var .glob "gTotal".toList) (.int 1)))
                      (.un .neg (.bin .add (.var .param "b".toList) (.int 70000)))),
                  .set (.var .prop "score".toList) (.un .not (.bin .le (.var .loc "x".toList) (.int 300))),
                  .set (.var .glob "gTotal".toList) (.bin .within (.int 1) (.bin .concat (.int 7) (.var .loc "x".toList))) ] },
      { name := "finish".toList, params := [], isMethod := false,
        body := [ .set (.var .loc "z".toList) (.call "max".toList [.field (.int 3), .list [.int 1, .var .prop "score".toList, .list []]]),
                  .call "startUp".toList [.var .loc "z".toList, .sym "done".toList],
                  .call "beep".toList [],
                  .exit ] } ] }

example : JsLinkScript exScript = true := by decide +kernel

example : ∃ c, compile {} exScript = .ok c ∧ NamesOk c := by
  have h : (match compile {} exScript with
      | .ok c => decide ((∀ n ∈ c.names, asciiName n = true) ∧ c.names.length < 32768)
      | .error _ => false) = true := by decide +kernel
  cases hc : compile {} exScript with
  | error e => rw [hc] at h; cases h
  | ok c => rw [hc] at h; exact ⟨c, rfl, by simpa [NamesOk] using h⟩

/-- the JavaScript text the theorems predict for the example -/
example : String.ofList (txClassProg ("Object__".toList ++ (toString 0).toList) (S "ObjectBase")
      (exScript.handlers.map (toJsFunc (exScript.handlers.map (·.name)) true))
      ((exScript.handlers.filter (·.name ≠ "birth".toList)).map fun h => wrapperFunc h.name)) =
    "class Object__0 extends ObjectBase {\n    startUp(b) {\n        var x;\n\n        x = ((b - (_global.gTotal - 1)) * -((b + 70000)));\n        this.score = !((x <= 300));\n        _global.gTotal = sprite(1).within(sprite((7).concat(x)));\n    }\n\n    finish() {\n        var z;\n\n        z = max(field(3), list(1, this.score, list()));\n        fn_call(startUp(z, symbol('done')));\n        beep();\n        exit();\n    }\n}\n\nfunction startUp(obj, ...args) {\n    return obj.startUp(...args);\n}\nfunction finish(obj, ...args) {\n    return obj.finish(...args);\n}\n" := by
  decide +kernel

/-! ### composition for STRUCTURED handler bodies (and scripts that mix flat and structured handlers) -/

/-- **C04 on the structured fragment**: `JsLinkScriptT s` (decidable, `DrxProofs/LinkJsFlow.lean`) = no factory; every handler is an
    `on` handler whose body is flat (agent-link's `FragSs`) or structured (agent-link-flow's `FragTs` — `if … then … [else …]`,
    `repeat while c`, `repeat with <local> = a [down] to b`, nested to any depth — without the one ambiguity `okAmbs`), properties
    declared at script level, and lies in the JavaScript fragment `JsOkH` (bodies in `JsOkTs`).  For every successful compilation the
    model parses the chunks (agent-link's container chain `parse_linkg`, agent-link-flow's reconstruction `flow_core`, and the
    structured stack lemma repeated with `with_result` tracked: `LinkFlowH.structs_allH`) and its `generate_js_code` returns a text
    that the reader of the JavaScript subset reads as exactly `toJs s`: `if (c) {…} else {…}`, `while (c) {…}`,
    `for(v = a; v <= b; v++) {…}` nested as in the source, plain scripts and property scripts. -/
theorem C04_link_all (o : Options) (s : Spec.Script) (c : Compiled) (hf : JsLinkScriptT s = true) (hnum : o.scrNum < 32768)
    (hc : compile o s = .ok c) (hn : NamesOk c) :
    ∃ text, modelGenJs c.lscr c.lnam = some text ∧ readJs text = some (toJs o.scrNum s) :=
  js_link_all o s c hf hnum hc hn.1 hn.2

/-- … and with the STRICT reader the check uses (`readJsStrict`, F141: no declared name — function, parameter, `var` — is a reserved word of
    JavaScript; class bodies are strict-mode code): the side condition is a decidable fact about the translation `toJs s` alone -/
theorem C04_link_all_strict (o : Options) (s : Spec.Script) (c : Compiled) (hf : JsLinkScriptT s = true) (hnum : o.scrNum < 32768)
    (hc : compile o s = .ok c) (hn : NamesOk c) (hres : (toJs o.scrNum s).all JTop.namesOk = true) :
    ∃ text, modelGenJs c.lscr c.lnam = some text ∧ readJsStrict text = some (toJs o.scrNum s) := by
  obtain ⟨text, h1, h2⟩ := C04_link_all o s c hf hnum hc hn
  exact ⟨text, h1, by simp only [readJsStrict, h2, Option.bind_some, hres, if_true]⟩

/-- the flat fragment of `C04_link` lies inside `JsLinkScriptT` -/
theorem C04_link_all_extends (s : Spec.Script) (hf : JsLinkScript s = true) : JsLinkScriptT s = true := jsLinkScript_T s hf

/-- **C04 on agent-link-flow's structured fragment** `FragScriptT` (every handler structured), handlers in `JsOkH` -/
theorem C04_link_structured (o : Options) (s : Spec.Script) (c : Compiled) (hT : Drx.LinkFlow.FragScriptT s = true)
    (hok : JsOkHs s.handlers = true) (hnum : o.scrNum < 32768) (hc : compile o s = .ok c) (hn : NamesOk c) :
    ∃ text, modelGenJs c.lscr c.lnam = some text ∧ readJs text = some (toJs o.scrNum s) := by
  refine C04_link_all o s c ?_ hnum hc hn
  simp only [Drx.LinkFlow.FragScriptT, Bool.and_eq_true, List.all_eq_true, List.isEmpty_iff, Bool.not_eq_true'] at hT
  simp only [JsLinkScriptT, Bool.and_eq_true, List.all_eq_true, List.isEmpty_iff]
  refine ⟨⟨hT.1, fun h hh => ?_⟩, hok⟩
  obtain ⟨⟨⟨h1, h2⟩, h3⟩, h4⟩ := hT.2 h hh
  simp only [Drx.LinkFlowH.FragHJ, Bool.and_eq_true, Bool.or_eq_true, Bool.not_eq_true', List.all_eq_true]
  exact ⟨⟨h1, Or.inr ⟨h2, h3⟩⟩, h4⟩

/-- `DrxProps.C04.C04_full` for the model, restricted to the structured fragment -/
theorem C04_model_partial_all (o : Options) (s : Spec.Script) (c : Compiled) (hf : JsLinkScriptT s = true) (hnum : o.scrNum < 32768)
    (hn : NamesOk c) (hc : compile o s = .ok c) :
    ∃ text, modelGenJs c.lscr c.lnam = some text ∧ (readJs text).map (·.map JTop.render) = some ((toJs o.scrNum s).map JTop.render) := by
  obtain ⟨text, h1, h2⟩ := C04_link_all o s c hf hnum hc hn
  exact ⟨text, h1, by rw [h2]; rfl⟩

/-- non-vacuity: a property script with a structured handler (`repeat with … down to` > `if … else` with a condition that needs
    the parentheses of F160, a `hilite`, a command call, a call of a handler of the same script; `repeat while` with an infix condition;
    `repeat with it in [1, total]`; `return`) and a flat handler -/
def exAll : Spec.Script :=
  { factory := [], props := ["pLast".toList], globals := [],
    handlers := [
      { name := "countDown".toList, params := ["me".toList, "n".toList], isMethod := false,
        body := [ .set (.var .loc "total".toList) (.int 0),
                  .repeatWith (.var .loc "i".toList) (.var .param "n".toList) (.int 1) true
                    [ .ifThen (.bin .contains (.bin .concat (.bin .mod (.var .loc "i".toList) (.int 2)) (.str "x".toList)) (.str "1".toList))
                        [ .set (.var .loc "total".toList) (.bin .add (.var .loc "total".toList) (.var .loc "i".toList)),
                          .hilite (.chunk .word (.int 1) (.int 0) (.field (.var .loc "i".toList))) ]
                        [ .call "beep".toList [],
                          .call "helper".toList [.var .loc "total".toList, .sym "odd".toList] ] ],
                  .repeatWhile (.bin .gt (.var .loc "total".toList) (.int 100))
                    [ .set (.var .loc "total".toList) (.bin .div (.var .loc "total".toList) (.int 2)) ],
                  .repeatIn (.var .loc "it".toList) (.list [.int 1, .var .loc "total".toList])
                    [ .call "put".toList [.var .loc "it".toList] ],
                  .call "return".toList [.var .loc "total".toList] ] },
      { name := "helper".toList, params := ["a".toList, "b".toList], isMethod := false,
        body := [ .set (.var .prop "pLast".toList) (.var .param "a".toList), .exit ] } ] }

example : JsLinkScriptT exAll = true := by decide +kernel

example : (toJs 0 exAll).all JTop.namesOk = true := by decide +kernel

/-- it is outside the flat fragment of `C04_link` -/
example : JsLinkScript exAll = false := by decide +kernel

example : ∃ c, compile {} exAll = .ok c ∧ NamesOk c := by
  have h : (match compile {} exAll with
      | .ok c => decide ((∀ n ∈ c.names, asciiName n = true) ∧ c.names.length < 32768)
      | .error _ => false) = true := by decide +kernel
  cases hc : compile {} exAll with
  | error e => rw [hc] at h; cases h
  | ok c => rw [hc] at h; exact ⟨c, rfl, by simpa [NamesOk] using h⟩

/-- the JavaScript text the theorems predict for the example (cross-checked: the REAL translator prints exactly this text for
    the compiled chunks, design.d/C04Link.md) -/
example : String.ofList (txClassProg ("Object__".toList ++ (toString 0).toList) (S "ObjectBase")
      (exAll.handlers.map (toJsFunc (exAll.handlers.map (·.name)) true))
      ((exAll.handlers.filter (·.name ≠ "birth".toList)).map fun h => wrapperFunc h.name)) =
    "class Object__0 extends ObjectBase {\n    countDown(n) {\n        var total;\n        var i;\n        var it;\n\n        total = 0;\n        for(i = n; i >= 1; i--) {\n            if ((i % 2).concat(new LingoString(\"x\")).contains(new LingoString(\"1\"))) {\n                total = (total + i);\n                hilite(field(i).word[1]);\n            } else {\n                beep();\n                fn_call(helper(total, symbol('odd')));\n            }\n        }\n        while (total > 100) {\n            total = (total / 2);\n        }\n        for(it of list(1, total)) {\n            put(it);\n        }\n        return total;\n    }\n\n    helper(a, b) {\n        this.pLast = a;\n        exit();\n    }\n}\n\nfunction countDown(obj, ...args) {\n    return obj.countDown(...args);\n}\nfunction helper(obj, ...args) {\n    return obj.helper(...args);\n}\n" := by
  decide +kernel

/-- the text `generate_js` returns for a node (none if it raises or returns an int) -/
def jsOut (n : Node) : Option String :=
  match js true false n 0 with
  | .ok (.s t) => some (String.ofList t)
  | _ => none

/-! ### the expression forms added to `JsOkE` in the second round: property lists, `the P of obj`, chunk expressions, the built-in
     properties of sprite / cast / sound (all inside `J_text` / `J_lex` / `J_read` and the composed theorems above) -/

/-- non-vacuity: a flat handler using every new form (expressions, assignment targets, `put` / `delete`, method calls) -/
def exForms : Spec.Script :=
  { factory := [], props := [], globals := ["gObj".toList],
    handlers := [
      { name := "forms".toList, params := ["s".toList, "n".toList, "i".toList], isMethod := false,
        body := [ .set (.var .loc "x".toList) (.plist [.sym "a".toList, .oprop "foo".toList (.var .glob "gObj".toList),
                                                        .sym "b".toList, .chunk .word (.int 2) (.int 0) (.var .param "s".toList)]),
                  .set (.var .loc "y".toList) (.bin .add (.the .sprite 13 [.int 3]) (.the .sound 1 [.var .param "i".toList])),
                  .set (.var .loc "z".toList) (.chunk .char (.int 1) (.var .param "n".toList) (.the .cast 1 [.var .param "i".toList])),
                  .set (.var .loc "w".toList) (.oprop "length".toList (.chunk .item (.un .neg (.var .param "n".toList)) (.int 0) (.int 7))),
                  .set (.the .sprite 13 [.var .param "i".toList]) (.bin .add (.the .sprite 13 [.var .param "i".toList]) (.int 1)),
                  .set (.oprop "foo".toList (.var .glob "gObj".toList)) (.var .loc "x".toList),
                  .set (.var .loc "y".toList) (.bin .concat (.the .numChunks 2 [.var .param "s".toList])
                      (.the .special 12 [.the .field 2 [.bin .add (.var .param "i".toList) (.int 1)]])),
                  .set (.var .loc "z".toList) (.list [.key "mouseH".toList, .key "optionDown".toList, .the .special 0 []]),
                  .put .after (.str "x".toList) (.chunk .word (.int 2) (.int 0) (.field (.int 3))),
                  .put .into (.var .param "s".toList) (.field (.var .param "i".toList)),
                  .put .before (.bin .add (.var .param "n".toList) (.int 1)) (.var .loc "x".toList),
                  .delete (.chunk .char (.int 1) (.int 2) (.chunk .word (.int 2) (.int 0) (.var .loc "x".toList))),
                  .set (.the .special 0 []) (.int 4),
                  .mcall (.var .param "s".toList) "mReset".toList [.int 1, .var .loc "x".toList],
                  .set (.var .loc "w".toList) (.mcall (.var .loc "x".toList) "mGet".toList []) ] } ] }

example : JsLinkScript exForms = true := by decide +kernel

example : ∃ c, compile {} exForms = .ok c ∧ NamesOk c := by
  have h : (match compile {} exForms with
      | .ok c => decide ((∀ n ∈ c.names, asciiName n = true) ∧ c.names.length < 32768)
      | .error _ => false) = true := by decide +kernel
  cases hc : compile {} exForms with
  | error e => rw [hc] at h; cases h
  | ok c => rw [hc] at h; exact ⟨c, rfl, by simpa [NamesOk] using h⟩

/-- the text the theorems predict (the REAL translator prints exactly this text for the compiled chunks) -/
example : String.ofList (txFuncs (exForms.handlers.map (toJsFunc (exForms.handlers.map (·.name)) false)) true) =
    "function forms(s, n, i) {\n    var x;\n    var y;\n    var z;\n    var w;\n\n    x = propList(symbol('a'), _global.gObj.foo, symbol('b'), s.word[2]);\n    y = (sprite(3).locH + sound(i).volume);\n    z = member(i).name.char[range(1, n)];\n    w = (7).item[-(n)].length;\n    sprite(i).locH = (sprite(i).locH + 1);\n    _global.gObj.foo = x;\n    y = s.word.length.concat(field((i + 1)).text.char[\"last\"]);\n    z = list(_mouse.mouseH, _key.optionDown, _system.floatPrecision);\n    field(3).text.word[2] = new LingoString(field(3).text.word[2] + new LingoString(\"x\"));\n    field(i).text = s;\n    x = new LingoString((n + 1) + x);\n    delete(x.word[2].char[range(1, 2)]);\n    _system.floatPrecision = 4;\n    s(symbol('mReset'), 1, x);\n    w = x(symbol('mGet'));\n}\n" := by
  decide +kernel

/-- F20 (open): the object index of a built-in property keeps only the popped node's `.name` — a global loses its `_global.`; the
    index forms for which model and `toJs` agree are `idxJsOk` (integer literals, locals and parameters other than `me`) -/
theorem F20_witness :
    jsOut (.propAcc 2 (.leaf .sprite (.s (S "gCount")) 1) (S "locH") false) = some "sprite(gCount).locH" ∧
    String.ofList (txJ (toJsE c0 (.the .sprite 13 [.var .glob "gCount".toList]))) = "sprite(_global.gCount).locH" ∧
    JsOkE (.the .sprite 13 [.var .glob "gCount".toList]) = false ∧ JsOkE (.the .sprite 13 [.int 3]) = true := by
  refine ⟨by decide +kernel, by decide +kernel, by decide +kernel, by decide +kernel⟩

/-! ### the border of the fragment: where model and spec DISAGREE (each confirmed on the real translator; design.d/C04Link.md) -/

/-- D1 (= F139, repaired in /repo c7a3b33 and followed by the model): a declared property whose name is also a key of
    `ast.variable.KNOWN_PROPERTIES` is read through the script object, like its assignment and like `toJs`; it is inside the fragment -/
theorem D1_fixed_F139 :
    jsOut (.leaf .definedProp (.s (S "actorList")) 0) = some "this.actorList" ∧
    String.ofList (txJ (toJsE c0 (.var .prop "actorList".toList))) = "this.actorList" ∧ JsOkE (.var .prop "actorList".toList) = true := by
  refine ⟨by decide +kernel, by decide +kernel, by decide +kernel⟩

/-- F160 (found while stating J5t, repaired in /repo e4a3d4b and followed by the model): a condition whose text STARTS with a
    parenthesis without being one parenthesised group — `(a + 1) & 2` — was emitted bare by the old test `startswith('(')`; that text
    is not JavaScript; the repaired test `_is_parenthesized` says no, so the condition gets its own pair and the text reads -/
theorem F160_fixed :
    String.ofList (txJ (toJsE c0 (.bin .concat (.bin .add (.var .param "a".toList) (.int 1)) (.int 2)))) = "(a + 1).concat(2)" ∧
    startsWith (txJ (toJsE c0 (.bin .concat (.bin .add (.var .param "a".toList) (.int 1)) (.int 2)))) (S "(") = true ∧
    isParenthesized (txJ (toJsE c0 (.bin .concat (.bin .add (.var .param "a".toList) (.int 1)) (.int 2)))) = false ∧
    readJs "function probe(a) {\n    if (a + 1).concat(2) {\n        x = 1;\n    }\n}\n".toList = none ∧
    (readJs "function probe(a) {\n    if ((a + 1).concat(2)) {\n        x = 1;\n    }\n}\n".toList).isSome = true := by
  refine ⟨by decide +kernel, by decide +kernel, by decide +kernel, by decide +kernel, by decide +kernel⟩

/-- D2: the first argument of a `LIST_FUNCTIONS` call, when a symbol, is printed as a global variable -/
theorem D2_witness :
    jsOut (.callFn (.s (S "getOne")) 3 (.loadList (S "<load_list>") 2 [.leaf .const (.s (natStr 3)) 1, .sym (.s (S "foo")) 0 true])
      true false false .none) = some "getOne(_global.foo, 3)" ∧
    String.ofList (txJ (toJsE c0 (.call "getOne".toList [.sym "foo".toList, .int 3]))) = "getOne(symbol('foo'), 3)" ∧
    JsOkE (.call "getOne".toList [.sym "foo".toList, .int 3]) = false := by
  refine ⟨by decide +kernel, by decide +kernel, by decide +kernel⟩

/-- D3: Lingo identifiers are copied unchanged; one that is a reserved word of JavaScript (`var`, `new`, `class`, `function`, …) gives
    a text that is not JavaScript -/
theorem D3_witness : readJs "function probe(a) {\n    var var;\n\n    var = 3;\n}\n".toList = none ∧ jsIdOk "var".toList = false := by
  refine ⟨by decide +kernel, by decide +kernel⟩

end DrxProps.C04Link
