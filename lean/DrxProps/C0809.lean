/-
  C08 ∘ C09 — the chain bytes → frames → timeline in one statement: for every valid encoding of a frame sequence (C08 spec),
  `vwsc_to_score(parse_vwsc_file_data(serialise enc))` is the run-length view of the table whose k-th row is the decoding of
  `fold enc k` (the zero buffer with the deltas of records 0..k applied).  Pure composition of the theorems of
  DrxProps/C08.lean and DrxProps/C09.lean.
-/
import DrxProps.C08
import DrxProps.C09
import DrxProofs.ScoreTransition
namespace Drx.C0809
open Drx Drx.Vwsc Drx.Vwsc.Spec Drx.Score Drx.Score.Spec

/-- what C09 says about a converted table, collected: dimensions, every channel a run-length view with consistent rectangles,
    point events exactly at the carrying frames, sounds as run-length views -/
def IsTimelineOf (frames : List Frame) (sc : Score) : Prop :=
  sc.lastFrame = frames.length ∧ sc.lastChannel = channelsOf frames ∧ sc.sprite.length = channelsOf frames ∧
  (∀ j S, sc.sprite[j]? = some S →
    IsRunView ((column frames j).map (Option.map spriteAttrs)) (S.map spanRun) ∧ ∀ sp ∈ S, RectOk j sp) ∧
  sc.events.tempo = eventsFrom tempoOf 0 frames ∧ sc.events.script = eventsFrom scriptOf 0 frames ∧
  sc.events.palette = eventsFrom paletteOf 0 frames ∧ sc.events.transition = eventsFrom transitionOf 0 frames ∧
  IsRunView (frames.map sound1Of) (sc.events.sound1.map sndRun) ∧ IsRunView (frames.map sound2Of) (sc.events.sound2.map sndRun)

/-- anything the decoder returns converts to its timeline -/
theorem decoded_timeline (d : Bytes) (frames : List Frame) (h : parseVwscFile d = .ok frames) :
    ∃ sc, vwscToScore frames = .ok sc ∧ IsTimelineOf frames sc := by
  have hr := C09.decoded_tables_rectangular d frames h
  obtain ⟨sc, h1, h2, h3, h4, _⟩ := C09.total frames hr
  obtain ⟨e1, e2, e3, e4⟩ := C09.events_exact frames sc h1
  obtain ⟨s1, s2⟩ := C09.sounds_view frames sc h1
  exact ⟨sc, h1, h2, h3, h4, fun j S hS => C09.sprite_view frames sc h1 hr j S hS, e1, e2, e3, e4, s1, s2⟩

/-- **score pipeline**: for every valid encoding, bare or wrapped, whose channel states decode (`hf`), the file decodes to
    the table `frames` of those decodings — row k = fields of the zero buffer patched with records 0..k — and
    `vwsc_to_score` of that result is the timeline of `frames`. -/
theorem score_pipeline (c : Container) (f : ScoreFile) (h : f.Valid) (hc : c.Valid (serialise f)) (frames : List Frame)
    (hf : expectedFrames f.lay (zeros f.bufSize) f.recs = .ok frames) :
    parseVwscFile (c.apply (serialise f)) = .ok frames ∧ frames.length = f.recs.length ∧
    (∀ k, k < f.recs.length → ∃ fr, frames[k]? = some fr ∧
        parseChannels f.lay (applyAll (zeros f.bufSize) (f.recs.take (k + 1))) = .ok fr) ∧
    ∃ sc, (parseVwscFile (c.apply (serialise f))).bind vwscToScore = .ok sc ∧ IsTimelineOf frames sc := by
  have hp : parseVwscFile (c.apply (serialise f)) = .ok frames := by rw [C08.decode_is_fold_file c f h hc]; exact hf
  obtain ⟨sc, h1, h2⟩ := decoded_timeline _ frames hp
  refine ⟨hp, C08.decode_frame_count c f h hc frames hp, fun k hk => C08.decode_frame_k c f h hc frames hp k hk, sc, ?_, h2⟩
  rw [hp]; exact h1

/-- the same, 20-byte layout, with the table given by raw field values: no decoding hypothesis is left -/
theorem score_pipeline_d4 (c : Container) (f : ScoreFile) (h : f.Valid) (hc : c.Valid (serialise f)) (hl : f.lay = .d4)
    (raws : List RawFrameD4) (hr : ∀ r ∈ raws, r.Valid) (hseq : states (zeros f.bufSize) f.recs = raws.map encFrameD4) :
    ∃ sc, (parseVwscFile (c.apply (serialise f))).bind vwscToScore = .ok sc ∧ IsTimelineOf (raws.map viewFrameD4) sc := by
  have hp := C08.decode_fields_d4 c f h hc hl raws hr hseq
  obtain ⟨sc, h1, h2⟩ := decoded_timeline _ _ hp
  exact ⟨sc, by rw [hp]; exact h1, h2⟩

/-- … and the 24-byte layout -/
theorem score_pipeline_d5 (c : Container) (f : ScoreFile) (h : f.Valid) (hc : c.Valid (serialise f)) (hl : f.lay = .d5)
    (raws : List RawFrameD5) (hr : ∀ r ∈ raws, r.Valid) (hseq : states (zeros f.bufSize) f.recs = raws.map encFrameD5) :
    ∃ sc, (parseVwscFile (c.apply (serialise f))).bind vwscToScore = .ok sc ∧ IsTimelineOf (raws.map viewFrameD5) sc := by
  have hp := C08.decode_fields_d5 c f h hc hl raws hr hseq
  obtain ⟨sc, h1, h2⟩ := decoded_timeline _ _ hp
  exact ⟨sc, by rw [hp]; exact h1, h2⟩

/-- two encodings of one buffer sequence give the same timeline -/
theorem timeline_encoding_independent (c₁ c₂ : Container) (f₁ f₂ : ScoreFile) (h₁ : f₁.Valid) (h₂ : f₂.Valid)
    (hc₁ : c₁.Valid (serialise f₁)) (hc₂ : c₂.Valid (serialise f₂)) (hlay : f₁.lay = f₂.lay)
    (hseq : states (zeros f₁.bufSize) f₁.recs = states (zeros f₂.bufSize) f₂.recs) :
    (parseVwscFile (c₁.apply (serialise f₁))).bind vwscToScore = (parseVwscFile (c₂.apply (serialise f₂))).bind vwscToScore := by
  rw [C08.encoding_independent c₁ c₂ f₁ f₂ h₁ h₂ hc₁ hc₂ hlay hseq]

/-! ### what "carries a transition" means in the 20-byte layout

  `vwsc_to_score` emits a transition event for a frame iff its main dict has a `'transition_id'` key whose value is not `''`
  (that is what `events_exact`/`transitionOf` say). The 20-byte channel reader fills `'transition_id'` with
  `get_transition_name(byte)`, which is never `''`: id 0 ("no transition") becomes the text `'0'`. So, end to end, the
  20-byte layout yields a transition event for EVERY frame whose main dict is non-empty, also for transition byte 0.
  The repo's stored expectation (tests/files/vwsc/AppleGame/score.json: 36 events, all with id '0') encodes exactly this.
  It is not a violation of C08 (the field is reported as read) nor of C09 (the timeline reproduces the table: the table row
  carries the non-empty text '0'); the following theorem pins the behaviour down so that a change shows up. -/

theorem d4_transition_event_iff_main (m : RawMainD4) (i : Nat) (pal : Option Pal) (score : List (Option Sprite)) :
    (transitionOf i ⟨viewMainD4 m, pal, score⟩).isSome = (viewMainD4 m).isSome := by
  unfold transitionOf
  cases hv : viewMainD4 m with
  | none => rfl
  | some mm =>
    unfold viewMainD4 at hv
    split at hv
    · cases hv
      simp [transitionName_ne_nil]
    · cases hv

/-! ### non-vacuity: a 3-channel 20-byte score, sprite appears in frame 2 (after a leading `same`), stays (`same`), moves -/

def rawEmpty : RawFrameD4 := ⟨⟨0, 0, 0, 0, 0, 0, 0, 0, 0, 0, 0, 0⟩, ⟨0, 0, 0, 0, 0, 0, 0, 0, 0, 0, 0, 0⟩, [⟨0, 0, 0, 0, 0, 0, 0, 0, 0, 0, 0, 0⟩]⟩
def rawA : RawFrameD4 := ⟨⟨0, 0, 0, 12, 0, 5, 0, 0, 0, 0, 0, 0⟩, ⟨0, 0, 0, 0, 0, 0, 0, 0, 0, 0, 0, 0⟩, [⟨1, 255, 0, 0, 0x48, 7, 20, 10, 5, 3, 0, 0⟩]⟩
def rawB : RawFrameD4 := ⟨⟨0, 0, 0, 12, 0, 5, 0, 0, 0, 0, 0, 0⟩, ⟨0, 0, 0, 0, 0, 0, 0, 0, 0, 0, 0, 0⟩, [⟨1, 255, 0, 0, 0x48, 7, 20, 11, 5, 3, 0, 0⟩]⟩
def exRaws : List RawFrameD4 := [rawEmpty, rawA, rawA, rawB]
def exScore : ScoreFile := ⟨.d4, 3, 4, 0, 0, [.same, .deltas [(0, encFrameD4 rawA)], .same, .deltas [(51, [11])]]⟩

example : exScore.Valid := by decide
example : ∀ r ∈ exRaws, r.Valid := by decide
example : states (zeros exScore.bufSize) exScore.recs = exRaws.map encFrameD4 := by decide

end Drx.C0809
