/-
  C05 for the REAL decoders: the theorems of DrxProps/C05.lean hold for any `Decoders`; here they are instantiated with
  `DirReal.realDecoders codec` (Drx/DirReal.lean: every parameter of the assembly model is the finished Lean model of the
  corresponding Python decoder), i.e. they are statements about `parseDirReal`, the model of the WHOLE pipeline
  `dir.parse_dir_file_data` that the driver line `dir real …` runs against the real function.
  On top of the instantiations:
   * `real_key_mac_pc`, `real_mac_equals_pc_closed`: the Mac = PC clause is closed for the real key decoder (C17 `key_mac_pc`,
     `key_all_but_last`): no hypothesis about what the key table decodes to is left.
   * `real_script_history_free`: modelling the script decoder as a pure function of (chunk, name list) loses nothing — whatever
     the opcode singletons' registers hold it returns the same, and the JavaScript text generated from the tree the Lingo
     generator left behind is the text of a freshly parsed tree (C12 lemmas).
-/
import Drx.DirReal
import DrxProofs.DirReal
import DrxProps.C05
import DrxProps.C17
namespace Drx.C05Real
open Drx Drx.Riff Drx.Xtract Drx.Dir Drx.DirReal

/-- (1) resource resolution for the whole pipeline: on every well-formed movie (any prefix, both byte orders) the real pipeline
    runs the assembly, with the real decoders, on the table in which map entry i has entry i's type and exactly the chunk it designates -/
theorem real_parseDir_resolves (codec : Codec) (o : Order) (pre : Bytes) (len : Int) (hlen : In32 len)
    (c0 : SChunk) (rest : List SChunk) (hwf : ∀ c ∈ c0 :: rest, c.WF)
    (im : Imap) (imLast : Int) (him : im.WF)
    (hc0id : c0.id.map sanitize = "imap".toList) (hc0 : c0.data = encImap o im imLast)
    (mBefore : List SChunk) (mc : SChunk) (mAfter : List SChunk) (hsplit : c0 :: rest = mBefore ++ mc :: mAfter)
    (himoff : im.offset = (pre.length : Int) + (offsetAfter mBefore : Int))
    (hmcid : mc.id.map sanitize = "mmap".toList)
    (hdr : SMmapHdr) (pairs : List (SEntry × Option SChunk)) (tail : Bytes) (hhdr : hdr.WF) (hn : pairs.length < 2 ^ 31)
    (hmcdata : mc.data = encMmap o hdr (pairs.map (·.1)) tail) (hewf : ∀ p ∈ pairs, p.1.WF)
    (hres : ∀ p ∈ pairs, ∀ c, p.2 = some c → Designates (c0 :: rest) pre.length p.1 c) :
    parseDirReal codec o pre.length (encMovie o pre len (c0 :: rest))
      = Dir.assemble (realDecoders codec) o (resOfPairs (c0 :: rest) pre.length pairs) :=
  C05.parseDir_resolves (realDecoders codec) o pre len hlen c0 rest hwf im imLast him hc0id hc0 mBefore mc mAfter hsplit himoff hmcid
    hdr pairs tail hhdr hn hmcdata hewf hres

/-- (2) one cast entry per cast-table slot, `{}` at an empty slot -/
theorem real_one_entry_per_slot (codec : Codec) (rs : List Res) (key : KeyData) (fm : J) (cas : List Int) (out : List CastData)
    (h : castLoop (realDecoders codec) rs key fm cas [] = .ok out) : out.length = cas.length :=
  C05.one_entry_per_slot (realDecoders codec) rs key fm cas out h

theorem real_empty_slot_empty (codec : Codec) (rs : List Res) (key : KeyData) (fm : J) (pre post : List Int) (out : List CastData)
    (h : castLoop (realDecoders codec) rs key fm (pre ++ 0 :: post) [] = .ok out) : out[pre.length]? = some [] :=
  C05.empty_slot_empty (realDecoders codec) rs key fm pre post out h

/-- (3) nothing from any other member: with the real STXT / snd / CLUT / BITD decoders a member's entry is a function of the
    resources its own key links name and of the palette value of the member it refers to -/
theorem real_no_cross_talk (codec : Codec) (rs rs' : List Res) (fm : J) (cast cast' : List CastData) (refs : List Ref) (cd : CastData)
    (hrs : ∀ rf ∈ refs, pyIndex rs rf.index = pyIndex rs' rf.index)
    (hcast : ∀ i, (pyIndex cast i).map (·.get? "palette") = (pyIndex cast' i).map (·.get? "palette")) :
    linkLoop (realDecoders codec) rs fm cast refs cd = linkLoop (realDecoders codec) rs' fm cast' refs cd :=
  C05.no_cross_talk (realDecoders codec) rs rs' fm cast cast' refs cd hrs hcast

/-- (4) the two script dictionaries built from the REAL decompiler's outputs are the per-number fold -/
theorem real_scripts_per_number (codec : Codec) (rs : List Res) (names : J) (refs : List Int) (outs : List ScriptOut)
    (hd : Decodes (realDecoders codec) rs names refs outs) (l j : ScrDict)
    (h : scriptLoop (realDecoders codec) rs names refs [] [] = .ok (l, j)) (n : Int) :
    l.lookup n = extendKey (·.lingo) n outs none ∧ j.lookup n = extendKey (·.js) n outs none :=
  C05.scripts_per_number (realDecoders codec) rs names refs outs hd l j h n

/-- (5) Mac = PC for the real decoders, in the form of C05.mac_equals_pc (the key tables decode to the same links) -/
theorem real_mac_equals_pc (codec : Codec) (rsB rsL : List Res) (hag : AgreeOffKey rsB rsL)
    (kB kL : Riff.Chunk) (resB resL : Res)
    (hB : locateChunk rsB "KEY*" = .ok resB) (hB' : resB.chunk = .ok kB)
    (hL : locateChunk rsL "KEY*" = .ok resL) (hL' : resL.chunk = .ok kL)
    (key : KeyData) (hkB : (realDecoders codec).key .be kB.data = .ok key) (hkL : (realDecoders codec).key .le kL.data = .ok key)
    (hcas : CasAvoidsKey (realDecoders codec) rsB) (hlinks : LinksAvoidKey rsB key) (hlctx : LctxAvoidsKey (realDecoders codec) rsB) :
    Dir.assemble (realDecoders codec) .be rsB = Dir.assemble (realDecoders codec) .le rsL :=
  C05.mac_equals_pc (realDecoders codec) rsB rsL hag kB kL resB resL hB hB' hL hL' key hkB hkL hcas hlinks hlctx

/-- (5a) the real key decoder reads the Mac and the PC encoding of one key table alike (from C17 `key_mac_pc`);
    the unused tail of the chunk may differ -/
theorem real_key_mac_pc (codec : Codec) (u1 cap : Int) (es : List IdxSpec.KeyEntry) (tailB tailL : Bytes) (h : C17.KeyValid u1 cap es) :
    (realDecoders codec).key .be (IdxSpec.encKey .be u1 cap es tailB) = (realDecoders codec).key .le (IdxSpec.encKey .le u1 cap es tailL) := by
  rw [realKey_eq, realKey_eq, C17.key_all_but_last .be u1 cap es tailB h, C17.key_all_but_last .le u1 cap es tailL h]

/-- … and what it reads: the links of all used slots but the last (F02), grouped by owner -/
theorem real_key_decodes (codec : Codec) (o : Order) (u1 cap : Int) (es : List IdxSpec.KeyEntry) (tail : Bytes) (h : C17.KeyValid u1 cap es) :
    (realDecoders codec).key o (IdxSpec.encKey o u1 cap es tail) = .ok (keyConv (IdxSpec.group es.dropLast)) := by
  rw [realKey_eq, C17.key_all_but_last o u1 cap es tail h]; rfl

/-- (5b) Mac = PC, closed: two resource tables that agree everywhere except in the bytes of their `KEY*` entries, which hold the
    big-endian resp. little-endian encoding of ONE valid key table, assemble under the real decoders to the same movie (provided
    the cast table, the key links and the script context do not point at the key table itself). No hypothesis about the
    decoding of the key table is left. -/
theorem real_mac_equals_pc_closed (codec : Codec) (rsB rsL : List Res) (hag : AgreeOffKey rsB rsL)
    (kB kL : Riff.Chunk) (resB resL : Res)
    (hB : locateChunk rsB "KEY*" = .ok resB) (hB' : resB.chunk = .ok kB)
    (hL : locateChunk rsL "KEY*" = .ok resL) (hL' : resL.chunk = .ok kL)
    (u1 cap : Int) (es : List IdxSpec.KeyEntry) (tailB tailL : Bytes) (hv : C17.KeyValid u1 cap es)
    (hkB : kB.data = IdxSpec.encKey .be u1 cap es tailB) (hkL : kL.data = IdxSpec.encKey .le u1 cap es tailL)
    (hcas : CasAvoidsKey (realDecoders codec) rsB) (hlinks : LinksAvoidKey rsB (keyConv (IdxSpec.group es.dropLast)))
    (hlctx : LctxAvoidsKey (realDecoders codec) rsB) :
    Dir.assemble (realDecoders codec) .be rsB = Dir.assemble (realDecoders codec) .le rsL :=
  C05.mac_equals_pc (realDecoders codec) rsB rsL hag kB kL resB resL hB hB' hL hL' (keyConv (IdxSpec.group es.dropLast))
    (by rw [hkB]; exact real_key_decodes codec .be u1 cap es tailB hv)
    (by rw [hkL]; exact real_key_decodes codec .le u1 cap es tailL hv) hcas hlinks hlctx

/-- (6) the script decoder of `realDecoders` is history free: started with ANY operand registers (what earlier parses of the same
    Python process left in the opcode singletons) it returns what it returns in a fresh process, and that is what two independent
    runs — each generator on a freshly parsed tree, as lscr2lingo / lscr2js do — return -/
theorem real_script_history_free (codec : Codec) (regs : Lscr.Regs) (d : Bytes) (names : J) :
    scriptRealWith codec regs d names = (realDecoders codec).script d names ∧
    (realDecoders codec).script d names = scriptFresh codec d names :=
  ⟨scriptRealWith_regs codec regs d names, scriptReal_fresh codec d names⟩

/-! ### non-vacuity -/

-- the key table of finding F02 in both encodings (with different unused tails): a valid table on which the real key decoder agrees
example : C17.KeyValid 0x000C000C 3 C17.witnessTable := by decide
example : (realDecoders .macRoman).key .be (IdxSpec.encKey .be 0x000C000C 3 C17.witnessTable [])
    = (realDecoders .macRoman).key .le (IdxSpec.encKey .le 0x000C000C 3 C17.witnessTable [0, 0]) :=
  real_key_mac_pc .macRoman 0x000C000C 3 C17.witnessTable [] [0, 0] (by decide)
example : keyConv (IdxSpec.group C17.witnessTable.dropLast) = [(1, [⟨"CASt".toList, 10⟩, ⟨"BITD".toList, 11⟩])] := by decide

-- two resource tables holding the two encodings of that key table and agreeing elsewhere
def exKeyB : Bytes := IdxSpec.encKey .be 0x000C000C 3 C17.witnessTable []
def exKeyL : Bytes := IdxSpec.encKey .le 0x000C000C 3 C17.witnessTable []
def exRsB : List Res := [⟨"KEY*".toList, .ok ⟨"KEY*".toList, exKeyB⟩⟩, ⟨"CASt".toList, .ok ⟨"CASt".toList, [7]⟩⟩]
def exRsL : List Res := [⟨"KEY*".toList, .ok ⟨"KEY*".toList, exKeyL⟩⟩, ⟨"CASt".toList, .ok ⟨"CASt".toList, [7]⟩⟩]
example : exKeyB ≠ exKeyL := by decide
example : AgreeOffKey exRsB exRsL := by
  refine ⟨rfl, ?_, rfl, ?_, trivial⟩
  · intro h; exact absurd rfl h
  · intro _; rfl
example : locateChunk exRsB "KEY*" = .ok ⟨"KEY*".toList, .ok ⟨"KEY*".toList, exKeyB⟩⟩ := by rfl

-- all hypotheses of `real_mac_equals_pc_closed` together, on a movie table whose key table links a sound resource to member 2
def exTable : List IdxSpec.KeyEntry := [⟨2, 2, [0x73, 0x6e, 0x64, 0x20]⟩, ⟨0, 0, [0x66, 0x72, 0x65, 0x65]⟩]
def exRs (o : Order) : List Res :=
  [⟨"KEY*".toList, .ok ⟨"KEY*".toList, IdxSpec.encKey o 12 2 exTable []⟩⟩, ⟨"CAS*".toList, .ok ⟨"CAS*".toList, [0, 0, 0, 2]⟩⟩,
   ⟨"snd ".toList, .ok ⟨"snd ".toList, [1, 2, 3]⟩⟩]
theorem exKeyConv : keyConv (IdxSpec.group exTable.dropLast) = [(2, [⟨"snd ".toList, 2⟩])] := by decide
theorem exIdx2 : pyIndex (exRs .be) 2 = .ok ⟨"snd ".toList, .ok ⟨"snd ".toList, [1, 2, 3]⟩⟩ := by rfl
example : Dir.assemble (realDecoders .macRoman) .be (exRs .be) = Dir.assemble (realDecoders .macRoman) .le (exRs .le) := by
  refine real_mac_equals_pc_closed .macRoman (exRs .be) (exRs .le) ?_ ⟨"KEY*".toList, IdxSpec.encKey .be 12 2 exTable []⟩
    ⟨"KEY*".toList, IdxSpec.encKey .le 12 2 exTable []⟩ _ _ (by rfl) rfl (by rfl) rfl 12 2 exTable [] [] (by decide) rfl rfl ?_ ?_ ?_
  · refine ⟨rfl, ?_, rfl, ?_, rfl, ?_, trivial⟩
    · intro h; exact absurd rfl h
    · intro _; rfl
    · intro _; rfl
  · intro res cc cas h1 h2 h3 ci hci hne r hr
    have e1 : locateChunk (exRs .be) "CAS*" = .ok ⟨"CAS*".toList, .ok ⟨"CAS*".toList, [0, 0, 0, 2]⟩⟩ := by rfl
    rw [e1] at h1; cases h1
    cases h2
    have e3 : (realDecoders .macRoman).cas [0, 0, 0, 2] = .ok [2] := by
      show Idx.parseCas [0, 0, 0, 2] = .ok [2]
      simp [Idx.parseCas, Idx.casLoop, getS, unpackS, slice, ordNat, beNat, toSigned]
    rw [e3] at h3; cases h3
    simp at hci; subst hci
    rw [exIdx2] at hr; cases hr; decide
  · intro p hp rf hrf r hr
    rw [exKeyConv] at hp
    simp at hp; subst hp; simp at hrf; subst hrf
    rw [exIdx2] at hr; cases hr; decide
  · intro res lc refs h1
    have e1 : locateChunk (exRs .be) "Lctx" = .error .value := by rfl
    rw [e1] at h1; cases h1

-- the script decoder on a real (empty) script chunk: both sides of `real_script_history_free` are the same error, for any registers
example : scriptRealWith .macRoman [(3, (7, 9))] [] (.arr []) = scriptFresh .macRoman [] (.arr []) :=
  (real_script_history_free .macRoman [(3, (7, 9))] [] (.arr [])).1.trans (real_script_history_free .macRoman [(3, (7, 9))] [] (.arr [])).2

end Drx.C05Real
