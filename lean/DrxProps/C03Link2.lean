/-
  C03 link, end to end on BYTES — for structured programs over agent-link's expression / statement fragment.

  `compile o s = ok c`  ⟹  the MODEL's `parseScript c.lscr c.lnam` (container, name table, opcode walker, stack machine,
  `JumpOpcode.process`, `condition_detect`, `loop_detect`) returns a script whose handlers carry the NESTED tree of the source:
  the byte-level hypotheses `h1` / `h2` of `DrxProps.C03Link.parseOpcodes_reconstructs` are discharged.

  Composition of
    * agent-link's chain (DrxProofs/Link*.lean): `stack_lemma` (L2), `stmt_lemma` (L3, with statement positions), `opcodeLoop_run`
      (L1m), the parametric container theorem `parse_linkg` (L5) with body semantics `BodyRun` and flow hypothesis `FlowOk`;
    * the structured stack lemma `structs_all` (DrxProofs/LinkFlow2{Exec,Run,Struct,With}.lean): running the laid-out code of a
      structured statement list appends exactly `emit false a (lower src)` for a source skeleton `src` with the model's nodes in it
      (`EmbSrc`), the three control-flow opcodes going through `exec_jz` / `exec_jump` / `exec_back` (= the model's `jumpBack`);
    * class membership `classs` (DrxProofs/LinkFlow2Class.lean): `EmbSrc ss src` and the syntactic condition `okAmbs` put `src`
      into the class `Src.oks` of `C03_partial_exit_free`;
    * `flow_core` (DrxProofs/LinkFlow2Flow.lean): reconstruction with the handler's final `exit` behind the body;
    * `embT_tgtL` (DrxProofs/LinkFlow2Tree.lean): the reconstructed tree is the image `EmbTs` of the source statements.

  Fragment (`FragScriptT`, decidable): plain scripts, `on` handlers, bodies built from agent-link's simple statements
  (`set <target> = e` for every target of `FragLv`, command calls, `exit`) with `if c then … [else …] end if`, `repeat while c`,
  `repeat with <local> = a [down] to b` nested to any depth, conditions / bounds / right-hand sides in agent-link's `FragE`
  (since `FragE0 := FragE`: EVERY expression form of the C02 link fragment); `okAmbs`: no `repeat while` directly preceded by a
  `set` statement whose body ends with `set _ = <literal> + _`, and no `repeat while` condition with a literal left operand.
  NOT covered: `repeat with … in`, loop variables other than locals, `exit repeat`, `tell`.  The text generation / read-back of
  these trees is `T_C02_structured` / `T_C02_all` in DrxProps/C02Link.lean (agent-link).
-/
import DrxProofs.LinkFlow2Link
import DrxProofs.LinkFlowGuard
namespace DrxProps.C03Link2
open Drx Drx.Lscr Drx.Spec Drx.Link Drx.LinkFlow

def NamesOk (c : Compiled) : Prop := (∀ n ∈ c.names, asciiName n = true) ∧ c.names.length < 32768

/-- **C03 on bytes, structured fragment.** -/
theorem C03_bytes_structured (o : Options) (s : Spec.Script) (c : Compiled) (hf : FragScriptT s = true) (hc : compile o s = .ok c)
    (hn : NamesOk c) : ∃ t, Lscr.parseScript c.lscr c.lnam = .ok t ∧ ScriptRelg Fsrc s t :=
  parse_structured o s c hf hc hn.1 hn.2

/-- what `ScriptRelg Fsrc` says about each handler: its statements are the image of the structured source body, then `exit` -/
theorem handler_tree (s : Spec.Script) (t : Lscr.Script) (h : ScriptRelg Fsrc s t) :
    All2 (fun (hd : Handler) (f : FuncDef) => f.name = hd.name ∧ ∃ fin p q, f.stmts = fin ++ [exitNode p q] ∧ EmbTs hd.body fin)
      s.handlers t.functions := by
  have := h.funcs
  generalize s.handlers = hl at this
  generalize t.functions = fs at this
  generalize s.globals = sg at this
  induction this with
  | nil => exact All2.nil
  | cons hr _ ih => exact All2.cons ⟨hr.name, hr.stmts⟩ ih

/-- **the structured stack lemma** (all statements of the fragment, any nesting depth): the laid-out code of a structured
    statement list appends the raw statement list of a source skeleton that carries the stack machine's nodes -/
theorem structured_stack_lemma (ss : List Stmt) (hf : FragTs ss = true) : Structs ss := structs_all ss hf

/-- the skeleton is in the class of the reconstruction theorem -/
theorem skeleton_in_class (ss : List Stmt) (src : List Src) (hf : FragTs ss = true) (h : EmbSrc ss src)
    (hok : okAmbs false ss = true) (o : Int) : Src.oks none o src = true :=
  classs ss src hf h false none o (Or.inl rfl) hok

/-- the flow passes on the raw list of an embedded body followed by the handler's final exit -/
theorem flow_passes (ss : List Stmt) (src : List Src) (hf : FragTs ss = true) (hemb : EmbSrc ss src) (hok : okAmbs false ss = true)
    (a : Nat) (q : Int) :
    (condDetect (emit false (a : Int) (lower src) ++ [exitNode ((a : Int) + P.sizes (lower src)) q])).bind loopDetect =
      .ok (tgtL (a : Int) src ++ [exitNode ((a : Int) + P.sizes (lower src)) q]) :=
  flow_core ss src hf hemb hok a q

/-- the reconstructed tree is the image of the source -/
theorem tree_is_source (ss : List Stmt) (src : List Src) (h : EmbSrc ss src) (o : Int) : EmbTs ss (tgtL o src) := embT_tgtL ss src h o

/-- the runtime guard of `Flow.loopWalk` (kept as termination argument) never fires, for ANY input -/
theorem loopWalk_guard_never_fires (r r3 : Ro) (prev : Option Node) (rm : Bool) (h : rewriteRepeat r prev = .ok (r3, rm)) :
    weightList r3.stmts ≤ weightList r.stmts :=
  rewriteRepeat_weight r r3 prev rm h

/-! ## non-vacuity -/

/-- `on go n / set x = 1 / repeat while x < n / if x = 3 then / repeat with i = 1 to 9 / put i / end repeat / else / set x = x + 2 /
     end if / put x / end repeat / end` -/
def exScript : Spec.Script :=
  { factory := [], props := [], globals := [],
    handlers := [
      { name := "go".toList, params := ["n".toList], isMethod := false,
        body := [
          .set (.var .loc "x".toList) (.int 1),
          .repeatWhile (.bin .lt (.var .loc "x".toList) (.var .param "n".toList)) [
            .ifThen (.bin .eq (.var .loc "x".toList) (.int 3))
              [ .repeatWith (.var .loc "i".toList) (.int 1) (.int 9) false [ .call "put".toList [.var .loc "i".toList] ] ]
              [ .set (.var .loc "x".toList) (.bin .add (.var .loc "x".toList) (.int 2)) ],
            .call "put".toList [.var .loc "x".toList] ] ] } ] }

example : FragScriptT exScript = true := by decide +kernel

example : ∃ c, compile {} exScript = .ok c ∧ NamesOk c := by
  have h : (match compile {} exScript with
      | .ok c => decide ((∀ n ∈ c.names, asciiName n = true) ∧ c.names.length < 32768)
      | .error _ => false) = true := by decide +kernel
  cases hc : compile {} exScript with
  | error e => rw [hc] at h; cases h
  | ok c => rw [hc] at h; exact ⟨c, rfl, by simpa [NamesOk] using h⟩

/-- the excluded shape really is outside the fragment: `set i = 1 / repeat while i <= 9 / put i / set i = 1 + i / end repeat` -/
example : okAmbs false [ .set (.var .loc "i".toList) (.int 1),
    .repeatWhile (.bin .le (.var .loc "i".toList) (.int 9))
      [ .call "put".toList [.var .loc "i".toList], .set (.var .loc "i".toList) (.bin .add (.int 1) (.var .loc "i".toList)) ] ] = false := by
  decide +kernel

end DrxProps.C03Link2
