/-
  C10 support for the index-chunk and text-chunk readers (key, cas, lctx, lnam, vwlb, vwcf, stxt, fmap) — termination and
  bounded work.
  (1) every loop of the models (Drx/Idx.lean, Drx/Stxt.lean, Drx/Fmap.lean) is structural or well-founded recursion without
      fuel, so Lean's acceptance of the definitions is the termination proof on every byte string;
  (2) the counting twins of Drx/IdxSteps.lean (rounds that START, the raising round included; bytes sliced out of the input)
      are bounded by the DATA LENGTH only — never by a count the input declares (`nelements`, `nscripts`, `nnames`, `nmarkers`,
      the run count, `nfonts`, `nfonts_cap`), because a round that completes has consumed input.  Where the position is a signed
      field (lctx table offset, stxt data offset) Python's from-the-end addressing lets a walk start at `-len`: the bound is
      `2·len`, not `len`.
  The twins are compared with the real loops' round counts on every run of C17/C16 (`idx steps …`, `text steps …`).
-/
import Drx.IdxSteps
import DrxProofs.IdxSteps
namespace Drx.C10Idx
open Drx Drx.Idx Drx.IdxSteps

/-! ## per loop -/

/-- key table: one round per 12 bytes that remain (+ the round that raises), for ANY declared `nelements` -/
theorem key_loop_linear (o : Order) (d : Bytes) (declared indx : Nat) : 12 * keySteps o d declared indx ≤ (d.length - indx) + 12 :=
  keySteps_bound o d declared indx

/-- cast table: exactly bounded by the complete 4-byte groups that remain -/
theorem cas_loop_linear (d : Bytes) (indx : Nat) : 4 * casSteps d indx ≤ d.length - indx := casSteps_bound d indx

/-- script-context table from ANY integer position (the table offset is a signed field): a completed round lies inside
    `-len ≤ indx` and `indx + 12 ≤ len`, so at most `(2·len)/12 + 1` rounds for ANY declared `nscripts` -/
theorem lctx_loop_linear (d : Bytes) (declared : Nat) (indx : Int) : 12 * lctxSteps d declared indx ≤ 2 * d.length + 12 :=
  lctxSteps_linear d declared indx

/-- name table: at most one round per byte that remains (a name may be empty) + the raising round; the names sliced are
    consecutive pieces of the data: together at most what remains; for ANY declared `nnames` and ANY decoder -/
theorem lnam_loop_linear (dec : Dec) (d : Bytes) (declared indx : Nat) :
    (lnamSteps dec d declared indx).1 ≤ (d.length - indx) + 1 ∧ (lnamSteps dec d declared indx).2 ≤ d.length - indx :=
  lnamSteps_bound dec d declared indx

/-- marker list: one round per 4 bytes that remain; for ANY declared `nmarkers` -/
theorem vwlb_loop_linear (dec : Dec) (d : Bytes) (mnidx declared indx : Nat) :
    4 * (vwlbSteps dec d mnidx declared indx).1 ≤ (d.length - indx) + 4 := vwlbSteps_rounds dec d mnidx declared indx

/-- marker list, bytes sliced: label i ends where label i+1 begins and decreasing offsets are rejected (fix F51), so the
    labels are consecutive pieces of the data — together no longer than what lies behind the first one.
    (Before F51 this was FALSE: offsets 0, P, 0, P, … made every second label the whole pool: `(n/2)·P` bytes.) -/
theorem vwlb_labels_linear (dec : Dec) (d : Bytes) (mnidx declared indx s : Nat) (h : getU .be 2 d (indx + 2) = .ok s) :
    (vwlbSteps dec d mnidx declared indx).2 ≤ d.length - min d.length (mnidx + s) :=
  (vwlbSteps_bytes dec d mnidx declared indx).2 s h

/-- style records from ANY integer position (data offset and text length are signed fields): a completed round lies inside
    `-len ≤ idx` and `idx + 20 ≤ len`; the nested font lookup makes `|fontmap|` rounds per style record -/
theorem stxt_loop_linear (nfonts : Nat) (d : Bytes) (declared : Nat) (idx : Int) :
    20 * (runSteps nfonts d declared idx).1 ≤ 2 * d.length + 20 ∧
    (runSteps nfonts d declared idx).2 ≤ nfonts * (runSteps nfonts d declared idx).1 := runSteps_linear nfonts d declared idx

/-- font-map metadata records: one round per 8 header bytes that remain, for ANY declared capacity -/
theorem fmap_meta_loop_linear (hd : Bytes) (declared idx : Nat) : 8 * metaSteps hd declared idx ≤ (hd.length - idx) + 8 :=
  metaSteps_bound hd declared idx

/-- font loop: at most one round per metadata record (+ the raising round), for ANY declared `nfonts`; the names sliced
    stay within twice the name area because their running total is checked against it (fix F52).
    (Before F52 every font could name the whole area: `nfonts · len` bytes.) -/
theorem fmap_font_loop_linear (dec : Fmap.Dec) (bd : Bytes) (declared : Nat) (ms : List (Int × Int)) :
    (fontSteps dec bd declared ms 0).1 ≤ ms.length + 1 ∧ (fontSteps dec bd declared ms 0).2 ≤ 2 * bd.length := by
  have := fontSteps_bound dec bd declared ms 0 (Nat.zero_le _)
  omega

/-! ## whole readers, ANY bytes -/

theorem key_steps_linear (o : Order) (d : Bytes) : 12 * parseKeySteps o d ≤ d.length + 12 := parseKeySteps_bound o d
theorem cas_steps_linear (d : Bytes) : 4 * parseCasSteps d ≤ d.length := parseCasSteps_bound d
theorem lctx_steps_linear (d : Bytes) : 12 * parseLctxSteps d ≤ 2 * d.length + 12 := parseLctxSteps_bound d

theorem lnam_steps_linear (dec : Dec) (d : Bytes) :
    (parseLnamSteps dec d).1 ≤ d.length + 1 ∧ (parseLnamSteps dec d).2 ≤ d.length := parseLnamSteps_bound dec d

theorem vwlb_steps_linear (dec : Dec) (d : Bytes) :
    4 * (parseVwlbSteps dec d).1 ≤ d.length + 4 ∧ (parseVwlbSteps dec d).2 ≤ d.length := parseVwlbSteps_bound dec d

theorem stxt_steps_linear (dec : Fmap.Dec) (nfonts : Nat) (d : Bytes) :
    20 * (parseStxtSteps dec nfonts d).1 ≤ 2 * d.length + 20 ∧
    (parseStxtSteps dec nfonts d).2 ≤ nfonts * (parseStxtSteps dec nfonts d).1 := parseStxtSteps_bound dec nfonts d

theorem fmap_steps_linear (dec : Fmap.Dec) (d : Bytes) :
    8 * (parseFmapSteps dec d).1 ≤ 2 * d.length + 16 ∧ (parseFmapSteps dec d).2 ≤ 2 * d.length := parseFmapSteps_bound dec d

/-! ## hostile counts cost one round -/

/-- `nelements = 0x7fffffff` on a 12-byte key chunk; `nnames = 0x7fff` on a 20-byte name table; `nmarkers = 0x7fff` on 2 bytes;
    `nscripts = 0x7fffffff` with the table offset pointing at the end -/
example : parseKeySteps .be ([0, 0, 0, 0] ++ [0, 0, 0, 0] ++ [0x7f, 0xff, 0xff, 0xff]) = 1 := by decide +kernel
example : (parseLnamSteps (fun _ => .ok []) ([0, 0, 0, 0] ++ [0, 0, 0, 0] ++ [0, 0, 0, 7] ++ [0, 0, 0, 7] ++ [0, 0] ++ [0x7f, 0xff])).1 = 1 := by
  decide +kernel
example : (parseVwlbSteps (fun _ => .ok []) [0x7f, 0xff]).1 = 1 := by decide +kernel
example : parseLctxSteps ([0, 0, 0, 0] ++ [0, 0, 0, 0] ++ [0x7f, 0xff, 0xff, 0xff] ++ [0, 0, 0, 0] ++ [0, 18]) = 1 := by decide +kernel

end Drx.C10Idx
