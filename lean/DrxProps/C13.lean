/-
  C13 — a decode result never depends on earlier calls, including failed ones.

  `decodeStep reset s c` is bitd2bmp.bitd2bmp as a transition of the module state `DecState` (the content of the
  `io.BytesIO` of every entry of `DECODERS`).  `reset = true` is today's code, `reset = false` the code before the
  repair of F11.  The other registries (SOUND_COMMANDS, PARSERS, CHANNEL_PARSERS) hold no per-call state: that is a
  statement about the inventory `Gen/SharedState.lean`, regenerated from the source on every run.
-/
import Drx.Bitd
import Drx.Gen.SharedState
import Drx.Gen.DecoderState
import DrxProofs.Bitd
namespace Drx.C13
open Drx Drx.Bitd

/-- the module state after a list of calls -/
def run (reset : Bool) : DecState → List Call → DecState
  | s, [] => s
  | s, c :: cs => run reset (decodeStep reset s c).1 cs

/-- C13 at full strength for the bitmap decoders: whatever was decoded before (successfully or not), a call returns
    what it returns in a fresh process -/
def C13_full : Prop :=
  ∀ (calls : List Call) (c : Call),
    (decodeStep true (run true DecState.init calls) c).2 = (decodeStep true DecState.init c).2

/-- the result of a call is the same in every module state -/
theorem step_result_state_free (s s' : DecState) (c : Call) :
    (decodeStep true s c).2 = (decodeStep true s' c).2 := by
  unfold decodeStep
  cases h : lookupN c.depth Gen.BitdTables.decoders with
  | none => rfl
  | some cls =>
    simp only
    rw [decodeClass_state_free cls (lookup_known _ _ h) _ (s c.depth) (s' c.depth)]

/-- ... and so is the buffer it leaves behind in its own decoder object (also when it raises part-way) -/
theorem step_buffer_state_free (s s' : DecState) (c : Call)
    (hk : (lookupN c.depth Gen.BitdTables.decoders).isSome) :
    (decodeStep true s c).1 c.depth = (decodeStep true s' c).1 c.depth := by
  unfold decodeStep
  cases h : lookupN c.depth Gen.BitdTables.decoders with
  | none => simp [h] at hk
  | some cls =>
    simp only [DecState.set, if_true]
    rw [decodeClass_state_free cls (lookup_known _ _ h) _ (s c.depth) (s' c.depth)]

/-- a call touches no buffer but that of the decoder object it selects (old and new code) -/
theorem step_other_buffers (reset : Bool) (s : DecState) (c : Call) (k : Nat) (hk : k ≠ c.depth) :
    (decodeStep reset s c).1 k = s k := by
  unfold decodeStep
  cases lookupN c.depth Gen.BitdTables.decoders with
  | none => rfl
  | some cls => simp [DecState.set, hk]

/-- the property: any history, any call (valid or failing), any depth -/
theorem history_independent : C13_full := by
  intro calls c
  exact step_result_state_free _ _ c

/-- the same for the post-state the correspondence check compares: after any history the decoder object of the
    last call holds what it holds after that call alone -/
theorem history_independent_buffer (calls : List Call) (c : Call)
    (hk : (lookupN c.depth Gen.BitdTables.decoders).isSome) :
    (decodeStep true (run true DecState.init calls) c).1 c.depth = (decodeStep true DecState.init c).1 c.depth :=
  step_buffer_state_free _ _ c hk

/-- a successful decode leaves its decoder's buffer empty (`getBmpImage` hands the content out) -/
theorem success_leaves_empty_buffer (s : DecState) (c : Call) (out : Bytes)
    (h : (decodeStep true s c).2 = .ok out) : (decodeStep true s c).1 c.depth = [] := by
  unfold decodeStep at h ⊢
  cases hl : lookupN c.depth Gen.BitdTables.decoders with
  | none => simp [hl] at h
  | some cls =>
    simp only [hl] at h ⊢
    simp only [DecState.set, if_true]
    exact decodeClass_endsEmpty cls true _ (s c.depth) out h

example : C13_full := history_independent

/-- the same on the integer entry point (`decodeStepI`: negative left offsets are normalised first) -/
def runI (reset : Bool) : DecState → List Request → DecState
  | s, [] => s
  | s, r :: rs => runI reset (decodeStepI reset s r).1 rs

theorem history_independent_request (calls : List Request) (r : Request) :
    (decodeStepI true (runI true DecState.init calls) r).2 = (decodeStepI true DecState.init r).2 :=
  step_result_state_free _ _ r.normalise

/-! ### F11: the code before the repair (`reset = false`) does not have the property -/

/-- an 8-bit request with a three-byte custom palette: `struct.pack` raises after both headers were written -/
def failing : Call :=
  { depth := 8, width := 0, height := 0, padW := 0, padH := 0, palette := "systemMac", clut := [1, 2, 3], fdata := [] }

/-- a valid (empty) 8-bit image -/
def valid : Call := { failing with clut := [] }

/-- F11 (fixed): with the old `writeBmpHeader` the image decoded after a failed decode carries the 54 bytes the
    failed decode left in the shared buffer -/
theorem F11_old_code_witness :
    (decodeStep false (run false DecState.init [failing]) valid).2 ≠ (decodeStep false DecState.init valid).2 := by
  decide +kernel

/-- the same two calls on today's code -/
example : (decodeStep true (run true DecState.init [failing]) valid).2 = (decodeStep true DecState.init valid).2 :=
  history_independent [failing] valid

/-! ### the registries: what state exists at all (tables regenerated from /repo by harness/bitd_gen.py) -/

/-- the attributes of registry instances that are written outside `__init__` are exactly the ones the model carries:
    `Decoder.bytesIo` for `DECODERS`, nothing for the sound, cast and score registries -/
theorem registry_state_accounted :
    Gen.SharedState.stateOf =
      [("DECODERS", [("Decoder", "bytesIo")]), ("SOUND_COMMANDS", []), ("PARSERS", []), ("CHANNEL_PARSERS", [])] := by
  decide

/-- every write to `bytesIo` sits in one of the five writer methods the model implements
    (`writeBmpHeader`, `writeInfoHeader40/124`, `writeColorPalette`, `write`, `getBmpImage`) -/
theorem bytesIo_writers_modelled :
    ∀ w ∈ Gen.SharedState.selfWrites,
      w.1 = "Decoder" ∧ w.2.2.1 = "bytesIo" ∧
      w.2.1 ∈ ["writeBmpHeader", "writeBitmapInfoHeader", "writeColorPalette", "writeData", "getBmpImage"] := by
  decide

/-- the buffer is replaced in `writeBmpHeader` (the repair of F11) and in `getBmpImage`, nowhere else -/
theorem bytesIo_replaced_where :
    (Gen.SharedState.selfWrites.filter (fun w => w.2.2.2 = "assign")).map (fun w => w.2.1) = ["getBmpImage", "writeBmpHeader"] := by
  decide

/-- no function of the modules that own the registries writes to a module-level name -/
theorem no_module_level_writes : Gen.SharedState.moduleWrites = [] := by decide

/-- the registries the property names, and nothing else, were inventoried -/
theorem registries_inventoried :
    Gen.SharedState.registries.map (·.1) = ["DECODERS", "SOUND_COMMANDS", "PARSERS", "CHANNEL_PARSERS"] := by decide

/-- `DECODERS`: six distinct objects of the five modelled classes with the constructor arguments the model uses -/
theorem decoders_registry :
    Gen.BitdTables.decoderInfo =
      [(1, "Decoder1b", 1, 2), (4, "Decoder4b", 4, 16), (8, "Decoder8b", 8, 256), (16, "Decoder16b", 16, 0),
       (24, "Decoder24b", 24, 0), (32, "Decoder24b", 24, 0)] ∧
    Gen.BitdTables.decoders = Gen.BitdTables.decoderInfo.map (fun p => (p.1, p.2.1)) ∧
    Gen.BitdTables.aliased = [] := by decide

/-! ### state that outlives a call, over EVERY module of the decoder packages (regenerated from the source on every run) -/

/-- no function or method of the bitmap / sound / palette / score / cast / text / index / container packages contains a statement
    that can change state living longer than one call: no `global` / `nonlocal`, no assignment, deletion or mutating call whose base
    is a module-level name, a class or `cls`, no `setattr` / `globals()` / `__dict__`, no cache decorator, and no parameter default
    that is anything but an immutable literal or a named constant (a default is ONE object shared by all calls that omit the
    argument). State written through `self` on the registered decoder objects is the subject of the theorems above. -/
theorem no_writes_to_decoder_module_state : Gen.DecoderState.writes = [] := by decide

/-- every module-level or class-level container of those packages is a list or dict display written in the source -/
theorem decoder_module_state_is_tables :
    Gen.DecoderState.holders.all (fun h => h.2.2.2 == "List" || h.2.2.2 == "Dict") = true := by decide

end Drx.C13
