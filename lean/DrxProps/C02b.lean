/-
  C02 (second part) — the reference reader inverts the reference printer on STATEMENTS, HANDLERS, SCRIPTS and on TEXT.
  `C02.lean` has the expression level; here the fragment is widened construct by construct (every intermediate theorem is kept):
  all `the` forms and property tables, `me`, method calls, property lists; `set`, `put … into/after/before`, command calls
  (incl. `sound` / `go` forms and the parenthesised-argument ambiguity), `delete`, `hilite`, method-call commands, `exit`, `tell`;
  handlers with parameters, `instance` / `global` lines; the script header (`property` / `factory` / `global` lines); and finally
  characters: `readLingo (printLingoText s) = some s`.
  The control constructs (if / if-else / repeat while / repeat with / repeat with … in / exit repeat, unbounded nesting) are in C03b.lean.
-/
import DrxProofs.SpecText
import DrxProofs.SpecEnv
namespace DrxProps.C02b
open Drx Drx.Spec

/-! ### 7b, text gap: rendering then lexing is the identity on hazard-free token lists -/

/-- the hazard predicate is decidable and explicit: identifiers are identifiers, string literals contain no quote and no line end,
    a decimal literal has a digit after the point; the renderer separates all tokens, so no hazard exists BETWEEN tokens -/
theorem lex_render_id (ts : List Tok) (h : safeToks ts = true) : lex (renderToks ts) = some ts := lex_render ts h

/-- the printer's token lists are free of hazards for every script whose names are identifiers and whose strings are quote-free
    (`okScript`, decidable, on the source tree) — in every layout -/
theorem printer_is_hazard_free (L : Layout) (s : Script) (h : okScript s = true) : safeToks (printLingoL L s) = true :=
  printLingoL_safe L s h

/-- so reading the printed TEXT is parsing the printed TOKENS -/
theorem read_text_is_parse (s : Script) (h : okScript s = true) : readLingo (printLingoText s) = parseScript (printLingo s) :=
  read_text_eq_parse s h

/-! ### expressions: the whole syntax tree (widening of C02.read_print_expr) -/

/-- every expression form — literals, variables, `me`, operators, `field`, calls, method calls, lists, property lists, all `the`
    forms (special, date/time, last chunk, number of chunks, menu, menuItem, sound, sprite, cast, video, field, system, counts),
    key / movie properties, `the P of obj`, chunk expressions — reads back from its printed tokens, at any nesting depth -/
theorem read_print_expr_all (env : Env) (e : Expr) (h : Frag env e) (rest : List Tok) (hn : NoLp rest) (F : Nat) (hF : fuelOf e ≤ F) :
    pE5 env F (prE e ++ rest) = some (e, rest) := rp_e5 env e h rest hn F hF

/-- property lists `[k1: v1, k2: v2]` -/
theorem read_print_pairs (env : Env) (es : List Expr) (h : FragL env es) (hev : es.length % 2 = 0) (rest : List Tok) (F : Nat)
    (hF : fuelOfL es + 1 ≤ F) : pPairs env F (prPairTail es ++ .p .rb :: rest) = some (es, .p .rb :: rest) :=
  rp_pairs env es h hev rest F hF

/-- `the` forms with 0 / 1 / 2 arguments, for every table entry that `TheOk` accepts (a decidable table fact) -/
theorem read_print_the0 (env : Env) (t : Tbl) (k : Nat) (h : TheOk t k 0 = true) (rest : List Tok) (f : Nat) :
    pE5 env (f + 3) (prThe t k [] ++ rest) = some (.the t k [], rest) := rp_the0 env t k h rest f

theorem read_print_the1 (env : Env) (t : Tbl) (k : Nat) (a : Expr) (h : TheOk t k 1 = true) (rest : List Tok) (f : Nat)
    (ih : pE5 env f (prE a ++ rest) = some (a, rest)) :
    pE5 env (f + 3) (prThe t k [a] ++ rest) = some (.the t k [a], rest) := rp_the1 env t k a h rest f ih

/-- which table entries are covered: all of them (every index the spec tables define, with its arity) -/
theorem the_tables_covered :
    (∀ x ∈ tblSprite, TheOk .sprite x.1 1 = true) ∧ (∀ x ∈ tblCast, TheOk .cast x.1 1 = true ∧ TheOk .field x.1 1 = true)
    ∧ (∀ x ∈ tblVideo, TheOk .video x.1 1 = true) ∧ (∀ x ∈ tblSound, TheOk .sound x.1 1 = true)
    ∧ (∀ x ∈ tblMenuItem, TheOk .menuItem x.1 2 = true) ∧ (∀ x ∈ tblSys, TheOk .sys x.1 0 = true)
    ∧ (∀ x ∈ tblSpecial, TheOk .special x.1 0 = true) ∧ (∀ x ∈ tblDate, TheOk .special x.1 0 = true)
    ∧ (∀ k ∈ [1, 2, 3, 4], TheOk .numChunks k 1 = true ∧ TheOk .special (11 + k) 1 = true)
    ∧ TheOk .menu 1 1 = true ∧ TheOk .menu 2 1 = true ∧ (∀ k ∈ [1, 2, 3], TheOk .count k 0 = true) := by
  decide +kernel

/-- the fuel the statement reader gives an expression (32 per remaining token) is enough for any depth -/
theorem expr_fuel_bound (env : Env) (e : Expr) (h : Frag env e) : fuelOf e ≤ 30 * (prE e).length := fuel_bound env e h

/-! ### statements (simple forms; the control constructs are restated in C03b.lean) -/

theorem read_print_set (env : Env) (lv v : Expr) (h : FragS env (.set lv v)) (rest : List Tok) (F : Nat) (hF : 1 ≤ F) :
    pStmt env F (prS (.set lv v) ++ rest) = some (.set lv v, rest) := rp_stmt env _ h rest F (by simpa [fuelS] using hF)

theorem read_print_put (env : Env) (md : PutMode) (v lv : Expr) (h : FragS env (.put md v lv)) (rest : List Tok) (F : Nat) (hF : 1 ≤ F) :
    pStmt env F (prS (.put md v lv) ++ rest) = some (.put md v lv, rest) := rp_stmt env _ h rest F (by simpa [fuelS] using hF)

theorem read_print_call (env : Env) (f : Name) (as : List Expr) (h : FragS env (.call f as)) (rest : List Tok) (F : Nat) (hF : 1 ≤ F) :
    pStmt env F (prS (.call f as) ++ rest) = some (.call f as, rest) := rp_stmt env _ h rest F (by simpa [fuelS] using hF)

theorem read_print_mcall (env : Env) (o : Expr) (m : Name) (as : List Expr) (h : FragS env (.mcall o m as)) (rest : List Tok) (F : Nat)
    (hF : 1 ≤ F) : pStmt env F (prS (.mcall o m as) ++ rest) = some (.mcall o m as, rest) :=
  rp_stmt env _ h rest F (by simpa [fuelS] using hF)

theorem read_print_delete_hilite (env : Env) (t : Expr) (h : LvOk env t) (rest : List Tok) (F : Nat) (hF : 1 ≤ F) :
    pStmt env F (prS (.delete t) ++ rest) = some (.delete t, rest) ∧ pStmt env F (prS (.hilite t) ++ rest) = some (.hilite t, rest) :=
  ⟨rp_stmt env (.delete t) h rest F (by simpa [fuelS] using hF), rp_stmt env (.hilite t) h rest F (by simpa [fuelS] using hF)⟩

theorem read_print_tell (env : Env) (o : Expr) (b : List Stmt) (h : FragS env (.tell o b)) (rest : List Tok) (F : Nat)
    (hF : fuelS (.tell o b) ≤ F) : pStmt env F (prS (.tell o b) ++ rest) = some (.tell o b, rest) := rp_stmt env _ h rest F hF

/-- **every statement**, by mutual induction over `Stmt` / `List Stmt`: unbounded nesting -/
theorem read_print_stmt (env : Env) (s : Stmt) (h : FragS env s) (rest : List Tok) (F : Nat) (hF : fuelS s ≤ F) :
    pStmt env F (prS s ++ rest) = some (s, rest) := rp_stmt env s h rest F hF

theorem read_print_stmts (env : Env) (ss : List Stmt) (h : FragSs env ss) (rest : List Tok) (hr : Stop rest) (F : Nat) (hF : fuelSs ss ≤ F) :
    pStmts env F (prSs ss ++ rest) = some (ss, rest) := rp_stmts env ss h rest hr F hF

/-! ### handlers, header, scripts -/

/-- a handler with parameters; blank lines and `instance` / `global` lines before the statements are skipped -/
theorem read_print_handler (se : ScriptEnv) (m : Bool) (name : Name) (params : List Name) (pre : List Tok) (n : Nat) (hpre : Skip pre n)
    (body : List Stmt) (rest : List Tok)
    (hfrag : FragSs (handlerEnv se m params (pre ++ (prSs body ++ kw "end" :: .nl :: rest))) body) (F : Nat) (hF : fuelSs body + n ≤ F) :
    pHandler se F (handlerKw m :: .id name :: (prNames params ++ .nl :: (pre ++ (prSs body ++ kw "end" :: .nl :: rest))))
      = some ({ name, params, isMethod := m, body }, rest) :=
  rp_handler se m name params pre n hpre body rest hfrag F hF

/-- the script header: `property a, b` / `factory name` / `global g` lines -/
theorem read_print_header (L : Layout) (s : Script) (R : List Tok) (hR : StartsHandler R) (F : Nat) (hF : s.globals.length + 4 ≤ F) :
    pHeader F (prHeaderL L s ++ R) { factory := [], props := [], globals := [], handlers := [] }
      = some ({ factory := s.factory, props := if s.props ≠ [] ∧ s.factory = [] then s.props else [], globals := s.globals, handlers := [] }, R) :=
  rp_header L s R hR F hF

/-- **scripts**: `parseScript (printLingo s) = some s` — in the reference layout and in every layout with blank lines (the
    decompiler's own layout is one of them) -/
theorem read_print_script (s : Script) (h : ScriptOk {} s) : parseScript (printLingo s) = some s := rp_script_compact s h

theorem read_print_script_layout (L : Layout) (s : Script) (h : ScriptOk L s) : parseScript (printLingoL L s) = some s := rp_script L s h

/-- **text**: printing a script to characters and reading the characters gives the script back -/
theorem read_print_text (s : Script) (hok : ScriptOk {} s) (hs : okScript s = true) : readLingo (printLingoText s) = some s :=
  rp_text_compact s hok hs

theorem read_print_text_layout (L : Layout) (s : Script) (hok : ScriptOk L s) (hs : okScript s = true) :
    readLingo (renderToks (printLingoL L s)) = some s := rp_text L s hok hs

/-! ### what the script reader's environments are (so that `ScriptOk` can be discharged from the tree) -/

theorem env_handler_names (L : Layout) (s : Script) (hs : List Handler) (h : ∀ x ∈ hs, headsOk x.body = true) :
    handlerNames (.nl :: prHandlersL L s hs) = hs.map (·.name) := handlerNames_handlers L s hs h

theorem env_handler_globals (L : Layout) (s : Script) (h : Handler) (hs : List Handler) (hb : headsOk h.body = true) :
    declared "global" (.nl :: handlerSpan (prPre L s h ++ (prSs h.body ++ kw "end" :: .nl :: afterHandler L s hs))) = hGlobals s h :=
  declared_global_span L s h hs hb

theorem frag_depends_on_classification_only {a b : Env} (h : EnvEq a b) (ss : List Stmt) (hf : FragSs a ss) : FragSs b ss :=
  fragSs_congr h ss hf

/-! ### non-vacuity: a concrete script satisfies the hypotheses (and so reads back from its text) -/

namespace Example
def x : Expr := .var .loc "x".toList
def a : Expr := .var .param "a".toList
def body : List Stmt :=
  [.set x (.bin .add a (.int 1)),
   .repeatWhile (.bin .lt x (.int 10))
     [.ifThen (.bin .eq x (.int 5)) [.exitRepeat] [],
      .call "put".toList [x, .str "it's".toList],
      .set x (.bin .add x (.int 1))],
   .call "beep".toList []]
def h0 : Handler := { name := "test".toList, params := ["a".toList], isMethod := false, body := body }
def ex : Script := { factory := [], props := [], globals := [], handlers := [h0] }
def env0 : Env := handlerEnv (scriptEnvOf {} ex) false ["a".toList] (prPre {} ex h0 ++ (prSs body ++ kw "end" :: .nl :: afterHandler {} ex []))

theorem px : PlainId "x".toList := by unfold PlainId; decide
theorem pa : PlainId "a".toList := by unfold PlainId; decide
theorem fx : Frag env0 x := ⟨px, by decide +kernel⟩
theorem fa : Frag env0 a := ⟨pa, by decide +kernel⟩
theorem lx : LvOk env0 x := Or.inl ⟨"x".toList, by simp [x, prE], px, by rfl⟩

theorem body_ok : FragSs env0 body :=
  ⟨⟨lx, fa, trivial⟩,
   ⟨⟨fx, trivial⟩,
    ⟨⟨⟨fx, trivial⟩, ⟨trivial, trivial⟩, trivial⟩,
     ⟨Or.inl rfl, fx, trivial, trivial⟩,
     ⟨lx, fx, trivial⟩, trivial⟩⟩,
   ⟨Or.inr (Or.inr (Or.inr ⟨by decide, by decide, by decide, by decide +kernel⟩)), trivial⟩,
   trivial⟩

theorem script_ok : ScriptOk {} ex := ⟨by decide, body_ok, trivial⟩

/-- the example script reads back from its printed text -/
theorem example_reads_back : readLingo (printLingoText ex) = some ex := read_print_text ex script_ok (by decide +kernel)
end Example

end DrxProps.C02b
