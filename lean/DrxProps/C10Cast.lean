/-
  C10 support for the cast family — termination and bounded work of parse_cast_file_data.
  (1) every loop of the model (Drx/Cast.lean: readFields, readN, collectExtras, memberName/decodeText, b64encode) is structural
      recursion without fuel, so Lean's acceptance of the definitions is the termination proof on every byte string;
  (2) the counting twins of Drx/CastSteps.lean give explicit bounds that depend on the DATA LENGTH only, never on the counts the
      input declares (numbers-area size, number of structures, structure lengths).
-/
import Drx.CastSteps
import DrxProofs.CastSteps
namespace Drx.C10Cast
open Drx Drx.Cast

/-- a read loop makes at most one round per `size` bytes that are left (+ the round that raises), for ANY declared count -/
theorem read_loop_steps_linear (k : FK) (declared : Nat) (d : Bytes) (off : Nat) :
    readNSteps k declared d off * k.size ≤ (d.length - off) + k.size :=
  readNSteps_bound k declared d off

/-- … and never more rounds than declared -/
theorem read_loop_steps_le_declared (k : FK) (declared : Nat) (d : Bytes) (off : Nat) : readNSteps k declared d off ≤ declared :=
  readNSteps_le_declared k declared d off

/-- a read loop that completes has consumed `declared * size` bytes -/
theorem read_loop_consumes (k : FK) (declared : Nat) (d : Bytes) (off : Nat) (vs : List Int) (h : readN k declared d off = .ok vs) :
    vs.length = declared ∧ declared * k.size ≤ d.length - off ∧ readNSteps k declared d off = declared :=
  readN_ok k declared d off vs h

/-- the structure loop makes one round per offset pair, and all its slices together copy at most the bytes after the running
    index — whatever lengths the offset table declares (negative, overlapping, 2^31-1) -/
theorem structure_loop_bounded (b : Bytes) (offs : List Int) (idx : Nat) :
    collectSteps offs = offs.length - 1 ∧ (collectExtras b offs idx).flatten.length ≤ b.length - idx :=
  ⟨collectSteps_eq offs, collectExtras_bytes b offs idx⟩

/-- info block, ANY bytes: the three Python-level loops together make at most `(3·len + 8) / 4` rounds; the bytes sliced and
    base64-encoded are at most `len`; the name handed to the codec has at most 255 bytes -/
theorem basic_steps_linear (b : Bytes) :
    4 * (parseBasicSteps b).total ≤ 3 * b.length + 8 ∧
    (parseBasicSteps b).extrasBytes ≤ b.length ∧ (parseBasicSteps b).nameBytes ≤ 255 ∧ (parseBasicSteps b).nameBytes ≤ b.length :=
  parseBasicSteps_bound b

/-- whole record, ANY bytes, both layouts -/
theorem cast_steps_linear (d : Bytes) :
    4 * (castSteps d).total ≤ 3 * d.length + 8 ∧
    (castSteps d).extrasBytes ≤ d.length ∧ (castSteps d).nameBytes ≤ 255 ∧ (castSteps d).nameBytes ≤ d.length :=
  castSteps_bound d

/-- hostile counts cost nothing: numbers-area size 0x7fffffff in a 29-byte record → one round; 0x7fff structures declared with
    8 bytes of table → three rounds -/
example : (castSteps ([0x00, 0x01, 0x00, 0x00, 0x00, 0x16, 0x0b] ++ [0x7f, 0xff, 0xff, 0xff] ++ List.replicate 18 0)).total = 1 := by
  decide +kernel
example : (castSteps ([0x00, 0x01, 0x00, 0x00, 0x00, 0x1e, 0x0b] ++ [0, 0, 0, 0x14] ++ List.replicate 16 0 ++ [0x7f, 0xff]
    ++ List.replicate 8 0)).total = 3 := by
  decide +kernel

end Drx.C10Cast
